(* Byte-level model of cascade/shm/api.py: fixed-width big-endian integers,
   List.length-prefixed ASCII strings, enum fields, per-class layouts, one-byte tag table.
   The *layouts themselves* are not written here: they are regenerated from the Python
   source into gen/ShmLayouts.v on every run (translate/shm_api.py). *)
From Coq Require Import List NArith ZArith String Bool Lia.
Import ListNotations.
Open Scope N_scope.

Inductive res (A : Type) : Type := Ok (a : A) | Err (e : string).
Arguments Ok {A} a.
Arguments Err {A} e.

Definition bind {A B} (r : res A) (f : A -> res B) : res B :=
  match r with Ok a => f a | Err e => Err e end.

(* ------------------------------------------------------------------ integers *)
(* int.to_bytes(w, "big") for 0 <= n < 256^w *)
Fixpoint to_bytes_be (w : nat) (n : N) : list N :=
  match w with
  | O => []
  | S w' => to_bytes_be w' (n / 256) ++ [n mod 256]
  end.

Fixpoint from_bytes_acc (bs : list N) (acc : N) : N :=
  match bs with
  | [] => acc
  | b :: r => from_bytes_acc r (acc * 256 + b)
  end.
(* int.from_bytes(bs, "big") *)
Definition from_bytes_be (bs : list N) : N := from_bytes_acc bs 0.

Definition pow256 (w : nat) : N := 256 ^ N.of_nat w.

(* Python raises OverflowError for negative values and for values that do not fit. *)
Definition int_ser (w : nat) (z : Z) : res (list N) :=
  if (z <? 0)%Z then Err "OverflowError"
  else if Z.to_N z <? pow256 w then Ok (to_bytes_be w (Z.to_N z))
  else Err "OverflowError".

(* int.from_bytes(data[:w], "big"), data[w:]  -- slicing never fails in Python *)
Definition int_deser (w : nat) (bs : list N) : Z * list N :=
  (Z.of_N (from_bytes_be (firstn w bs)), skipn w bs).

(* ------------------------------------------------------------------ strings *)
(* a Python str is a list of code points; encode("ascii") rejects code points >= 128 *)
Definition is_ascii (s : list N) : bool := forallb (fun c => c <? 128) s.

Definition str_ser (s : list N) : res (list N) :=
  bind (int_ser 4 (Z.of_nat (List.length s))) (fun hd =>
  if is_ascii s then Ok (hd ++ s) else Err "UnicodeEncodeError").

(* Python slices saturate: b[4:4+l] is at most the rest of the buffer.  The length is
   clamped *before* it becomes a unary nat, so a corrupt 4-byte length cannot blow up. *)
Definition clamp (l : N) (r : list N) : nat := N.to_nat (N.min l (N.of_nat (List.length r))).

Definition str_deser (bs : list N) : res (list N * list N) :=
  let r := skipn 4 bs in
  let l := clamp (from_bytes_be (firstn 4 bs)) r in
  let body := firstn l r in
  if is_ascii body then Ok (body, skipn l r) else Err "UnicodeDecodeError".

(* ------------------------------------------------------------------ layouts *)
Inductive kind := KInt (w : nat) | KStr | KEnum (w : nat) (vals : list Z).
Inductive value := VInt (z : Z) | VStr (s : list N).

Definition kind_eqb (a b : kind) : bool :=
  match a, b with
  | KInt w, KInt w' => Nat.eqb w w'
  | KStr, KStr => true
  | KEnum w v, KEnum w' v' => Nat.eqb w w' && (if list_eq_dec Z.eq_dec v v' then true else false)
  | _, _ => false
  end.

Definition msg := list (string * value).
Definition layout := list (string * kind).

Definition zmem (z : Z) (l : list Z) : bool := existsb (Z.eqb z) l.

Definition field_ser (k : kind) (v : value) : res (list N) :=
  match k, v with
  | KInt w, VInt z => int_ser w z
  | KStr, VStr s => str_ser s
  | KEnum w vals, VInt z => if zmem z vals then int_ser w z else Err "ValueError"
  | _, _ => Err "TypeError"
  end.

Definition field_deser (k : kind) (bs : list N) : res (value * list N) :=
  match k with
  | KInt w => let '(z, r) := int_deser w bs in Ok (VInt z, r)
  | KStr => bind (str_deser bs) (fun '(s, r) => Ok (VStr s, r))
  | KEnum w vals => let '(z, r) := int_deser w bs in
                    if zmem z vals then Ok (VInt z, r) else Err "ValueError"
  end.

Definition lookup (f : string) (m : msg) : option value :=
  match find (fun p => String.eqb (fst p) f) m with Some p => Some (snd p) | None => None end.

Fixpoint fields_ser (l : layout) (m : msg) : res (list N) :=
  match l with
  | [] => Ok []
  | (f, k) :: l' =>
      match lookup f m with
      | None => Err "AttributeError"
      | Some v => bind (field_ser k v) (fun b => bind (fields_ser l' m) (fun r => Ok (b ++ r)))
      end
  end.

Fixpoint fields_deser (l : layout) (bs : list N) : res (msg * list N) :=
  match l with
  | [] => Ok ([], bs)
  | (f, k) :: l' =>
      bind (field_deser k bs) (fun '(v, r) =>
      bind (fields_deser l' r) (fun '(m, r') => Ok ((f, v) :: m, r')))
  end.

(* value domain of a field: exactly the values Python encodes without raising *)
Definition in_domain (k : kind) (v : value) : bool :=
  match k, v with
  | KInt w, VInt z => (0 <=? z)%Z && (Z.to_N z <? pow256 w)
  | KStr, VStr s => is_ascii s && (N.of_nat (List.length s) <? pow256 4)
  | KEnum w vals, VInt z => zmem z vals && (0 <=? z)%Z && (Z.to_N z <? pow256 w)
  | _, _ => false
  end.

(* m is "an instance of the class": same fields in layout order, every value in domain *)
Fixpoint shaped (l : layout) (m : msg) : bool :=
  match l, m with
  | [], [] => true
  | (f, k) :: l', (f', v) :: m' => String.eqb f f' && in_domain k v && shaped l' m'
  | _, _ => false
  end.

Fixpoint nodup_str (l : list string) : bool :=
  match l with
  | [] => true
  | x :: r => negb (existsb (String.eqb x) r) && nodup_str r
  end.

(* ------------------------------------------------------------------ classes, tags *)
Record cls := {
  cname : string;
  cfields : list string;   (* dataclass fields, declaration order *)
  cser : layout;           (* what  ser()   writes, in order *)
  cdeser : layout;         (* what  deser() reads,  in order, keyed by the field each value is passed to *)
}.

Definition layout_eqb (a b : layout) : bool :=
  (Nat.eqb (List.length a) (List.length b)) &&
  forallb (fun p => String.eqb (fst (fst p)) (fst (snd p)) && kind_eqb (snd (fst p)) (snd (snd p))) (combine a b).

Definition perm_str (a b : list string) : bool :=
  (Nat.eqb (List.length a) (List.length b)) && forallb (fun x => existsb (String.eqb x) b) a
  && forallb (fun x => existsb (String.eqb x) a) b.

Definition wf_cls (c : cls) : bool :=
  layout_eqb (cser c) (cdeser c) && nodup_str (map fst (cser c)) && perm_str (map fst (cser c)) (cfields c).

Definition table := list (N * cls).

Fixpoint find_tag (t : N) (tb : table) : option cls :=
  match tb with
  | [] => None
  | (t', c) :: r => if t =? t' then Some c else find_tag t r
  end.

Fixpoint find_cls (n : string) (tb : table) : option N :=
  match tb with
  | [] => None
  | (t, c) :: r => if String.eqb n (cname c) then Some t else find_cls n r
  end.

(* api.ser : KeyError when the class has no tag *)
Definition ser (tb : table) (c : cls) (m : msg) : res (list N) :=
  match find_cls (cname c) tb with
  | None => Err "KeyError"
  | Some t => bind (fields_ser (cser c) m) (fun b => Ok (t :: b))
  end.

(* api.deser *)
Definition deser (tb : table) (bs : list N) : res (string * msg) :=
  match bs with
  | [] => Err "KeyError"
  | t :: r =>
      match find_tag t tb with
      | None => Err "KeyError"
      | Some c => bind (fields_deser (cdeser c) r) (fun '(m, _) => Ok (cname c, m))
      end
  end.

Fixpoint nodup_N (l : list N) : bool :=
  match l with [] => true | x :: r => negb (existsb (N.eqb x) r) && nodup_N r end.

Definition wf_table (tb : table) : bool :=
  forallb (fun p => wf_cls (snd p) && (fst p <? 256)) tb && nodup_N (map fst tb) && nodup_str (map (fun p => cname (snd p)) tb).

(* every size-carrying field must be able to carry any size a 64-bit host can have *)
Definition size_fields_wide (size_names : list string) (c : cls) : bool :=
  forallb (fun p => if existsb (String.eqb (fst p)) size_names
                    then match snd p with KInt w => Nat.leb 8 w | _ => false end
                    else true) (cser c).
