(* C09, the parts about protection in use and reachability:
   - page-outs are issued only for datasets that are idle (no reader younger than the staleness window)
     or abandoned by their writer, in the order of the lottery;
   - a purge while readers hold the dataset only sets a flag; the last reader's close executes it;
   - the pageout lock is held exactly while a page-out job is pending (LInv, for every op list, no side
     condition), a waiting request with an evictable candidate issues a job, and the code before the
     `fix:` commit leaks the lock. *)
From Coq Require Import List NArith ZArith String Bool Lia Permutation.
From EKW Require Import Shm.Lottery Shm.LotteryProofs Shm.Manager Shm.ManagerProofs.
Import ListNotations.
Open Scope Z_scope.

(* ------------------------------------------------------------------ who gets evicted *)
Lemma max_list_ge : forall l x y, In y (x :: l) -> y <= max_list x l.
Proof.
  unfold max_list. induction l as [|a t IH]; intros x y Hin; cbn.
  - destruct Hin as [->|[]]. lia.
  - destruct Hin as [->|[->|Hin]].
    + specialize (IH (Z.max y a) (Z.max y a) (or_introl eq_refl)). lia.
    + specialize (IH (Z.max x y) (Z.max x y) (or_introl eq_refl)). lia.
    + apply IH. now right.
Qed.

Theorem pageoutable_idle : forall now ds,
  is_pageoutable now ds = true ->
  (d_status ds = Created /\ now - d_created ds > STALE_CREATE) \/
  (d_status ds = InMemory /\ forall rd t, In (rd, t) (d_readers ds) -> now - t > STALE_READ).
Proof.
  intros now ds H. unfold is_pageoutable in H. apply orb_true_iff in H. destruct H as [H|H];
    apply andb_true_iff in H; destruct H as [Hs H]; apply status_eqb_eq in Hs.
  - left. split; [assumption|lia].
  - right. split; [assumption|]. intros rd t Hin. unfold no_fresh_read in H.
    assert (Ht : In t (map snd (d_readers ds))) by (apply in_map_iff; exists (rd, t); auto).
    destruct (map snd (d_readers ds)) as [|t0 r]; [contradiction|].
    pose proof (max_list_ge r t0 t Ht). lia.
Qed.

Lemma fold_page_out_jobs : forall ws s j,
  In j (jobs (fold_left page_out ws s)) -> In j (jobs s) \/ (j_kind j = PageOut /\ j_phase j = IoPending /\ In (j_key j) ws).
Proof.
  induction ws as [|w t IH]; intros s j H; cbn in *; [now left|].
  apply IH in H. destruct H as [H|[H1 [H2 H3]]]; [|right; auto].
  unfold page_out in H. destruct (lookup w (dsets s)); [|now left]. unf.
  apply in_app_iff in H. destruct H as [H|[<-|[]]]; [now left|right; cbn; auto].
Qed.

(* every job issued by page_out_at_least is a page-out of a dataset that was pageoutable at that moment,
   and the victims are the lottery's draw *)
Theorem evicts_only_idle : forall fixed amount now s j,
  In j (jobs (page_out_at_least_gen fixed amount now s)) -> ~ In j (jobs s) ->
  j_kind j = PageOut /\ In (j_key j) (lottery (candidates now (dsets s)) amount) /\
  exists ds, In (j_key j, ds) (dsets s) /\ is_pageoutable now ds = true.
Proof.
  intros fixed amount now s j Hin Hnot. unfold page_out_at_least_gen in Hin.
  destruct (lock s); [contradiction|].
  destruct (lottery (candidates now (dsets s)) amount) as [|w0 ws] eqn:El; [contradiction|].
  apply fold_page_out_jobs in Hin. destruct Hin as [Hin|[H1 [H2 H3]]]; [contradiction|].
  split; [assumption|]. split; [assumption|].
  rewrite <- El in H3. apply lottery_in in H3. destruct H3 as [e [He Hk]].
  unfold candidates in He. apply in_map_iff in He. destruct He as [[k ds] [He Hin]].
  apply filter_In in Hin. destruct Hin as [Hin Hp]. subst e. cbn in *. subst k. eauto.
Qed.

(* ------------------------------------------------------------------ purge during a read *)
Theorem purge_under_reader : forall s k ds,
  lookup k (dsets s) = Some ds -> d_readers ds <> [] ->
  let s' := purge k s in
  segs s' = segs s /\ files s' = files s /\ free s' = free s /\ jobs s' = jobs s /\
  map fst (dsets s') = map fst (dsets s) /\
  exists ds', lookup k (dsets s') = Some ds' /\ d_delayed ds' = true /\ d_readers ds' = d_readers ds /\
              d_status ds' = d_status ds /\ d_size ds' = d_size ds.
Proof.
  intros s k ds Hl Hr. unfold purge. rewrite Hl. destruct (d_readers ds) eqn:E; [congruence|].
  cbn. unf. rewrite keys_alter. repeat split. exists (set_delayed ds). rewrite lookup_alter_same, Hl. cbn. auto.
Qed.

Lemma lookup_remove_same : forall {V} (d : list (key * V)) k, NoDup (map fst d) -> lookup k (remove k d) = None.
Proof.
  induction d as [|[k0 v0] r IH]; intros k Hn; cbn in *; [reflexivity|].
  inversion Hn as [|? ? Hx Ht]; subst. destruct (N.eqb k k0) eqn:E.
  - apply N.eqb_eq in E. subst k0. destruct (lookup k r) eqn:El; [|reflexivity].
    exfalso. apply Hx. apply lookup_some_in in El. apply in_map_iff. exists (k, v). auto.
  - cbn. rewrite E. now apply IH.
Qed.

Theorem last_close_purges : forall s k ds rd t b,
  NoDup (map fst (dsets s)) -> NoDup (map fst (segs s)) ->
  lookup k (dsets s) = Some ds -> d_status ds = InMemory -> d_readers ds = [(rd, t)] -> d_delayed ds = true ->
  lookup k (segs s) = Some b ->
  let s' := fst (close k (Some rd) s) in
  snd (close k (Some rd) s) = ROk /\ lookup k (dsets s') = None /\ lookup k (segs s') = None /\
  free s' = free s + Z.of_N (d_size ds).
Proof.
  intros s k ds rd t b Hn Hg Hl Hs Hr Hd Hb. unfold close. rewrite Hl, Hs. cbn [status_eqb fst snd].
  rewrite Hr. cbn [lookup]. rewrite N.eqb_refl. split; [reflexivity|].
  unfold maybe_delayed_purge. unf. rewrite lookup_alter_same, Hl. cbn [option_map set_readers d_delayed d_readers].
  rewrite Hr, Hd. cbn [remove]. rewrite N.eqb_refl. cbn [andb].
  unfold purge. unf. rewrite lookup_alter_same, Hl. cbn [option_map set_readers d_readers d_status d_size].
  rewrite Hs, Hb. unf. rewrite Hr. cbn [remove]. rewrite N.eqb_refl. unf.
  rewrite !lookup_remove_same; auto. now rewrite keys_alter.
Qed.

Theorem earlier_close_keeps : forall s k ds rd,
  lookup k (dsets s) = Some ds -> d_status ds = InMemory ->
  (exists rd' t', rd' <> rd /\ lookup rd' (d_readers ds) = Some t') ->
  let s' := fst (close k (Some rd) s) in
  segs s' = segs s /\ free s' = free s /\ exists ds', lookup k (dsets s') = Some ds' /\ d_status ds' = InMemory.
Proof.
  intros s k ds rd Hl Hs [rd' [t' [Hne Hr']]]. unfold close. rewrite Hl, Hs. cbn [status_eqb fst].
  destruct (lookup rd (d_readers ds)) eqn:Er.
  - unfold maybe_delayed_purge. unf. rewrite lookup_alter_same, Hl. cbn [option_map set_readers d_delayed d_readers].
    assert (Hrem : lookup rd' (remove rd (d_readers ds)) = Some t') by (rewrite lookup_remove_other; auto).
    destruct (remove rd (d_readers ds)) eqn:Erm; [discriminate|]. rewrite andb_false_r.
    unf. repeat split. exists (set_readers (p :: l) ds). rewrite lookup_alter_same, Hl. cbn. rewrite Erm. auto.
  - unfold maybe_delayed_purge. rewrite Hl.
    destruct (d_readers ds) eqn:Erd; [discriminate|]. rewrite andb_false_r. repeat split. eauto.
Qed.

(* ------------------------------------------------------------------ the pageout lock *)
Definition is_po (j : job) : bool := match j_kind j with PageOut => true | PageIn => false end.
Definition po_pending (s : state) : Z := Z.of_nat (List.length (filter is_po (jobs s))).

Record LInv (s : state) : Prop := mkLInv {
  l_count : count s = po_pending s;
  l_lock : lock s = (0 <? count s);
  l_ids : forall j, In j (jobs s) -> (j_id j < next_jid s)%N;
  l_nodup : NoDup (map j_id (jobs s))
}.

Lemma linv_init : forall cap, LInv (init cap).
Proof. intro cap. constructor; cbn; auto. - intros j []. - constructor. Qed.

Lemma linv_same : forall s s', LInv s -> lock s' = lock s -> count s' = count s -> jobs s' = jobs s -> next_jid s' = next_jid s -> LInv s'.
Proof.
  intros s s' [A B C D] H1 H2 H3 H4. constructor; unfold po_pending in *; rewrite ?H1, ?H2, ?H3, ?H4; auto.
Qed.

Lemma po_orphan_map : forall k l, filter is_po (map (orphan_if k) l) = map (orphan_if k) (filter is_po l).
Proof.
  induction l as [|j t IH]; [reflexivity|]. cbn [map filter].
  assert (H : is_po (orphan_if k j) = is_po j) by reflexivity. rewrite H.
  destruct (is_po j); cbn [map]; now rewrite IH.
Qed.

Lemma purge_linv : forall s k, LInv s -> LInv (purge k s).
Proof.
  intros s k HL. unfold purge. destruct (lookup k (dsets s)) as [ds|]; [|assumption].
  destruct (d_readers ds); [|eapply linv_same; eauto].
  destruct (d_status ds); try assumption; (destruct (lookup k (segs s)); [|assumption]);
    (destruct HL as [A B C D]; constructor; unfold po_pending in *; unf; auto;
     [ now rewrite po_orphan_map, map_length
     | intros j Hin; apply in_map_iff in Hin; destruct Hin as [j0 [<- Hin]]; cbn; auto
     | rewrite map_map; cbn; now rewrite <- map_map with (g := fun x => x), map_id ]).
Qed.

Lemma purge_next : forall s k, next_jid (purge k s) = next_jid s /\ lock (purge k s) = lock s /\ count (purge k s) = count s.
Proof.
  intros s k. unfold purge. destruct (lookup k (dsets s)) as [ds|]; [|auto].
  destruct (d_readers ds); [|auto]. destruct (d_status ds); auto; destruct (lookup k (segs s)); auto.
Qed.

Lemma submit_linv_in : forall s k sz, LInv s -> LInv (submit PageIn k sz s).
Proof.
  intros s k sz [A B C D]. constructor; unfold po_pending in *; unf; auto.
  - rewrite filter_app. cbn. now rewrite app_nil_r.
  - intros j Hin. apply in_app_iff in Hin. destruct Hin as [Hin|[<-|[]]]; [specialize (C j Hin)|cbn]; lia.
  - rewrite map_app. cbn. apply NoDup_app_intro; [assumption|repeat constructor; intros []|].
    intros x Hx [<-|[]]. apply in_map_iff in Hx. destruct Hx as [j [Hj Hin]]. specialize (C j Hin). lia.
Qed.

(* page_out over registered keys: one more pending page-out each *)
Lemma fold_page_out_count : forall ws s,
  (forall w, In w ws -> In w (map fst (dsets s))) ->
  (forall j, In j (jobs s) -> (j_id j < next_jid s)%N) -> NoDup (map j_id (jobs s)) ->
  let s' := fold_left page_out ws s in
  po_pending s' = po_pending s + Z.of_nat (List.length ws) /\ lock s' = lock s /\ count s' = count s /\
  (forall j, In j (jobs s') -> (j_id j < next_jid s')%N) /\ NoDup (map j_id (jobs s')).
Proof.
  induction ws as [|w t IH]; intros s Hreg Hid Hnd; cbn [fold_left List.length].
  - cbn. repeat split; auto. lia.
  - assert (Hw : exists ds, lookup w (dsets s) = Some ds).
    { destruct (lookup w (dsets s)) eqn:E; [eauto|]. exfalso. apply (lookup_none_notin _ _ E). apply Hreg. now left. }
    destruct Hw as [ds Hw].
    assert (Hstep : po_pending (page_out s w) = po_pending s + 1 /\ lock (page_out s w) = lock s /\ count (page_out s w) = count s /\
                    (forall j, In j (jobs (page_out s w)) -> (j_id j < next_jid (page_out s w))%N) /\ NoDup (map j_id (jobs (page_out s w))) /\
                    map fst (dsets (page_out s w)) = map fst (dsets s)).
    { unfold page_out, po_pending. rewrite Hw. unf. rewrite filter_app, app_length. cbn. repeat split; try lia.
      - intros j Hin. apply in_app_iff in Hin. destruct Hin as [Hin|[<-|[]]]; [specialize (Hid j Hin)|cbn]; lia.
      - rewrite map_app. cbn. apply NoDup_app_intro; [assumption|repeat constructor; intros []|].
        intros x Hx [<-|[]]. apply in_map_iff in Hx. destruct Hx as [j [Hj Hin]]. specialize (Hid j Hin). lia.
      - apply keys_alter. }
    destruct Hstep as [S1 [S2 [S3 [S4 [S5 S6]]]]].
    destruct (IH (page_out s w)) as [I1 [I2 [I3 [I4 I5]]]]; auto.
    { intros w' Hin. rewrite S6. apply Hreg. now right. }
    repeat split; auto; try congruence. rewrite I1, S1. lia.
Qed.

Lemma poal_linv : forall amount now s, LInv s -> LInv (page_out_at_least amount now s).
Proof.
  intros amount now s HL. unfold page_out_at_least, page_out_at_least_gen.
  destruct (lock s) eqn:Elk; [assumption|].
  destruct HL as [A B C D].
  assert (Hc0 : count s = 0). { rewrite B in Elk. destruct (0 <? count s) eqn:E; [discriminate|]. unfold po_pending in A. lia. }
  destruct (lottery (candidates now (dsets s)) amount) as [|w0 ws] eqn:El.
  - constructor; unfold po_pending in *; unf; cbn; auto. rewrite <- A. now rewrite Hc0.
  - rewrite <- El. set (ws' := lottery (candidates now (dsets s)) amount).
    destruct (fold_page_out_count ws' (with_lock true (Z.of_nat (List.length ws')) s)) as [I1 [I2 [I3 [I4 I5]]]]; auto.
    { intros w Hin. unf. apply lottery_in in Hin. destruct Hin as [e [He Hk]].
      unfold candidates in He. apply in_map_iff in He. destruct He as [[k ds] [He Hin]].
      apply filter_In in Hin. destruct Hin as [Hin _]. subst e. cbn in Hk. subst w. apply in_map_iff. exists (k, ds). auto. }
    constructor; auto.
    + rewrite I3, I1. unfold po_pending in *. unf. lia.
    + rewrite I2, I3. unf. subst ws'. rewrite El. cbn [List.length]. symmetry. apply Z.ltb_lt. lia.
Qed.

Lemma drop_absent : forall l j, ~ In j (map j_id l) -> drop_job j l = l.
Proof.
  unfold drop_job. induction l as [|y r IH]; intros j H; cbn [filter]; [reflexivity|].
  destruct (N.eqb (j_id y) j) eqn:E; cbn [negb].
  - apply N.eqb_eq in E. exfalso. apply H. left. assumption.
  - f_equal. apply IH. intro H'. apply H. now right.
Qed.

Lemma find_drop_po : forall l j jb, NoDup (map j_id l) -> find_job j l = Some jb ->
  List.length (filter is_po l) = (List.length (filter is_po (drop_job j l)) + (if is_po jb then 1 else 0))%nat.
Proof.
  induction l as [|x t IH]; intros j jb Hn Hf; [discriminate|].
  cbn [map] in Hn. inversion Hn as [|? ? Hx Ht]; subst.
  cbn [find_job] in Hf. unfold drop_job. cbn [filter]. fold (drop_job j t).
  destruct (N.eqb (j_id x) j) eqn:E; cbn [negb].
  - inversion Hf; subst jb. apply N.eqb_eq in E. subst j. rewrite (drop_absent t (j_id x) Hx).
    destruct (is_po x); cbn [List.length]; lia.
  - specialize (IH j jb Ht Hf). cbn [filter]. destruct (is_po x); cbn [List.length]; lia.
Qed.

Lemma drop_ids : forall l j, NoDup (map j_id l) -> NoDup (map j_id (drop_job j l)).
Proof. intros l j H. unfold drop_job. now apply NoDup_map_filter. Qed.

Lemma count_down_linv : forall s, count s = po_pending s + 1 -> lock s = true ->
  (forall j, In j (jobs s) -> (j_id j < next_jid s)%N) -> NoDup (map j_id (jobs s)) -> LInv (count_down s).
Proof.
  intros s Hc Hl Hi Hn. unfold count_down. constructor; unfold po_pending in *; unf; auto; try lia.
  destruct (count s - 1 =? 0) eqn:E.
  - apply Z.eqb_eq in E. rewrite E. reflexivity.
  - rewrite Hl. symmetry. apply Z.ltb_lt. apply Z.eqb_neq in E. lia.
Qed.

Lemma job_cb_linv : forall s j, LInv s -> LInv (fst (job_cb j s)).
Proof.
  intros s j HL. unfold job_cb.
  destruct (find_job j (jobs s)) as [jb|] eqn:Hf; [|assumption].
  destruct (j_phase jb) as [| |ok]; [assumption|assumption|]. cbn [fst].
  destruct HL as [A B C D].
  pose proof (find_drop_po _ _ _ D Hf) as Hlen.
  set (s0 := with_jobs (drop_job j (jobs s)) s).
  assert (Hi0 : forall x, In x (jobs s0) -> (j_id x < next_jid s0)%N).
  { subst s0. unf. intros x Hx. apply in_drop_job in Hx. apply C. tauto. }
  assert (Hn0 : NoDup (map j_id (jobs s0))) by (subst s0; unf; now apply drop_ids).
  assert (Hpo : is_po jb = match j_kind jb with PageOut => true | PageIn => false end) by reflexivity.
  destruct (j_kind jb) eqn:Hk; rewrite Hpo in Hlen.
  - (* page-out: the lock is held (a page-out job is pending), count goes down by one *)
    assert (Hlk : lock s = true). { rewrite B. apply Z.ltb_lt. unfold po_pending in A. lia. }
    destruct ok.
    + apply count_down_linv; subst s0; unfold po_pending in *; destruct (j_orphan jb); unf; auto; lia.
    + destruct (purge_next s0 (j_key jb)) as [P1 [P2 P3]].
      (* purge keeps the job list up to orphan marks *)
      assert (Hp : po_pending (purge (j_key jb) s0) = po_pending s0 /\
                   (forall x, In x (jobs (purge (j_key jb) s0)) -> (j_id x < next_jid (purge (j_key jb) s0))%N) /\
                   NoDup (map j_id (jobs (purge (j_key jb) s0)))).
      { unfold purge. destruct (lookup (j_key jb) (dsets s0)) as [ds|]; [|auto].
        destruct (d_readers ds); [|auto].
        destruct (d_status ds); auto; (destruct (lookup (j_key jb) (segs s0)); [|auto]);
          unfold po_pending; unf; rewrite po_orphan_map, map_length;
          (split; [reflexivity|]; split;
           [ intros x Hin; apply in_map_iff in Hin; destruct Hin as [x0 [<- Hin]]; cbn; auto
           | rewrite map_map; cbn; now rewrite <- map_map with (g := fun x => x), map_id ]). }
      destruct Hp as [Q1 [Q2 Q3]].
      apply count_down_linv; auto.
      * rewrite P3, Q1. subst s0. unfold po_pending in *. unf. lia.
      * rewrite P2. subst s0. unf. assumption.
  - (* page-in *)
    assert (HL0 : LInv s0).
    { subst s0. constructor; unfold po_pending in *; unf; auto. lia. }
    destruct ok.
    + destruct (j_orphan jb); [assumption|]. eapply linv_same; eauto.
    + now apply purge_linv.
Qed.

Lemma to_phase_linv : forall s j p, LInv s -> LInv (to_phase j p s).
Proof.
  intros s j p [A B C D]. unfold to_phase. constructor; unfold po_pending in *; unf; auto.
  - rewrite A. f_equal. unfold update_job. clear. induction (jobs s) as [|x t IH]; cbn [map filter]; [reflexivity|].
    assert (H : is_po (if N.eqb (j_id x) j then set_phase p x else x) = is_po x) by (destruct (N.eqb (j_id x) j); reflexivity).
    rewrite H. destruct (is_po x); cbn [List.length]; now rewrite IH.
  - intros x Hin. unfold update_job in Hin. apply in_map_iff in Hin. destruct Hin as [y [<- Hin]].
    specialize (C y Hin). destruct (N.eqb (j_id y) j); cbn; assumption.
  - unfold update_job. rewrite map_map.
    assert (H : map (fun x => j_id (if N.eqb (j_id x) j then set_phase p x else x)) (jobs s) = map j_id (jobs s)).
    { apply map_ext. intro x. destruct (N.eqb (j_id x) j); reflexivity. }
    now rewrite H.
Qed.

Lemma finish_io_linv : forall s j ok, LInv s -> LInv (finish_io j ok s).
Proof. intros. now apply to_phase_linv. Qed.

Lemma maybe_delayed_purge_linv : forall s k, LInv s -> LInv (maybe_delayed_purge k s).
Proof.
  intros s k HL. unfold maybe_delayed_purge. destruct (lookup k (dsets s)) as [ds|]; [|assumption].
  destruct (d_delayed ds && _); [now apply purge_linv|assumption].
Qed.

Theorem step_linv : forall s o, LInv s -> LInv (fst (step s o)).
Proof.
  intros s o HL. destruct o; cbn [step].
  - unfold add. destruct (lookup k (dsets s)); [assumption|].
    destruct (Z.of_N size >? capacity s); [assumption|].
    destruct (Z.of_N size >? free s); cbn [fst]; [now apply poal_linv|eapply linv_same; eauto].
  - destruct (lookup k (segs s)); cbn [fst]; [assumption|eapply linv_same; eauto].
  - unfold close. destruct (lookup k (dsets s)) as [ds|]; [|assumption].
    destruct rdid as [rd|].
    + destruct (status_eqb (d_status ds) InMemory); [|assumption]. cbn [fst]. apply maybe_delayed_purge_linv.
      destruct (lookup rd (d_readers ds)); [eapply linv_same; eauto|assumption].
    + destruct (status_eqb (d_status ds) Created); [|assumption]. cbn [fst]. apply maybe_delayed_purge_linv.
      eapply linv_same; eauto.
  - unfold get. destruct (lookup k (dsets s)) as [ds|]; [|assumption].
    destruct (d_status ds); try assumption.
    + destruct (first_fresh uuids (d_readers ds)); [|assumption]. cbn [fst]. eapply linv_same; eauto.
    + destruct (Z.of_N (d_size ds) >? free s); cbn [fst]; [now apply poal_linv|].
      unfold page_in. destruct (free s <? Z.of_N (d_size ds)); cbn [fst]; [eapply linv_same; eauto|].
      apply submit_linv_in. eapply linv_same; eauto.
  - cbn [fst]. now apply purge_linv.
  - unfold job_io. destruct (find_job j (jobs s)) as [jb|]; [|assumption].
    destruct (j_phase jb); [|assumption|assumption]. cbn [fst]. destruct (j_kind jb).
    + unfold io_page_out, finish_io. destruct (lookup (j_key jb) (segs s)); [destruct fault|];
        apply to_phase_linv; try assumption; eapply linv_same; eauto.
    + unfold io_page_in. destruct (j_size jb =? 0)%N; [now apply finish_io_linv|].
      destruct (lookup (j_key jb) (segs s)); [now apply finish_io_linv|].
      destruct fault; [apply finish_io_linv; eapply linv_same; eauto|].
      destruct (lookup (j_key jb) (files s)); [|apply finish_io_linv; eapply linv_same; eauto].
      destruct (_ <=? _)%N; apply finish_io_linv; eapply linv_same; eauto.
  - unfold job_unlink. destruct (find_job j (jobs s)) as [jb|]; [|assumption].
    destruct (j_kind jb), (j_phase jb); try assumption. cbn [fst].
    destruct (lookup (j_key jb) (segs s)); apply finish_io_linv; try assumption; eapply linv_same; eauto.
  - now apply job_cb_linv.
  - assumption.
  - assumption.
Qed.

Theorem run_linv : forall ops s, LInv s -> LInv (exec s ops).
Proof.
  induction ops as [|o r IH]; intros s HL; [assumption|]. rewrite exec_cons. apply IH. now apply step_linv.
Qed.

(* the lock is held exactly while a page-out job is pending (whose callback will count down and release it) *)
Theorem lock_iff_pageout_pending : forall cap ops,
  let s := exec (init cap) ops in
  count s = po_pending s /\
  (lock s = true <-> exists j, In j (jobs s) /\ j_kind j = PageOut).
Proof.
  intros cap ops s. destruct (run_linv ops (init cap) (linv_init cap)) as [A B C D]. fold s in A, B, C, D.
  split; [assumption|]. rewrite B, A. unfold po_pending. split.
  - intro H. apply Z.ltb_lt in H. destruct (filter is_po (jobs s)) as [|j t] eqn:E; [cbn in H; lia|].
    assert (Hin : In j (filter is_po (jobs s))) by (rewrite E; now left).
    apply filter_In in Hin. destruct Hin as [Hin Hp]. exists j. split; [assumption|].
    unfold is_po in Hp. destruct (j_kind j); [reflexivity|discriminate].
  - intros [j [Hin Hk]]. apply Z.ltb_lt.
    assert (Hf : In j (filter is_po (jobs s))) by (apply filter_In; split; [assumption|unfold is_po; now rewrite Hk]).
    destruct (filter is_po (jobs s)); [contradiction|]. cbn [List.length]. lia.
Qed.

(* a request that has to wait while the lock is free and something is evictable issues a page-out *)
Theorem wait_starts_eviction : forall amount now s k ds,
  LInv s -> lock s = false -> In (k, ds) (dsets s) -> is_pageoutable now ds = true -> NoDup (map fst (dsets s)) ->
  let s' := page_out_at_least amount now s in
  lock s' = true /\ exists j, In j (jobs s') /\ j_kind j = PageOut /\ j_phase j = IoPending /\ ~ In j (jobs s).
Proof.
  intros amount now s k ds HL Hlk Hin Hp Hnd s'. subst s'. unfold page_out_at_least, page_out_at_least_gen. rewrite Hlk.
  assert (Hne : candidates now (dsets s) <> []).
  { unfold candidates. intro H. apply map_eq_nil in H.
    assert (Hf : In (k, ds) (filter (fun kd => is_pageoutable now (snd kd)) (dsets s))) by (apply filter_In; auto).
    rewrite H in Hf. contradiction. }
  pose proof (lottery_nonempty _ amount Hne) as Hl.
  destruct (lottery (candidates now (dsets s)) amount) as [|w0 ws] eqn:El; [congruence|].
  (* the first victim is registered, so its job is submitted; later page_outs only append *)
  assert (Hreg : exists d0, lookup w0 (dsets s) = Some d0).
  { assert (Hw : In w0 (lottery (candidates now (dsets s)) amount)) by (rewrite El; now left).
    apply lottery_in in Hw. destruct Hw as [e [He Hk]]. unfold candidates in He. apply in_map_iff in He.
    destruct He as [[k' d'] [He Hin']]. apply filter_In in Hin'. destruct Hin' as [Hin' _]. subst e. cbn in Hk. subst k'.
    exists d'. now apply in_lookup. }
  destruct Hreg as [d0 Hd0].
  assert (Hmono : forall ws s1 j, In j (jobs s1) -> In j (jobs (fold_left page_out ws s1))).
  { induction ws0 as [|w t IH]; intros s1 j Hj; cbn; [assumption|]. apply IH. unfold page_out.
    destruct (lookup w (dsets s1)); [|assumption]. unf. apply in_or_app. now left. }
  assert (Hlock : forall ws s1, lock (fold_left page_out ws s1) = lock s1).
  { induction ws0 as [|w t IH]; intros s1; cbn; [reflexivity|]. rewrite IH. unfold page_out.
    destruct (lookup w (dsets s1)); reflexivity. }
  split; [rewrite Hlock; reflexivity|].
  cbn [fold_left]. set (s1 := with_lock true (Z.of_nat (List.length (w0 :: ws))) s).
  exists (mkJob (next_jid s) PageOut w0 (d_size d0) IoPending false). split; [|split; [reflexivity|split; [reflexivity|]]].
  - apply Hmono. unfold page_out. subst s1. unf. rewrite Hd0. unf. apply in_or_app. right. now left.
  - intro Hold. apply (l_ids _ HL) in Hold. cbn in Hold. lia.
Qed.

Theorem waiting_request_starts_eviction : forall s k size now k' ds',
  LInv s -> NoDup (map fst (dsets s)) -> lock s = false ->
  In (k', ds') (dsets s) -> is_pageoutable now ds' = true ->
  (* an allocation that does not fit *)
  (lookup k (dsets s) = None -> Z.of_N size <= capacity s -> free s < Z.of_N size ->
   let s' := fst (step s (Add k size now)) in
   snd (step s (Add k size now)) = RErr "wait" /\ lock s' = true /\
   exists j, In j (jobs s') /\ j_kind j = PageOut /\ j_phase j = IoPending /\ ~ In j (jobs s)) /\
  (* a read of a paged-out dataset that does not fit *)
  (forall ds u, lookup k (dsets s) = Some ds -> d_status ds = OnDisk -> free s < Z.of_N (d_size ds) ->
   let s' := fst (step s (Get k now u)) in
   snd (step s (Get k now u)) = RErr "wait" /\ lock s' = true /\
   exists j, In j (jobs s') /\ j_kind j = PageOut /\ j_phase j = IoPending /\ ~ In j (jobs s)).
Proof.
  intros s k size now k' ds' HL Hnd Hlk Hin Hp. split.
  - intros Hl Hc Hf. cbn [step]. unfold add. rewrite Hl.
    destruct (Z.of_N size >? capacity s) eqn:E1; [lia|]. destruct (Z.of_N size >? free s) eqn:E2; [|lia].
    cbn [fst snd]. split; [reflexivity|]. eapply wait_starts_eviction; eauto.
  - intros ds u Hl Hs Hf. cbn [step]. unfold get. rewrite Hl, Hs.
    destruct (Z.of_N (d_size ds) >? free s) eqn:E; [|lia].
    cbn [fst snd]. split; [reflexivity|]. eapply wait_starts_eviction; eauto.
Qed.

(* the code before the fix: commit: an eviction attempt that finds nothing evictable keeps the lock although no
   job is pending, so nothing will ever release it; every later attempt returns at once *)
Theorem lock_leak_before_fix : 
  exists cap ops amount now,
    let s := exec (init cap) ops in
    let s' := page_out_at_least_gen false amount now s in
    lock s = false /\ lock s' = true /\ jobs s' = [] /\
    (forall amount2 now2, page_out_at_least_gen false amount2 now2 s' = s') /\
    lock (page_out_at_least_gen true amount now s) = false.
Proof.
  exists 4, [Add 0%N 4%N 10], 2, 20. cbv zeta. repeat split.
Qed.
