From Coq Require Import List NArith ZArith String Bool Lia.
From EKW Require Import Shm.Codec.
Import ListNotations.
Open Scope N_scope.

Lemma from_bytes_acc_app a b acc :
  from_bytes_acc (a ++ b) acc = from_bytes_acc b (from_bytes_acc a acc).
Proof. revert acc; induction a as [|x a IH]; intros acc; simpl; [reflexivity | apply IH]. Qed.

Lemma to_bytes_length w : forall n, List.length (to_bytes_be w n) = w.
Proof.
  induction w as [|w IH]; intros n; simpl; [reflexivity|].
  rewrite app_length, IH; simpl; lia.
Qed.

Lemma pow256_S w : pow256 (S w) = 256 * pow256 w.
Proof. unfold pow256. rewrite Nat2N.inj_succ, N.pow_succ_r'. reflexivity. Qed.

Lemma pow256_pos w : 0 < pow256 w.
Proof. unfold pow256. assert (256 ^ N.of_nat w <> 0) by (apply N.pow_nonzero; lia). lia. Qed.

Lemma to_from_acc w : forall n acc, n < pow256 w ->
  from_bytes_acc (to_bytes_be w n) acc = acc * pow256 w + n.
Proof.
  induction w as [|w IH]; intros n acc Hn.
  - simpl. unfold pow256 in *. simpl in *. lia.
  - cbn [to_bytes_be]. rewrite from_bytes_acc_app. cbn [from_bytes_acc].
    rewrite pow256_S in *.
    assert (Hq : n / 256 < pow256 w) by (apply N.div_lt_upper_bound; lia).
    rewrite (IH _ _ Hq).
    pose proof (N.div_mod n 256 ltac:(lia)) as Hdm. lia.
Qed.

Lemma to_from w n : n < pow256 w -> from_bytes_be (to_bytes_be w n) = n.
Proof. intros H. unfold from_bytes_be. rewrite to_from_acc by assumption. lia. Qed.

Lemma to_bytes_byte w : forall n, Forall (fun b => b < 256) (to_bytes_be w n).
Proof.
  induction w as [|w IH]; intros n; simpl; [constructor|].
  apply Forall_app; split; [apply IH|]. constructor; [|constructor].
  apply N.mod_lt; lia.
Qed.

Lemma firstn_app_exact {A} (a b : list A) n : List.length a = n -> firstn n (a ++ b) = a.
Proof. intros <-. rewrite firstn_app, Nat.sub_diag, firstn_all. simpl. apply app_nil_r. Qed.

Lemma skipn_app_exact {A} (a b : list A) n : List.length a = n -> skipn n (a ++ b) = b.
Proof. intros <-. rewrite skipn_app, Nat.sub_diag, skipn_all. reflexivity. Qed.

Lemma int_roundtrip w z bs rest :
  int_ser w z = Ok bs -> int_deser w (bs ++ rest) = (z, rest).
Proof.
  unfold int_ser, int_deser. destruct (z <? 0)%Z eqn:Hz; [discriminate|].
  destruct (Z.to_N z <? pow256 w) eqn:Hlt; [|discriminate].
  intros [= <-]. apply N.ltb_lt in Hlt. apply Z.ltb_ge in Hz.
  rewrite firstn_app_exact by apply to_bytes_length.
  rewrite skipn_app_exact by apply to_bytes_length.
  rewrite to_from by assumption. rewrite Z2N.id by assumption. reflexivity.
Qed.

Lemma int_ser_length w z bs : int_ser w z = Ok bs -> List.length bs = w.
Proof.
  unfold int_ser. destruct (z <? 0)%Z; [discriminate|]. destruct (_ <? _); [|discriminate].
  intros [= <-]. apply to_bytes_length.
Qed.

Lemma int_ser_domain w z : (0 <=? z)%Z && (Z.to_N z <? pow256 w) = true ->
  int_ser w z = Ok (to_bytes_be w (Z.to_N z)).
Proof.
  intros H. apply andb_prop in H as [H1 H2]. unfold int_ser.
  apply Z.leb_le in H1. destruct (z <? 0)%Z eqn:E; [apply Z.ltb_lt in E; lia|].
  rewrite H2. reflexivity.
Qed.

Lemma int_ser_reject w z : (0 <=? z)%Z && (Z.to_N z <? pow256 w) = false ->
  exists e, int_ser w z = Err e.
Proof.
  intros H. unfold int_ser. destruct (z <? 0)%Z eqn:E; [eauto|].
  apply Z.ltb_ge in E. apply Z.leb_le in E. rewrite E in H. simpl in H. rewrite H. eauto.
Qed.

Lemma int_ser_value w z bs : int_ser w z = Ok bs -> (0 <= z)%Z /\ from_bytes_be bs = Z.to_N z.
Proof.
  unfold int_ser. destruct (z <? 0)%Z eqn:Hz; [discriminate|].
  destruct (Z.to_N z <? pow256 w) eqn:Hlt; [|discriminate].
  intros [= <-]. apply N.ltb_lt in Hlt. apply Z.ltb_ge in Hz. split; [exact Hz|].
  apply to_from; assumption.
Qed.

Lemma str_roundtrip s bs rest :
  str_ser s = Ok bs -> str_deser (bs ++ rest) = Ok (s, rest).
Proof.
  unfold str_ser, bind. destruct (int_ser 4 (Z.of_nat (List.length s))) as [hd|] eqn:Hh; [|discriminate].
  destruct (is_ascii s) eqn:Ha; [|discriminate]. intros [= <-].
  pose proof (int_ser_length _ _ _ Hh) as Hl.
  destruct (int_ser_value _ _ _ Hh) as [_ Hv].
  unfold str_deser. rewrite <- app_assoc.
  rewrite (firstn_app_exact hd (s ++ rest) 4 Hl).
  rewrite (skipn_app_exact hd (s ++ rest) 4 Hl).
  rewrite Hv. rewrite <- nat_N_Z, N2Z.id.
  assert (Hc : clamp (N.of_nat (List.length s)) (s ++ rest) = List.length s).
  { unfold clamp. rewrite app_length. lia. }
  cbv zeta. rewrite Hc.
  rewrite firstn_app_exact by reflexivity. rewrite skipn_app_exact by reflexivity.
  rewrite Ha. reflexivity.
Qed.

Arguments int_deser : simpl never.
Arguments str_deser : simpl never.
Arguments int_ser : simpl never.
Arguments str_ser : simpl never.
Arguments pow256 : simpl never.

Lemma field_roundtrip k v : in_domain k v = true ->
  exists bs, field_ser k v = Ok bs /\ forall rest, field_deser k (bs ++ rest) = Ok (v, rest).
Proof.
  destruct k as [w| |w vals], v as [z|s]; cbn [in_domain field_ser field_deser]; try discriminate; intros H.
  - exists (to_bytes_be w (Z.to_N z)). pose proof (int_ser_domain _ _ H) as Hs. split; [exact Hs|].
    intros rest. rewrite (int_roundtrip _ _ _ rest Hs). reflexivity.
  - apply andb_prop in H as [Ha Hl].
    assert (Hd : (0 <=? Z.of_nat (List.length s))%Z && (Z.to_N (Z.of_nat (List.length s)) <? pow256 4) = true).
    { apply andb_true_intro; split; [apply Z.leb_le; lia|].
      rewrite <- nat_N_Z, N2Z.id. exact Hl. }
    pose proof (int_ser_domain _ _ Hd) as Hs.
    exists (to_bytes_be 4 (Z.to_N (Z.of_nat (List.length s))) ++ s).
    assert (Hss : str_ser s = Ok (to_bytes_be 4 (Z.to_N (Z.of_nat (List.length s))) ++ s)).
    { unfold str_ser, bind. rewrite Hs, Ha. reflexivity. }
    split; [exact Hss|]. intros rest. unfold bind. rewrite (str_roundtrip _ _ rest Hss). reflexivity.
  - apply andb_prop in H as [H Hl]. apply andb_prop in H as [Hm Hz].
    assert (Hd : (0 <=? z)%Z && (Z.to_N z <? pow256 w) = true) by (rewrite Hz, Hl; reflexivity).
    pose proof (int_ser_domain _ _ Hd) as Hs. rewrite Hm.
    exists (to_bytes_be w (Z.to_N z)). split; [exact Hs|].
    intros rest. rewrite (int_roundtrip _ _ _ rest Hs). rewrite Hm. reflexivity.
Qed.

(* A value outside the admitted domain is rejected when encoding, never truncated. *)
Lemma field_out_of_domain_rejected k v : in_domain k v = false -> exists e, field_ser k v = Err e.
Proof.
  destruct k as [w| |w vals], v as [z|s]; simpl; intros H; eauto.
  - apply int_ser_reject; assumption.
  - unfold str_ser, bind.
    destruct (is_ascii s) eqn:Ha; simpl in H.
    + destruct (int_ser_reject 4 (Z.of_nat (List.length s))) as [e He].
      { apply andb_false_iff; right. rewrite <- nat_N_Z, N2Z.id. exact H. }
      rewrite He. eauto.
    + destruct (int_ser 4 (Z.of_nat (List.length s))); eauto.
  - destruct (zmem z vals); simpl in H; [|eauto]. apply int_ser_reject; assumption.
Qed.

Lemma lookup_skip f v f' m : String.eqb f f' = false -> lookup f' ((f, v) :: m) = lookup f' m.
Proof. intros H. unfold lookup. simpl. rewrite H. reflexivity. Qed.

Lemma fields_ser_skip l : forall f v m, existsb (String.eqb f) (map fst l) = false ->
  fields_ser l ((f, v) :: m) = fields_ser l m.
Proof.
  induction l as [|[g k] l IH]; intros f v m H; [reflexivity|].
  simpl in H. apply orb_false_iff in H as [Hg Hr].
  cbn [fields_ser]. rewrite (lookup_skip _ _ _ _ Hg). rewrite (IH _ _ _ Hr). reflexivity.
Qed.

Theorem fields_roundtrip l : forall m, nodup_str (map fst l) = true -> shaped l m = true ->
  exists bs, fields_ser l m = Ok bs /\ forall rest, fields_deser l (bs ++ rest) = Ok (m, rest).
Proof.
  induction l as [|[f k] l IH]; intros m Hnd Hs.
  - destruct m; [|discriminate]. exists []. split; [reflexivity|]. intros rest; reflexivity.
  - destruct m as [|[f' v] m]; [discriminate|]. simpl in Hs.
    apply andb_prop in Hs as [Hs Hs3]. apply andb_prop in Hs as [Hff Hdom].
    apply String.eqb_eq in Hff; subst f'.
    simpl in Hnd. apply andb_prop in Hnd as [Hnin Hnd]. apply negb_true_iff in Hnin.
    destruct (IH m Hnd Hs3) as [bs' [Hser' Hdes']].
    destruct (field_roundtrip k v Hdom) as [b [Hb Hbd]].
    exists (b ++ bs'). split.
    + cbn [fields_ser]. unfold lookup; simpl. rewrite String.eqb_refl. simpl.
      rewrite Hb. simpl. rewrite fields_ser_skip by assumption. rewrite Hser'. reflexivity.
    + intros rest. cbn [fields_deser]. rewrite <- app_assoc. rewrite Hbd. simpl.
      rewrite Hdes'. reflexivity.
Qed.

Theorem fields_out_of_domain_rejected l : forall m,
  nodup_str (map fst l) = true -> map fst m = map fst l -> shaped l m = false ->
  exists e, fields_ser l m = Err e.
Proof.
  induction l as [|[f k] l IH]; intros m Hnd Hn Hs.
  - destruct m; [discriminate | discriminate].
  - destruct m as [|[f' v] m]; [discriminate|]. simpl in Hn. injection Hn as Hf Hn. subst f'.
    simpl in Hnd. apply andb_prop in Hnd as [Hnin Hnd]. apply negb_true_iff in Hnin.
    cbn [fields_ser]. unfold lookup; simpl. rewrite String.eqb_refl. simpl.
    simpl in Hs. rewrite String.eqb_refl in Hs. simpl in Hs.
    destruct (in_domain k v) eqn:Hd.
    + simpl in Hs. destruct (field_roundtrip k v Hd) as [b [Hb _]]. rewrite Hb. simpl.
      rewrite fields_ser_skip by assumption.
      destruct (IH m Hnd Hn Hs) as [e He]. rewrite He. simpl. eexists; reflexivity.
    + destruct (field_out_of_domain_rejected k v Hd) as [e He]. rewrite He. simpl. eexists; reflexivity.
Qed.

(* ------------------------------------------------------------------ table level *)
Lemma kind_eqb_eq a b : kind_eqb a b = true -> a = b.
Proof.
  destruct a, b; simpl; try discriminate; intros H.
  - apply Nat.eqb_eq in H; congruence.
  - reflexivity.
  - apply andb_prop in H as [H1 H2]. apply Nat.eqb_eq in H1.
    destruct (list_eq_dec Z.eq_dec vals vals0); [congruence|discriminate].
Qed.

Lemma layout_eqb_eq a : forall b, layout_eqb a b = true -> a = b.
Proof.
  unfold layout_eqb. induction a as [|[f k] a IH]; intros [|[g k'] b] H; simpl in H; try discriminate; [reflexivity|].
  apply andb_prop in H as [Hl H]. apply andb_prop in H as [Hh Ht].
  apply andb_prop in Hh as [Hf Hk]. simpl in Hf, Hk.
  apply String.eqb_eq in Hf. apply kind_eqb_eq in Hk. subst.
  f_equal. apply IH. rewrite Hl, Ht. reflexivity.
Qed.

Lemma find_tag_in tb : forall t c, nodup_N (map fst tb) = true -> In (t, c) tb -> find_tag t tb = Some c.
Proof.
  induction tb as [|[t' c'] tb IH]; intros t c Hnd Hin; [destruct Hin|].
  simpl in Hnd. apply andb_prop in Hnd as [Hn Hnd]. apply negb_true_iff in Hn.
  destruct Hin as [Heq|Hin].
  - injection Heq as -> ->. simpl. rewrite N.eqb_refl. reflexivity.
  - simpl. destruct (t =? t') eqn:E.
    + apply N.eqb_eq in E; subst t'. exfalso.
      assert (existsb (N.eqb t) (map fst tb) = true).
      { apply existsb_exists. exists t. split; [|apply N.eqb_refl]. apply in_map_iff. exists (t, c). auto. }
      congruence.
    + apply IH; assumption.
Qed.

Lemma find_cls_in tb : forall t c, nodup_str (map (fun p => cname (snd p)) tb) = true -> In (t, c) tb ->
  find_cls (cname c) tb = Some t.
Proof.
  induction tb as [|[t' c'] tb IH]; intros t c Hnd Hin; [destruct Hin|].
  simpl in Hnd. apply andb_prop in Hnd as [Hn Hnd]. apply negb_true_iff in Hn.
  destruct Hin as [Heq|Hin].
  - injection Heq as -> ->. simpl. rewrite String.eqb_refl. reflexivity.
  - simpl. destruct (String.eqb (cname c) (cname c')) eqn:E.
    + apply String.eqb_eq in E. exfalso.
      assert (existsb (String.eqb (cname c')) (map (fun p => cname (snd p)) tb) = true).
      { apply existsb_exists. exists (cname c). split; [|rewrite E; apply String.eqb_refl].
        apply in_map_iff. exists (t, c). auto. }
      congruence.
    + apply IH; assumption.
Qed.

Theorem message_roundtrip tb t c m :
  wf_table tb = true -> In (t, c) tb -> shaped (cser c) m = true ->
  exists bs, ser tb c m = Ok bs /\ forall junk, deser tb (bs ++ junk) = Ok (cname c, m).
Proof.
  intros Hwf Hin Hs. unfold wf_table in Hwf.
  apply andb_prop in Hwf as [Hwf Hnames]. apply andb_prop in Hwf as [Hall Htags].
  rewrite forallb_forall in Hall. specialize (Hall _ Hin). simpl in Hall.
  apply andb_prop in Hall as [Hc _]. unfold wf_cls in Hc.
  apply andb_prop in Hc as [Hc _]. apply andb_prop in Hc as [Heq Hnd].
  apply layout_eqb_eq in Heq.
  destruct (fields_roundtrip _ m Hnd Hs) as [bs [Hser Hdes]].
  exists (t :: bs). split.
  - unfold ser. rewrite (find_cls_in _ _ _ Hnames Hin). rewrite Hser. reflexivity.
  - intros junk. unfold deser. simpl. rewrite (find_tag_in _ _ _ Htags Hin).
    rewrite <- Heq. rewrite Hdes. reflexivity.
Qed.

Theorem message_out_of_domain_rejected tb c m :
  wf_cls c = true -> map fst m = map fst (cser c) -> shaped (cser c) m = false ->
  exists e, ser tb c m = Err e.
Proof.
  intros Hc Hn Hs. unfold wf_cls in Hc. apply andb_prop in Hc as [Hc _]. apply andb_prop in Hc as [_ Hnd].
  unfold ser. destruct (find_cls (cname c) tb); [|eexists; reflexivity].
  destruct (fields_out_of_domain_rejected _ m Hnd Hn Hs) as [e He]. rewrite He. simpl. eexists; reflexivity.
Qed.

Lemma pow256_mono a b : (a <= b)%nat -> pow256 a <= pow256 b.
Proof. intros H. unfold pow256. apply N.pow_le_mono_r; lia. Qed.

Theorem size_fields_wide_spec names c f k z :
  size_fields_wide names c = true -> In (f, k) (cser c) -> In f names ->
  (0 <= z < 2 ^ 64)%Z -> in_domain k (VInt z) = true.
Proof.
  intros H Hf Hsz Hz. unfold size_fields_wide in H. rewrite forallb_forall in H.
  specialize (H _ Hf). cbn [fst snd] in H.
  assert (Hex : existsb (String.eqb f) names = true).
  { apply existsb_exists. exists f. split; [exact Hsz | apply String.eqb_refl]. }
  rewrite Hex in H. destruct k as [w| |w vals]; try discriminate.
  apply Nat.leb_le in H. cbn [in_domain]. apply andb_true_intro. split.
  - apply Z.leb_le. apply Hz.
  - apply N.ltb_lt. apply N.lt_le_trans with (m := pow256 8); [|apply pow256_mono; exact H].
    change (pow256 8) with (Z.to_N (2 ^ 64)). apply Z2N.inj_lt; lia.
Qed.
