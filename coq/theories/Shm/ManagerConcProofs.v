(* C08 at the granularity of Shm/ManagerConc.v: completion callbacks of disk jobs delayed at their lock acquisitions, with
   requests and other callbacks in between.
   1. the parts of a callback, run one after the other, are the callback of Shm/Manager.v (purge = purge_pre ; purge_post),
      and a history of whole steps is the same history in both models;
   2. `capacity` is read by the admission test of `add` only (step_lower);
   3. the accounting invariant with callbacks in flight:
         free = capacity - resident - (sizes of the datasets whose successful page-out has set the status but not yet
                                       returned the space),
      so free space never over-reports, the resident total never exceeds the capacity, and when no callback is in flight
      the equation of C08 is exact.  Proved for histories in which the callbacks that are split are those of successful
      page-outs (`fsafe`); the other callbacks run in one piece there (they go through purge, whose two halves are tied
      together by the segment, not by the lock). *)
From Coq Require Import List NArith ZArith String Bool Lia.
From EKW Require Import Shm.Lottery Shm.LotteryProofs Shm.Manager Shm.ManagerProofs Shm.ManagerConc.
Import ListNotations.
Open Scope Z_scope.

(* ------------------------------------------------------------------ dict facts for `mid` *)
Section DictMore.
  Context {V : Type}.
  Implicit Types (d : list (key * V)) (k : key).

  Lemma put_absent : forall d k v, lookup k d = None -> put k v d = d ++ [(k, v)].
  Proof. intros d k v H. unfold put. now rewrite H. Qed.

  Lemma lookup_put_same : forall d k v, lookup k (put k v d) = Some v.
  Proof.
    intros d k v. unfold put. destruct (lookup k d) eqn:E.
    - rewrite lookup_alter_same, E. reflexivity.
    - rewrite lookup_app_end, E, N.eqb_refl. reflexivity.
  Qed.

  Lemma remove_app_absent : forall d k v, lookup k d = None -> remove k (d ++ [(k, v)]) = d.
  Proof.
    induction d as [|[k0 v0] r IH]; intros k v H; cbn in *.
    - now rewrite N.eqb_refl.
    - destruct (N.eqb k k0); [discriminate|]. now rewrite IH.
  Qed.

  Lemma alter_app_absent : forall d k v f, lookup k d = None -> alter k f (d ++ [(k, v)]) = d ++ [(k, f v)].
  Proof.
    induction d as [|[k0 v0] r IH]; intros k v f H; cbn in *.
    - now rewrite N.eqb_refl.
    - destruct (N.eqb k k0); [discriminate|]. now rewrite IH.
  Qed.

  Lemma in_remove : forall d k x, In x (remove k d) -> In x d.
  Proof.
    induction d as [|[k0 v0] r IH]; intros k x H; cbn in *; [assumption|].
    destruct (N.eqb k k0); cbn in *; [now right|]. destruct H; [now left|right; eauto].
  Qed.

  Lemma lookup_remove_same : forall d k, NoDup (map fst d) -> lookup k (remove k d) = None.
  Proof.
    induction d as [|[k0 v0] r IH]; intros k Hn; cbn in *; [reflexivity|].
    inversion Hn as [|? ? Hx Ht]; subst.
    destruct (N.eqb k k0) eqn:E; cbn.
    - apply N.eqb_eq in E. subst k0.
      destruct (lookup k r) eqn:L; [|reflexivity]. exfalso. apply Hx.
      apply lookup_some_in in L. apply in_map_iff. exists (k, v). auto.
    - rewrite E. now apply IH.
  Qed.
End DictMore.

(* ------------------------------------------------------------------ 1. the parts compose *)
Lemma purge_split : forall k s,
  purge k s = match purge_pre k s with (s1, Some sz) => purge_post k sz s1 | (s1, None) => s1 end.
Proof.
  intros k s. unfold purge, purge_pre, purge_post.
  destruct (lookup k (dsets s)) as [ds|]; [|reflexivity].
  destruct (d_readers ds); [|reflexivity].
  destruct (d_status ds); try reflexivity; destruct (lookup k (segs s)); reflexivity.
Qed.

Lemma purge_pre_jobs : forall k s, jobs (fst (purge_pre k s)) = jobs s.
Proof.
  intros k s. unfold purge_pre. destruct (lookup k (dsets s)) as [ds|]; [|reflexivity].
  destruct (d_readers ds); [|reflexivity].
  destruct (d_status ds); try reflexivity; destruct (lookup k (segs s)); reflexivity.
Qed.

Lemma cb_part_mid : forall j s m c, lookup j m = Some c ->
  cb_part j (mkF s m) = (mkF (fst (cb_next c s)) (set_mid j (snd (cb_next c s)) m), RJob true).
Proof. intros j s m c H. unfold cb_part. cbn [mid base]. rewrite H. destruct (cb_next c s). reflexivity. Qed.

Lemma cb_finish_step : forall f j s m c, lookup j m = Some c ->
  cb_finish (S f) j (mkF s m) = cb_finish f j (mkF (fst (cb_next c s)) (set_mid j (snd (cb_next c s)) m)).
Proof. intros f j s m c H. cbn [cb_finish mid]. rewrite H, (cb_part_mid _ _ _ _ H). reflexivity. Qed.

Lemma cb_finish_done : forall f j s m, lookup j m = None -> cb_finish f j (mkF s m) = mkF s m.
Proof. intros [|f] j s m H; [reflexivity|]. cbn [cb_finish mid]. now rewrite H. Qed.

Lemma lookup_app_new : forall (m : list (N * cbstate)) j c, lookup j m = None -> lookup j (m ++ [(j, c)]) = Some c.
Proof. intros m j c H. now rewrite lookup_app_end, H, N.eqb_refl. Qed.

Lemma set_mid_begin : forall (m : list (N * cbstate)) j c, lookup j m = None -> set_mid j (Some c) m = m ++ [(j, c)].
Proof. intros m j c H. cbn [set_mid]. now apply put_absent. Qed.

Lemma set_mid_next : forall (m : list (N * cbstate)) j c c', lookup j m = None -> set_mid j (Some c') (m ++ [(j, c)]) = m ++ [(j, c')].
Proof.
  intros m j c c' H. cbn [set_mid]. unfold put. rewrite (lookup_app_new _ _ _ H). now apply alter_app_absent.
Qed.

Lemma set_mid_end : forall (m : list (N * cbstate)) j c, lookup j m = None -> set_mid j None (m ++ [(j, c)]) = m.
Proof. intros m j c H. cbn [set_mid]. now apply remove_app_absent. Qed.

Lemma remove_absent : forall (m : list (N * cbstate)) j, lookup j m = None -> remove j m = m.
Proof.
  induction m as [|[k0 v0] r IH]; intros j H; cbn in *; [reflexivity|]. destruct (N.eqb j k0); [discriminate|]. now rewrite IH.
Qed.

(* a callback that has not begun, run part by part to its end = job_cb *)
Theorem cb_parts_compose : forall fs j jb ok,
  lookup j (mid fs) = None -> find_job j (jobs (base fs)) = Some jb -> j_phase jb = CbPending ok ->
  cb_finish 3 j (fst (cb_part j fs)) = mkF (fst (job_cb j (base fs))) (mid fs) /\
  snd (cb_part j fs) = snd (job_cb j (base fs)).
Proof.
  intros [s m] j jb ok Hm Hf Hp. cbn [base mid] in *.
  unfold cb_part, job_cb. cbn [base mid]. rewrite Hm, Hf, Hp.
  set (s0 := with_jobs (drop_job j (jobs s)) s).
  unfold cb_begin.
  destruct (j_kind jb), ok.
  - (* page-out ok: two parts *)
    cbn [fst snd]. split; [|reflexivity]. rewrite (set_mid_begin _ _ _ Hm).
    rewrite (cb_finish_step _ _ _ _ _ (lookup_app_new _ _ _ Hm)). cbn [cb_next fst snd].
    rewrite (set_mid_end _ _ _ Hm). now rewrite cb_finish_done.
  - (* page-out failed: two or three parts *)
    rewrite (purge_split (j_key jb) s0).
    destruct (purge_pre (j_key jb) s0) as [s1 [sz|]]; cbn [fst snd]; (split; [|reflexivity]); rewrite (set_mid_begin _ _ _ Hm).
    + rewrite (cb_finish_step _ _ _ _ _ (lookup_app_new _ _ _ Hm)). cbn [cb_next fst snd].
      rewrite (set_mid_next _ _ _ _ Hm).
      rewrite (cb_finish_step _ _ _ _ _ (lookup_app_new _ _ _ Hm)). cbn [cb_next fst snd].
      rewrite (set_mid_end _ _ _ Hm). now rewrite cb_finish_done.
    + rewrite (cb_finish_step _ _ _ _ _ (lookup_app_new _ _ _ Hm)). cbn [cb_next fst snd].
      rewrite (set_mid_end _ _ _ Hm). now rewrite cb_finish_done.
  - (* page-in ok: one part *)
    cbn [fst snd set_mid]. split; [|reflexivity]. rewrite (remove_absent _ _ Hm). now rewrite cb_finish_done.
  - (* page-in failed: one or two parts *)
    rewrite (purge_split (j_key jb) s0).
    destruct (purge_pre (j_key jb) s0) as [s1 [sz|]]; cbn [fst snd]; (split; [|reflexivity]).
    + rewrite (set_mid_begin _ _ _ Hm).
      rewrite (cb_finish_step _ _ _ _ _ (lookup_app_new _ _ _ Hm)). cbn [cb_next fst snd].
      rewrite (set_mid_end _ _ _ Hm). now rewrite cb_finish_done.
    + cbn [set_mid]. rewrite (remove_absent _ _ Hm). now rewrite cb_finish_done.
Qed.

(* a history of whole steps is the same history in both models *)
Theorem frun_atomic : forall ops s m,
  (forall j, In (JobCb j) ops -> lookup j m = None) ->
  frun (mkF s m) (map FA ops) = (fst (run s ops), mkF (snd (run s ops)) m).
Proof.
  induction ops as [|o r IH]; intros s m Hm; [reflexivity|].
  cbn [map frun run].
  assert (Hstep : fstep (mkF s m) (FA o) = (mkF (fst (step s o)) m, snd (step s o))).
  { unfold fstep. cbn [base mid].
    destruct o; try (destruct (step s _); reflexivity).
    rewrite (Hm j (or_introl eq_refl)). destruct (step s _); reflexivity. }
  rewrite Hstep. destruct (step s o) as [s' rp]. cbn [fst snd base].
  rewrite (IH s' m) by (intros j Hj; apply Hm; now right).
  destruct (run s' r). reflexivity.
Qed.

(* ------------------------------------------------------------------ 2. `capacity` is read by the admission test of add only *)
Definition lower (p : Z) (s : state) : state :=
  mkSt (capacity s - p) (free s) (lock s) (count s) (dsets s) (segs s) (files s) (jobs s) (next_jid s).

Lemma purge_lower : forall p k s, purge k (lower p s) = lower p (purge k s).
Proof.
  intros p k s. unfold purge. cbn [dsets segs lower].
  destruct (lookup k (dsets s)) as [ds|]; [|reflexivity].
  destruct (d_readers ds); [|reflexivity].
  destruct (d_status ds); try reflexivity; destruct (lookup k (segs s)); reflexivity.
Qed.

Lemma page_out_lower : forall p s k, page_out (lower p s) k = lower p (page_out s k).
Proof. intros p s k. unfold page_out. cbn [dsets lower]. destruct (lookup k (dsets s)); reflexivity. Qed.

Lemma fold_page_out_lower : forall p ws s, fold_left page_out ws (lower p s) = lower p (fold_left page_out ws s).
Proof. induction ws as [|w t IH]; intro s; [reflexivity|]. cbn [fold_left]. now rewrite page_out_lower, IH. Qed.

Lemma poal_lower : forall p fixed amount now s,
  page_out_at_least_gen fixed amount now (lower p s) = lower p (page_out_at_least_gen fixed amount now s).
Proof.
  intros p fixed amount now s. unfold page_out_at_least_gen. cbn [lock dsets lower].
  destruct (lock s); [reflexivity|].
  destruct (lottery (candidates now (dsets s)) amount) as [|w ws]; [reflexivity|].
  change (with_lock true (Z.of_nat (List.length (w :: ws))) (lower p s)) with (lower p (with_lock true (Z.of_nat (List.length (w :: ws))) s)).
  apply fold_page_out_lower.
Qed.

Lemma maybe_delayed_purge_lower : forall p k s, maybe_delayed_purge k (lower p s) = lower p (maybe_delayed_purge k s).
Proof.
  intros p k s. unfold maybe_delayed_purge. cbn [dsets lower]. destruct (lookup k (dsets s)) as [ds|]; [|reflexivity].
  destruct (d_delayed ds && _); [apply purge_lower|reflexivity].
Qed.

Lemma close_lower : forall p k r s, close k r (lower p s) = (lower p (fst (close k r s)), snd (close k r s)).
Proof.
  intros p k r s. unfold close. cbn [dsets segs lower]. destruct (lookup k (dsets s)) as [ds|]; [|reflexivity].
  destruct r as [rd|].
  - destruct (status_eqb (d_status ds) InMemory); [|reflexivity]. cbn [fst snd].
    destruct (lookup rd (d_readers ds)); now rewrite <- maybe_delayed_purge_lower.
  - destruct (status_eqb (d_status ds) Created); [|reflexivity]. cbn [fst snd]. now rewrite <- maybe_delayed_purge_lower.
Qed.

Lemma get_lower : forall p k now u s, get k now u (lower p s) = (lower p (fst (get k now u s)), snd (get k now u s)).
Proof.
  intros p k now u s. unfold get. cbn [dsets free lower]. destruct (lookup k (dsets s)) as [ds|]; [|reflexivity].
  destruct (d_status ds); try reflexivity.
  - destruct (first_fresh u (d_readers ds)); reflexivity.
  - destruct (Z.of_N (d_size ds) >? free s); cbn [fst snd].
    + unfold page_out_at_least. now rewrite poal_lower.
    + unfold page_in. cbn [free dsets lower]. destruct (free s <? Z.of_N (d_size ds)); reflexivity.
Qed.

Lemma job_io_lower : forall p j f s, job_io j f (lower p s) = (lower p (fst (job_io j f s)), snd (job_io j f s)).
Proof.
  intros p j f s. unfold job_io. cbn [jobs lower]. destruct (find_job j (jobs s)) as [jb|]; [|reflexivity].
  destruct (j_phase jb); try reflexivity. cbn [fst snd]. f_equal.
  destruct (j_kind jb).
  - unfold io_page_out. cbn [segs lower]. destruct (lookup (j_key jb) (segs s)); [destruct f|]; reflexivity.
  - unfold io_page_in. cbn [segs files lower]. destruct (j_size jb =? 0)%N; [reflexivity|].
    destruct (lookup (j_key jb) (segs s)); [reflexivity|]. destruct f; [reflexivity|].
    destruct (lookup (j_key jb) (files s)); [|reflexivity]. destruct (_ <=? _)%N; reflexivity.
Qed.

Lemma job_unlink_lower : forall p j s, job_unlink j (lower p s) = (lower p (fst (job_unlink j s)), snd (job_unlink j s)).
Proof.
  intros p j s. unfold job_unlink. cbn [jobs segs lower]. destruct (find_job j (jobs s)) as [jb|]; [|reflexivity].
  destruct (j_kind jb), (j_phase jb); try reflexivity. cbn [fst snd]. destruct (lookup (j_key jb) (segs s)); reflexivity.
Qed.

Lemma job_cb_lower : forall p j s, job_cb j (lower p s) = (lower p (fst (job_cb j s)), snd (job_cb j s)).
Proof.
  intros p j s. unfold job_cb. cbn [jobs lower]. destruct (find_job j (jobs s)) as [jb|]; [|reflexivity].
  destruct (j_phase jb) as [| |ok]; try reflexivity. cbn [fst snd]. f_equal.
  change (with_jobs (drop_job j (jobs s)) (lower p s)) with (lower p (with_jobs (drop_job j (jobs s)) s)).
  set (s0 := with_jobs (drop_job j (jobs s)) s).
  destruct (j_kind jb), ok.
  - destruct (j_orphan jb); reflexivity.
  - rewrite purge_lower. reflexivity.
  - destruct (j_orphan jb); reflexivity.
  - apply purge_lower.
Qed.

Definition is_add (o : op) : bool := match o with Add _ _ _ => true | _ => false end.

Theorem step_lower : forall p s o, is_add o = false -> step (lower p s) o = (lower p (fst (step s o)), snd (step s o)).
Proof.
  intros p s o H. destruct o; cbn [step]; try discriminate.
  - cbn [segs lower]. destruct (lookup k (segs s)); reflexivity.
  - apply close_lower.
  - apply get_lower.
  - cbn [fst snd]. now rewrite purge_lower.
  - apply job_io_lower.
  - apply job_unlink_lower.
  - apply job_cb_lower.
  - reflexivity.
  - reflexivity.
Qed.

Lemma races_lower : forall p s o, races (lower p s) o = races s o.
Proof. intros p s o. destruct o; reflexivity. Qed.

(* every whole step keeps the invariant of a store whose capacity is reduced by what is pending *)
Lemma step_inv_lower : forall p s o, Inv (lower p s) -> races s o = false ->
  Inv (lower p (fst (step s o))) /\ capacity (fst (step s o)) = capacity s.
Proof.
  intros p s o HI Hr.
  destruct (is_add o) eqn:Ha.
  - destruct o; try discriminate. cbn [step]. unfold add.
    destruct (lookup k (dsets s)) eqn:Hl; [auto|].
    destruct (Z.of_N size >? capacity s) eqn:E1; [auto|].
    destruct (Z.of_N size >? free s) eqn:E2; cbn [fst].
    + unfold page_out_at_least. rewrite <- poal_lower.
      destruct (poal_inv true (Z.of_N size - free s) now (lower p s) HI) as [H1 H2]. split; [exact H1|].
      pose proof (poal_lower p true (Z.of_N size - free s) now s) as E. apply (f_equal capacity) in E.
      rewrite H2 in E. cbn [capacity lower] in E. lia.
    + (* granted: the admission test of the reduced store agrees *)
      pose proof (inv_free _ HI) as F. pose proof (resident_nonneg (dsets s)) as R. cbn [free capacity dsets lower] in F.
      destruct (add_inv (lower p s) k size now HI) as [H1 _]. unfold add in H1. cbn [dsets capacity free lower] in H1.
      rewrite Hl in H1.
      assert (E3 : (Z.of_N size >? capacity s - p) = false) by lia. rewrite E3, E2 in H1. cbn [fst] in H1.
      split; [exact H1|reflexivity].
  - rewrite <- (races_lower p) in Hr. destruct (step_inv (lower p s) o HI Hr) as [H1 H2].
    rewrite (step_lower p s o Ha) in H1, H2. cbn [fst] in H1, H2. split; [exact H1|]. cbn [capacity lower] in H2. lia.
Qed.

(* ------------------------------------------------------------------ 3. the invariant with callbacks in flight *)
(* the space a callback in flight has yet to return *)
Definition pend (c : cbstate) : Z := match c with OutOk1 sz => Z.of_N sz | _ => 0 end.
Fixpoint pending (m : list (N * cbstate)) : Z :=
  match m with
  | [] => 0
  | (_, c) :: r => pend c + pending r
  end.

Lemma pend_nonneg : forall c, 0 <= pend c.
Proof. destruct c; cbn; lia. Qed.
Lemma pending_nonneg : forall m, 0 <= pending m.
Proof. induction m as [|[j c] r IH]; cbn; [lia|]. pose proof (pend_nonneg c). lia. Qed.
Lemma pending_app : forall m j c, pending (m ++ [(j, c)]) = pending m + pend c.
Proof. induction m as [|[j0 c0] r IH]; intros j c; cbn; [lia|]. rewrite IH. lia. Qed.
Lemma pending_remove : forall m j c, lookup j m = Some c -> pending (remove j m) = pending m - pend c.
Proof.
  induction m as [|[j0 c0] r IH]; intros j c H; cbn in *; [discriminate|].
  destruct (N.eqb j j0); cbn.
  - inversion H; subst. lia.
  - rewrite (IH _ _ H). lia.
Qed.

Definition only_ok (m : list (N * cbstate)) : Prop := forall j c, In (j, c) m -> exists sz, c = OutOk1 sz.

Record FInv (fs : fstate) : Prop := mkFInv {
  finv_inv : Inv (lower (pending (mid fs)) (base fs));
  finv_ok : only_ok (mid fs);
  finv_keys : NoDup (map fst (mid fs))
}.

Lemma finv_init : forall cap, 0 <= cap -> FInv (finit cap).
Proof.
  intros cap H. constructor; cbn.
  - replace (lower 0 (init cap)) with (init cap); [now apply inv_init|]. unfold lower, init. cbn. f_equal. lia.
  - intros j c [].
  - constructor.
Qed.

(* which steps the invariant is proved for: whole steps that are not the race of C08 (readd-during-pageout), and the parts
   of callbacks of successful page-outs (of a job whose Dataset object is still registered); the other callbacks in one piece *)
Definition fsafe (fs : fstate) (o : fop) : bool :=
  match o with
  | FNop => true
  | FCbPart j =>
      match lookup j (mid fs) with
      | Some _ => true
      | None =>
          match find_job j (jobs (base fs)) with
          | Some jb =>
              match j_phase jb with
              | CbPending ok => match j_kind jb with PageOut => ok && negb (j_orphan jb) | PageIn => false end
              | _ => true
              end
          | None => true
          end
      end
  | FA o => negb (races (base fs) o)
  end.

(* the second part of a successful page-out: the space comes back *)
Lemma inv_lower_credit : forall p s sz,
  Inv (lower p s) -> Inv (lower (p - Z.of_N sz) (count_down (with_free (free s + Z.of_N sz) s))).
Proof.
  intros p s sz [A B C D E]. unfold count_down. constructor; cbn [lower capacity free dsets jobs with_free with_lock] in *; auto; lia.
Qed.

(* the first part: the status goes to on_disk, the space is pending *)
Lemma inv_lower_begin : forall p s j jb,
  Inv (lower p s) -> find_job j (jobs s) = Some jb -> j_kind jb = PageOut -> j_orphan jb = false ->
  Inv (lower (p + Z.of_N (j_size jb))
         (with_dsets (alter (j_key jb) (set_status OnDisk) (dsets s)) (with_jobs (drop_job j (jobs s)) s))).
Proof.
  intros p s j jb HI Hf Hk Ho.
  apply find_job_in in Hf. destruct Hf as [Hin Hid].
  assert (Hin' : In jb (jobs (lower p s))) by exact Hin.
  destruct (inv_jobs _ HI jb Hin' Ho) as [ds [L1 [L2 L3]]]. rewrite Hk in L3. cbn [job_status dsets lower] in L1, L3.
  assert (Huniq : forall x, In x (jobs s) -> j_orphan x = false -> j_key x = j_key jb -> x = jb).
  { intros x Hx Hox Hkk. eapply live_key_unique; eauto. apply (inv_live _ HI). }
  destruct HI as [A B C D E]. cbn [lower capacity free dsets jobs] in *.
  constructor; cbn [lower capacity free dsets jobs with_dsets with_jobs].
  - rewrite (resident_alter _ _ _ _ L1). unfold weight. rewrite L3. cbn. lia.
  - assumption.
  - now rewrite keys_alter.
  - intros x Hx Hox. apply in_drop_job in Hx. destruct Hx as [Hx Hne].
    destruct (D x Hx Hox) as [ds' L]. exists ds'.
    rewrite lookup_alter_other; [assumption|]. intro Hkk. apply Hne. rewrite (Huniq x Hx Hox (eq_sym Hkk)). assumption.
  - now apply live_drop_NoDup.
Qed.

Lemma only_ok_remove : forall m j, only_ok m -> only_ok (remove j m).
Proof. intros m j H j' c Hin. apply (H j' c). eapply in_remove; eauto. Qed.

Lemma cb_part_inv : forall fs j, FInv fs -> fsafe fs (FCbPart j) = true ->
  FInv (fst (cb_part j fs)) /\ capacity (base (fst (cb_part j fs))) = capacity (base fs).
Proof.
  intros [s m] j [HI HO HK] Hs. cbn [base mid] in *. unfold cb_part. cbn [fsafe base mid] in *.
  destruct (lookup j m) as [c|] eqn:Hm.
  - (* the part under the lock *)
    destruct (HO j c (lookup_some_in _ _ _ Hm)) as [sz ->]. cbn [cb_next fst set_mid].
    split; [|reflexivity]. constructor; cbn [base mid].
    + rewrite (pending_remove _ _ _ Hm). cbn [pend]. now apply inv_lower_credit.
    + now apply only_ok_remove.
    + now apply keys_remove_NoDup.
  - destruct (find_job j (jobs s)) as [jb|] eqn:Hf; [|split; [constructor; assumption|reflexivity]].
    destruct (j_phase jb) as [| |ok] eqn:Hp; try (split; [constructor; assumption|reflexivity]).
    destruct (j_kind jb) eqn:Hk; [|discriminate].
    apply andb_true_iff in Hs. destruct Hs as [-> Ho]. apply negb_true_iff in Ho.
    unfold cb_begin. rewrite Hk, Ho. cbn [fst set_mid]. rewrite (put_absent _ _ _ Hm).
    split; [|reflexivity]. constructor; cbn [base mid].
    + rewrite pending_app. cbn [pend]. exact (inv_lower_begin _ _ _ _ HI Hf Hk Ho).
    + intros j' c Hin. apply in_app_iff in Hin. destruct Hin as [Hin|[Hin|[]]]; [eauto|]. inversion Hin. eauto.
    + now apply keys_app_NoDup.
Qed.

Theorem fstep_inv : forall fs o, FInv fs -> fsafe fs o = true ->
  FInv (fst (fstep fs o)) /\ capacity (base (fst (fstep fs o))) = capacity (base fs).
Proof.
  intros fs o HF Hs. destruct o as [o| |j].
  - assert (Hplain : FInv (mkF (fst (step (base fs) o)) (mid fs)) /\ capacity (fst (step (base fs) o)) = capacity (base fs)).
    { cbn [fsafe] in Hs. apply negb_true_iff in Hs. destruct HF as [HI HO HK].
      destruct (step_inv_lower _ _ o HI Hs) as [H1 H2]. split; [constructor; assumption|assumption]. }
    unfold fstep.
    destruct o; try (destruct (step (base fs) _); exact Hplain).
    destruct (lookup j (mid fs)) as [c|] eqn:Hm; [|destruct (step (base fs) _); exact Hplain].
    (* JobCb of a callback in flight: its remaining part *)
    cbn [fst]. destruct fs as [s m]. cbn [base mid] in *.
    destruct (finv_ok _ HF j c (lookup_some_in _ _ _ Hm)) as [sz ->].
    rewrite (cb_finish_step _ _ _ _ _ Hm). cbn [cb_next fst snd set_mid].
    rewrite cb_finish_done by (apply lookup_remove_same; apply (finv_keys _ HF)).
    assert (Hs' : fsafe (mkF s m) (FCbPart j) = true) by (cbn [fsafe mid]; now rewrite Hm).
    pose proof (cb_part_inv (mkF s m) j HF Hs') as H. rewrite (cb_part_mid _ _ _ _ Hm) in H. exact H.
  - cbn [fstep fst]. auto.
  - now apply cb_part_inv.
Qed.

Fixpoint fsafe_run (fs : fstate) (ops : list fop) : bool :=
  match ops with
  | [] => true
  | o :: r => fsafe fs o && fsafe_run (fst (fstep fs o)) r
  end.

Lemma fexec_cons : forall fs o r, fexec fs (o :: r) = fexec (fst (fstep fs o)) r.
Proof.
  intros fs o r. unfold fexec. cbn. destruct (fstep fs o) as [fs' rp]. cbn. destruct (frun fs' r). reflexivity.
Qed.

Theorem frun_inv : forall ops fs, FInv fs -> fsafe_run fs ops = true ->
  FInv (fexec fs ops) /\ capacity (base (fexec fs ops)) = capacity (base fs).
Proof.
  induction ops as [|o r IH]; intros fs HF Hs; [auto|].
  cbn in Hs. apply andb_true_iff in Hs. destruct Hs as [H1 H2].
  rewrite fexec_cons. destruct (fstep_inv fs o HF H1) as [HF' Hc]. destruct (IH _ HF' H2). split; [assumption|congruence].
Qed.

(* C08 with completions in flight: free space never over-reports, what is resident plus what is pending fits the capacity,
   and with no callback in flight the equation is exact *)
Theorem fine_accounting : forall cap ops, 0 <= cap -> fsafe_run (finit cap) ops = true ->
  let fs := fexec (finit cap) ops in
  let s := base fs in
  capacity s = cap /\
  free s = cap - resident (dsets s) - pending (mid fs) /\ 0 <= free s /\ 0 <= pending (mid fs) /\
  resident (dsets s) + pending (mid fs) <= cap /\
  free s <= cap - resident (dsets s) /\
  (mid fs = [] -> free s = cap - resident (dsets s)).
Proof.
  intros cap ops Hc Hs fs s.
  destruct (frun_inv ops (finit cap) (finv_init cap Hc) Hs) as [HF Hcap]. fold fs in HF, Hcap. fold s in Hcap. cbn in Hcap.
  pose proof (inv_free _ (finv_inv _ HF)) as F. pose proof (inv_nonneg _ (finv_inv _ HF)) as B.
  cbn [lower capacity free dsets] in F, B. fold s in F, B. rewrite Hcap in F.
  pose proof (pending_nonneg (mid fs)). pose proof (resident_nonneg (dsets s)).
  repeat split; try lia. intro Hm. rewrite Hm in F. cbn in F. lia.
Qed.

(* an allocation is never granted early, whatever is in flight *)
Theorem fine_add_never_early : forall cap ops k size now, 0 <= cap -> fsafe_run (finit cap) ops = true ->
  let fs := fexec (finit cap) ops in
  forall k', snd (fstep fs (FA (Add k size now))) = RGranted k' ->
    resident (dsets (base fs)) + pending (mid fs) + Z.of_N size <= cap.
Proof.
  intros cap ops k size now Hc Hs fs k' Hg.
  destruct (fine_accounting cap ops Hc Hs) as [Hcap [Hf _]]. fold fs in Hcap, Hf.
  unfold fstep in Hg. cbn [step] in Hg. unfold add in Hg.
  destruct (lookup k (dsets (base fs))); [discriminate|].
  destruct (Z.of_N size >? capacity (base fs)); [discriminate|].
  destruct (Z.of_N size >? free (base fs)) eqn:E; [discriminate|]. lia.
Qed.

(* ------------------------------------------------------------------ 4. how the store comes by its capacity *)
Lemma configure_bounds : forall configured avail,
  0 <= avail -> (forall c, configured = Some c -> 0 <= c) ->
  0 <= configure configured avail <= avail /\
  (forall c, configured = Some c -> c <> 0 -> configure configured avail <= c) /\
  (forall c, configured = Some c -> c <> 0 -> c <= avail -> configure configured avail = c) /\
  (configured = None \/ configured = Some 0 -> configure configured avail = avail).
Proof.
  intros configured avail Ha Hc. unfold configure. destruct configured as [c|].
  - specialize (Hc c eq_refl).
    destruct (c =? 0) eqn:E0; [apply Z.eqb_eq in E0|apply Z.eqb_neq in E0; destruct (c >? avail) eqn:E1];
    (split; [lia|]); (split; [intros c' H; inversion H; subst; lia|]); (split; [intros c' H; inversion H; subst; lia|]);
    (intros [H|H]; [discriminate|inversion H; subst; lia]).
  - (split; [lia|]); (split; [intros c' H; discriminate|]); (split; [intros c' H; discriminate|]). reflexivity.
Qed.

(* a server configured with more than /dev/shm offers (or not configured) works with what is available: from the first
   request on, free space and capacity are BOTH that value *)
Theorem configured_accounting : forall configured avail ops,
  0 <= avail -> (forall c, configured = Some c -> 0 <= c) -> race_free (start configured avail) ops = true ->
  let s := exec (start configured avail) ops in
  capacity s = configure configured avail /\ capacity s <= avail /\
  free s = capacity s - resident (dsets s) /\ 0 <= free s /\ resident (dsets s) <= avail /\
  free (start configured avail) = capacity (start configured avail).
Proof.
  intros configured avail ops Ha Hc Hr s.
  destruct (configure_bounds configured avail Ha Hc) as [[B0 B1] _].
  destruct (accounting (configure configured avail) ops B0 Hr) as [H1 [H2 [H3 [H4 H5]]]].
  fold (start configured avail) in H1, H2, H3, H4, H5. fold s in H1, H2, H3, H4, H5.
  repeat split; try lia; try reflexivity.
Qed.
