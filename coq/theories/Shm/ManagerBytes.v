(* C09, the parts about contents:
   BI  -- where the bytes of every registered dataset are, for every status and every phase of its disk job;
   CI  -- a dataset that left status `created` had its writer's close accepted.
   Both are invariants of every step except the ones named by the side conditions `clean` / `unhurried`. *)
From Coq Require Import List NArith ZArith String Bool Lia Permutation.
From EKW Require Import Shm.Lottery Shm.LotteryProofs Shm.Manager Shm.ManagerProofs Shm.ManagerLive.
Import ListNotations.
Open Scope Z_scope.

(* ------------------------------------------------------------------ side conditions *)
(* a body step (attach+write, or unlink) of a page-out job issued for a Dataset object that was purged meanwhile finds a
   segment under its name *)
Definition orphan_sees_segment (s : state) (j : N) (p : jphase) : bool :=
  match find_job j (jobs s) with
  | Some jb => match j_kind jb with
               | PageOut => (match j_phase jb, p with IoPending, IoPending | UnlinkPending, UnlinkPending => true | _, _ => false end)
                            && j_orphan jb && match lookup (j_key jb) (segs s) with Some _ => true | None => false end
               | PageIn => false
               end
  | None => false
  end.

Definition io_races (s : state) (o : op) : bool :=
  match o with
  | JobIo j _ => orphan_sees_segment s j IoPending
  | JobUnlink j => orphan_sees_segment s j UnlinkPending
  | _ => false
  end.

(* a writer closes a segment whose length is not the granted size *)
Definition untidy (s : state) (o : op) : bool :=
  match o with
  | Close k None =>
      match lookup k (dsets s), lookup k (segs s) with
      | Some ds, Some b => negb (N.of_nat (List.length b) =? d_size ds)%N
      | _, _ => false
      end
  | _ => false
  end.

Fixpoint clean (s : state) (ops : list op) : bool :=
  match ops with
  | [] => true
  | o :: r => negb (races s o) && negb (io_races s o) && negb (untidy s o) && clean (fst (step s o)) r
  end.

Lemma clean_race_free : forall ops s, clean s ops = true -> race_free s ops = true.
Proof.
  induction ops as [|o r IH]; intros s H; [reflexivity|]. cbn in *.
  repeat (apply andb_true_iff in H; destruct H as [H ?]). rewrite H. cbn. now apply IH.
Qed.

(* ------------------------------------------------------------------ where the bytes are *)
Definition at_ (m : list (key * bytes)) (k : key) (ds : dataset) : Prop :=
  forall bs, d_written ds = Some bs -> lookup k m = Some bs.

Definition job_claim (sg fl : list (key * bytes)) (j : job) (ds : dataset) : Prop :=
  match j_kind j, j_phase j with
  | PageOut, IoPending => at_ sg (j_key j) ds
  | PageOut, UnlinkPending => at_ fl (j_key j) ds
  | PageIn, UnlinkPending => True
  | PageOut, CbPending true => at_ fl (j_key j) ds
  | PageIn, IoPending => at_ fl (j_key j) ds
  | PageIn, CbPending true => at_ sg (j_key j) ds
  | _, CbPending false => True
  end.

Record BI (d : list (key * dataset)) (sg fl : list (key * bytes)) (js : list job) : Prop := mkBI {
  b_mem : forall k ds, lookup k d = Some ds -> d_status ds = InMemory -> at_ sg k ds;
  b_disk : forall k ds, lookup k d = Some ds -> d_status ds = OnDisk -> at_ fl k ds;
  b_len : forall k ds bs, lookup k d = Some ds -> d_written ds = Some bs -> N.of_nat (List.length bs) = d_size ds;
  b_fresh : forall k ds, lookup k d = Some ds -> d_status ds = Created -> d_written ds = None;
  b_job : forall j ds, In j js -> j_orphan j = false -> lookup (j_key j) d = Some ds -> job_claim sg fl j ds
}.

Definition BInv (s : state) : Prop := BI (dsets s) (segs s) (files s) (jobs s).

Lemma binv_init : forall cap, BInv (init cap).
Proof. intro cap. constructor; cbn; intros; try discriminate; contradiction. Qed.

(* ---- frames *)
Lemma at_add : forall m k b k' ds, lookup k m = None -> at_ m k' ds -> at_ (m ++ [(k, b)]) k' ds.
Proof. intros m k b k' ds Hn H bs Hw. rewrite lookup_app_end, (H bs Hw). reflexivity. Qed.

Lemma at_remove_other : forall m k k' ds, k <> k' -> at_ m k' ds -> at_ (remove k m) k' ds.
Proof. intros m k k' ds Hne H bs Hw. rewrite lookup_remove_other by assumption. auto. Qed.

Lemma lookup_put_same : forall {V} (d : list (key * V)) k v, lookup k (put k v d) = Some v.
Proof.
  intros V d k v. unfold put. destruct (lookup k d) eqn:E.
  - rewrite lookup_alter_same, E. reflexivity.
  - rewrite lookup_app_end, E, N.eqb_refl. reflexivity.
Qed.

Lemma lookup_put_other : forall {V} (d : list (key * V)) k k' v, k <> k' -> lookup k' (put k v d) = lookup k' d.
Proof.
  intros V d k k' v Hne. unfold put. destruct (lookup k d) eqn:E.
  - now apply lookup_alter_other.
  - rewrite lookup_app_end. destruct (lookup k' d); [reflexivity|].
    destruct (N.eqb k' k) eqn:E'; [apply N.eqb_eq in E'; congruence|reflexivity].
Qed.

Lemma at_put_other : forall m k v k' ds, k <> k' -> at_ m k' ds -> at_ (put k v m) k' ds.
Proof. intros m k v k' ds Hne H bs Hw. rewrite lookup_put_other by assumption. auto. Qed.

Lemma job_claim_frame : forall sg fl sg' fl' j ds,
  (at_ sg (j_key j) ds -> at_ sg' (j_key j) ds) -> (at_ fl (j_key j) ds -> at_ fl' (j_key j) ds) ->
  job_claim sg fl j ds -> job_claim sg' fl' j ds.
Proof.
  intros sg fl sg' fl' j ds Hs Hf H. unfold job_claim in *.
  destruct (j_kind j), (j_phase j) as [| |[|]]; auto.
Qed.

(* mutate the dataset under k, keeping its written bytes and size *)
Lemma bi_alter : forall d sg fl js k f ds,
  BI d sg fl js -> lookup k d = Some ds ->
  d_written (f ds) = d_written ds -> d_size (f ds) = d_size ds ->
  (d_status (f ds) = InMemory -> at_ sg k ds) ->
  (d_status (f ds) = OnDisk -> at_ fl k ds) ->
  (d_status (f ds) = Created -> d_written ds = None) ->
  BI (alter k f d) sg fl js.
Proof.
  intros d sg fl js k f ds [A B C D E] Hl Hw Hs Hm Hd Hc.
  assert (Hat : forall m k0, at_ m k0 ds -> at_ m k0 (f ds)) by (intros m k0 H bs Hb; apply H; congruence).
  constructor.
  - intros k0 ds0 L S0. destruct (N.eq_dec k k0) as [<-|Hne].
    + rewrite lookup_alter_same, Hl in L. inversion L; subst ds0. auto.
    + rewrite lookup_alter_other in L by assumption. eauto.
  - intros k0 ds0 L S0. destruct (N.eq_dec k k0) as [<-|Hne].
    + rewrite lookup_alter_same, Hl in L. inversion L; subst ds0. auto.
    + rewrite lookup_alter_other in L by assumption. eauto.
  - intros k0 ds0 bs L W. destruct (N.eq_dec k k0) as [<-|Hne].
    + rewrite lookup_alter_same, Hl in L. inversion L; subst ds0. rewrite Hs. eapply C; eauto. congruence.
    + rewrite lookup_alter_other in L by assumption. eauto.
  - intros k0 ds0 L S0. destruct (N.eq_dec k k0) as [<-|Hne].
    + rewrite lookup_alter_same, Hl in L. inversion L; subst ds0. rewrite Hw. auto.
    + rewrite lookup_alter_other in L by assumption. eauto.
  - intros j ds0 Hin Ho L. destruct (N.eq_dec k (j_key j)) as [Heq|Hne].
    + rewrite <- Heq, lookup_alter_same, Hl in L. inversion L; subst ds0.
      specialize (E j ds Hin Ho). rewrite <- Heq in E. specialize (E Hl).
      unfold job_claim in *. destruct (j_kind j), (j_phase j) as [| |[|]]; auto.
    + rewrite lookup_alter_other in L by assumption. eauto.
Qed.

Lemma bi_alter_neutral : forall d sg fl js k f,
  BI d sg fl js ->
  (forall ds, d_written (f ds) = d_written ds /\ d_size (f ds) = d_size ds /\ d_status (f ds) = d_status ds) ->
  BI (alter k f d) sg fl js.
Proof.
  intros d sg fl js k f HB Hf. destruct (lookup k d) as [ds|] eqn:Hl.
  - destruct (Hf ds) as [H1 [H2 H3]]. eapply bi_alter; eauto; rewrite H3; intro Hs.
    + eapply b_mem; eauto.
    + eapply b_disk; eauto.
    + eapply b_fresh; eauto.
  - now rewrite (alter_absent _ _ _ Hl).
Qed.

Lemma in_orphan_map_phase : forall k l j',
  In j' (map (orphan_if k) l) -> j_orphan j' = false ->
  exists j, In j l /\ j_orphan j = false /\ j_key j <> k /\ j_key j' = j_key j /\ j_kind j' = j_kind j /\ j_phase j' = j_phase j.
Proof.
  intros k l j' Hin Ho. apply in_map_iff in Hin. destruct Hin as [j [Hj Hin]]. subst j'.
  cbn in Ho. apply orb_false_iff in Ho. destruct Ho as [Ho Hk]. apply N.eqb_neq in Hk.
  exists j. cbn. tauto.
Qed.

Lemma purge_binv : forall s k, Inv s -> BInv s -> BInv (purge k s).
Proof.
  intros s k HI HB. unfold BInv, purge.
  destruct (lookup k (dsets s)) as [ds|] eqn:Hl; [|assumption].
  destruct (d_readers ds) eqn:Hr.
  2:{ unf. apply bi_alter_neutral; [assumption|]. intro d0. repeat split. }
  assert (Hrm : lookup k (remove k (dsets s)) = None).
  { clear -HI. pose proof (inv_keys _ HI) as Hn. induction (dsets s) as [|[k0 v0] r IH]; cbn in *; [reflexivity|].
    inversion Hn as [|? ? Hx Ht]; subst. destruct (N.eqb k k0) eqn:E.
    - apply N.eqb_eq in E. subst k0. destruct (lookup k r) eqn:El; [|reflexivity].
      exfalso. apply Hx. apply lookup_some_in in El. apply in_map_iff. exists (k, d). auto.
    - cbn. rewrite E. now apply IH. }
  destruct (d_status ds) eqn:Hs; try assumption;
  (destruct (lookup k (segs s)) eqn:Hg; [|assumption]);
  (unf; destruct HB as [A B C D E]; constructor;
   [ intros k0 ds0 L S0; destruct (N.eq_dec k k0) as [<-|Hne]; [congruence|];
     rewrite lookup_remove_other in L by assumption; apply at_remove_other; eauto
   | intros k0 ds0 L S0; destruct (N.eq_dec k k0) as [<-|Hne]; [congruence|];
     rewrite lookup_remove_other in L by assumption; eauto
   | intros k0 ds0 bs L W; destruct (N.eq_dec k k0) as [<-|Hne]; [congruence|];
     rewrite lookup_remove_other in L by assumption; eauto
   | intros k0 ds0 L S0; destruct (N.eq_dec k k0) as [<-|Hne]; [congruence|];
     rewrite lookup_remove_other in L by assumption; eauto
   | intros j' ds0 Hin Ho L; destruct (in_orphan_map_phase _ _ _ Hin Ho) as [j [I1 [I2 [I3 [I4 [I5 I6]]]]]];
     rewrite I4 in L; rewrite lookup_remove_other in L by congruence;
     specialize (E j ds0 I1 I2 L); unfold job_claim in *; rewrite I4, I5, I6;
     destruct (j_kind j), (j_phase j) as [| |[|]]; auto; apply at_remove_other; auto ]).
Qed.

Lemma maybe_delayed_purge_binv : forall s k, Inv s -> BInv s -> BInv (maybe_delayed_purge k s).
Proof.
  intros s k HI HB. unfold maybe_delayed_purge. destruct (lookup k (dsets s)) as [ds|]; [|assumption].
  destruct (d_delayed ds && _); [now apply purge_binv|assumption].
Qed.

Lemma bi_submit : forall d sg fl js j,
  BI d sg fl js -> (forall ds, lookup (j_key j) d = Some ds -> job_claim sg fl j ds) -> BI d sg fl (js ++ [j]).
Proof.
  intros d sg fl js j [A B C D E] Hj. constructor; auto.
  intros j0 ds Hin Ho L. apply in_app_iff in Hin. destruct Hin as [Hin|[<-|[]]]; eauto.
Qed.

Lemma page_out_binv : forall s k ds,
  Inv s -> BInv s -> lookup k (dsets s) = Some ds -> (d_status ds = Created \/ d_status ds = InMemory) ->
  BInv (page_out s k).
Proof.
  intros s k ds HI HB Hl Hs. unfold BInv, page_out. rewrite Hl. unf.
  apply bi_submit.
  - eapply bi_alter; eauto; cbn; try discriminate.
  - cbn. intros ds0 L. rewrite lookup_alter_same, Hl in L. inversion L; subst ds0.
    unfold job_claim. cbn. intros bs Hw. cbn in Hw.
    destruct Hs as [Hs|Hs].
    + rewrite (b_fresh _ _ _ _ HB k ds Hl Hs) in Hw. discriminate.
    + exact (b_mem _ _ _ _ HB k ds Hl Hs bs Hw).
Qed.

Lemma fold_page_out_binv : forall ws s,
  Inv s -> BInv s -> NoDup ws ->
  (forall w, In w ws -> exists ds, lookup w (dsets s) = Some ds /\ (d_status ds = Created \/ d_status ds = InMemory)) ->
  BInv (fold_left page_out ws s).
Proof.
  induction ws as [|w t IH]; intros s HI HB Hn Hw; cbn; [assumption|].
  inversion Hn as [|? ? Hx Ht]; subst.
  destruct (Hw w (or_introl eq_refl)) as [ds [Hl Hs]].
  destruct (page_out_inv s w ds HI Hl Hs) as [HI' [Hc Hk]].
  apply IH; auto.
  - eapply page_out_binv; eauto.
  - intros w' Hin. rewrite Hk; [apply Hw; now right|]. intro; subst; contradiction.
Qed.

Lemma binv_same : forall s s', BInv s -> dsets s' = dsets s -> segs s' = segs s -> files s' = files s -> jobs s' = jobs s -> BInv s'.
Proof. intros s s' H H1 H2 H3 H4. unfold BInv. now rewrite H1, H2, H3, H4. Qed.

Lemma poal_binv : forall amount now s, Inv s -> BInv s -> BInv (page_out_at_least amount now s).
Proof.
  intros amount now s HI HB. unfold page_out_at_least, page_out_at_least_gen.
  destruct (lock s); [assumption|].
  destruct (lottery (candidates now (dsets s)) amount) as [|w0 ws] eqn:El.
  - eapply binv_same; eauto.
  - rewrite <- El. apply fold_page_out_binv.
    + eapply inv_same; eauto.
    + eapply binv_same; eauto.
    + apply lottery_NoDup. rewrite candidates_keys. apply NoDup_map_filter. apply (inv_keys _ HI).
    + intros w Hin. apply lottery_in in Hin. destruct Hin as [e [He Hk]].
      unfold candidates in He. apply in_map_iff in He. destruct He as [[k ds] [He Hin]].
      apply filter_In in Hin. destruct Hin as [Hin Hp]. subst e. cbn in Hk. subst w. cbn in Hp.
      exists ds. unf. split; [apply in_lookup; [apply (inv_keys _ HI)|assumption]|]. eapply pageoutable_status; eauto.
Qed.

(* ------------------------------------------------------------------ every step keeps BI *)
Lemma add_binv : forall s k size now, Inv s -> BInv s -> BInv (fst (add k size now s)).
Proof.
  intros s k size now HI HB. unfold add.
  destruct (lookup k (dsets s)) eqn:Hl; [assumption|].
  destruct (Z.of_N size >? capacity s); [assumption|].
  destruct (Z.of_N size >? free s); cbn [fst]; [now apply poal_binv|].
  unfold BInv. unf. destruct HB as [A B C D E]. constructor.
  - intros k0 ds0 L S0. rewrite lookup_app_end in L. destruct (lookup k0 (dsets s)) eqn:L0.
    + inversion L; subst. eauto.
    + destruct (N.eqb k0 k); [inversion L; subst; discriminate|discriminate].
  - intros k0 ds0 L S0. rewrite lookup_app_end in L. destruct (lookup k0 (dsets s)) eqn:L0.
    + inversion L; subst. eauto.
    + destruct (N.eqb k0 k); [inversion L; subst; discriminate|discriminate].
  - intros k0 ds0 bs L W. rewrite lookup_app_end in L. destruct (lookup k0 (dsets s)) eqn:L0.
    + inversion L; subst. eauto.
    + destruct (N.eqb k0 k); [inversion L; subst; discriminate|discriminate].
  - intros k0 ds0 L S0. rewrite lookup_app_end in L. destruct (lookup k0 (dsets s)) eqn:L0.
    + inversion L; subst. eauto.
    + destruct (N.eqb k0 k); [inversion L; subst; reflexivity|discriminate].
  - intros j ds0 Hin Ho L. rewrite lookup_app_end in L.
    destruct (inv_jobs _ HI j Hin Ho) as [ds' [L1 _]]. rewrite L1 in L. inversion L; subst. eauto.
Qed.

Lemma write_binv : forall s k b, BInv s -> lookup k (segs s) = None -> BInv (with_segs (segs s ++ [(k, b)]) s).
Proof.
  intros s k b [A B C D E] Hn. unfold BInv. unf. constructor; auto.
  - intros k0 ds0 L S0. apply at_add; eauto.
  - intros j ds0 Hin Ho L. eapply job_claim_frame; [| |eapply E; eauto]; auto. intro H. now apply at_add.
Qed.

Lemma close_binv : forall s k r, Inv s -> BInv s -> untidy s (Close k r) = false -> BInv (fst (close k r s)).
Proof.
  intros s k r HI HB Ht. unfold close.
  destruct (lookup k (dsets s)) as [ds|] eqn:Hl; [|assumption].
  destruct r as [rd|].
  - destruct (status_eqb (d_status ds) InMemory) eqn:Es; [|assumption]. cbn [fst].
    destruct (lookup rd (d_readers ds)).
    + apply maybe_delayed_purge_binv.
      * apply inv_alter_neutral; [assumption|]. intro d0. split; reflexivity.
      * unfold BInv. unf. apply bi_alter_neutral; [assumption|]. intro d0. repeat split.
    + now apply maybe_delayed_purge_binv.
  - destruct (status_eqb (d_status ds) Created) eqn:Es; [|assumption]. cbn [fst].
    apply status_eqb_eq in Es.
    assert (Hno : forall j, In j (jobs s) -> j_orphan j = false -> j_key j = k -> False).
    { intros j. eapply no_live_job; eauto; rewrite Es; discriminate. }
    apply maybe_delayed_purge_binv.
    + eapply inv_alter; eauto.
      * unfold weight. cbn. rewrite Es. reflexivity.
      * intros j Hin Ho Hk. exfalso. eauto.
    + unfold BInv. unf. destruct HB as [A B C D E]. constructor.
      * intros k0 ds0 L S0. destruct (N.eq_dec k k0) as [<-|Hne].
        -- rewrite lookup_alter_same, Hl in L. inversion L; subst ds0. intros bs Hw. cbn in Hw. exact Hw.
        -- rewrite lookup_alter_other in L by assumption. eauto.
      * intros k0 ds0 L S0. destruct (N.eq_dec k k0) as [<-|Hne].
        -- rewrite lookup_alter_same, Hl in L. inversion L; subst ds0. discriminate.
        -- rewrite lookup_alter_other in L by assumption. eauto.
      * intros k0 ds0 bs L W. destruct (N.eq_dec k k0) as [<-|Hne].
        -- rewrite lookup_alter_same, Hl in L. inversion L; subst ds0. cbn in *.
           unfold untidy in Ht. rewrite Hl, W in Ht. apply negb_false_iff in Ht. now apply N.eqb_eq in Ht.
        -- rewrite lookup_alter_other in L by assumption. eauto.
      * intros k0 ds0 L S0. destruct (N.eq_dec k k0) as [<-|Hne].
        -- rewrite lookup_alter_same, Hl in L. inversion L; subst ds0. discriminate.
        -- rewrite lookup_alter_other in L by assumption. eauto.
      * intros j ds0 Hin Ho L. destruct (N.eq_dec k (j_key j)) as [Heq|Hne]; [exfalso; eauto|].
        rewrite lookup_alter_other in L by assumption. eauto.
Qed.

Lemma get_binv : forall s k now u, Inv s -> BInv s -> BInv (fst (get k now u s)).
Proof.
  intros s k now u HI HB. unfold get.
  destruct (lookup k (dsets s)) as [ds|] eqn:Hl; [|assumption].
  destruct (d_status ds) eqn:Es; try assumption.
  - destruct (first_fresh u (d_readers ds)); [|assumption]. cbn [fst].
    unfold BInv. unf. apply bi_alter_neutral; [assumption|]. intro d0. repeat split.
  - destruct (Z.of_N (d_size ds) >? free s); cbn [fst]; [now apply poal_binv|].
    unfold page_in. unf. destruct (free s <? Z.of_N (d_size ds)); cbn [fst]; unfold BInv; unf.
    + eapply bi_alter; eauto; cbn; try discriminate.
    + apply bi_submit.
      * eapply bi_alter; eauto; cbn; try discriminate.
      * cbn. intros ds0 L. rewrite lookup_alter_same, Hl in L. inversion L; subst ds0.
        unfold job_claim. cbn. intros bs Hw. cbn in Hw. exact (b_disk _ _ _ _ HB k ds Hl Es bs Hw).
Qed.

Lemma zeros_0 : zeros 0 = [].
Proof. reflexivity. Qed.

Lemma bi_io_frame : forall d sg fl sg' fl' js j p,
  BI d sg fl js ->
  (forall k ds, lookup k d = Some ds -> d_status ds = InMemory -> at_ sg k ds -> at_ sg' k ds) ->
  (forall k ds, lookup k d = Some ds -> d_status ds = OnDisk -> at_ fl k ds -> at_ fl' k ds) ->
  (forall y ds, In y js -> j_orphan y = false -> lookup (j_key y) d = Some ds -> job_claim sg fl y ds ->
     job_claim sg' fl' (if N.eqb (j_id y) j then set_phase p y else y) ds) ->
  BI d sg' fl' (update_job j (set_phase p) js).
Proof.
  intros d sg fl sg' fl' js j p [A B C D E] H1 H2 H3. constructor; eauto.
  intros x ds Hin Ho L. unfold update_job in Hin. apply in_map_iff in Hin. destruct Hin as [y [Hy Hin]].
  specialize (H3 y ds Hin). subst x. destruct (N.eqb (j_id y) j); cbn in *; eauto.
Qed.

Lemma job_step_setup : forall s jb,
  Inv s -> NoDup (map j_id (jobs s)) -> In jb (jobs s) ->
  (forall y, In y (jobs s) -> N.eqb (j_id y) (j_id jb) = true -> y = jb) /\
  (forall y, In y (jobs s) -> j_orphan y = false -> j_orphan jb = false -> N.eqb (j_id y) (j_id jb) = false -> j_key y <> j_key jb).
Proof.
  intros s jb HI Hids Hin. split.
  - intros y Hy E. apply N.eqb_eq in E. eapply (NoDup_map_inj_in j_id); eauto.
  - intros y Hy Hoy Hob E Hk. assert (y = jb) by (eapply live_key_unique; eauto; apply (inv_live _ HI)).
    subst y. rewrite N.eqb_refl in E. discriminate.
Qed.

(* a failing body step changes nothing but the phase (and may add a segment under a name that had none) *)
Lemma bi_fail : forall s jb sg',
  BInv s -> (forall k ds, at_ (segs s) k ds -> at_ sg' k ds) ->
  BI (dsets s) sg' (files s) (update_job (j_id jb) (set_phase (CbPending false)) (jobs s)).
Proof.
  intros s jb sg' HB Hsg. eapply bi_io_frame; [exact HB| | |]; eauto.
  intros y ds Hy Hoy Ly Hc. destruct (N.eqb (j_id y) (j_id jb)) eqn:E.
  - unfold job_claim. cbn. destruct (j_kind y); exact I.
  - eapply job_claim_frame; [| |exact Hc]; auto.
Qed.

Lemma job_io_binv : forall s j f,
  Inv s -> NoDup (map j_id (jobs s)) -> BInv s -> io_races s (JobIo j f) = false -> BInv (fst (job_io j f s)).
Proof.
  intros s j f HI Hids HB Hr. unfold job_io. cbn [io_races] in Hr. unfold orphan_sees_segment in Hr.
  destruct (find_job j (jobs s)) as [jb|] eqn:Hf; [|assumption].
  destruct (j_phase jb) eqn:Hp; [|assumption|assumption]. cbn [fst].
  apply find_job_in in Hf. destruct Hf as [Hin Hid]. subst j.
  destruct (job_step_setup s jb HI Hids Hin) as [Hsame Hother].
  destruct (j_kind jb) eqn:Hk.
  - (* page-out body, first half: the file is written *)
    unfold io_page_out, finish_io, to_phase. destruct (lookup (j_key jb) (segs s)) as [bs|] eqn:Hg; [|unfold BInv; unf; apply bi_fail; auto].
    destruct f; [unfold BInv; unf; apply bi_fail; auto|].
    destruct (j_orphan jb) eqn:Ho; [discriminate|].
    destruct (inv_jobs _ HI jb Hin Ho) as [ds [L1 [L2 L3]]]. rewrite Hk in L3. cbn in L3.
    unfold BInv. unf.
    eapply bi_io_frame; [exact HB| | |].
    + auto.
    + intros k0 ds0 L S0 H. destruct (N.eq_dec (j_key jb) k0) as [<-|Hne]; [congruence|]. now apply at_put_other.
    + intros y dy Hy Hoy Ly Hc. destruct (N.eqb (j_id y) (j_id jb)) eqn:E.
      * rewrite (Hsame y Hy E) in *. rewrite L1 in Ly. inversion Ly; subst dy.
        unfold job_claim in *. cbn. rewrite Hk, Hp in *. intros w Hw. specialize (Hc w Hw).
        rewrite Hg in Hc. inversion Hc; subst w. apply lookup_put_same.
      * pose proof (Hother y Hy Hoy eq_refl E) as Hne.
        eapply job_claim_frame; [| |exact Hc]; intro H; [assumption|apply at_put_other]; auto.
  - (* page-in body: at most a segment is added under a name that had none *)
    unfold io_page_in, finish_io, to_phase. destruct (j_size jb =? 0)%N eqn:Ez; [unfold BInv; unf; apply bi_fail; auto|].
    destruct (lookup (j_key jb) (segs s)) eqn:Hg; [unfold BInv; unf; apply bi_fail; auto|].
    assert (Hadd : forall c k ds, at_ (segs s) k ds -> at_ (segs s ++ [(j_key jb, c)]) k ds) by (intros; now apply at_add).
    destruct f; [unfold BInv; unf; apply bi_fail; auto|].
    destruct (lookup (j_key jb) (files s)) as [fc|] eqn:Hfl; [|unfold BInv; unf; apply bi_fail; auto].
    destruct (N.of_nat (List.length fc) <=? j_size jb)%N eqn:Elen; [|unfold BInv; unf; apply bi_fail; auto].
    unfold BInv. unf.
    eapply bi_io_frame; [exact HB| | |]; eauto.
    intros y dy Hy Hoy Ly Hc. destruct (N.eqb (j_id y) (j_id jb)) eqn:E.
    + rewrite (Hsame y Hy E) in *.
      destruct (inv_jobs _ HI jb Hin Hoy) as [ds [L1 [L2 L3]]]. rewrite L1 in Ly. inversion Ly; subst dy.
      unfold job_claim in *. cbn. rewrite Hk, Hp in *. intros w Hw. specialize (Hc w Hw).
      rewrite Hfl in Hc. inversion Hc; subst fc.
      pose proof (b_len _ _ _ _ HB (j_key jb) ds w L1 Hw) as Hl. rewrite L2 in Hl.
      rewrite lookup_app_end, Hg, N.eqb_refl. rewrite Hl, N.sub_diag, zeros_0, app_nil_r. reflexivity.
    + eapply job_claim_frame; [| |exact Hc]; auto.
Qed.

Lemma job_unlink_binv : forall s j,
  Inv s -> NoDup (map j_id (jobs s)) -> BInv s -> io_races s (JobUnlink j) = false -> BInv (fst (job_unlink j s)).
Proof.
  intros s j HI Hids HB Hr. unfold job_unlink. cbn [io_races] in Hr. unfold orphan_sees_segment in Hr.
  destruct (find_job j (jobs s)) as [jb|] eqn:Hf; [|assumption].
  destruct (j_kind jb) eqn:Hk; [|assumption].
  destruct (j_phase jb) eqn:Hp; try assumption. cbn [fst].
  apply find_job_in in Hf. destruct Hf as [Hin Hid]. subst j.
  destruct (job_step_setup s jb HI Hids Hin) as [Hsame Hother].
  unfold finish_io, to_phase.
  destruct (lookup (j_key jb) (segs s)) as [bs|] eqn:Hg; [|unfold BInv; unf; apply bi_fail; auto].
  destruct (j_orphan jb) eqn:Ho; [discriminate|].
  destruct (inv_jobs _ HI jb Hin Ho) as [ds [L1 [L2 L3]]]. rewrite Hk in L3. cbn in L3.
  unfold BInv. unf.
  eapply bi_io_frame; [exact HB| | |].
  - intros k0 ds0 L S0 H. destruct (N.eq_dec (j_key jb) k0) as [<-|Hne]; [congruence|]. now apply at_remove_other.
  - auto.
  - intros y dy Hy Hoy Ly Hc. destruct (N.eqb (j_id y) (j_id jb)) eqn:E.
    + rewrite (Hsame y Hy E) in *. unfold job_claim in *. cbn. rewrite Hk, Hp in *. exact Hc.
    + pose proof (Hother y Hy Hoy eq_refl E) as Hne.
      eapply job_claim_frame; [| |exact Hc]; intro H; [apply at_remove_other|]; auto.
Qed.

Lemma drop_binv : forall s j, BInv s -> BInv (with_jobs (drop_job j (jobs s)) s).
Proof.
  intros s j [A B C D E]. unfold BInv. unf. constructor; auto.
  intros x ds Hin. apply in_drop_job in Hin. apply E. tauto.
Qed.

Lemma job_cb_binv : forall s j, Inv s -> BInv s -> races s (JobCb j) = false -> BInv (fst (job_cb j s)).
Proof.
  intros s j HI HB Hr. unfold job_cb. unfold races in Hr.
  destruct (find_job j (jobs s)) as [jb|] eqn:Hf; [|assumption].
  destruct (j_phase jb) as [| |ok] eqn:Hp; [assumption|assumption|]. cbn [fst].
  apply find_job_in in Hf. destruct Hf as [Hin Hid].
  pose proof (drop_inv s j HI) as HI0. pose proof (drop_binv s j HB) as HB0.
  set (s0 := with_jobs (drop_job j (jobs s)) s) in *.
  assert (Hclaim : j_orphan jb = false -> exists ds, lookup (j_key jb) (dsets s0) = Some ds /\ job_claim (segs s0) (files s0) jb ds).
  { intro Ho. destruct (inv_jobs _ HI jb Hin Ho) as [ds [L1 _]]. exists ds. subst s0. unf. split; [assumption|].
    exact (b_job _ _ _ _ HB jb ds Hin Ho L1). }
  destruct (j_kind jb) eqn:Hk, ok.
  - destruct (j_orphan jb) eqn:Ho; [discriminate|].
    destruct (Hclaim eq_refl) as [ds [L1 Hc]]. unfold job_claim in Hc. rewrite Hk, Hp in Hc.
    unfold count_down. eapply binv_same with (s := with_dsets (alter (j_key jb) (set_status OnDisk) (dsets s0)) s0); try reflexivity.
    unfold BInv. unf. eapply bi_alter; eauto; cbn; try discriminate.
  - unfold count_down. eapply binv_same with (s := purge (j_key jb) s0); try reflexivity. now apply purge_binv.
  - destruct (j_orphan jb) eqn:Ho; [assumption|].
    destruct (Hclaim eq_refl) as [ds [L1 Hc]]. unfold job_claim in Hc. rewrite Hk, Hp in Hc.
    unfold BInv. unf. eapply bi_alter; eauto; cbn; try discriminate.
  - now apply purge_binv.
Qed.

Theorem step_binv : forall s o,
  Inv s -> NoDup (map j_id (jobs s)) -> BInv s ->
  races s o = false -> io_races s o = false -> untidy s o = false -> BInv (fst (step s o)).
Proof.
  intros s o HI Hids HB H1 H2 H3. destruct o; cbn [step].
  - now apply add_binv.
  - destruct (lookup k (segs s)) eqn:E; cbn [fst]; [assumption|now apply write_binv].
  - now apply close_binv.
  - now apply get_binv.
  - cbn [fst]. now apply purge_binv.
  - now apply job_io_binv.
  - now apply job_unlink_binv.
  - now apply job_cb_binv.
  - assumption.
  - assumption.
Qed.

Theorem run_binv : forall ops s,
  Inv s -> LInv s -> BInv s -> clean s ops = true ->
  Inv (exec s ops) /\ BInv (exec s ops).
Proof.
  induction ops as [|o r IH]; intros s HI HL HB Hc; [auto|].
  cbn in Hc. repeat (apply andb_true_iff in Hc; destruct Hc as [Hc ?]).
  apply negb_true_iff in Hc. apply negb_true_iff in H1. apply negb_true_iff in H0.
  rewrite exec_cons. apply IH; auto.
  - apply step_inv; auto.
  - now apply step_linv.
  - apply step_binv; auto. apply (l_nodup _ HL).
Qed.

(* a granted get hands out the dataset's own segment and size, and that segment holds what the writer left *)
Theorem get_returns_written_bytes : forall cap ops k now u shmid l rd,
  0 <= cap -> clean (init cap) ops = true ->
  let s := exec (init cap) ops in
  snd (step s (Get k now u)) = RGot shmid l rd ->
  shmid = k /\
  exists ds, lookup k (dsets s) = Some ds /\ d_status ds = InMemory /\ l = d_size ds /\
    forall bs, d_written ds = Some bs -> lookup k (segs s) = Some bs /\ N.of_nat (List.length bs) = l.
Proof.
  intros cap ops k now u shmid l rd Hc Hcl s Hg.
  destruct (run_binv ops (init cap) (inv_init cap Hc) (linv_init cap) (binv_init cap) Hcl) as [HI HB].
  fold s in HI, HB. cbn [step] in Hg. unfold get in Hg.
  destruct (lookup k (dsets s)) as [ds|] eqn:Hl; [|discriminate].
  destruct (d_status ds) eqn:Es; try discriminate.
  - destruct (first_fresh u (d_readers ds)); [|discriminate]. cbn in Hg. injection Hg as E1 E2 E3. subst shmid l rd.
    split; [reflexivity|]. exists ds. split; [reflexivity|]. split; [exact Es|]. split; [reflexivity|].
    intros bs Hw. split.
    + exact (b_mem _ _ _ _ HB k ds Hl Es bs Hw).
    + exact (b_len _ _ _ _ HB k ds bs Hl Hw).
  - destruct (Z.of_N (d_size ds) >? free s); [discriminate|]. unfold page_in in Hg.
    destruct (free s <? Z.of_N (d_size ds)); discriminate.
Qed.

(* the finding at the io half: K is purged while its page-out is pending, allocated, written and closed again; the job
   takes the new segment to disk: K is readable, and its bytes are gone *)
Definition bytes_witness : list op := [
  Add 0%N 6%N 10; Write 0%N [1;2;3;4;5;6]%N; Close 0%N None; Add 1%N 6%N 20; Purge 0%N;
  Add 0%N 6%N 30; Write 0%N [10;11;12;13;14;15]%N; Close 0%N None; JobIo 0%N false; JobUnlink 0%N; JobCb 0%N ].

Theorem bytes_refuted :
  exists cap ops k now u bs,
    0 <= cap /\
    let s := exec (init cap) ops in
    snd (step s (Get k now u)) = RGot k 6 1 /\
    (exists ds, lookup k (dsets s) = Some ds /\ d_written ds = Some bs) /\ lookup k (segs s) = None.
Proof.
  exists 10, bytes_witness, 0%N, 40, [1%N], [10;11;12;13;14;15]%N. split; [lia|]. cbv zeta.
  split; [vm_compute; reflexivity|]. split; [|vm_compute; reflexivity].
  eexists. split; vm_compute; reflexivity.
Qed.

(* ------------------------------------------------------------------ not readable before the writer's close *)
Definition slow_writer (s : state) (o : op) : bool :=
  match o with
  | Add _ _ now | Get _ now _ =>
      existsb (fun kd => status_eqb (d_status (snd kd)) Created && (now - d_created (snd kd) >? STALE_CREATE)) (dsets s)
  | _ => false
  end.

Fixpoint unhurried (s : state) (ops : list op) : bool :=
  match ops with
  | [] => true
  | o :: r => negb (slow_writer s o) && unhurried (fst (step s o)) r
  end.

Definition CI (d : list (key * dataset)) : Prop :=
  forall k ds, lookup k d = Some ds -> d_status ds <> Created -> d_closed ds = true.

Lemma ci_alter : forall d k f ds,
  CI d -> lookup k d = Some ds -> (d_status (f ds) <> Created -> d_closed (f ds) = true) -> CI (alter k f d).
Proof.
  intros d k f ds H Hl Hf k0 ds0 L S0. destruct (N.eq_dec k k0) as [<-|Hne].
  - rewrite lookup_alter_same, Hl in L. inversion L; subst. auto.
  - rewrite lookup_alter_other in L by assumption. eauto.
Qed.

Lemma ci_alter_neutral : forall d k f,
  CI d -> (forall ds, d_status (f ds) = d_status ds /\ d_closed (f ds) = d_closed ds) -> CI (alter k f d).
Proof.
  intros d k f H Hf. destruct (lookup k d) as [ds|] eqn:Hl.
  - eapply ci_alter; eauto. destruct (Hf ds) as [-> ->]. eauto.
  - now rewrite (alter_absent _ _ _ Hl).
Qed.

Lemma purge_ci : forall s k, NoDup (map fst (dsets s)) -> CI (dsets s) -> CI (dsets (purge k s)).
Proof.
  intros s k Hn H. unfold purge. destruct (lookup k (dsets s)) as [ds|] eqn:Hl; [|assumption].
  destruct (d_readers ds).
  2:{ unf. apply ci_alter_neutral; [assumption|]. intro d0. split; reflexivity. }
  destruct (d_status ds); try assumption; (destruct (lookup k (segs s)); [|assumption]); unf;
    intros k0 ds0 L S0; (destruct (N.eq_dec k k0) as [<-|Hne]; [rewrite lookup_remove_same in L by assumption; discriminate|]);
    rewrite lookup_remove_other in L by assumption; eauto.
Qed.

Lemma purge_keys : forall s k, NoDup (map fst (dsets s)) -> NoDup (map fst (dsets (purge k s))).
Proof. intros s k Hn. unfold purge. destruct (lookup k (dsets s)) as [ds|]; [|assumption].
  destruct (d_readers ds); [|unf; now rewrite keys_alter].
  destruct (d_status ds); try assumption; (destruct (lookup k (segs s)); [|assumption]); unf; now apply keys_remove_NoDup.
Qed.

Lemma fold_page_out_ci : forall ws s,
  CI (dsets s) -> NoDup ws ->
  (forall w, In w ws -> exists ds, lookup w (dsets s) = Some ds /\ d_status ds = InMemory) ->
  CI (dsets (fold_left page_out ws s)).
Proof.
  induction ws as [|w t IH]; intros s H Hn Hw; cbn; [assumption|].
  inversion Hn as [|? ? Hx Ht]; subst.
  destruct (Hw w (or_introl eq_refl)) as [ds [Hl Hs]].
  apply IH; auto.
  - unfold page_out. rewrite Hl. unf. eapply ci_alter; eauto. intros _. cbn. apply (H w ds Hl). rewrite Hs. discriminate.
  - intros w' Hin. unfold page_out. rewrite Hl. unf. rewrite lookup_alter_other; [apply Hw; now right|]. intro; subst; contradiction.
Qed.

Lemma poal_ci : forall amount now s,
  NoDup (map fst (dsets s)) -> CI (dsets s) ->
  existsb (fun kd => status_eqb (d_status (snd kd)) Created && (now - d_created (snd kd) >? STALE_CREATE)) (dsets s) = false ->
  CI (dsets (page_out_at_least amount now s)).
Proof.
  intros amount now s Hn H Hex. unfold page_out_at_least, page_out_at_least_gen.
  destruct (lock s); [assumption|].
  destruct (lottery (candidates now (dsets s)) amount) as [|w0 ws] eqn:El; [assumption|].
  rewrite <- El. apply fold_page_out_ci; [assumption| |].
  - apply lottery_NoDup. rewrite candidates_keys. now apply NoDup_map_filter.
  - intros w Hin. apply lottery_in in Hin. destruct Hin as [e [He Hk]].
    unfold candidates in He. apply in_map_iff in He. destruct He as [[k ds] [He Hin]].
    apply filter_In in Hin. destruct Hin as [Hin Hp]. subst e. cbn in Hk. subst w. cbn in Hp.
    exists ds. unf. split; [now apply in_lookup|].
    destruct (pageoutable_idle now ds Hp) as [[Hs Hst]|[Hs _]]; [|assumption].
    exfalso. assert (Hx : existsb (fun kd => status_eqb (d_status (snd kd)) Created && (now - d_created (snd kd) >? STALE_CREATE)) (dsets s) = true).
    { apply existsb_exists. exists (k, ds). split; [assumption|]. cbn. rewrite Hs. cbn. apply Z.gtb_lt. lia. }
    congruence.
Qed.

Lemma poal_keys : forall amount now s, map fst (dsets (page_out_at_least amount now s)) = map fst (dsets s).
Proof. intros. apply poal_free_keys. Qed.

Lemma maybe_delayed_purge_ci : forall s k, NoDup (map fst (dsets s)) -> CI (dsets s) -> CI (dsets (maybe_delayed_purge k s)).
Proof.
  intros s k Hn H. unfold maybe_delayed_purge. destruct (lookup k (dsets s)) as [ds|]; [|assumption].
  destruct (d_delayed ds && _); [now apply purge_ci|assumption].
Qed.

Theorem step_ci : forall s o, Inv s -> CI (dsets s) -> races s o = false -> slow_writer s o = false -> CI (dsets (fst (step s o))).
Proof.
  intros s o HI H Hr Hsl. pose proof (inv_keys _ HI) as Hn. destruct o; cbn [step].
  - unfold add. destruct (lookup k (dsets s)) eqn:Hl; [assumption|].
    destruct (Z.of_N size >? capacity s); [assumption|].
    destruct (Z.of_N size >? free s); cbn [fst]; [now apply poal_ci|]. unf.
    intros k0 ds0 L S0. rewrite lookup_app_end in L. destruct (lookup k0 (dsets s)) eqn:L0.
    + inversion L; subst. eauto.
    + destruct (N.eqb k0 k); [inversion L; subst; cbn in S0; congruence|discriminate].
  - destruct (lookup k (segs s)); assumption.
  - unfold close. destruct (lookup k (dsets s)) as [ds|] eqn:Hl; [|assumption].
    destruct rdid as [rd|].
    + destruct (status_eqb (d_status ds) InMemory); [|assumption]. cbn [fst].
      destruct (lookup rd (d_readers ds)); apply maybe_delayed_purge_ci; auto; unf.
      * now rewrite keys_alter.
      * apply ci_alter_neutral; [assumption|]. intro d0. split; reflexivity.
    + destruct (status_eqb (d_status ds) Created); [|assumption]. cbn [fst].
      apply maybe_delayed_purge_ci; unf; [now rewrite keys_alter|].
      eapply ci_alter; eauto.
  - unfold get. destruct (lookup k (dsets s)) as [ds|] eqn:Hl; [|assumption].
    destruct (d_status ds) eqn:Es; try assumption.
    + destruct (first_fresh uuids (d_readers ds)); [|assumption]. cbn [fst]. unf.
      apply ci_alter_neutral; [assumption|]. intro d0. split; reflexivity.
    + destruct (Z.of_N (d_size ds) >? free s); cbn [fst]; [now apply poal_ci|].
      unfold page_in. destruct (free s <? Z.of_N (d_size ds)); cbn [fst]; unf;
        (eapply ci_alter; eauto; intros _; cbn; apply (H k ds Hl); rewrite Es; discriminate).
  - cbn [fst]. now apply purge_ci.
  - unfold job_io. destruct (find_job j (jobs s)) as [jb|]; [|assumption].
    destruct (j_phase jb); [|assumption|assumption]. cbn [fst]. destruct (j_kind jb).
    + unfold io_page_out. destruct (lookup (j_key jb) (segs s)); [destruct fault|]; assumption.
    + unfold io_page_in. destruct (j_size jb =? 0)%N; [assumption|].
      destruct (lookup (j_key jb) (segs s)); [assumption|]. destruct fault; [assumption|].
      destruct (lookup (j_key jb) (files s)); [|assumption]. destruct (_ <=? _)%N; assumption.
  - unfold job_unlink. destruct (find_job j (jobs s)) as [jb|]; [|assumption].
    destruct (j_kind jb), (j_phase jb); try assumption. cbn [fst]. destruct (lookup (j_key jb) (segs s)); assumption.
  - unfold job_cb. unfold races in Hr.
    destruct (find_job j (jobs s)) as [jb|] eqn:Hf; [|assumption].
    destruct (j_phase jb) as [| |ok]; [assumption|assumption|]. cbn [fst].
    apply find_job_in in Hf. destruct Hf as [Hin Hid].
    assert (Hlive : j_orphan jb = false -> exists ds, lookup (j_key jb) (dsets s) = Some ds /\ d_status ds = job_status (j_kind jb)).
    { intro Ho. destruct (inv_jobs _ HI jb Hin Ho) as [ds [L1 [_ L3]]]. eauto. }
    destruct (j_kind jb) eqn:Hk, ok.
    + destruct (j_orphan jb); [discriminate|]. destruct (Hlive eq_refl) as [ds [L1 L3]]. cbn in L3.
      unfold count_down. unf. eapply ci_alter; eauto. intros _. cbn. apply (H _ _ L1). rewrite L3. discriminate.
    + unfold count_down. unf. apply purge_ci; unf; assumption.
    + destruct (j_orphan jb); [assumption|]. destruct (Hlive eq_refl) as [ds [L1 L3]]. cbn in L3.
      unf. eapply ci_alter; eauto. intros _. cbn. apply (H _ _ L1). rewrite L3. discriminate.
    + apply purge_ci; unf; assumption.
  - assumption.
  - assumption.
Qed.

Theorem run_ci : forall ops s, Inv s -> CI (dsets s) -> race_free s ops = true -> unhurried s ops = true ->
  CI (dsets (exec s ops)).
Proof.
  induction ops as [|o r IH]; intros s HI H Hr Hu; [assumption|].
  cbn in Hr, Hu. apply andb_true_iff in Hr. destruct Hr as [R1 R2]. apply andb_true_iff in Hu. destruct Hu as [U1 U2].
  apply negb_true_iff in R1. apply negb_true_iff in U1.
  rewrite exec_cons. apply IH; auto.
  - now apply step_inv.
  - now apply step_ci.
Qed.

Theorem get_granted_closed : forall cap ops k now u shmid l rd,
  0 <= cap -> race_free (init cap) ops = true -> unhurried (init cap) ops = true ->
  let s := exec (init cap) ops in
  snd (step s (Get k now u)) = RGot shmid l rd ->
  exists ds, lookup k (dsets s) = Some ds /\ d_status ds = InMemory /\ d_closed ds = true.
Proof.
  intros cap ops k now u shmid l rd Hc Hr Hu s Hg.
  assert (H : CI (dsets s)).
  { apply run_ci; auto; [now apply inv_init|]. intros k0 ds0 L. discriminate. }
  cbn [step] in Hg. unfold get in Hg.
  destruct (lookup k (dsets s)) as [ds|] eqn:Hl; [|discriminate].
  destruct (d_status ds) eqn:Es; try discriminate.
  - exists ds. repeat split; auto. apply (H k ds Hl). rewrite Es. discriminate.
  - destruct (Z.of_N (d_size ds) >? free s); [discriminate|]. unfold page_in in Hg.
    destruct (free s <? Z.of_N (d_size ds)); discriminate.
Qed.

Theorem created_answers_wait : forall s k ds now u,
  lookup k (dsets s) = Some ds -> d_status ds = Created -> step s (Get k now u) = (s, RErr "wait").
Proof. intros s k ds now u Hl Hs. cbn [step]. unfold get. rewrite Hl, Hs. reflexivity. Qed.

(* the finding: a writer slower than STALE_CREATE under memory pressure is paged out as abandoned; paged back in, its
   dataset is handed to readers although the writer never finished *)
Definition stale_writer_witness : list op := [
  Add 0%N 3%N 1; Write 0%N [1;2;3]%N; Add 1%N 3%N 2; Add 1%N 3%N 900000000003; JobIo 0%N false; JobUnlink 0%N; JobCb 0%N;
  Add 1%N 3%N 900000000004; Write 1%N [10;11;12]%N; Purge 1%N; Get 0%N 900000000005 [1%N]; JobIo 1%N false; JobCb 1%N ].

Theorem read_before_close_refuted :
  exists cap ops k now u,
    0 <= cap /\ race_free (init cap) ops = true /\
    let s := exec (init cap) ops in
    snd (step s (Get k now u)) = RGot k 3 1 /\
    exists ds, lookup k (dsets s) = Some ds /\ d_closed ds = false.
Proof.
  exists 4, stale_writer_witness, 0%N, 900000000006, [1%N]. split; [lia|]. split; [vm_compute; reflexivity|]. cbv zeta.
  split; [vm_compute; reflexivity|]. eexists. split; vm_compute; reflexivity.
Qed.
