(* C09, protection in use: the table of ongoing reads is an exact account of who holds a dataset.
   Everything the store knows about readers is Dataset.ongoing_reads (d_readers): eviction candidates
   (is_pageoutable), the delay of a purge and its execution by the last close all read that table.  These
   statements are about the holders of a dataset only if the table is exact:
     - a granted get adds ONE entry under an id that no ongoing read of that dataset carries
       (the `while rdid in ongoing_reads` loop of Manager.get);
     - the accepted close of a reader removes the entry of that id and nothing else;
     - no other step (allocation, writer's close, purge, eviction round, any half of any disk job) changes the
       table of a registered dataset; a dataset leaves the registry only with an empty table.
   Hence ids of ongoing reads are pairwise distinct in every reachable state and two open readers never share
   an entry.  For every op list, no side condition. *)
From Coq Require Import List NArith ZArith String Bool Lia.
From EKW Require Import Shm.Lottery Shm.LotteryProofs Shm.Manager Shm.ManagerProofs Shm.ManagerLive Shm.ManagerBytes.
Import ListNotations.
Open Scope Z_scope.

Definition rd_of (k : key) (d : list (key * dataset)) : list N :=
  match lookup k d with Some ds => map fst (d_readers ds) | None => [] end.

(* the ids of the ongoing reads of k, in the order of Dataset.ongoing_reads *)
Definition readers_of (k : key) (s : state) : list N := rd_of k (dsets s).

Fixpoint remove1 (x : N) (l : list N) : list N :=
  match l with
  | [] => []
  | y :: r => if N.eqb x y then r else y :: remove1 x r
  end.

(* what one step does to the table of k *)
Definition table_after (k : key) (o : op) (r : resp) (t : list N) : list N :=
  match o, r with
  | Get k' _ _, RGot _ _ rd => if N.eqb k k' then t ++ [rd] else t
  | Close k' (Some rd), ROk => if N.eqb k k' then remove1 rd t else t
  | _, _ => t
  end.

(* ------------------------------------------------------------------ list facts *)
Lemma map_fst_remove : forall {V} (l : list (N * V)) x, map fst (remove x l) = remove1 x (map fst l).
Proof.
  induction l as [|[y v] r IH]; intros x; cbn; [reflexivity|].
  destruct (N.eqb x y); cbn; [reflexivity|now rewrite IH].
Qed.

Lemma remove1_absent : forall l x, ~ In x l -> remove1 x l = l.
Proof.
  induction l as [|y r IH]; intros x H; cbn; [reflexivity|].
  destruct (N.eqb x y) eqn:E.
  - apply N.eqb_eq in E. subst. exfalso. apply H. now left.
  - rewrite IH; [reflexivity|]. intro. apply H. now right.
Qed.

Lemma remove1_incl : forall l x y, In y (remove1 x l) -> In y l.
Proof.
  induction l as [|z r IH]; intros x y H; cbn in *; [assumption|].
  destruct (N.eqb x z); [now right|]. destruct H; [now left|right; eauto].
Qed.

Lemma remove1_NoDup : forall l x, NoDup l -> NoDup (remove1 x l).
Proof.
  induction l as [|z r IH]; intros x H; cbn; [constructor|].
  inversion H; subst. destruct (N.eqb x z); [assumption|].
  constructor; [|now apply IH]. intro Hin. apply H2. eapply remove1_incl; eauto.
Qed.

Lemma remove1_gone : forall l x, NoDup l -> ~ In x (remove1 x l).
Proof.
  induction l as [|z r IH]; intros x H; cbn; [tauto|].
  inversion H; subst. destruct (N.eqb x z) eqn:E.
  - apply N.eqb_eq in E. now subst.
  - apply N.eqb_neq in E. intros [Hx|Hx]; [congruence|]. now apply (IH x).
Qed.

Lemma lookup_none_ids : forall {V} (l : list (N * V)) x, lookup x l = None -> ~ In x (map fst l).
Proof. intros V l x H. now apply lookup_none_notin. Qed.

Lemma first_fresh_spec : forall c r rd, first_fresh c r = Some rd -> lookup rd r = None.
Proof.
  induction c as [|x c IH]; intros r rd H; cbn in H; [discriminate|].
  destruct (lookup x r) eqn:E; [now apply IH|]. inversion H; subst. assumption.
Qed.

(* ------------------------------------------------------------------ rd_of under the dict operations *)
Lemma rd_alter_keep : forall d k k' f, (forall ds, d_readers (f ds) = d_readers ds) -> rd_of k (alter k' f d) = rd_of k d.
Proof.
  intros d k k' f H. unfold rd_of. destruct (N.eq_dec k' k) as [->|Hne].
  - rewrite lookup_alter_same. destruct (lookup k d); cbn; [now rewrite H|reflexivity].
  - now rewrite lookup_alter_other.
Qed.

Lemma rd_alter_same : forall d k f ds, lookup k d = Some ds -> rd_of k (alter k f d) = map fst (d_readers (f ds)).
Proof. intros d k f ds H. unfold rd_of. now rewrite lookup_alter_same, H. Qed.

Lemma rd_alter_other : forall d k k' f, k' <> k -> rd_of k (alter k' f d) = rd_of k d.
Proof. intros d k k' f H. unfold rd_of. now rewrite lookup_alter_other. Qed.

Lemma rd_purge : forall s k k', NoDup (map fst (dsets s)) -> rd_of k (dsets (purge k' s)) = rd_of k (dsets s).
Proof.
  intros s k k' Hn. unfold purge. destruct (lookup k' (dsets s)) as [ds|] eqn:Hl; [|reflexivity].
  destruct (d_readers ds) eqn:Er.
  2:{ unf. apply rd_alter_keep. reflexivity. }
  destruct (d_status ds); try reflexivity; (destruct (lookup k' (segs s)); [|reflexivity]); unf; unfold rd_of;
    (destruct (N.eq_dec k' k) as [->|Hne];
     [rewrite lookup_remove_same by assumption; rewrite Hl, Er; reflexivity|now rewrite lookup_remove_other]).
Qed.

Lemma rd_mdp : forall s k k', NoDup (map fst (dsets s)) -> rd_of k (dsets (maybe_delayed_purge k' s)) = rd_of k (dsets s).
Proof.
  intros s k k' Hn. unfold maybe_delayed_purge. destruct (lookup k' (dsets s)) as [ds|]; [|reflexivity].
  destruct (d_delayed ds && _); [now apply rd_purge|reflexivity].
Qed.

Lemma rd_page_out : forall s k w, rd_of k (dsets (page_out s w)) = rd_of k (dsets s).
Proof.
  intros s k w. unfold page_out. destruct (lookup w (dsets s)); [|reflexivity]. unf. apply rd_alter_keep. reflexivity.
Qed.

Lemma rd_fold_page_out : forall ws s k, rd_of k (dsets (fold_left page_out ws s)) = rd_of k (dsets s).
Proof. induction ws as [|w t IH]; intros s k; cbn; [reflexivity|]. now rewrite IH, rd_page_out. Qed.

Lemma rd_poal : forall fixed amount now s k, rd_of k (dsets (page_out_at_least_gen fixed amount now s)) = rd_of k (dsets s).
Proof.
  intros fixed amount now s k. unfold page_out_at_least_gen. destruct (lock s); [reflexivity|].
  destruct (lottery _ _) as [|w0 ws]; [reflexivity|]. now rewrite rd_fold_page_out.
Qed.

Lemma mdp_keys : forall s k, NoDup (map fst (dsets s)) -> NoDup (map fst (dsets (maybe_delayed_purge k s))).
Proof.
  intros s k Hn. unfold maybe_delayed_purge. destruct (lookup k (dsets s)) as [ds|]; [|assumption].
  destruct (d_delayed ds && _); [now apply purge_keys|assumption].
Qed.

(* ------------------------------------------------------------------ the registry has one entry per key, in every history *)
Lemma dsets_job_io : forall s j f, dsets (fst (job_io j f s)) = dsets s.
Proof.
  intros s j f. unfold job_io. destruct (find_job j (jobs s)) as [jb|]; [|reflexivity].
  destruct (j_phase jb); try reflexivity. cbn [fst]. destruct (j_kind jb).
  - unfold io_page_out. destruct (lookup (j_key jb) (segs s)); [destruct f|]; reflexivity.
  - unfold io_page_in. destruct (j_size jb =? 0)%N; [reflexivity|].
    destruct (lookup (j_key jb) (segs s)); [reflexivity|]. destruct f; [reflexivity|].
    destruct (lookup (j_key jb) (files s)); [|reflexivity].
    destruct (_ <=? _)%N; reflexivity.
Qed.

Lemma dsets_job_unlink : forall s j, dsets (fst (job_unlink j s)) = dsets s.
Proof.
  intros s j. unfold job_unlink. destruct (find_job j (jobs s)) as [jb|]; [|reflexivity].
  destruct (j_kind jb), (j_phase jb); try reflexivity. cbn [fst]. destruct (lookup (j_key jb) (segs s)); reflexivity.
Qed.

Theorem step_keys : forall s o, NoDup (map fst (dsets s)) -> NoDup (map fst (dsets (fst (step s o)))).
Proof.
  intros s o Hn. destruct o as [k size now|k b|k r|k now u|k|j f|j|j|k|k]; cbn [step].
  - unfold add. destruct (lookup k (dsets s)) eqn:Hl; [assumption|].
    destruct (_ >? capacity s); [assumption|]. destruct (_ >? free s); cbn [fst].
    + unfold page_out_at_least. now rewrite (proj2 (poal_free_keys _ _ _ _)).
    + unf. now apply keys_app_NoDup.
  - destruct (lookup k (segs s)); assumption.
  - unfold close. destruct (lookup k (dsets s)) as [ds|]; [|assumption]. destruct r as [rd|].
    + destruct (status_eqb (d_status ds) InMemory); [|assumption]. cbn [fst]. apply mdp_keys.
      destruct (lookup rd (d_readers ds)); [unf; now rewrite keys_alter|assumption].
    + destruct (status_eqb (d_status ds) Created); [|assumption]. cbn [fst]. apply mdp_keys. unf. now rewrite keys_alter.
  - unfold get. destruct (lookup k (dsets s)) as [ds|]; [|assumption].
    destruct (d_status ds); try assumption.
    + destruct (first_fresh u (d_readers ds)); [|assumption]. cbn [fst]. unf. now rewrite keys_alter.
    + destruct (_ >? free s); cbn [fst].
      * unfold page_out_at_least. now rewrite (proj2 (poal_free_keys _ _ _ _)).
      * unfold page_in. destruct (free s <? _); cbn [fst]; unf; now rewrite keys_alter.
  - cbn [fst]. now apply purge_keys.
  - now rewrite dsets_job_io.
  - now rewrite dsets_job_unlink.
  - unfold job_cb. destruct (find_job j (jobs s)) as [jb|]; [|assumption].
    destruct (j_phase jb) as [| |ok]; try assumption. cbn [fst].
    destruct (j_kind jb), ok.
    + unfold count_down. unf. destruct (j_orphan jb); unf; [assumption|now rewrite keys_alter].
    + unfold count_down. unf. apply (purge_keys (with_jobs (drop_job j (jobs s)) s)). assumption.
    + destruct (j_orphan jb); unf; [assumption|now rewrite keys_alter].
    + apply (purge_keys (with_jobs (drop_job j (jobs s)) s)). assumption.
  - assumption.
  - assumption.
Qed.

Theorem run_keys : forall ops s, NoDup (map fst (dsets s)) -> NoDup (map fst (dsets (exec s ops))).
Proof.
  induction ops as [|o r IH]; intros s Hn; [assumption|]. rewrite exec_cons. apply IH. now apply step_keys.
Qed.

(* ------------------------------------------------------------------ the table, step by step *)
Theorem reader_table_step : forall s o k, NoDup (map fst (dsets s)) ->
  readers_of k (fst (step s o)) = table_after k o (snd (step s o)) (readers_of k s).
Proof.
  intros s o k Hn. unfold readers_of.
  destruct o as [k' size now|k' b|k' r|k' now u|k'|j f|j|j|k'|k']; cbn [step].
  - (* add *)
    unfold add. destruct (lookup k' (dsets s)) eqn:Hl; [reflexivity|].
    destruct (_ >? capacity s); [reflexivity|]. destruct (_ >? free s); cbn [fst snd table_after].
    + apply rd_poal.
    + unf. unfold rd_of. rewrite lookup_app_end. destruct (lookup k (dsets s)) eqn:Hk; [reflexivity|].
      destruct (N.eqb k k'); reflexivity.
  - destruct (lookup k' (segs s)); reflexivity.
  - (* close *)
    unfold close. destruct r as [rd|]; (destruct (lookup k' (dsets s)) as [ds|] eqn:Hl; [|reflexivity]).
    + destruct (status_eqb (d_status ds) InMemory); [|reflexivity]. cbn [fst snd table_after].
      destruct (lookup rd (d_readers ds)) eqn:Er.
      * rewrite rd_mdp by (unf; now rewrite keys_alter). unf.
        destruct (N.eqb k k') eqn:E.
        -- apply N.eqb_eq in E. subst k'. rewrite (rd_alter_same _ _ _ _ Hl). cbn [set_readers d_readers].
           unfold rd_of. rewrite Hl. apply map_fst_remove.
        -- apply N.eqb_neq in E. apply rd_alter_other. congruence.
      * rewrite rd_mdp by assumption. destruct (N.eqb k k') eqn:E; [|reflexivity].
        apply N.eqb_eq in E. subst k'. unfold rd_of. rewrite Hl. symmetry. apply remove1_absent.
        now apply lookup_none_ids.
    + destruct (status_eqb (d_status ds) Created); [|reflexivity]. cbn [fst snd table_after].
      rewrite rd_mdp by (unf; now rewrite keys_alter). unf. apply rd_alter_keep. reflexivity.
  - (* get *)
    unfold get. destruct (lookup k' (dsets s)) as [ds|] eqn:Hl; [|reflexivity].
    destruct (d_status ds); try reflexivity.
    + destruct (first_fresh u (d_readers ds)) as [rd|] eqn:Ef; [|reflexivity]. cbn [fst snd table_after]. unf.
      destruct (N.eqb k k') eqn:E.
      * apply N.eqb_eq in E. subst k'. rewrite (rd_alter_same _ _ _ _ Hl). unfold rd_of. rewrite Hl.
        cbn [add_reader d_readers]. unfold put. rewrite (first_fresh_spec _ _ _ Ef). rewrite map_app. reflexivity.
      * apply N.eqb_neq in E. apply rd_alter_other. congruence.
    + destruct (_ >? free s); cbn [fst snd table_after].
      * apply rd_poal.
      * unfold page_in. destruct (free s <? _); cbn [fst snd table_after]; unf; apply rd_alter_keep; reflexivity.
  - cbn [fst snd table_after]. now apply rd_purge.
  - cbn [table_after]. destruct (snd (job_io j f s)); now rewrite dsets_job_io.
  - cbn [table_after]. destruct (snd (job_unlink j s)); now rewrite dsets_job_unlink.
  - (* callback *)
    unfold job_cb. destruct (find_job j (jobs s)) as [jb|]; [|reflexivity].
    destruct (j_phase jb) as [| |ok]; try reflexivity. cbn [fst snd table_after].
    destruct (j_kind jb), ok.
    + unfold count_down. unf. destruct (j_orphan jb); unf; [reflexivity|apply rd_alter_keep; reflexivity].
    + unfold count_down. unf. apply (rd_purge (with_jobs (drop_job j (jobs s)) s)). assumption.
    + destruct (j_orphan jb); unf; [reflexivity|apply rd_alter_keep; reflexivity].
    + apply (rd_purge (with_jobs (drop_job j (jobs s)) s)). assumption.
  - reflexivity.
  - reflexivity.
Qed.

(* the id handed out by a granted get is carried by no ongoing read of that dataset *)
Theorem granted_id_is_fresh : forall s k now u shmid l rd,
  snd (step s (Get k now u)) = RGot shmid l rd -> ~ In rd (readers_of k s).
Proof.
  intros s k now u shmid l rd. cbn [step]. unfold get, readers_of, rd_of.
  destruct (lookup k (dsets s)) as [ds|]; [|discriminate].
  destruct (d_status ds); try discriminate.
  - destruct (first_fresh u (d_readers ds)) as [rd'|] eqn:Ef; [|discriminate]. cbn [snd]. intro H. inversion H; subst.
    apply lookup_none_ids. eapply first_fresh_spec; eauto.
  - destruct (_ >? free s); [discriminate|]. unfold page_in. destruct (free s <? _); discriminate.
Qed.

(* ------------------------------------------------------------------ in every reachable state *)
Theorem readers_distinct : forall ops s k,
  NoDup (map fst (dsets s)) -> (forall k', NoDup (readers_of k' s)) -> NoDup (readers_of k (exec s ops)).
Proof.
  induction ops as [|o r IH]; intros s k Hn H; [apply H|]. rewrite exec_cons. apply IH; [now apply step_keys|].
  intro k'. rewrite reader_table_step by assumption. unfold table_after.
  destruct o as [k0 size now|k0 b|k0 r0|k0 now u|k0|j f|j|j|k0|k0]; try apply H.
  - destruct r0 as [rd|]; [|apply H]. destruct (snd (step s (Close k0 (Some rd)))); try apply H.
    destruct (N.eqb k' k0); [apply remove1_NoDup|]; apply H.
  - destruct (snd (step s (Get k0 now u))) as [| |shmid l rd| | | |] eqn:Er; try apply H.
    destruct (N.eqb k' k0) eqn:E; [|apply H]. apply N.eqb_eq in E. subst k0.
    apply NoDup_app_intro; [apply H|repeat constructor; intros []|].
    intros x Hx [<-|[]]. exact (granted_id_is_fresh _ _ _ _ _ _ _ Er Hx).
Qed.

Theorem reader_ids_unique : forall cap ops k, NoDup (readers_of k (exec (init cap) ops)).
Proof.
  intros cap ops k. apply readers_distinct; [constructor|]. intro k'. constructor.
Qed.

(* two readers that are both open have different ids, so the close of one leaves the entry of the other: after a granted
   get (id a) and any later history in which a was not closed, a is still in the table *)
Theorem reader_table_exact : forall cap ops o k,
  let s := exec (init cap) ops in
  readers_of k (fst (step s o)) = table_after k o (snd (step s o)) (readers_of k s) /\
  NoDup (readers_of k s) /\
  (forall now u shmid l rd, o = Get k now u -> snd (step s o) = RGot shmid l rd -> ~ In rd (readers_of k s)) /\
  (forall rd a, o = Close k (Some rd) -> a <> rd -> In a (readers_of k s) -> snd (step s o) = ROk -> In a (readers_of k (fst (step s o)))).
Proof.
  intros cap ops o k s.
  assert (Hn : NoDup (map fst (dsets s))) by (apply run_keys; constructor).
  split; [now apply reader_table_step|]. split; [apply reader_ids_unique|]. split.
  - intros now u shmid l rd -> Hr. eapply granted_id_is_fresh; eauto.
  - intros rd a -> Hne Hin Hok. rewrite reader_table_step by assumption. rewrite Hok. cbn [table_after]. rewrite N.eqb_refl.
    clear - Hne Hin. induction (readers_of k s) as [|y t IH]; cbn in *; [assumption|].
    destruct (N.eqb rd y) eqn:E.
    + apply N.eqb_eq in E. subst y. destruct Hin; [congruence|assumption].
    + destruct Hin; [now left|right; auto].
Qed.
