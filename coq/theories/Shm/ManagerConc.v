(* Finer than Shm/Manager.v: the completion callbacks of disk jobs are not atomic.
   They run on the threads of the Disk pools (src/cascade/shm/dataset.py, the two closures `callback` in Manager.page_out and
   Manager.page_in), the requests on the main thread.  The only synchronisation is the lock `pageout_one`; a callback can be
   delayed at each of its blocking acquisitions for as long as it takes, and meanwhile the main thread serves requests and the
   callbacks of other jobs run.  Here a callback is a sequence of PARTS, each ending right before the next `with self.pageout_one:`
   (or at the end of the callback); `FCbPart j` runs one part, every op of Shm/Manager.v can come in between.

     page-out succeeded:  [ ds.status = on_disk ]  |  [ free_space += ds.size; pageout_count -= 1; release pageout_all when 0 ]
     page-out failed:     [ purge(key) up to its unlink ]  |  [ free_space += ds.size; datasets.pop(key) ]  |  [ pageout_count -= 1; ... ]
                          (when the purge is delayed / skipped / fails there is no middle part)
     page-in succeeded:   [ ds.status = in_memory ]
     page-in failed:      [ purge(key) up to its unlink ]  |  [ free_space += ds.size; datasets.pop(key) ]

   A job whose callback has begun is no longer in `jobs` (nothing else refers to it); what the remaining parts need is kept in `mid`.
   The read-modify-write of free_space happens inside ONE part (under the lock).  No proofs in this file. *)
From Coq Require Import List NArith ZArith String Bool.
From EKW Require Import Shm.Lottery Shm.Manager.
Import ListNotations.
Open Scope string_scope.
Open Scope list_scope.

(* Manager.purge(key) up to (not including) `with self.pageout_one:`; Some size = it got there (the segment is unlinked) *)
Definition purge_pre (k : key) (s : state) : state * option N :=
  match lookup k (dsets s) with
  | None => (s, None)
  | Some ds =>
      match d_readers ds with
      | _ :: _ => (with_dsets (alter k set_delayed (dsets s)) s, None)
      | [] =>
          match d_status ds with
          | OnDisk => (s, None)
          | _ =>
              match lookup k (segs s) with
              | None => (s, None)
              | Some _ => (with_segs (remove k (segs s)) s, Some (d_size ds))
              end
          end
      end
  end.

(* ... and from there: free_space += ds.size under the lock, datasets.pop(key) *)
Definition purge_post (k : key) (sz : N) (s : state) : state :=
  with_jobs (map (orphan_if k) (jobs s)) (with_dsets (remove k (dsets s)) (with_free (free s + Z.of_N sz) s)).

(* where a callback that has begun stands: what its next part is *)
Inductive cbstate : Type :=
| OutOk1 (sz : N)                 (* page-out succeeded, status set: credit + count down under the lock *)
| OutFail1 (k : key) (sz : N)     (* page-out failed, purge got to the lock: credit + pop *)
| OutFail2                        (* page-out failed, purge over: count down under the lock *)
| InFail1 (k : key) (sz : N).     (* page-in failed, purge got to the lock: credit + pop *)

Record fstate : Type := mkF {
  base : state;
  mid : list (N * cbstate)        (* job id -> callbacks in flight *)
}.

Definition finit (cap : Z) : fstate := mkF (init cap) [].
Definition fstart (configured : option Z) (avail : Z) : fstate := mkF (start configured avail) [].

(* first part; s0 = the state with the job taken off the list *)
Definition cb_begin (jb : job) (ok : bool) (s0 : state) : state * option cbstate :=
  match j_kind jb, ok with
  | PageOut, true =>
      (if j_orphan jb then s0 else with_dsets (alter (j_key jb) (set_status OnDisk) (dsets s0)) s0, Some (OutOk1 (j_size jb)))
  | PageOut, false =>
      match purge_pre (j_key jb) s0 with
      | (s1, Some sz) => (s1, Some (OutFail1 (j_key jb) sz))
      | (s1, None) => (s1, Some OutFail2)
      end
  | PageIn, true =>
      (if j_orphan jb then s0 else with_dsets (alter (j_key jb) (set_status InMemory) (dsets s0)) s0, None)
  | PageIn, false =>
      match purge_pre (j_key jb) s0 with
      | (s1, Some sz) => (s1, Some (InFail1 (j_key jb) sz))
      | (s1, None) => (s1, None)
      end
  end.

(* next part *)
Definition cb_next (c : cbstate) (s : state) : state * option cbstate :=
  match c with
  | OutOk1 sz => (count_down (with_free (free s + Z.of_N sz) s), None)
  | OutFail1 k sz => (purge_post k sz s, Some OutFail2)
  | OutFail2 => (count_down s, None)
  | InFail1 k sz => (purge_post k sz s, None)
  end.

Definition set_mid (j : N) (c : option cbstate) (m : list (N * cbstate)) : list (N * cbstate) :=
  match c with
  | Some c => put j c m
  | None => remove j m
  end.

Definition cb_part (j : N) (fs : fstate) : fstate * resp :=
  match lookup j (mid fs) with
  | Some c => let '(s', c') := cb_next c (base fs) in (mkF s' (set_mid j c' (mid fs)), RJob true)
  | None =>
      match find_job j (jobs (base fs)) with
      | Some jb =>
          match j_phase jb with
          | CbPending ok =>
              let '(s', c') := cb_begin jb ok (with_jobs (drop_job j (jobs (base fs))) (base fs)) in
              (mkF s' (set_mid j c' (mid fs)), RJob true)
          | _ => (fs, RJob false)
          end
      | None => (fs, RJob false)
      end
  end.

(* the rest of a callback in one go (it has at most three parts) *)
Fixpoint cb_finish (fuel : nat) (j : N) (fs : fstate) : fstate :=
  match fuel with
  | O => fs
  | S f => match lookup j (mid fs) with
           | Some _ => cb_finish f j (fst (cb_part j fs))
           | None => fs
           end
  end.

Inductive fop : Type :=
| FA (o : op)          (* a step of Shm/Manager.v; JobCb of a callback in flight = its remaining parts *)
| FNop                 (* a step of a job body that changes nothing a request can see *)
| FCbPart (j : N).

Definition fstep (fs : fstate) (o : fop) : fstate * resp :=
  match o with
  | FNop => (fs, RJob true)
  | FCbPart j => cb_part j fs
  | FA o =>
      let plain := let '(s', r) := step (base fs) o in (mkF s' (mid fs), r) in
      match o with
      | JobCb j => match lookup j (mid fs) with
                   | Some _ => (cb_finish 3 j fs, RJob true)
                   | None => plain
                   end
      | _ => plain
      end
  end.

Fixpoint frun (fs : fstate) (ops : list fop) : list output * fstate :=
  match ops with
  | [] => ([], fs)
  | o :: r =>
      let '(fs', rp) := fstep fs o in
      let '(outs, fin) := frun fs' r in
      (observe (base fs) (base fs') rp :: outs, fin)
  end.

Definition fexec (fs : fstate) (ops : list fop) : fstate := snd (frun fs ops).

Definition shift_fop (e : Z) (o : fop) : fop :=
  match o with
  | FA o => FA (shift_op e o)
  | _ => o
  end.
