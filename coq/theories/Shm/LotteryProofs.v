(* Facts about the model of algorithms.lottery: the winners are a prefix of
   (once-read by created asc) ++ (many-read by last access asc) ++ (never-read by created desc),
   cut at the first point where the freed size reaches the amount; no key is drawn twice. *)
From Coq Require Import List NArith ZArith Bool Lia Permutation Sorted.
From EKW Require Import Shm.Lottery.
Import ListNotations.

(* ------------------------------------------------------------------ stable insertion sort *)
Section SortFacts.
  Context {A : Type} (f : A -> Z).

  Lemma sinsert_perm : forall x l, Permutation (sinsert f x l) (x :: l).
  Proof.
    induction l as [|y t IH]; cbn; [reflexivity|].
    destruct (f x <=? f y)%Z; [reflexivity|].
    rewrite IH. apply perm_swap.
  Qed.

  Lemma ssort_perm : forall l, Permutation (ssort f l) l.
  Proof.
    induction l as [|x t IH]; cbn; [reflexivity|].
    rewrite sinsert_perm. now constructor.
  Qed.

  Definition le_f (a b : A) : Prop := (f a <= f b)%Z.

  Lemma sinsert_sorted : forall x l, Sorted le_f l -> Sorted le_f (sinsert f x l).
  Proof.
    induction l as [|y t IH]; cbn; intro Hs.
    - repeat constructor.
    - destruct (f x <=? f y)%Z eqn:E.
      + constructor; [assumption|]. constructor. unfold le_f. lia.
      + inversion Hs as [|? ? Ht Hh]; subst. constructor; [now apply IH|].
        destruct t as [|z t']; cbn.
        * constructor. unfold le_f. lia.
        * destruct (f x <=? f z)%Z; constructor; unfold le_f; try lia.
          inversion Hh; subst. assumption.
  Qed.

  Lemma ssort_sorted : forall l, Sorted le_f (ssort f l).
  Proof. induction l; cbn; [constructor|now apply sinsert_sorted]. Qed.
End SortFacts.

(* ------------------------------------------------------------------ draw *)
Lemma draw_prefix : forall l freed amount,
  exists n, fst (fst (draw freed amount l)) = map e_key (firstn n l).
Proof.
  induction l as [|e t IH]; intros freed amount; cbn.
  - exists 0%nat. reflexivity.
  - destruct (freed + Z.of_N (e_size e) >=? amount)%Z.
    + exists 1%nat. reflexivity.
    + destruct (IH (freed + Z.of_N (e_size e))%Z amount) as [n Hn].
      destruct (draw (freed + Z.of_N (e_size e)) amount t) as [[w f] d]. cbn in *.
      exists (S n). cbn. now rewrite Hn.
Qed.

Lemma draw_all : forall l freed amount w f,
  draw freed amount l = (w, f, false) -> w = map e_key l.
Proof.
  induction l as [|e t IH]; intros freed amount w f; cbn.
  - intro H. now inversion H.
  - destruct (freed + Z.of_N (e_size e) >=? amount)%Z; [intro H; inversion H|].
    destruct (draw (freed + Z.of_N (e_size e)) amount t) as [[w' f'] d'] eqn:E.
    intro H. inversion H; subst. f_equal. eapply IH. exact E.
Qed.

(* the order in which datasets are offered for eviction *)
Definition pool (es : list entity) : list entity :=
  ssort e_created (filter is_once es) ++ ssort e_last (filter is_mult es)
  ++ ssort (fun e => (- e_created e)%Z) (filter is_never es).

Lemma lottery_prefix : forall es amount,
  exists n, lottery es amount = map e_key (firstn n (pool es)).
Proof.
  intros es amount. unfold lottery, pool.
  set (o := ssort e_created (filter is_once es)).
  set (m := ssort e_last (filter is_mult es)).
  set (v := ssort (fun e => (- e_created e)%Z) (filter is_never es)).
  destruct (draw 0 amount o) as [[w1 f1] d1] eqn:E1.
  destruct d1.
  - destruct (draw_prefix o 0%Z amount) as [n Hn]. rewrite E1 in Hn. cbn in Hn.
    exists (Nat.min n (List.length o)). rewrite Hn.
    rewrite firstn_app. replace (Nat.min n (List.length o) - List.length o)%nat with 0%nat by lia.
    cbn. rewrite app_nil_r. f_equal.
    destruct (Nat.le_ge_cases n (List.length o)).
    + now rewrite Nat.min_l.
    + rewrite Nat.min_r by assumption. rewrite !firstn_all2; auto.
  - pose proof (draw_all _ _ _ _ _ E1) as H1. subst w1.
    destruct (draw f1 amount m) as [[w2 f2] d2] eqn:E2.
    destruct d2.
    + destruct (draw_prefix m f1 amount) as [n Hn]. rewrite E2 in Hn. cbn in Hn.
      exists (List.length o + Nat.min n (List.length m))%nat.
      rewrite firstn_app_2, map_app. f_equal. rewrite Hn.
      rewrite firstn_app. replace (Nat.min n (List.length m) - List.length m)%nat with 0%nat by lia.
      cbn. rewrite app_nil_r. f_equal.
      destruct (Nat.le_ge_cases n (List.length m)).
      * now rewrite Nat.min_l.
      * rewrite Nat.min_r by assumption. rewrite !firstn_all2; auto.
    + pose proof (draw_all _ _ _ _ _ E2) as H2. subst w2.
      destruct (draw f2 amount v) as [[w3 f3] d3] eqn:E3.
      destruct (draw_prefix v f2 amount) as [n Hn]. rewrite E3 in Hn. cbn in Hn.
      exists (List.length o + (List.length m + n))%nat.
      rewrite firstn_app_2, map_app. f_equal.
      rewrite firstn_app_2, map_app. f_equal. exact Hn.
Qed.

(* ------------------------------------------------------------------ no key twice *)
Lemma NoDup_map_inj_in : forall {A B} (f : A -> B) l a b,
  NoDup (map f l) -> In a l -> In b l -> f a = f b -> a = b.
Proof.
  induction l as [|x t IH]; intros a b Hn Ha Hb E; [inversion Ha|].
  cbn in Hn. inversion Hn as [|? ? Hx Ht]; subst.
  destruct Ha as [->|Ha], Hb as [->|Hb]; auto.
  - exfalso. apply Hx. rewrite E. now apply in_map.
  - exfalso. apply Hx. rewrite <- E. now apply in_map.
Qed.

Lemma NoDup_map_filter : forall {A B} (f : A -> B) p l, NoDup (map f l) -> NoDup (map f (filter p l)).
Proof.
  induction l as [|x t IH]; cbn; intro Hn; [constructor|].
  inversion Hn as [|? ? Hx Ht]; subst.
  destruct (p x); cbn; [constructor|]; auto.
  intro Hin. apply Hx. apply in_map_iff in Hin. destruct Hin as [y [Hy Hin]].
  apply filter_In in Hin. apply in_map_iff. exists y. tauto.
Qed.

Lemma NoDup_app_intro : forall {A} (a b : list A),
  NoDup a -> NoDup b -> (forall x, In x a -> ~ In x b) -> NoDup (a ++ b).
Proof.
  induction a as [|x t IH]; cbn; intros b Ha Hb Hd; [assumption|].
  inversion Ha; subst. constructor.
  - rewrite in_app_iff. intros [H|H]; [contradiction|]. eapply Hd; eauto.
  - apply IH; [assumption|assumption|]. intros y Hy. apply Hd. now right.
Qed.

Lemma in_firstn : forall {A} n (l : list A) x, In x (firstn n l) -> In x l.
Proof.
  induction n; intros l x H; cbn in H; [contradiction|].
  destruct l as [|y t]; [contradiction|]. destruct H as [->|H]; [now left|right; auto].
Qed.

Lemma NoDup_firstn : forall {A} n (l : list A), NoDup l -> NoDup (firstn n l).
Proof.
  induction n; intros l Hn; cbn; [constructor|].
  destruct l as [|x t]; [constructor|]. inversion Hn; subst. constructor; auto.
  intro Hin. apply H1. eapply in_firstn; eauto.
Qed.

Lemma in_sorted_part : forall f p es x,
  In x (map e_key (ssort f (filter p es))) -> exists e, In e es /\ p e = true /\ e_key e = x.
Proof.
  intros f p es x H. apply in_map_iff in H. destruct H as [e [Hk He]].
  apply (Permutation_in _ (ssort_perm f _)) in He. apply filter_In in He.
  exists e. tauto.
Qed.

Lemma sorted_part_NoDup : forall f p es,
  NoDup (map e_key es) -> NoDup (map e_key (ssort f (filter p es))).
Proof.
  intros f p es H.
  eapply Permutation_NoDup; [apply Permutation_map; symmetry; apply ssort_perm|].
  now apply NoDup_map_filter.
Qed.

Lemma classes_exclusive : forall e,
  (is_once e = true -> is_mult e = false /\ is_never e = false) /\
  (is_mult e = true -> is_never e = false).
Proof.
  intro e. unfold is_once, is_mult. destruct (is_never e), (e_first e =? e_last e)%Z; cbn; intuition congruence.
Qed.

Lemma pool_keys_NoDup : forall es, NoDup (map e_key es) -> NoDup (map e_key (pool es)).
Proof.
  intros es Hn. unfold pool. rewrite !map_app.
  apply NoDup_app_intro; [now apply sorted_part_NoDup| |].
  - apply NoDup_app_intro; [now apply sorted_part_NoDup|now apply sorted_part_NoDup|].
    intros x Hm Hv. apply in_sorted_part in Hm. apply in_sorted_part in Hv.
    destruct Hm as [e1 [I1 [P1 K1]]], Hv as [e2 [I2 [P2 K2]]].
    assert (e1 = e2) by (eapply NoDup_map_inj_in; eauto; congruence). subst e2.
    destruct (classes_exclusive e1) as [_ H]. specialize (H P1). congruence.
  - intros x Ho Hr. apply in_sorted_part in Ho. destruct Ho as [e1 [I1 [P1 K1]]].
    destruct (classes_exclusive e1) as [H _]. specialize (H P1). destruct H as [Hm Hv].
    apply in_app_iff in Hr. destruct Hr as [Hr|Hr]; apply in_sorted_part in Hr;
      destruct Hr as [e2 [I2 [P2 K2]]];
      assert (e1 = e2) by (eapply NoDup_map_inj_in; eauto; congruence); subst e2; congruence.
Qed.

Lemma in_pool : forall es e, In e (pool es) -> In e es.
Proof.
  intros es e H. unfold pool in H. rewrite !in_app_iff in H.
  destruct H as [H|[H|H]]; apply (Permutation_in _ (ssort_perm _ _)) in H; apply filter_In in H; tauto.
Qed.

Theorem lottery_NoDup : forall es amount, NoDup (map e_key es) -> NoDup (lottery es amount).
Proof.
  intros es amount Hn. destruct (lottery_prefix es amount) as [n ->].
  rewrite <- firstn_map. apply NoDup_firstn. now apply pool_keys_NoDup.
Qed.

Theorem lottery_in : forall es amount k, In k (lottery es amount) -> exists e, In e es /\ e_key e = k.
Proof.
  intros es amount k H. destruct (lottery_prefix es amount) as [n Hn]. rewrite Hn in H.
  apply in_map_iff in H. destruct H as [e [Hk He]]. apply in_firstn in He. apply in_pool in He.
  exists e. tauto.
Qed.

(* ------------------------------------------------------------------ the three loops are one loop over the pool *)
Lemma draw_app : forall l1 l2 freed amount,
  draw freed amount (l1 ++ l2) =
  let '(w1, f1, d1) := draw freed amount l1 in
  if d1 then (w1, f1, true)
  else let '(w2, f2, d2) := draw f1 amount l2 in (w1 ++ w2, f2, d2).
Proof.
  induction l1 as [|e t IH]; intros l2 freed amount; cbn.
  - destruct (draw freed amount l2) as [[w f] d]. reflexivity.
  - destruct (freed + Z.of_N (e_size e) >=? amount)%Z; [reflexivity|].
    rewrite IH. destruct (draw (freed + Z.of_N (e_size e)) amount t) as [[w1 f1] d1].
    destruct d1; [reflexivity|]. destruct (draw f1 amount l2) as [[w2 f2] d2]. reflexivity.
Qed.

Theorem lottery_is_draw : forall es amount, lottery es amount = fst (fst (draw 0 amount (pool es))).
Proof.
  intros es amount. unfold lottery, pool. rewrite draw_app.
  destruct (draw 0 amount (ssort e_created (filter is_once es))) as [[w1 f1] d1].
  destruct d1; [reflexivity|]. rewrite draw_app.
  destruct (draw f1 amount (ssort e_last (filter is_mult es))) as [[w2 f2] d2].
  destruct d2; [reflexivity|].
  destruct (draw f2 amount (ssort (fun e => (- e_created e)%Z) (filter is_never es))) as [[w3 f3] d3].
  cbn. now rewrite app_assoc.
Qed.

Fixpoint total (l : list entity) : Z :=
  match l with [] => 0%Z | e :: t => (Z.of_N (e_size e) + total t)%Z end.

(* draw takes the shortest prefix whose total reaches the amount, or everything *)
Lemma draw_minimal : forall l freed amount,
  exists n, (n <= List.length l)%nat /\
    fst (fst (draw freed amount l)) = map e_key (firstn n l) /\
    (n = List.length l \/ (freed + total (firstn n l) >= amount)%Z) /\
    (forall m, (m < n)%nat -> (1 <= m)%nat -> (freed + total (firstn m l) < amount)%Z).
Proof.
  induction l as [|e t IH]; intros freed amount; cbn [draw].
  - exists 0%nat. cbn. repeat split; auto. intros m Hm. lia.
  - destruct (freed + Z.of_N (e_size e) >=? amount)%Z eqn:E.
    + exists 1%nat. cbn. split; [lia|]. split; [reflexivity|]. split; [right; lia|]. intros m Hm1 Hm2. lia.
    + destruct (IH (freed + Z.of_N (e_size e))%Z amount) as [n [Hn [Hw [Hs Hm]]]].
      destruct (draw (freed + Z.of_N (e_size e)) amount t) as [[w f] d]. cbn [fst] in *.
      exists (S n). cbn [List.length firstn map total]. repeat split.
      * lia.
      * now rewrite Hw.
      * destruct Hs as [Hs|Hs]; [left; lia|right; lia].
      * intros m Hlt Hge. destruct m as [|m]; [lia|]. cbn [firstn total].
        destruct m as [|m]; [cbn; lia|]. specialize (Hm (S m)). lia.
Qed.

Theorem lottery_minimal_prefix : forall es amount,
  exists n, (n <= List.length (pool es))%nat /\
    lottery es amount = map e_key (firstn n (pool es)) /\
    (n = List.length (pool es) \/ (total (firstn n (pool es)) >= amount)%Z) /\
    (forall m, (m < n)%nat -> (1 <= m)%nat -> (total (firstn m (pool es)) < amount)%Z).
Proof.
  intros es amount. rewrite lottery_is_draw.
  destruct (draw_minimal (pool es) 0%Z amount) as [n [H1 [H2 [H3 H4]]]].
  exists n. repeat split; auto.
Qed.

(* the pool: once-read by created ascending, then many-read by last access ascending, then never-read by
   created descending; each part is a stable sort of the candidates of that class *)
Theorem pool_order : forall es,
  pool es = ssort e_created (filter is_once es) ++ ssort e_last (filter is_mult es)
            ++ ssort (fun e => (- e_created e)%Z) (filter is_never es) /\
  Sorted (le_f e_created) (ssort e_created (filter is_once es)) /\
  Sorted (le_f e_last) (ssort e_last (filter is_mult es)) /\
  Sorted (le_f (fun e => (- e_created e)%Z)) (ssort (fun e => (- e_created e)%Z) (filter is_never es)) /\
  Permutation (ssort e_created (filter is_once es)) (filter is_once es) /\
  Permutation (ssort e_last (filter is_mult es)) (filter is_mult es) /\
  Permutation (ssort (fun e => (- e_created e)%Z) (filter is_never es)) (filter is_never es).
Proof.
  intro es. repeat split; try apply ssort_sorted; apply ssort_perm.
Qed.

Lemma lottery_nonempty : forall es amount, es <> [] -> lottery es amount <> [].
Proof.
  intros es amount Hne. rewrite lottery_is_draw.
  assert (Hp : pool es <> []).
  { destruct es as [|e t]; [congruence|]. intro Hp.
    assert (Hin : In e (e :: t)) by now left.
    assert (Hc : is_once e = true \/ is_mult e = true \/ is_never e = true).
    { unfold is_once, is_mult. destruct (is_never e), (e_first e =? e_last e)%Z; cbn; auto. }
    assert (Hx : In e (pool (e :: t))).
    { unfold pool. rewrite !in_app_iff.
      destruct Hc as [Hc|[Hc|Hc]]; [left|right; left|right; right];
        apply (Permutation_in _ (Permutation_sym (ssort_perm _ _))); apply filter_In; auto. }
    rewrite Hp in Hx. contradiction. }
  destruct (pool es) as [|e t]; [congruence|]. cbn [draw].
  destruct (0 + Z.of_N (e_size e) >=? amount)%Z; [cbn; discriminate|].
  destruct (draw (0 + Z.of_N (e_size e)) amount t) as [[w f] d]. cbn. discriminate.
Qed.
