(* C08: the accounting invariant of the shared-memory store, for every op list.
   Inv:  free = capacity - (sum of the sizes of resident datasets),  0 <= free,
         every disk job whose Dataset object is still registered finds it in the status the job set
         (paging_out / paged_in) with the size it captured, and there is at most one such job per key.
   The invariant is preserved by every step except one: the callback of a SUCCESSFUL page-out whose
   Dataset object was purged after the job was issued (`races`), which credits the dead object's
   size a second time. *)
From Coq Require Import List NArith ZArith String Bool Lia Permutation.
From EKW Require Import Shm.Lottery Shm.LotteryProofs Shm.Manager.
Import ListNotations.
Open Scope Z_scope.

(* ------------------------------------------------------------------ dict facts *)
Section DictFacts.
  Context {V : Type}.
  Implicit Types (d : list (key * V)) (k : key).

  Lemma lookup_alter_same : forall d k f, lookup k (alter k f d) = option_map f (lookup k d).
  Proof.
    induction d as [|[k' v] r IH]; intros k f; cbn; [reflexivity|].
    destruct (N.eqb k k') eqn:E; cbn; rewrite E; [reflexivity|apply IH].
  Qed.

  Lemma lookup_alter_other : forall d k k' f, k <> k' -> lookup k' (alter k f d) = lookup k' d.
  Proof.
    induction d as [|[k0 v] r IH]; intros k k' f Hne; cbn; [reflexivity|].
    destruct (N.eqb k k0) eqn:E; cbn.
    - apply N.eqb_eq in E. subst k0. destruct (N.eqb k' k) eqn:E'; [apply N.eqb_eq in E'; congruence|reflexivity].
    - destruct (N.eqb k' k0); [reflexivity|now apply IH].
  Qed.

  Lemma lookup_remove_other : forall d k k', k <> k' -> lookup k' (remove k d) = lookup k' d.
  Proof.
    induction d as [|[k0 v] r IH]; intros k k' Hne; cbn; [reflexivity|].
    destruct (N.eqb k k0) eqn:E; cbn.
    - apply N.eqb_eq in E. subst k0. destruct (N.eqb k' k) eqn:E'; [apply N.eqb_eq in E'; congruence|reflexivity].
    - destruct (N.eqb k' k0); [reflexivity|now apply IH].
  Qed.

  Lemma lookup_app_end : forall d k k' v,
    lookup k' (d ++ [(k, v)]) = match lookup k' d with Some x => Some x | None => if N.eqb k' k then Some v else None end.
  Proof.
    induction d as [|[k0 v0] r IH]; intros k k' v; cbn; [reflexivity|].
    destruct (N.eqb k' k0); [reflexivity|apply IH].
  Qed.

  Lemma lookup_none_notin : forall d k, lookup k d = None -> ~ In k (map fst d).
  Proof.
    induction d as [|[k0 v0] r IH]; intros k H; cbn in *; [tauto|].
    destruct (N.eqb k k0) eqn:E; [discriminate|]. apply N.eqb_neq in E.
    intros [H1|H1]; [congruence|]. now apply (IH k).
  Qed.

  Lemma lookup_some_in : forall d k v, lookup k d = Some v -> In (k, v) d.
  Proof.
    induction d as [|[k0 v0] r IH]; intros k v H; cbn in *; [discriminate|].
    destruct (N.eqb k k0) eqn:E.
    - apply N.eqb_eq in E. inversion H; subst. now left.
    - right. now apply IH.
  Qed.

  Lemma in_lookup : forall d k v, NoDup (map fst d) -> In (k, v) d -> lookup k d = Some v.
  Proof.
    induction d as [|[k0 v0] r IH]; intros k v Hn Hin; cbn in *; [contradiction|].
    inversion Hn as [|? ? Hx Ht]; subst.
    destruct Hin as [Hin|Hin].
    - inversion Hin; subst. now rewrite N.eqb_refl.
    - destruct (N.eqb k k0) eqn:E.
      + apply N.eqb_eq in E. subst k0. exfalso. apply Hx. apply in_map_iff. exists (k, v). auto.
      + now apply IH.
  Qed.

  Lemma keys_alter : forall d k f, map fst (alter k f d) = map fst d.
  Proof.
    induction d as [|[k0 v0] r IH]; intros k f; cbn; [reflexivity|].
    destruct (N.eqb k k0); cbn; [reflexivity|now rewrite IH].
  Qed.

  Lemma keys_remove_incl : forall d k x, In x (map fst (remove k d)) -> In x (map fst d).
  Proof.
    induction d as [|[k0 v0] r IH]; intros k x H; cbn in *; [assumption|].
    destruct (N.eqb k k0); cbn in *; [now right|]. destruct H; [now left|right; eauto].
  Qed.

  Lemma keys_remove_NoDup : forall d k, NoDup (map fst d) -> NoDup (map fst (remove k d)).
  Proof.
    induction d as [|[k0 v0] r IH]; intros k Hn; cbn in *; [constructor|].
    inversion Hn; subst. destruct (N.eqb k k0); cbn; [assumption|].
    constructor; [|now apply IH]. intro Hin. apply H1. eapply keys_remove_incl; eauto.
  Qed.

  Lemma keys_app_NoDup : forall d k v, NoDup (map fst d) -> lookup k d = None -> NoDup (map fst (d ++ [(k, v)])).
  Proof.
    intros d k v Hn Hl. rewrite map_app. cbn.
    apply NoDup_app_intro; [assumption|repeat constructor; intros []|].
    intros x Hx [Hk|[]]. subst x. now apply (lookup_none_notin d k).
  Qed.
End DictFacts.

(* ------------------------------------------------------------------ the resident total *)
Definition is_resident (s : status) : bool := match s with OnDisk => false | _ => true end.

Definition weight (ds : dataset) : Z := if is_resident (d_status ds) then Z.of_N (d_size ds) else 0.

Fixpoint resident (d : list (key * dataset)) : Z :=
  match d with
  | [] => 0
  | (_, ds) :: r => weight ds + resident r
  end.

Lemma weight_nonneg : forall ds, 0 <= weight ds.
Proof. intro ds. unfold weight. destruct (is_resident _); lia. Qed.

Lemma resident_nonneg : forall d, 0 <= resident d.
Proof. induction d as [|[k ds] r IH]; cbn; [lia|]. pose proof (weight_nonneg ds). lia. Qed.

Lemma resident_alter : forall d k f ds,
  lookup k d = Some ds -> resident (alter k f d) = resident d - weight ds + weight (f ds).
Proof.
  induction d as [|[k0 v0] r IH]; intros k f ds H; cbn in *; [discriminate|].
  destruct (N.eqb k k0); cbn.
  - inversion H; subst. lia.
  - rewrite (IH _ _ _ H). lia.
Qed.

Lemma resident_remove : forall d k ds,
  lookup k d = Some ds -> resident (remove k d) = resident d - weight ds.
Proof.
  induction d as [|[k0 v0] r IH]; intros k ds H; cbn in *; [discriminate|].
  destruct (N.eqb k k0); cbn.
  - inversion H; subst. lia.
  - rewrite (IH _ _ H). lia.
Qed.

Lemma resident_app : forall d k ds, resident (d ++ [(k, ds)]) = resident d + weight ds.
Proof. induction d as [|[k0 v0] r IH]; intros k ds; cbn; [lia|]. rewrite IH. lia. Qed.

(* ------------------------------------------------------------------ the invariant *)
Definition live (j : job) : bool := negb (j_orphan j).
Definition job_status (k : jkind) : status := match k with PageOut => PagingOut | PageIn => PagedIn end.

Definition job_ok (d : list (key * dataset)) (j : job) : Prop :=
  j_orphan j = false ->
  exists ds, lookup (j_key j) d = Some ds /\ d_size ds = j_size j /\ d_status ds = job_status (j_kind j).

Record Inv (s : state) : Prop := mkInv {
  inv_free : free s = capacity s - resident (dsets s);
  inv_nonneg : 0 <= free s;
  inv_keys : NoDup (map fst (dsets s));
  inv_jobs : forall j, In j (jobs s) -> job_ok (dsets s) j;
  inv_live : NoDup (map j_key (filter live (jobs s)))
}.

Lemma inv_init : forall cap, 0 <= cap -> Inv (init cap).
Proof.
  intros cap H. constructor; cbn; try lia; try constructor; try (intros j []).
Qed.

(* the parts of the invariant that do not mention free space: kept by changes of lock/count/segs/files *)
Lemma inv_same : forall s s',
  Inv s -> capacity s' = capacity s -> free s' = free s -> dsets s' = dsets s -> jobs s' = jobs s -> Inv s'.
Proof.
  intros s s' [A B C D E] Hc Hf Hd Hj. constructor; rewrite ?Hc, ?Hf, ?Hd, ?Hj; assumption.
Qed.

(* ------------------------------------------------------------------ job list facts *)
Lemma live_keys_orphan : forall k l x,
  In x (map j_key (filter live (map (orphan_if k) l))) -> In x (map j_key (filter live l)) /\ x <> k.
Proof.
  induction l as [|j t IH]; intros x H; cbn in *; [contradiction|].
  unfold live at 1 in H. cbn in H.
  destruct (j_orphan j) eqn:Eo; cbn in H.
  - unfold live at 1. rewrite Eo. cbn. now apply IH.
  - unfold live at 1. rewrite Eo. cbn.
    destruct (N.eqb (j_key j) k) eqn:Ek; cbn in H.
    + destruct (IH x H). split; [now right|assumption].
    + destruct H as [H|H].
      * subst x. split; [now left|]. now apply N.eqb_neq in Ek.
      * destruct (IH x H). split; [now right|assumption].
Qed.

Lemma live_orphan_NoDup : forall k l,
  NoDup (map j_key (filter live l)) -> NoDup (map j_key (filter live (map (orphan_if k) l))).
Proof.
  induction l as [|j t IH]; intro Hn; cbn in *; [constructor|].
  unfold live at 1. unfold live at 1 in Hn. cbn.
  destruct (j_orphan j) eqn:Eo; cbn in *; [now apply IH|].
  inversion Hn as [|? ? Hx Ht]; subst.
  destruct (N.eqb (j_key j) k); cbn; [now apply IH|].
  constructor; [|now apply IH]. intro Hin. apply Hx. now apply live_keys_orphan in Hin.
Qed.

Lemma in_orphan_map : forall k l j',
  In j' (map (orphan_if k) l) -> j_orphan j' = false ->
  exists j, In j l /\ j_orphan j = false /\ j_key j <> k /\ j_key j' = j_key j /\ j_size j' = j_size j /\ j_kind j' = j_kind j.
Proof.
  intros k l j' Hin Ho. apply in_map_iff in Hin. destruct Hin as [j [Hj Hin]]. subst j'.
  cbn in Ho. apply orb_false_iff in Ho. destruct Ho as [Ho Hk]. apply N.eqb_neq in Hk.
  exists j. cbn. tauto.
Qed.

Lemma find_job_in : forall j l jb, find_job j l = Some jb -> In jb l /\ j_id jb = j.
Proof.
  induction l as [|x t IH]; intros jb H; cbn in *; [discriminate|].
  destruct (N.eqb (j_id x) j) eqn:E.
  - inversion H; subst. split; [now left|now apply N.eqb_eq].
  - destruct (IH _ H). split; [now right|assumption].
Qed.

Lemma in_drop_job : forall j l x, In x (drop_job j l) -> In x l /\ j_id x <> j.
Proof.
  intros j l x H. unfold drop_job in H. apply filter_In in H. destruct H as [H1 H2].
  split; [assumption|]. apply negb_true_iff in H2. now apply N.eqb_neq.
Qed.

Lemma live_drop_NoDup : forall j l, NoDup (map j_key (filter live l)) -> NoDup (map j_key (filter live (drop_job j l))).
Proof.
  intros j l. unfold drop_job. induction l as [|x t IH]; cbn; intro Hn; [constructor|].
  destruct (live x) eqn:El; cbn in Hn.
  - inversion Hn as [|? ? Hx Ht]; subst.
    destruct (negb (N.eqb (j_id x) j)); cbn; [|now apply IH].
    rewrite El. cbn. constructor; [|now apply IH].
    intro Hin. apply Hx. apply in_map_iff in Hin. destruct Hin as [y [Hy Hin]].
    apply filter_In in Hin. destruct Hin as [Hin Hl]. apply filter_In in Hin.
    apply in_map_iff. exists y. split; [assumption|]. apply filter_In. tauto.
  - destruct (negb (N.eqb (j_id x) j)); cbn; [rewrite El|]; now apply IH.
Qed.

Lemma live_update_phase : forall j p l,
  map j_key (filter live (update_job j (set_phase p) l)) = map j_key (filter live l).
Proof.
  intros j p. unfold update_job. induction l as [|x t IH]; [reflexivity|].
  cbn [map filter].
  assert (Hl : live (if N.eqb (j_id x) j then set_phase p x else x) = live x) by (destruct (N.eqb (j_id x) j); reflexivity).
  assert (Hk : j_key (if N.eqb (j_id x) j then set_phase p x else x) = j_key x) by (destruct (N.eqb (j_id x) j); reflexivity).
  rewrite Hl. destruct (live x); cbn [map]; rewrite ?Hk, IH; reflexivity.
Qed.

Lemma in_update_phase : forall j p l x,
  In x (update_job j (set_phase p) l) ->
  exists y, In y l /\ j_key x = j_key y /\ j_size x = j_size y /\ j_kind x = j_kind y /\ j_orphan x = j_orphan y.
Proof.
  intros j p l x H. unfold update_job in H. apply in_map_iff in H. destruct H as [y [Hy Hin]].
  exists y. split; [assumption|]. destruct (N.eqb (j_id y) j); subst x; cbn; tauto.
Qed.

Lemma live_key_unique : forall l a b,
  NoDup (map j_key (filter live l)) -> In a l -> In b l ->
  j_orphan a = false -> j_orphan b = false -> j_key a = j_key b -> a = b.
Proof.
  intros l a b Hn Ha Hb Oa Ob Hk.
  eapply (NoDup_map_inj_in j_key); eauto; apply filter_In; unfold live; split; auto; now rewrite ?Oa, ?Ob.
Qed.

Lemma live_key_in : forall l a, In a l -> j_orphan a = false -> In (j_key a) (map j_key (filter live l)).
Proof.
  intros l a Ha Oa. apply in_map. apply filter_In. split; [assumption|]. unfold live. now rewrite Oa.
Qed.

(* ------------------------------------------------------------------ building blocks *)
Ltac unf := unfold submit, with_free, with_lock, with_dsets, with_segs, with_files, with_jobs in *; cbn [capacity free lock count dsets segs files jobs next_jid] in *.

Lemma alter_absent : forall {V} (d : list (key * V)) k f, lookup k d = None -> alter k f d = d.
Proof.
  induction d as [|[k0 v0] r IH]; intros k f H; cbn in *; [reflexivity|].
  destruct (N.eqb k k0); [discriminate|]. now rewrite IH.
Qed.

(* mutate the dataset under k without changing its weight or size; jobs of that key must agree with the new status *)
Lemma inv_alter : forall s k f ds,
  Inv s -> lookup k (dsets s) = Some ds ->
  weight (f ds) = weight ds -> d_size (f ds) = d_size ds ->
  (forall j, In j (jobs s) -> j_orphan j = false -> j_key j = k -> d_status (f ds) = job_status (j_kind j)) ->
  Inv (with_dsets (alter k f (dsets s)) s).
Proof.
  intros s k f ds [A B C D E] Hl Hw Hs Hj. constructor; unf.
  - rewrite (resident_alter _ _ _ _ Hl). lia.
  - assumption.
  - now rewrite keys_alter.
  - intros j Hin Ho. destruct (D j Hin Ho) as [ds' [L1 [L2 L3]]].
    destruct (N.eq_dec k (j_key j)) as [->|Hne].
    + rewrite lookup_alter_same, L1. cbn. exists (f ds'). rewrite Hl in L1. inversion L1; subst ds'.
      split; [reflexivity|]. split; [congruence|]. now apply Hj.
    + rewrite (lookup_alter_other _ _ _ _ Hne). eauto.
  - assumption.
Qed.

Lemma inv_alter_neutral : forall s k f,
  Inv s -> (forall ds, d_size (f ds) = d_size ds /\ d_status (f ds) = d_status ds) ->
  Inv (with_dsets (alter k f (dsets s)) s).
Proof.
  intros s k f HI Hf. destruct (lookup k (dsets s)) as [ds|] eqn:Hl.
  - eapply inv_alter; eauto.
    + unfold weight. destruct (Hf ds) as [-> ->]. reflexivity.
    + apply Hf.
    + intros j Hin Ho Hk. destruct (inv_jobs _ HI j Hin Ho) as [ds' [L1 [L2 L3]]].
      rewrite Hk, Hl in L1. inversion L1; subst ds'. destruct (Hf ds) as [_ ->]. assumption.
  - rewrite (alter_absent _ _ _ Hl). eapply inv_same; eauto.
Qed.

(* no live job exists for a key whose dataset is in a status no job sets *)
Lemma no_live_job : forall s k ds j,
  Inv s -> lookup k (dsets s) = Some ds -> d_status ds <> PagingOut -> d_status ds <> PagedIn ->
  In j (jobs s) -> j_orphan j = false -> j_key j = k -> False.
Proof.
  intros s k ds j HI Hl H1 H2 Hin Ho Hk.
  destruct (inv_jobs _ HI j Hin Ho) as [ds' [L1 [L2 L3]]]. rewrite Hk, Hl in L1. inversion L1; subst ds'.
  destruct (j_kind j); cbn in L3; congruence.
Qed.

Lemma purge_inv : forall s k, Inv s -> Inv (purge k s).
Proof.
  intros s k HI. unfold purge.
  destruct (lookup k (dsets s)) as [ds|] eqn:Hl; [|assumption].
  destruct (d_readers ds) eqn:Hr.
  2:{ apply inv_alter_neutral; [assumption|]. intro d0. split; reflexivity. }
  destruct (d_status ds) eqn:Hs; try assumption;
  (destruct (lookup k (segs s)) eqn:Hg; [|assumption]);
  (destruct HI as [A B C D E]; constructor; unf;
   [ rewrite (resident_remove _ _ _ Hl); unfold weight; rewrite Hs; cbn; lia
   | lia
   | now apply keys_remove_NoDup
   | intros j' Hin Ho; destruct (in_orphan_map _ _ _ Hin Ho) as [j [I1 [I2 [I3 [I4 [I5 I6]]]]]];
     destruct (D j I1 I2) as [ds' [L1 [L2 L3]]]; exists ds';
     rewrite I4, I5, I6; rewrite lookup_remove_other by congruence; auto
   | now apply live_orphan_NoDup ]).
Qed.

Lemma purge_capacity : forall s k, capacity (purge k s) = capacity s.
Proof.
  intros s k. unfold purge. destruct (lookup k (dsets s)) as [ds|]; [|reflexivity].
  destruct (d_readers ds); [|reflexivity].
  destruct (d_status ds); try reflexivity; destruct (lookup k (segs s)); reflexivity.
Qed.

Lemma page_out_inv : forall s k ds,
  Inv s -> lookup k (dsets s) = Some ds -> (d_status ds = Created \/ d_status ds = InMemory) ->
  Inv (page_out s k) /\ capacity (page_out s k) = capacity s /\
  (forall k', k' <> k -> lookup k' (dsets (page_out s k)) = lookup k' (dsets s)).
Proof.
  intros s k ds HI Hl Hs. unfold page_out. rewrite Hl.
  assert (Hno : forall j, In j (jobs s) -> j_orphan j = false -> j_key j = k -> False).
  { intros j. eapply no_live_job; eauto; destruct Hs as [-> | ->]; discriminate. }
  assert (HI1 : Inv (with_dsets (alter k (set_status PagingOut) (dsets s)) s)).
  { eapply inv_alter; eauto.
    - unfold weight. cbn. destruct Hs as [-> | ->]; reflexivity.
    - intros j Hin Ho Hk. exfalso. eauto. }
  split; [|split].
  - destruct HI1 as [A B C D E]. constructor; unf; auto.
    + intros j Hin Ho. apply in_app_iff in Hin. destruct Hin as [Hin|[<-|[]]]; [now apply D|].
      cbn. exists (set_status PagingOut ds). rewrite lookup_alter_same, Hl. auto.
    + rewrite filter_app, map_app. cbn. apply NoDup_app_intro; [assumption|repeat constructor; intros []|].
      intros x Hx [<-|[]]. apply in_map_iff in Hx. destruct Hx as [j [Hk Hin]]. apply filter_In in Hin.
      destruct Hin as [Hin Hlv]. unfold live in Hlv. apply negb_true_iff in Hlv. eauto.
  - reflexivity.
  - intros k' Hne. unf. apply lookup_alter_other. congruence.
Qed.

Lemma fold_page_out_inv : forall ws s,
  Inv s -> NoDup ws ->
  (forall w, In w ws -> exists ds, lookup w (dsets s) = Some ds /\ (d_status ds = Created \/ d_status ds = InMemory)) ->
  Inv (fold_left page_out ws s) /\ capacity (fold_left page_out ws s) = capacity s.
Proof.
  induction ws as [|w t IH]; intros s HI Hn Hw; cbn; [auto|].
  inversion Hn as [|? ? Hx Ht]; subst.
  destruct (Hw w (or_introl eq_refl)) as [ds [Hl Hs]].
  destruct (page_out_inv s w ds HI Hl Hs) as [HI' [Hc Hk]].
  destruct (IH (page_out s w) HI' Ht) as [HI'' Hc''].
  - intros w' Hin. rewrite Hk; [apply Hw; now right|]. intro; subst; contradiction.
  - split; [assumption|congruence].
Qed.

Lemma pageoutable_status : forall now ds, is_pageoutable now ds = true -> d_status ds = Created \/ d_status ds = InMemory.
Proof.
  intros now ds H. unfold is_pageoutable in H. apply orb_true_iff in H.
  destruct H as [H|H]; apply andb_true_iff in H; destruct H as [H _]; destruct (d_status ds); try discriminate; auto.
Qed.

Lemma candidates_keys : forall now d, map e_key (candidates now d) = map fst (filter (fun kd => is_pageoutable now (snd kd)) d).
Proof. intros now d. unfold candidates. rewrite map_map. reflexivity. Qed.

Lemma poal_inv : forall fixed amount now s,
  Inv s -> Inv (page_out_at_least_gen fixed amount now s) /\ capacity (page_out_at_least_gen fixed amount now s) = capacity s.
Proof.
  intros fixed amount now s HI. unfold page_out_at_least_gen.
  destruct (lock s); [auto|].
  destruct (lottery (candidates now (dsets s)) amount) as [|w0 ws] eqn:El.
  - split; [eapply inv_same; eauto|reflexivity].
  - rewrite <- El.
    assert (HI0 : Inv (with_lock true (Z.of_nat (List.length (lottery (candidates now (dsets s)) amount))) s)) by (eapply inv_same; eauto).
    destruct (fold_page_out_inv (lottery (candidates now (dsets s)) amount) _ HI0) as [H1 H2].
    + apply lottery_NoDup. rewrite candidates_keys. apply NoDup_map_filter. apply (inv_keys _ HI).
    + intros w Hin. apply lottery_in in Hin. destruct Hin as [e [He Hk]].
      unfold candidates in He. apply in_map_iff in He. destruct He as [[k ds] [He Hin]].
      apply filter_In in Hin. destruct Hin as [Hin Hp]. subst e. cbn in Hk. subst w. cbn in Hp.
      exists ds. unf. split; [apply in_lookup; [apply (inv_keys _ HI)|assumption]|]. eapply pageoutable_status; eauto.
    + split; assumption.
Qed.

(* ------------------------------------------------------------------ every request keeps the invariant *)
Lemma add_inv : forall s k size now, Inv s -> Inv (fst (add k size now s)) /\ capacity (fst (add k size now s)) = capacity s.
Proof.
  intros s k size now HI. unfold add.
  destruct (lookup k (dsets s)) eqn:Hl; [auto|].
  destruct (Z.of_N size >? capacity s) eqn:E1; [auto|].
  destruct (Z.of_N size >? free s) eqn:E2; cbn [fst].
  - apply poal_inv. assumption.
  - split; [|reflexivity]. destruct HI as [A B C D E]. constructor; unf.
    + rewrite resident_app. unfold weight. cbn. lia.
    + lia.
    + now apply keys_app_NoDup.
    + intros j Hin Ho. destruct (D j Hin Ho) as [ds [L1 L2]]. exists ds. rewrite lookup_app_end, L1. auto.
    + assumption.
Qed.

Lemma maybe_delayed_purge_inv : forall s k, Inv s -> Inv (maybe_delayed_purge k s).
Proof.
  intros s k HI. unfold maybe_delayed_purge. destruct (lookup k (dsets s)) as [ds|]; [|assumption].
  destruct (d_delayed ds && _); [now apply purge_inv|assumption].
Qed.

Lemma maybe_delayed_purge_capacity : forall s k, capacity (maybe_delayed_purge k s) = capacity s.
Proof.
  intros s k. unfold maybe_delayed_purge. destruct (lookup k (dsets s)) as [ds|]; [|reflexivity].
  destruct (d_delayed ds && _); [apply purge_capacity|reflexivity].
Qed.

Lemma status_eqb_eq : forall a b, status_eqb a b = true -> a = b.
Proof. destruct a, b; cbn; congruence. Qed.

Lemma close_inv : forall s k r, Inv s -> Inv (fst (close k r s)) /\ capacity (fst (close k r s)) = capacity s.
Proof.
  intros s k r HI. unfold close.
  destruct (lookup k (dsets s)) as [ds|] eqn:Hl; [|auto].
  destruct r as [rd|].
  - destruct (status_eqb (d_status ds) InMemory) eqn:Es; [|auto]. cbn [fst].
    rewrite maybe_delayed_purge_capacity. split.
    + apply maybe_delayed_purge_inv. destruct (lookup rd (d_readers ds)); [|assumption].
      apply inv_alter_neutral; [assumption|]. intro d0. split; reflexivity.
    + destruct (lookup rd (d_readers ds)); reflexivity.
  - destruct (status_eqb (d_status ds) Created) eqn:Es; [|auto]. cbn [fst].
    rewrite maybe_delayed_purge_capacity. split; [|reflexivity].
    apply maybe_delayed_purge_inv. apply status_eqb_eq in Es.
    eapply inv_alter; eauto.
    + unfold weight. cbn. rewrite Es. reflexivity.
    + intros j Hin Ho Hk. exfalso. eapply no_live_job; eauto; rewrite Es; discriminate.
Qed.

Lemma get_inv : forall s k now u, Inv s -> Inv (fst (get k now u s)) /\ capacity (fst (get k now u s)) = capacity s.
Proof.
  intros s k now u HI. unfold get.
  destruct (lookup k (dsets s)) as [ds|] eqn:Hl; [|auto].
  destruct (d_status ds) eqn:Es; auto.
  - (* in_memory *)
    destruct (first_fresh u (d_readers ds)); [|auto]. cbn [fst]. split; [|reflexivity].
    apply inv_alter_neutral; [assumption|]. intro d0. split; reflexivity.
  - (* on_disk *)
    destruct (Z.of_N (d_size ds) >? free s) eqn:E; cbn [fst]; [now apply poal_inv|].
    unfold page_in. unf.
    assert (Hno : forall j, In j (jobs s) -> j_orphan j = false -> j_key j = k -> False).
    { intros j. eapply no_live_job; eauto; rewrite Es; discriminate. }
    destruct (free s <? Z.of_N (d_size ds)) eqn:E'; [lia|]. cbn [fst]. split; [|reflexivity].
    destruct HI as [A B C D F]. constructor; unf.
    + rewrite (resident_alter _ _ _ _ Hl). unfold weight. rewrite Es. cbn. lia.
    + lia.
    + now rewrite keys_alter.
    + intros j Hin Ho. apply in_app_iff in Hin. destruct Hin as [Hin|[<-|[]]].
      * destruct (D j Hin Ho) as [ds' [L1 L2]]. exists ds'. split; [|assumption].
        rewrite lookup_alter_other; [assumption|]. intro Hk. symmetry in Hk. eauto.
      * cbn. exists (set_status PagedIn ds). rewrite lookup_alter_same, Hl. auto.
    + rewrite filter_app, map_app. cbn. apply NoDup_app_intro; [assumption|repeat constructor; intros []|].
      intros x Hx [<-|[]]. apply in_map_iff in Hx. destruct Hx as [j [Hk Hin]]. apply filter_In in Hin.
      destruct Hin as [Hin Hlv]. unfold live in Hlv. apply negb_true_iff in Hlv. eauto.
Qed.

Lemma to_phase_inv : forall s j p, Inv s -> Inv (to_phase j p s).
Proof.
  intros s j p [A B C D E]. unfold to_phase. constructor; unf; auto.
  - intros x Hin Ho. apply in_update_phase in Hin. destruct Hin as [y [Hy [K1 [K2 [K3 K4]]]]].
    rewrite K4 in Ho. destruct (D y Hy Ho) as [ds L]. exists ds. now rewrite K1, K2, K3.
  - now rewrite live_update_phase.
Qed.

Lemma finish_io_inv : forall s j ok, Inv s -> Inv (finish_io j ok s).
Proof. intros. now apply to_phase_inv. Qed.

Lemma job_io_inv : forall s j f, Inv s -> Inv (fst (job_io j f s)) /\ capacity (fst (job_io j f s)) = capacity s.
Proof.
  intros s j f HI. unfold job_io.
  destruct (find_job j (jobs s)) as [jb|]; [|auto].
  destruct (j_phase jb); [|auto|auto]. cbn [fst].
  destruct (j_kind jb).
  - unfold io_page_out, finish_io. destruct (lookup (j_key jb) (segs s)); [destruct f|];
      (split; [apply to_phase_inv; eapply inv_same; eauto|reflexivity]).
  - unfold io_page_in. destruct (j_size jb =? 0)%N; [split; [now apply finish_io_inv|reflexivity]|].
    destruct (lookup (j_key jb) (segs s)); [split; [now apply finish_io_inv|reflexivity]|].
    destruct f; [split; [apply finish_io_inv; eapply inv_same; eauto|reflexivity]|].
    destruct (lookup (j_key jb) (files s)); [|split; [apply finish_io_inv; eapply inv_same; eauto|reflexivity]].
    destruct (_ <=? _)%N; (split; [apply finish_io_inv; eapply inv_same; eauto|reflexivity]).
Qed.

Lemma job_unlink_inv : forall s j, Inv s -> Inv (fst (job_unlink j s)) /\ capacity (fst (job_unlink j s)) = capacity s.
Proof.
  intros s j HI. unfold job_unlink.
  destruct (find_job j (jobs s)) as [jb|]; [|auto].
  destruct (j_kind jb), (j_phase jb); auto. cbn [fst].
  destruct (lookup (j_key jb) (segs s)); (split; [apply finish_io_inv; eapply inv_same; eauto|reflexivity]).
Qed.

(* the one step that breaks the accounting *)
Definition races (s : state) (o : op) : bool :=
  match o with
  | JobCb j =>
      match find_job j (jobs s) with
      | Some jb => match j_kind jb, j_phase jb with
                   | PageOut, CbPending true => j_orphan jb
                   | _, _ => false
                   end
      | None => false
      end
  | _ => false
  end.

Lemma count_down_inv : forall s, Inv s -> Inv (count_down s).
Proof. intros s HI. unfold count_down. eapply inv_same; eauto. Qed.

Lemma drop_inv : forall s j, Inv s -> Inv (with_jobs (drop_job j (jobs s)) s).
Proof.
  intros s j [A B C D E]. constructor; unf; auto.
  - intros x Hin. apply in_drop_job in Hin. now apply D.
  - now apply live_drop_NoDup.
Qed.

Lemma job_cb_inv : forall s j, Inv s -> races s (JobCb j) = false ->
  Inv (fst (job_cb j s)) /\ capacity (fst (job_cb j s)) = capacity s.
Proof.
  intros s j HI Hr. unfold job_cb. unfold races in Hr.
  destruct (find_job j (jobs s)) as [jb|] eqn:Hf; [|auto].
  destruct (j_phase jb) as [| |ok] eqn:Hp; [auto|auto|]. cbn [fst].
  apply find_job_in in Hf. destruct Hf as [Hin Hid].
  pose proof (drop_inv s j HI) as H0.
  set (s0 := with_jobs (drop_job j (jobs s)) s) in *.
  assert (Hlive : j_orphan jb = false ->
          (forall x, In x (jobs s) -> j_orphan x = false -> j_key x = j_key jb -> x = jb) /\
                     exists ds, lookup (j_key jb) (dsets s) = Some ds /\ d_size ds = j_size jb /\ d_status ds = job_status (j_kind jb)).
  { intros Ho. split; [|exact (inv_jobs _ HI jb Hin Ho)].
    intros x Hx Hox Hk. eapply live_key_unique; eauto. apply (inv_live _ HI). }
  destruct (j_kind jb) eqn:Hk, ok.
  - (* page-out succeeded *)
    destruct (j_orphan jb) eqn:Ho; [discriminate|].
    destruct (Hlive eq_refl) as [Huniq [ds [L1 [L2 L3]]]]. cbn in L3.
    split; [|reflexivity]. apply count_down_inv.
    destruct H0 as [A B C D E]. subst s0. constructor; unf; auto.
    + rewrite (resident_alter _ _ _ _ L1). unfold weight. rewrite L3. cbn. lia.
    + lia.
    + now rewrite keys_alter.
    + intros x Hx Hox. pose proof Hx as Hx'. apply in_drop_job in Hx. destruct Hx as [Hx Hne].
      destruct (inv_jobs _ HI x Hx Hox) as [ds' L]. exists ds'.
      rewrite lookup_alter_other; [assumption|]. intro Hkk. apply Hne. rewrite (Huniq x Hx Hox (eq_sym Hkk)). assumption.
  - (* page-out failed: purge whatever is registered under the key *)
    split; [apply count_down_inv; now apply purge_inv|]. unfold count_down. unf. now rewrite purge_capacity.
  - (* page-in succeeded *)
    destruct (j_orphan jb) eqn:Ho; [auto|].
    destruct (Hlive eq_refl) as [Huniq [ds [L1 [L2 L3]]]]. cbn in L3.
    split; [|reflexivity].
    eapply inv_alter; eauto.
    + unfold weight. cbn. rewrite L3. reflexivity.
    + intros x Hx Hox Hkk. exfalso. subst s0. unf. apply in_drop_job in Hx. destruct Hx as [Hx Hne].
      apply Hne. rewrite (Huniq x Hx Hox Hkk). assumption.
  - split; [now apply purge_inv|now rewrite purge_capacity].
Qed.

Theorem step_inv : forall s o, Inv s -> races s o = false ->
  Inv (fst (step s o)) /\ capacity (fst (step s o)) = capacity s.
Proof.
  intros s o HI Hr. destruct o; cbn [step].
  - now apply add_inv.
  - destruct (lookup k (segs s)); cbn [fst]; split; auto. eapply inv_same; eauto.
  - now apply close_inv.
  - now apply get_inv.
  - cbn [fst]. split; [now apply purge_inv|apply purge_capacity].
  - now apply job_io_inv.
  - now apply job_unlink_inv.
  - now apply job_cb_inv.
  - auto.
  - auto.
Qed.

Fixpoint race_free (s : state) (ops : list op) : bool :=
  match ops with
  | [] => true
  | o :: r => negb (races s o) && race_free (fst (step s o)) r
  end.

Lemma exec_cons : forall s o r, exec s (o :: r) = exec (fst (step s o)) r.
Proof.
  intros s o r. unfold exec. cbn. destruct (step s o) as [s' rp]. cbn. destruct (run s' r). reflexivity.
Qed.

Theorem run_inv : forall ops s, Inv s -> race_free s ops = true ->
  Inv (exec s ops) /\ capacity (exec s ops) = capacity s.
Proof.
  induction ops as [|o r IH]; intros s HI Hr.
  - auto.
  - cbn in Hr. apply andb_true_iff in Hr. destruct Hr as [H1 H2]. apply negb_true_iff in H1.
    rewrite exec_cons. destruct (step_inv s o HI H1) as [HI' Hc].
    destruct (IH _ HI' H2). split; [assumption|congruence].
Qed.

Lemma race_free_app : forall a s b, race_free s (a ++ b) = race_free s a && race_free (exec s a) b.
Proof.
  induction a as [|o r IH]; intros s b; [reflexivity|].
  cbn [app race_free]. rewrite IH, exec_cons. now rewrite andb_assoc.
Qed.

Lemma exec_app : forall a s b, exec s (a ++ b) = exec (exec s a) b.
Proof. induction a as [|o r IH]; intros s b; [reflexivity|]. cbn [app]. now rewrite !exec_cons, IH. Qed.

(* ------------------------------------------------------------------ property-level statements *)
Theorem accounting : forall cap ops, 0 <= cap -> race_free (init cap) ops = true ->
  let s := exec (init cap) ops in
  capacity s = cap /\ free s = cap - resident (dsets s) /\ 0 <= free s /\
  0 <= resident (dsets s) /\ resident (dsets s) <= cap.
Proof.
  intros cap ops Hc Hr s. destruct (run_inv ops (init cap) (inv_init cap Hc) Hr) as [HI Hcap].
  fold s in HI, Hcap. cbn in Hcap. pose proof (inv_free _ HI). pose proof (inv_nonneg _ HI).
  pose proof (resident_nonneg (dsets s)). rewrite Hcap in *. repeat split; lia.
Qed.

(* what the serve loop shows after op number |pre| is the free space of the state reached *)
Theorem output_at : forall pre s o post,
  nth_error (fst (run s (pre ++ o :: post))) (List.length pre) =
  Some (snd (step (exec s pre) o), free (exec s (pre ++ [o])),
        map seen_job (filter (fun j => (next_jid (exec s pre) <=? j_id j)%N) (jobs (exec s (pre ++ [o]))))).
Proof.
  induction pre as [|p r IH]; intros s o post.
  - cbn [app List.length]. unfold exec at 2 4. cbn [run]. destruct (step s o) as [s' rp] eqn:E.
    destruct (run s' post) as [outs fin]. cbn. unfold exec. cbn. rewrite E. cbn. reflexivity.
  - cbn [app List.length]. rewrite !exec_cons. cbn [run]. destruct (step s p) as [s' rp] eqn:E. cbn [fst].
    specialize (IH s' o post). destruct (run s' (r ++ o :: post)) as [outs fin]. cbn [fst nth_error] in *. exact IH.
Qed.

Lemma page_out_free_keys : forall s k, free (page_out s k) = free s /\ map fst (dsets (page_out s k)) = map fst (dsets s).
Proof.
  intros s k. unfold page_out. destruct (lookup k (dsets s)); [|auto]. unf. now rewrite keys_alter.
Qed.

Lemma poal_free_keys : forall fixed amount now s,
  free (page_out_at_least_gen fixed amount now s) = free s /\
  map fst (dsets (page_out_at_least_gen fixed amount now s)) = map fst (dsets s).
Proof.
  intros fixed amount now s. unfold page_out_at_least_gen. destruct (lock s); [auto|].
  destruct (lottery _ _) as [|w0 ws]; [auto|].
  assert (H : forall l s1, free (fold_left page_out l s1) = free s1 /\ map fst (dsets (fold_left page_out l s1)) = map fst (dsets s1)).
  { induction l as [|w t IH]; intros s1; [auto|]. cbn. destruct (IH (page_out s1 w)) as [-> ->]. apply page_out_free_keys. }
  destruct (H (w0 :: ws) (with_lock true (Z.of_nat (List.length (w0 :: ws))) s)) as [-> ->]. auto.
Qed.

Theorem add_never_early : forall cap ops k size now, 0 <= cap -> race_free (init cap) ops = true ->
  let s := exec (init cap) ops in
  let s' := fst (step s (Add k size now)) in
  let r := snd (step s (Add k size now)) in
  (cap < Z.of_N size -> (r = RErr "capacity exceeded" \/ r = RErr "conflict") /\ s' = s) /\
  (Z.of_N size <= cap -> cap - resident (dsets s) < Z.of_N size ->
     (r = RErr "wait" \/ r = RErr "conflict") /\ map fst (dsets s') = map fst (dsets s) /\
     resident (dsets s') = resident (dsets s) /\ free s' = free s) /\
  (forall k', r = RGranted k' ->
     k' = k /\ lookup k (dsets s) = None /\ resident (dsets s) + Z.of_N size <= cap /\
     resident (dsets s') = resident (dsets s) + Z.of_N size /\
     exists ds, lookup k (dsets s') = Some ds /\ d_size ds = size /\ d_status ds = Created).
Proof.
  intros cap ops k size now Hc Hr s s' r.
  destruct (accounting cap ops Hc Hr) as [Hcap [Hf [Hn [Hr0 Hr1]]]]. fold s in Hcap, Hf, Hn, Hr0, Hr1.
  destruct (run_inv ops (init cap) (inv_init cap Hc) Hr) as [HI _]. fold s in HI.
  destruct (add_inv s k size now HI) as [HI' _].
  subst s' r. cbn [step] in *. unfold add in *.
  destruct (lookup k (dsets s)) eqn:Hl; cbn [fst snd] in *.
  { repeat split; auto; intros; discriminate. }
  rewrite Hcap.
  destruct (Z.of_N size >? cap) eqn:E1; cbn [fst snd].
  { repeat split; auto; try lia; intros; discriminate. }
  destruct (Z.of_N size >? free s) eqn:E2; cbn [fst snd] in *.
  - destruct (poal_free_keys true (Z.of_N size - free s) now s) as [P1 P2].
    split; [intros; lia|]. split; [|intros; discriminate].
    intros _ _. split; [auto|]. split; [assumption|]. split; [|assumption].
    destruct (poal_inv true (Z.of_N size - free s) now s HI) as [HI2 C'].
    pose proof (inv_free _ HI2) as F'. unfold page_out_at_least in *. rewrite P1, C', Hcap in F'. lia.
  - split; [intros; lia|]. split; [intros; lia|].
    intros k' Hk. inversion Hk; subst k'. unf. rewrite resident_app. unfold weight. cbn.
    repeat split; try lia. exists (new_dataset size now). rewrite lookup_app_end, Hl, N.eqb_refl. auto.
Qed.

(* the finding: the history  allocate K; page-out of K issued; purge K; allocate K again and create its
   segment; the page-out job finds the NEW segment, succeeds, and its callback credits K's size a second time *)
Definition readd_witness : list op := [
  Add 0%N 6%N 10; Write 0%N [1;2;3;4;5;6]%N; Close 0%N None; Add 1%N 6%N 20; Purge 0%N;
  Add 0%N 6%N 30; Write 0%N [10;11;12;13;14;15]%N; JobIo 0%N false; JobUnlink 0%N; JobCb 0%N ].

Theorem accounting_refuted :
  exists cap ops, 0 <= cap /\
    let s := exec (init cap) ops in
    free s <> cap - resident (dsets s) /\
    exists k size now, snd (step s (Add k size now)) = RGranted k /\ cap - resident (dsets s) < Z.of_N size /\
                       cap < resident (dsets (fst (step s (Add k size now)))).
Proof.
  exists 10, readd_witness. split; [lia|]. cbv zeta. split; [vm_compute; discriminate|].
  exists 2%N, 10%N, 40. vm_compute. repeat split; reflexivity.
Qed.
