(* The blocking behaviour of dataset.Manager: which lock events every request handler and every disk-job
   callback performs, as a refinement of the atomic steps of Shm/Manager.v.

   The Manager has two locks.
     pageout_all   is only ever taken with acquire(blocking=False) (page_out_at_least) and released by the
                   callback of the last page-out of the round: nobody waits for it; it is the field `lock`
                   of Shm/Manager.v (Shm/ManagerLive.v proves it is held exactly while a page-out is pending).
     pageout_one   a plain threading.Lock, taken with `with self.pageout_one:` -- blocking and NOT re-entrant.
   pageout_one is the only blocking primitive of the store, and every section under it is straight-line code.
   So a handler (server thread) or a callback (Disk pool thread) can block for ever in exactly one way: by
   taking pageout_one while the same thread already holds it; a thread waiting for another thread's section
   waits for finitely many statements, provided that section does not block itself -- the same statement.
   `step_events` lists the acquire / release events of pageout_one in program order:
     Manager.purge (is_exit=False)   `with self.pageout_one: self.free_space += ds.size`, reached exactly when
                                     the unlink of the segment succeeded (purge_credits);
     page_out.callback(True)         one section (status, free space, count down, release of pageout_all);
     page_out.callback(False)        self.purge(key) FIRST, outside any section, then one section (count down);
     page_in.callback(False)         self.purge(key);
     close_callback                  self.purge(key) when the delayed purge falls due.
   `play` is the blocking semantics of one thread.  No proofs in this file. *)
From Coq Require Import List NArith ZArith String Bool.
From EKW Require Import Shm.Lottery Shm.Manager.
Import ListNotations.
Open Scope list_scope.

Inductive lev : Type := AcqOne | RelOne.

Definition lev_eqb (a b : lev) : bool :=
  match a, b with AcqOne, AcqOne | RelOne, RelOne => true | _, _ => false end.

(* held = this thread holds pageout_one; None = the thread blocks for ever (it waits for itself) *)
Fixpoint play (held : bool) (es : list lev) : option bool :=
  match es with
  | [] => Some held
  | AcqOne :: r => if held then None else play true r
  | RelOne :: r => play false r
  end.

(* Manager.purge reaches `with self.pageout_one` *)
Definition purge_credits (k : key) (s : state) : bool :=
  match lookup k (dsets s) with
  | None => false
  | Some ds =>
      match d_readers ds with
      | _ :: _ => false
      | [] =>
          match d_status ds with
          | OnDisk => false
          | _ => match lookup k (segs s) with None => false | Some _ => true end
          end
      end
  end.

Definition purge_events (k : key) (s : state) : list lev :=
  if purge_credits k s then [AcqOne; RelOne] else [].

Definition maybe_delayed_purge_events (k : key) (s : state) : list lev :=
  match lookup k (dsets s) with
  | Some ds => if d_delayed ds && match d_readers ds with [] => true | _ => false end then purge_events k s else []
  | None => []
  end.

(* close_callback: the state in which the delayed purge is looked at is the one after the reader / writer was booked out *)
Definition close_events (k : key) (r : option N) (s : state) : list lev :=
  match lookup k (dsets s) with
  | None => []
  | Some ds =>
      match r with
      | None =>
          if status_eqb (d_status ds) Created
          then maybe_delayed_purge_events k
                 (with_dsets (alter k (fun d => set_written (lookup k (segs s)) (set_status InMemory d)) (dsets s)) s)
          else []
      | Some rd =>
          if status_eqb (d_status ds) InMemory
          then maybe_delayed_purge_events k
                 (match lookup rd (d_readers ds) with
                  | None => s
                  | Some _ => with_dsets (alter k (fun d => set_readers (remove rd (d_readers d)) d) (dsets s)) s
                  end)
          else []
      end
  end.

Definition job_cb_events (j : N) (s : state) : list lev :=
  match find_job j (jobs s) with
  | Some jb =>
      match j_phase jb with
      | CbPending ok =>
          let s0 := with_jobs (drop_job j (jobs s)) s in
          match j_kind jb, ok with
          | PageOut, true => [AcqOne; RelOne]
          | PageOut, false => purge_events (j_key jb) s0 ++ [AcqOne; RelOne]
          | PageIn, true => []
          | PageIn, false => purge_events (j_key jb) s0
          end
      | _ => []
      end
  | None => []
  end.

Definition step_events (s : state) (o : op) : list lev :=
  match o with
  | Purge k => purge_events k s
  | Close k r => close_events k r s
  | JobCb j => job_cb_events j s
  | _ => []
  end.

(* the shape that must NOT be written: purge called from inside a section under pageout_one *)
Definition purge_inside_section_events (k : key) (s : state) : list lev :=
  [AcqOne] ++ purge_events k s ++ [RelOne].

(* ------------------------------------------------------------------ correspondence checker *)
Fixpoint events_along (s : state) (ops : list op) : list (list lev) :=
  match ops with
  | [] => []
  | o :: r => step_events s o :: events_along (fst (step s o)) r
  end.

Fixpoint lev_list_eqb (a b : list lev) : bool :=
  match a, b with
  | [], [] => true
  | x :: r, y :: t => lev_eqb x y && lev_list_eqb r t
  | _, _ => false
  end.

Fixpoint lev_lists_eqb (a b : list (list lev)) : bool :=
  match a, b with
  | [], [] => true
  | x :: r, y :: t => lev_list_eqb x y && lev_lists_eqb r t
  | _, _ => false
  end.

(* (capacity, op list, events of pageout_one observed on the implementation during each op) *)
Definition check_locks (c : Z * list op * list (list lev)) : bool :=
  let '(cap, ops, evs) := c in lev_lists_eqb (events_along (init cap) ops) evs.
