(* Executable model of src/cascade/shm/algorithms.py (Entity, lottery).
   Keys are numbers (the harness maps key strings injectively), times are unbounded
   integers (time.time_ns), sizes are naturals (N).  `sorted` is stable: modelled by a
   stable insertion sort.  No proofs in this file. *)
From Coq Require Import List NArith ZArith Bool.
Import ListNotations.

Definition key := N.

Record entity : Type := mkEntity {
  e_key : key;
  e_created : Z;
  e_first : Z;       (* retrieved_first, 0 = never *)
  e_last : Z;        (* retrieved_last *)
  e_size : N
}.

(* sorted(l, key=f): stable *)
Section Sort.
  Context {A : Type} (f : A -> Z).
  Fixpoint sinsert (x : A) (l : list A) : list A :=
    match l with
    | [] => [x]
    | y :: t => if (f x <=? f y)%Z then x :: y :: t else y :: sinsert x t
    end.
  Fixpoint ssort (l : list A) : list A :=
    match l with
    | [] => []
    | x :: t => sinsert x (ssort t)
    end.
End Sort.

(* the three classification loops *)
Definition is_never (e : entity) : bool := (e_first e =? 0)%Z.
Definition is_once (e : entity) : bool := negb (is_never e) && (e_first e =? e_last e)%Z.
Definition is_mult (e : entity) : bool := negb (is_never e) && negb (e_first e =? e_last e)%Z.

(* one `for e in ...: winners.append(e.key); freed += e.size; if freed >= amount: return winners`
   returns (winners appended, freed, returned-early) *)
Fixpoint draw (freed amount : Z) (l : list entity) : list key * Z * bool :=
  match l with
  | [] => ([], freed, false)
  | e :: t =>
      let freed' := (freed + Z.of_N (e_size e))%Z in
      if (freed' >=? amount)%Z then ([e_key e], freed', true)
      else let '(w, f, d) := draw freed' amount t in (e_key e :: w, f, d)
  end.

Definition lottery (entities : list entity) (amount : Z) : list key :=
  let once := ssort e_created (filter is_once entities) in
  let mult := ssort e_last (filter is_mult entities) in
  let nevr := ssort (fun e => (- e_created e)%Z) (filter is_never entities) in
  let '(w1, f1, d1) := draw 0 amount once in
  if d1 then w1 else
  let '(w2, f2, d2) := draw f1 amount mult in
  if d2 then w1 ++ w2 else
  let '(w3, _, _) := draw f2 amount nevr in
  w1 ++ w2 ++ w3.
