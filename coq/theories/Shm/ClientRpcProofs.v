(* Proofs about Shm/ClientRpc.v: under the discipline (n_bad = false) every datagram a thread receives is the answer to the request
   that very thread sent last, for every log -- every interleaving of any number of threads and the server, any number of sockets. *)
From Coq Require Import List NArith Bool Lia.
From EKW Require Import Shm.ClientRpc.
Import ListNotations.
Open Scope list_scope.

Lemma fset_same : forall A (f : N -> A) s v, fset f s v s = v.
Proof. intros A f s v. unfold fset. now rewrite N.eqb_refl. Qed.

Lemma fset_other : forall A (f : N -> A) s v x, x <> s -> fset f s v x = f x.
Proof. intros A f s v x H. unfold fset. destruct (N.eqb_spec x s) as [E|E]; [contradiction|reflexivity]. Qed.

(* what holds of every state reached under the discipline *)
Definition sock_ok (st : net) (s : N) : Prop :=
  match n_out st s with
  | None => n_pend st s = [] /\ n_rx st s = []
  | Some (t, q) =>
      n_closed st s = false /\ n_last st t = Some q /\ n_busy st t = Some s /\
      ((n_pend st s = [q] /\ n_rx st s = []) \/ (n_pend st s = [] /\ n_rx st s = [q]))
  end.

Definition inv (st : net) : Prop := n_mis st = false /\ forall s, sock_ok st s.

Lemma inv0 : inv net0.
Proof. split; [reflexivity|]. intro s. unfold sock_ok. cbn. split; reflexivity. Qed.

Lemma bad_monotone : forall st e st', cstep st e = Some st' -> n_bad st' = false -> n_bad st = false.
Proof.
  intros st e st' Hs Hb. destruct e as [t s q|q s|t s q|s]; cbn in Hs.
  - destruct (n_closed st s); [discriminate|]. injection Hs as <-. cbn in Hb.
    destruct (n_bad st); [discriminate|reflexivity].
  - destruct (n_pend st s) as [|q' rest]; [discriminate|]. destruct (N.eqb q q'); [|discriminate].
    injection Hs as <-. exact Hb.
  - destruct (n_closed st s); [discriminate|]. destruct (n_rx st s) as [|q' rest]; [discriminate|].
    destruct (N.eqb q q'); [|discriminate]. injection Hs as <-. cbn in Hb.
    destruct (n_bad st); [discriminate|reflexivity].
  - injection Hs as <-. cbn in Hb. destruct (n_bad st); [discriminate|reflexivity].
Qed.

Lemma step_inv : forall st e st', inv st -> cstep st e = Some st' -> n_bad st' = false -> inv st'.
Proof.
  intros st e st' [Hm Hi] Hs Hb. destruct e as [t s q|q s|t s q|s]; cbn in Hs.
  - (* send *)
    destruct (n_closed st s) eqn:Hc; [discriminate|]. injection Hs as <-. cbn in Hb.
    apply orb_false_iff in Hb. destruct Hb as [Hb Hbusy]. apply orb_false_iff in Hb. destruct Hb as [_ Hout].
    destruct (n_out st s) as [p|] eqn:Eo; [discriminate|]. destruct (n_busy st t) as [b|] eqn:Eb; [discriminate|].
    split; [exact Hm|]. intro x. unfold sock_ok. cbn.
    destruct (N.eq_dec x s) as [->|Hx].
    + rewrite !fset_same. split; [exact Hc|]. split; [reflexivity|]. split; [reflexivity|].
      left. pose proof (Hi s) as Hs0. unfold sock_ok in Hs0. rewrite Eo in Hs0. destruct Hs0 as [Hp Hr].
      rewrite Hp. split; [reflexivity|exact Hr].
    + rewrite !(fset_other _ _ s _ x Hx). pose proof (Hi x) as Hx0. unfold sock_ok in Hx0.
      destruct (n_out st x) as [[t' q']|] eqn:Ex; [|exact Hx0].
      destruct Hx0 as [A [B [C D]]].
      assert (Ht : t' <> t) by (intro E; subst t'; rewrite Eb in C; discriminate).
      rewrite !(fset_other _ _ t _ t' Ht). split; [exact A|]. split; [exact B|]. split; [exact C|exact D].
  - (* handle *)
    destruct (n_pend st s) as [|q' rest] eqn:Ep; [discriminate|].
    destruct (N.eqb_spec q q') as [<-|]; [|discriminate]. injection Hs as <-. cbn in Hb.
    split; [exact Hm|]. intro x. unfold sock_ok. cbn.
    pose proof (Hi x) as Hx0. unfold sock_ok in Hx0.
    destruct (N.eq_dec x s) as [->|Hx].
    + rewrite fset_same. destruct (n_out st s) as [[t' q']|] eqn:Eo.
      * destruct Hx0 as [A [B [C D]]]. rewrite A. rewrite fset_same.
        destruct D as [[D1 D2]|[D1 D2]]; rewrite Ep in D1; [|discriminate].
        injection D1 as -> ->. split; [reflexivity|]. split; [exact B|]. split; [exact C|].
        right. rewrite D2. split; reflexivity.
      * destruct Hx0 as [D1 _]. rewrite Ep in D1. discriminate.
    + rewrite (fset_other _ _ s _ x Hx).
      assert (Hr : (if n_closed st s then n_rx st else fset (n_rx st) s (n_rx st s ++ [q])) x = n_rx st x).
      { destruct (n_closed st s); [reflexivity|]. apply fset_other. exact Hx. }
      rewrite Hr. exact Hx0.
  - (* recv *)
    destruct (n_closed st s) eqn:Hc; [discriminate|]. destruct (n_rx st s) as [|q' rest] eqn:Er; [discriminate|].
    destruct (N.eqb_spec q q') as [<-|]; [|discriminate]. injection Hs as <-. cbn in Hb.
    apply orb_false_iff in Hb. destruct Hb as [_ Hb]. apply negb_false_iff in Hb.
    pose proof (Hi s) as Hs0. unfold sock_ok in Hs0.
    destruct (n_out st s) as [[t' q']|] eqn:Eo; [|discriminate].
    apply N.eqb_eq in Hb. subst t'. destruct Hs0 as [A [B [C D]]].
    destruct D as [[D1 D2]|[D1 D2]]; rewrite Er in D2; [discriminate|]. injection D2 as -> ->.
    split.
    + cbn. rewrite Hm, B, N.eqb_refl. reflexivity.
    + intro x. unfold sock_ok. cbn. destruct (N.eq_dec x s) as [->|Hx].
      * rewrite !fset_same. split; [exact D1|reflexivity].
      * rewrite !(fset_other _ _ s _ x Hx). pose proof (Hi x) as Hx0. unfold sock_ok in Hx0.
        destruct (n_out st x) as [[t' q2]|] eqn:Ex; [|exact Hx0].
        destruct Hx0 as [A' [B' [C' D']]].
        assert (Ht : t' <> t) by (intro E; subst t'; rewrite C in C'; injection C' as E2; apply Hx; symmetry; exact E2).
        rewrite (fset_other _ _ t _ t' Ht). split; [exact A'|]. split; [exact B'|]. split; [exact C'|exact D'].
  - (* close *)
    injection Hs as <-. cbn in Hb. apply orb_false_iff in Hb. destruct Hb as [_ Hout].
    destruct (n_out st s) as [p|] eqn:Eo; [discriminate|].
    split; [exact Hm|]. intro x. unfold sock_ok. cbn. pose proof (Hi x) as Hx0. unfold sock_ok in Hx0.
    destruct (n_out st x) as [[t' q']|] eqn:Ex; [|exact Hx0].
    destruct Hx0 as [A [B [C D]]].
    assert (Hx : x <> s) by (intro E; subst x; rewrite Eo in Ex; discriminate).
    rewrite (fset_other _ _ s _ x Hx). split; [exact A|]. split; [exact B|]. split; [exact C|exact D].
Qed.

Lemma run_inv : forall log st st', crun st log = Some st' -> n_bad st' = false -> n_bad st = false /\ (inv st -> inv st').
Proof.
  induction log as [|e r IH]; intros st st' Hr Hb; cbn in Hr.
  - injection Hr as <-. split; [exact Hb|auto].
  - destruct (cstep st e) as [st1|] eqn:Es; [|discriminate].
    destruct (IH st1 st' Hr Hb) as [Hb1 Hi1]. split.
    + exact (bad_monotone st e st1 Es Hb1).
    + intro Hi. apply Hi1. exact (step_inv st e st1 Hi Es Hb1).
Qed.

Lemma crun_app : forall l1 l2 st st', crun st (l1 ++ l2) = Some st' -> exists st1, crun st l1 = Some st1 /\ crun st1 l2 = Some st'.
Proof.
  induction l1 as [|e r IH]; intros l2 st st' H; cbn in H |- *.
  - exists st. split; [reflexivity|exact H].
  - destruct (cstep st e) as [st1|]; [|discriminate]. exact (IH l2 st1 st' H).
Qed.

(* under the discipline no thread is ever handed the answer to a request other than the one it sent last *)
Theorem disciplined_never_mispaired : forall log st, crun net0 log = Some st -> n_bad st = false -> n_mis st = false.
Proof.
  intros log st Hr Hb. destruct (run_inv log net0 st Hr Hb) as [_ Hi]. exact (proj1 (Hi inv0)).
Qed.

(* event by event: whenever thread t receives the answer to request q on socket s in a disciplined log, q is the request t sent
   last, it was sent on s, and it is the (only) request outstanding on s *)
Theorem received_answer_is_own : forall log1 t s q log2 st,
  crun net0 (log1 ++ CRecv t s q :: log2) = Some st -> n_bad st = false ->
  exists st1, crun net0 log1 = Some st1 /\ n_last st1 t = Some q /\ n_out st1 s = Some (t, q) /\ n_busy st1 t = Some s /\
              n_rx st1 s = [q] /\ n_pend st1 s = [].
Proof.
  intros log1 t s q log2 st Hr Hb.
  destruct (crun_app log1 (CRecv t s q :: log2) net0 st Hr) as [st1 [H1 H2]].
  exists st1. split; [exact H1|].
  cbn [crun] in H2. destruct (cstep st1 (CRecv t s q)) as [st2|] eqn:Es; [|discriminate].
  destruct (run_inv log2 st2 st H2 Hb) as [Hb2 _].
  pose proof (bad_monotone st1 _ st2 Es Hb2) as Hb1.
  destruct (run_inv log1 net0 st1 H1 Hb1) as [_ Hi]. destruct (Hi inv0) as [_ Hs].
  cbn in Es. destruct (n_closed st1 s); [discriminate|]. destruct (n_rx st1 s) as [|q' rest] eqn:Er; [discriminate|].
  destruct (N.eqb_spec q q') as [<-|]; [|discriminate]. injection Es as <-. cbn in Hb2.
  apply orb_false_iff in Hb2. destruct Hb2 as [_ Hb2]. apply negb_false_iff in Hb2.
  pose proof (Hs s) as Hs0. unfold sock_ok in Hs0.
  destruct (n_out st1 s) as [[t' q']|] eqn:Eo; [|discriminate].
  apply N.eqb_eq in Hb2. subst t'. destruct Hs0 as [A [B [C D]]].
  destruct D as [[D1 D2]|[D1 D2]]; rewrite Er in D2; [discriminate|]. injection D2 as -> ->.
  repeat split; try assumption; reflexivity.
Qed.

(* one socket used by two threads at the same time leaves the discipline, and the model hands thread 2 the answer meant for thread 1 *)
Theorem shared_socket_mispairs :
  exists st, crun net0 shared_socket_log = Some st /\ n_bad st = true /\ n_mis st = true /\
             n_last st 2%N = Some 1%N /\ In (CRecv 2 7 0)%N shared_socket_log.
Proof. eexists. split; [vm_compute; reflexivity|]. cbn. repeat split; try reflexivity. right. right. right. right. left. reflexivity. Qed.
