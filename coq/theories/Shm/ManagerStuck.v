(* C09, reachability, open finding failed-pageout-under-stale-reader-stuck.
   A dataset whose only readers are stale (older than STALE_READ, never closed) is an eviction candidate.
   When its page-out FAILS (the page file cannot be written) the callback calls purge, which is DELAYED because
   the table of ongoing reads is not empty -- and nothing else ever leaves the status paging_out:
     get answers wait, the reader's close is refused (status is not in_memory), so the table never empties and
     every later purge is delayed again, add answers conflict, no job for the key exists or is ever created.
   `Stuck k` is that state; it is preserved by EVERY step (any requests of any clients, any disk-job half), so
   the dataset stays resident (status paging_out counts against free space) for ever. *)
From Coq Require Import List NArith ZArith String Bool Lia.
From EKW Require Import Shm.Lottery Shm.LotteryProofs Shm.Manager Shm.ManagerProofs Shm.ManagerLive Shm.ManagerBytes Shm.ManagerReaders.
Import ListNotations.
Open Scope Z_scope.

Definition held_paging_out (k : key) (s : state) : Prop :=
  exists ds, lookup k (dsets s) = Some ds /\ d_status ds = PagingOut /\ d_readers ds <> [].

Definition Stuck (k : key) (s : state) : Prop :=
  NoDup (map fst (dsets s)) /\ held_paging_out k s /\ (forall j, In j (jobs s) -> j_key j <> k).

(* ------------------------------------------------------------------ what the clients of a stuck dataset see *)
Theorem stuck_get_waits : forall k s now u, Stuck k s -> step s (Get k now u) = (s, RErr "wait").
Proof. intros k s now u [_ [[ds [Hl [Hs _]]] _]]. cbn [step]. unfold get. now rewrite Hl, Hs. Qed.

Theorem stuck_close_refused : forall k s r, Stuck k s -> step s (Close k r) = (s, RErr "ValueError").
Proof. intros k s r [_ [[ds [Hl [Hs _]]] _]]. cbn [step]. unfold close. rewrite Hl, Hs. destruct r; reflexivity. Qed.

Theorem stuck_add_conflict : forall k s size now, Stuck k s -> step s (Add k size now) = (s, RErr "conflict").
Proof. intros k s size now [_ [[ds [Hl _]] _]]. cbn [step]. unfold add. now rewrite Hl. Qed.

Theorem stuck_not_evictable : forall k s ds now, Stuck k s -> lookup k (dsets s) = Some ds -> is_pageoutable now ds = false.
Proof.
  intros k s ds now [_ [[ds' [Hl [Hs _]]] _]] Hl'. rewrite Hl in Hl'. inversion Hl'; subst. unfold is_pageoutable. now rewrite Hs.
Qed.

(* ------------------------------------------------------------------ preservation *)
Lemma held_purge_same : forall k s, held_paging_out k s -> held_paging_out k (purge k s).
Proof.
  intros k s [ds [Hl [Hs Hr]]]. unfold purge. rewrite Hl. destruct (d_readers ds) eqn:E; [congruence|].
  unfold held_paging_out. unf. exists (set_delayed ds). rewrite lookup_alter_same, Hl. cbn. rewrite E. repeat split; congruence.
Qed.

Lemma lookup_purge_other : forall k k' s, k' <> k -> lookup k (dsets (purge k' s)) = lookup k (dsets s).
Proof.
  intros k k' s Hne. unfold purge. destruct (lookup k' (dsets s)) as [ds|]; [|reflexivity].
  destruct (d_readers ds); [|unf; now rewrite lookup_alter_other].
  destruct (d_status ds); try reflexivity; (destruct (lookup k' (segs s)); [|reflexivity]); unf; now rewrite lookup_remove_other.
Qed.

Lemma jobs_purge : forall k' s j, In j (jobs (purge k' s)) -> exists j0, In j0 (jobs s) /\ j_key j = j_key j0.
Proof.
  intros k' s j. unfold purge. destruct (lookup k' (dsets s)) as [ds|]; [|eauto].
  destruct (d_readers ds); [|unf; eauto].
  destruct (d_status ds); eauto; (destruct (lookup k' (segs s)); [|eauto]); unf; intro H;
    apply in_map_iff in H; destruct H as [j0 [<- Hin]]; exists j0; split; auto.
Qed.

Lemma stuck_purge : forall k k' s, Stuck k s -> Stuck k (purge k' s).
Proof.
  intros k k' s [Hn [Hh Hj]]. split; [now apply purge_keys|]. split.
  - destruct (N.eq_dec k' k) as [->|Hne]; [now apply held_purge_same|].
    destruct Hh as [ds H]. exists ds. now rewrite lookup_purge_other.
  - intros j Hin. destruct (jobs_purge _ _ _ Hin) as [j0 [H0 ->]]. auto.
Qed.

Lemma stuck_mdp : forall k k' s, Stuck k s -> Stuck k (maybe_delayed_purge k' s).
Proof.
  intros k k' s H. unfold maybe_delayed_purge. destruct (lookup k' (dsets s)) as [ds|]; [|assumption].
  destruct (d_delayed ds && _); [now apply stuck_purge|assumption].
Qed.

(* a change of another key's entry, or of anything but dsets/jobs *)
Lemma stuck_alter_other : forall k k' f s s',
  k' <> k -> dsets s' = alter k' f (dsets s) -> (forall j, In j (jobs s') -> j_key j <> k) -> Stuck k s -> Stuck k s'.
Proof.
  intros k k' f s s' Hne Hd Hj [Hn [[ds H] _]]. split; [rewrite Hd; now rewrite keys_alter|]. split; [|assumption].
  exists ds. rewrite Hd. now rewrite lookup_alter_other.
Qed.

Lemma stuck_same : forall k s s',
  dsets s' = dsets s -> (forall j, In j (jobs s') -> exists j0, In j0 (jobs s) /\ j_key j = j_key j0) -> Stuck k s -> Stuck k s'.
Proof.
  intros k s s' Hd Hj [Hn [Hh Hk]]. split; [now rewrite Hd|]. split.
  - destruct Hh as [ds H]. exists ds. now rewrite Hd.
  - intros j Hin. destruct (Hj j Hin) as [j0 [H0 ->]]. auto.
Qed.

Lemma held_fold_page_out : forall ws k s, held_paging_out k s -> held_paging_out k (fold_left page_out ws s).
Proof.
  induction ws as [|w t IH]; intros k s H; cbn; [assumption|]. apply IH.
  destruct H as [ds [Hl [Hs Hr]]]. unfold page_out. destruct (lookup w (dsets s)) as [dw|] eqn:Hw; [|exists ds; auto].
  unfold held_paging_out. unf.
  destruct (N.eq_dec w k) as [->|Hne].
  - exists (set_status PagingOut ds). rewrite lookup_alter_same, Hl. cbn. auto.
  - exists ds. rewrite lookup_alter_other; auto.
Qed.

Lemma stuck_poal : forall k amount now s, Stuck k s -> Stuck k (page_out_at_least amount now s).
Proof.
  intros k amount now s [Hn [Hh Hj]]. split; [now rewrite poal_keys|]. split.
  - unfold page_out_at_least, page_out_at_least_gen. destruct (lock s); [assumption|].
    destruct (lottery _ _) as [|w0 ws]; [assumption|]. apply held_fold_page_out. assumption.
  - intros j Hin Hk. unfold page_out_at_least, page_out_at_least_gen in Hin. destruct (lock s); [exact (Hj j Hin Hk)|].
    destruct (lottery (candidates now (dsets s)) amount) as [|w0 ws] eqn:El; [exact (Hj j Hin Hk)|].
    apply fold_page_out_jobs in Hin. destruct Hin as [Hin|[_ [_ Hw]]]; [exact (Hj j Hin Hk)|].
    rewrite <- El in Hw. apply lottery_in in Hw. destruct Hw as [e [He Hke]].
    unfold candidates in He. apply in_map_iff in He. destruct He as [[k0 ds] [He Hd]].
    apply filter_In in Hd. destruct Hd as [Hd Hp]. subst e. cbn in Hke, Hp. rewrite Hk in Hke. subst k0.
    destruct Hh as [ds0 [Hl [Hs _]]]. apply in_lookup in Hd; [|assumption].
    rewrite Hl in Hd. inversion Hd; subst. unfold is_pageoutable in Hp. rewrite Hs in Hp. discriminate.
Qed.

Lemma jobs_keys_phase : forall j p l x, In x (update_job j (set_phase p) l) -> exists x0, In x0 l /\ j_key x = j_key x0.
Proof.
  intros j p l x H. unfold update_job in H. apply in_map_iff in H. destruct H as [x0 [<- Hin]]. exists x0. split; [assumption|].
  destruct (N.eqb (j_id x0) j); reflexivity.
Qed.

Lemma stuck_job_io : forall k s j f, Stuck k s -> Stuck k (fst (job_io j f s)).
Proof.
  intros k s j f H. apply (stuck_same k s); [apply dsets_job_io| |assumption].
  intros x. unfold job_io. destruct (find_job j (jobs s)) as [jb|]; [|eauto].
  destruct (j_phase jb); eauto. cbn [fst]. destruct (j_kind jb).
  - unfold io_page_out. destruct (lookup (j_key jb) (segs s)); [destruct f|]; unfold finish_io, to_phase; unf; apply jobs_keys_phase.
  - unfold io_page_in. destruct (j_size jb =? 0)%N; [unfold finish_io, to_phase; unf; apply jobs_keys_phase|].
    destruct (lookup (j_key jb) (segs s)); [unfold finish_io, to_phase; unf; apply jobs_keys_phase|].
    destruct f; [unfold finish_io, to_phase; unf; apply jobs_keys_phase|].
    destruct (lookup (j_key jb) (files s)); [|unfold finish_io, to_phase; unf; apply jobs_keys_phase].
    destruct (_ <=? _)%N; unfold finish_io, to_phase; unf; apply jobs_keys_phase.
Qed.

Lemma stuck_job_unlink : forall k s j, Stuck k s -> Stuck k (fst (job_unlink j s)).
Proof.
  intros k s j H. apply (stuck_same k s); [apply dsets_job_unlink| |assumption].
  intros x. unfold job_unlink. destruct (find_job j (jobs s)) as [jb|]; [|eauto].
  destruct (j_kind jb), (j_phase jb); eauto. cbn [fst].
  destruct (lookup (j_key jb) (segs s)); unfold finish_io, to_phase; unf; apply jobs_keys_phase.
Qed.

Lemma in_drop : forall j l x, In x (drop_job j l) -> In x l.
Proof. intros j l x H. unfold drop_job in H. apply filter_In in H. tauto. Qed.

Lemma stuck_drop : forall k s j, Stuck k s -> Stuck k (with_jobs (drop_job j (jobs s)) s).
Proof.
  intros k s j H. apply (stuck_same k s); [reflexivity| |assumption]. unf. intros x Hx. exists x. split; [eapply in_drop; eauto|reflexivity].
Qed.

Lemma stuck_frame : forall k s s', dsets s' = dsets s -> jobs s' = jobs s -> Stuck k s -> Stuck k s'.
Proof. intros k s s' Hd Hj H. apply (stuck_same k s); auto. rewrite Hj. eauto. Qed.

Theorem stuck_step : forall k s o, Stuck k s -> Stuck k (fst (step s o)).
Proof.
  intros k s o H. destruct o as [k' size now|k' b|k' r|k' now u|k'|j f|j|j|k'|k']; cbn [step].
  - (* add *)
    unfold add. destruct (lookup k' (dsets s)) eqn:Hl; [assumption|].
    destruct (_ >? capacity s); [assumption|]. destruct (_ >? free s); cbn [fst]; [now apply stuck_poal|].
    destruct H as [Hn [[ds [Hk Hrest]] Hj]]. split; [unf; now apply keys_app_NoDup|]. split; [|exact Hj].
    exists ds. unf. rewrite lookup_app_end, Hk. auto.
  - destruct (lookup k' (segs s)); cbn [fst]; [assumption|]. eapply stuck_frame; eauto; reflexivity.
  - (* close *)
    destruct (N.eq_dec k' k) as [->|Hne]; [change (close k r s) with (step s (Close k r)); now rewrite stuck_close_refused|].
    unfold close. destruct (lookup k' (dsets s)) as [ds|] eqn:Hl; [|assumption]. destruct r as [rd|].
    + destruct (status_eqb (d_status ds) InMemory); [|assumption]. cbn [fst]. apply stuck_mdp.
      destruct (lookup rd (d_readers ds)); [|assumption].
      eapply stuck_alter_other; [exact Hne|reflexivity| |exact H]. unf. apply H.
    + destruct (status_eqb (d_status ds) Created); [|assumption]. cbn [fst]. apply stuck_mdp.
      eapply stuck_alter_other; [exact Hne|reflexivity| |exact H]. unf. apply H.
  - (* get *)
    destruct (N.eq_dec k' k) as [->|Hne]; [change (get k now u s) with (step s (Get k now u)); now rewrite stuck_get_waits|].
    unfold get. destruct (lookup k' (dsets s)) as [ds|] eqn:Hl; [|assumption].
    destruct (d_status ds); try assumption.
    + destruct (first_fresh u (d_readers ds)); [|assumption]. cbn [fst].
      eapply stuck_alter_other; [exact Hne|reflexivity| |exact H]. unf. apply H.
    + destruct (_ >? free s); cbn [fst]; [now apply stuck_poal|].
      unfold page_in. destruct (free s <? _); cbn [fst].
      * eapply stuck_alter_other; [exact Hne|reflexivity| |exact H]. unf. apply H.
      * eapply stuck_alter_other; [exact Hne|reflexivity| |exact H]. unf.
        intros x Hx. apply in_app_or in Hx. destruct Hx as [Hx|[<-|[]]]; [now apply H|]. cbn. congruence.
  - cbn [fst]. now apply stuck_purge.
  - now apply stuck_job_io.
  - now apply stuck_job_unlink.
  - (* callback: of a job for another key *)
    unfold job_cb. destruct (find_job j (jobs s)) as [jb|] eqn:Hf; [|assumption].
    destruct (j_phase jb) as [| |ok]; try assumption. cbn [fst].
    assert (Hne : j_key jb <> k) by (destruct H as [_ [_ Hj]]; apply Hj; now apply (find_job_in j (jobs s))).
    pose proof (stuck_drop k s j H) as H0.
    destruct (j_kind jb), ok.
    + assert (H1 : Stuck k (if j_orphan jb then with_jobs (drop_job j (jobs s)) s
                            else with_dsets (alter (j_key jb) (set_status OnDisk) (dsets (with_jobs (drop_job j (jobs s)) s)))
                                            (with_jobs (drop_job j (jobs s)) s))).
      { destruct (j_orphan jb); [assumption|]. eapply stuck_alter_other; [exact Hne|reflexivity| |exact H0]. unf. apply H0. }
      unfold count_down. eapply stuck_frame; [| |exact H1]; reflexivity.
    + unfold count_down. eapply stuck_frame; [| |exact (stuck_purge k (j_key jb) _ H0)]; reflexivity.
    + destruct (j_orphan jb); [assumption|].
      eapply stuck_alter_other; [exact Hne|reflexivity| |exact H0]. unf. apply H0.
    + now apply stuck_purge.
  - assumption.
  - assumption.
Qed.

Theorem stuck_forever : forall k ops s, Stuck k s -> Stuck k (exec s ops).
Proof. intros k ops. induction ops as [|o r IH]; intros s H; [assumption|]. rewrite exec_cons. apply IH. now apply stuck_step. Qed.

(* ------------------------------------------------------------------ the witness *)
(* capacity 4: key 1 (3 bytes) written and closed, a reader at time 2 that never closes; more than 15 minutes later an
   allocation of 3 bytes needs its room: key 1 is the victim (its only reader is stale); the page file cannot be written *)
Definition stuck_witness : list op := [
  Add 1%N 3%N 1; Write 1%N [1;2;3]%N; Close 1%N None; Get 1%N 2 [7%N];
  Add 2%N 3%N 900000000010; JobIo 0%N true; JobCb 0%N ].

Theorem stuck_reached :
  let s := exec (init 4) stuck_witness in
  Stuck 1%N s /\ lock s = false /\ count s = 0 /\ jobs s = [] /\ free s = 1 /\ lookup 1%N (segs s) = Some [1;2;3]%N /\
  exists ds, lookup 1%N (dsets s) = Some ds /\ d_status ds = PagingOut /\ d_delayed ds = true /\ d_readers ds = [(7%N, 2)] /\
    no_fresh_read 900000000010 ds = true.
Proof.
  split.
  - split; [apply run_keys; constructor|]. split.
    + exists (mkDs 3%N PagingOut 1 [(7%N, 2)] 2 2 true (Some [1;2;3]%N) true). split; [vm_compute; reflexivity|]. split; [reflexivity|cbn; discriminate].
    + vm_compute. intros j [].
  - split; [vm_compute; reflexivity|]. split; [vm_compute; reflexivity|]. split; [vm_compute; reflexivity|].
    split; [vm_compute; reflexivity|]. split; [vm_compute; reflexivity|].
    exists (mkDs 3%N PagingOut 1 [(7%N, 2)] 2 2 true (Some [1;2;3]%N) true).
    split; [vm_compute; reflexivity|]. repeat split; vm_compute; reflexivity.
Qed.

(* however the history goes on -- patient clients, the reader's late close, purges, other datasets coming and going,
   every disk job completing -- key 1 stays in paging_out, resident, unreadable, unclosable and unusable *)
Theorem failed_pageout_under_stale_reader_stuck : forall more,
  let s := exec (init 4) (stuck_witness ++ more) in
  (exists ds, lookup 1%N (dsets s) = Some ds /\ d_status ds = PagingOut) /\
  (forall now u, step s (Get 1%N now u) = (s, RErr "wait")) /\
  (forall r, step s (Close 1%N r) = (s, RErr "ValueError")) /\
  (forall size now, step s (Add 1%N size now) = (s, RErr "conflict")) /\
  (forall now ds, lookup 1%N (dsets s) = Some ds -> is_pageoutable now ds = false).
Proof.
  intros more s. assert (H : Stuck 1%N s).
  { unfold s. rewrite exec_app. apply stuck_forever. apply stuck_reached. }
  split; [|split; [|split; [|split]]].
  - destruct H as [_ [[ds [Hl [Hs _]]] _]]. eauto.
  - intros. now apply stuck_get_waits.
  - intros. now apply stuck_close_refused.
  - intros. now apply stuck_add_conflict.
  - intros now ds Hl. eapply stuck_not_evictable; eauto.
Qed.
