(* Executable model of the datagram conversation between the THREADS of one client process and the shm server, as far as the
   pairing of requests and answers goes:
     src/cascade/shm/client.py   _send_command: a socket, sock.send(request), sock.recv(answer), (sock.close())
     src/cascade/shm/server.py   LocalServer.start: one thread; receive() -> (request, address it came from), respond(answer, that address)
   Bytes read under a key, reader ids closed under a key, `wait` / error answers acted upon (Shm/Manager.v speaks of requests and
   their answers) are those of the caller only if the answer a call receives is the answer to the request of THAT call.  The store
   does not see to that, the addressing of datagrams does: an answer goes to the socket (source port) the request came from, and
   whoever calls recv on a socket takes the oldest datagram waiting there -- a socket does not know about threads.

   Threads, sockets and requests are numbers (requests are numbered in the order they were sent: the answer to request q is "q").
   The atomic steps are the datagram events: thread t sends request q on socket s; the server takes the oldest request that came
   from socket s and answers it to s (the answer is lost when s is closed by then); thread t receives on s; s is closed.  A log of
   events is one interleaving of the client threads (the ThreadPoolExecutor of cascade.executor.data_server.DataServer) and the
   server.  Datagrams of one socket are not reordered, lost or duplicated (loopback UDP); the server takes any time.
   Ghost fields: n_out (the request outstanding on a socket), n_busy (the socket a thread waits on), n_last (the request a thread
   sent last), n_bad (the discipline of ClientRpcProofs.v was left), n_mis (a thread received the answer to a request that is not
   the one it sent last).  They do not influence the run.
   No proofs in this file. *)
From Coq Require Import List NArith Bool.
Import ListNotations.
Open Scope list_scope.

Inductive cev : Type :=
| CSend (t s q : N)      (* thread t: sock.send(request number q) on socket s *)
| CHandle (q s : N)      (* the server takes request q, the oldest that came from socket s, and answers to s *)
| CRecv (t s q : N)      (* thread t: sock.recv on socket s returned the answer to request q *)
| CClose (s : N).        (* sock.close() *)

Record net : Type := mkNet {
  n_pend : N -> list N;            (* per socket: requests sent from it that the server has not taken yet, oldest first *)
  n_rx : N -> list N;              (* per socket: answers waiting in its receive buffer, oldest first *)
  n_closed : N -> bool;
  (* ghost *)
  n_out : N -> option (N * N);     (* per socket: (thread, request) of the request sent on it whose answer nobody has received yet *)
  n_busy : N -> option N;          (* per thread: the socket on which it has an unanswered request *)
  n_last : N -> option N;          (* per thread: the request it sent last *)
  n_bad : bool;
  n_mis : bool
}.

Definition net0 : net :=
  mkNet (fun _ => []) (fun _ => []) (fun _ => false) (fun _ => None) (fun _ => None) (fun _ => None) false false.

Definition fset {A} (f : N -> A) (s : N) (v : A) : N -> A := fun x => if N.eqb x s then v else f x.
Definition is_some {A} (o : option A) : bool := match o with Some _ => true | None => false end.

(* the discipline (n_bad stays false): a request is sent on a socket that has no unanswered request, by a thread that has none;
   a socket is read by the thread whose request is outstanding on it; a socket with an outstanding request is not closed.
   One socket per command (client.py), one socket per thread, and one socket under a lock held from send to recv all keep it;
   one socket used by several threads at the same time does not. *)
Definition cstep (st : net) (e : cev) : option net :=
  match e with
  | CSend t s q =>
      if n_closed st s then None
      else Some (mkNet (fset (n_pend st) s (n_pend st s ++ [q])) (n_rx st) (n_closed st)
                       (fset (n_out st) s (Some (t, q))) (fset (n_busy st) t (Some s)) (fset (n_last st) t (Some q))
                       (n_bad st || is_some (n_out st s) || is_some (n_busy st t)) (n_mis st))
  | CHandle q s =>
      match n_pend st s with
      | [] => None
      | q' :: rest =>
          if N.eqb q q'
          then Some (mkNet (fset (n_pend st) s rest)
                           (if n_closed st s then n_rx st else fset (n_rx st) s (n_rx st s ++ [q]))
                           (n_closed st) (n_out st) (n_busy st) (n_last st) (n_bad st) (n_mis st))
          else None
      end
  | CRecv t s q =>
      if n_closed st s then None
      else match n_rx st s with
           | [] => None
           | q' :: rest =>
               if N.eqb q q'
               then Some (mkNet (n_pend st) (fset (n_rx st) s rest) (n_closed st)
                                (fset (n_out st) s None) (fset (n_busy st) t None) (n_last st)
                                (n_bad st || negb (match n_out st s with Some (t', _) => N.eqb t t' | None => false end))
                                (n_mis st || negb (match n_last st t with Some l => N.eqb l q | None => false end)))
               else None
           end
  | CClose s =>
      Some (mkNet (n_pend st) (n_rx st) (fset (n_closed st) s true) (n_out st) (n_busy st) (n_last st)
                  (n_bad st || is_some (n_out st s)) (n_mis st))
  end.

Fixpoint crun (st : net) (log : list cev) : option net :=
  match log with
  | [] => Some st
  | e :: r => match cstep st e with Some st' => crun st' r | None => None end
  end.

(* harness/c09_client.py: the events seen between the real client threads and the real LocalServer are a run of this network, the
   discipline was kept, and every thread received the answer to the request it had sent last *)
Definition check_client_log (log : list cev) : bool :=
  match crun net0 log with
  | Some st => negb (n_bad st) && negb (n_mis st)
  | None => false
  end.

(* two threads, ONE socket (7), both send before either receives: thread 2 is handed the answer to the request of thread 1 *)
Definition shared_socket_log : list cev :=
  [CSend 1 7 0; CSend 2 7 1; CHandle 0 7; CHandle 1 7; CRecv 2 7 0; CRecv 1 7 1]%N.

(* the same two calls with a socket each *)
Definition private_sockets_log : list cev :=
  [CSend 1 7 0; CSend 2 8 1; CHandle 0 7; CHandle 1 8; CRecv 2 8 1; CClose 8; CRecv 1 7 0; CClose 7]%N.

(* for debugging a disagreement from the harness: how far a log runs and the flags then *)
Fixpoint crun_upto (st : net) (log : list cev) (n : nat) : nat * bool * bool * bool :=
  match log with
  | [] => (n, true, n_bad st, n_mis st)
  | e :: r => match cstep st e with Some st' => crun_upto st' r (S n) | None => (n, false, n_bad st, n_mis st) end
  end.
