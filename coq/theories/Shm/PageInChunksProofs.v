(* Proofs about Shm/PageInChunks.v: with a buffer of its own per job (the code), every interleaving of the bodies of any number of
   page-in jobs leaves each finished job's segment equal to its page file; the page files themselves are never touched.
   Props/C09.v adds the counterexample for the shared scratch buffer. *)
From Coq Require Import List Arith Lia Bool NArith.
From EKW Require Import Shm.PageInChunks.
Import ListNotations.

Section Chunks.
  Variable ch : nat.
  Hypothesis ch_pos : 0 < ch.
  Notation chunk := (chunk ch).
  Notation pstep := (pstep ch).
  Notation step_nth := (step_nth ch).
  Notation wstep := (wstep ch).
  Notation wrun := (wrun ch).
  Notation wstart := (wstart ch).


  (* what is true of a job of the code (private buffer) at every moment, whatever the other jobs do *)
  Definition good (j : pjob) : Prop :=
    length (p_seg j) = length (p_file j) /\
    p_off j <= length (p_file j) /\
    firstn (p_off j) (p_seg j) = firstn (p_off j) (p_file j) /\
    match p_len j with
    | Some l => l = length (chunk j) /\ 0 < l /\ firstn l (p_priv j) = chunk j
    | None => True
    end /\
    (p_done j = true -> p_off j = length (p_file j)).

  Lemma good_fresh : forall f, good (fresh f).
  Proof.
    intro f. unfold good, fresh. cbn. rewrite repeat_length. repeat split; auto with arith. discriminate.
  Qed.

  Lemma firstn_add : forall (A : Type) (a b : nat) (l : list A), firstn (a + b) l = firstn a l ++ firstn b (skipn a l).
  Proof.
    intros A a. induction a as [|a IH]; intros b l; [reflexivity|].
    destruct l as [|x t]; cbn; [now rewrite firstn_nil|]. now rewrite IH.
  Qed.

  Lemma firstn_len_firstn : forall (A : Type) (n : nat) (l : list A), firstn (length (firstn n l)) l = firstn n l.
  Proof.
    intros A n l. rewrite firstn_length. destruct (Nat.le_ge_cases n (length l)) as [H|H].
    - now rewrite Nat.min_l.
    - rewrite Nat.min_r by assumption. rewrite firstn_all. symmetry. now apply firstn_all2.
  Qed.

  Lemma pstep_good : forall j sc, good j -> good (fst (pstep false j sc)).
  Proof.
    intros j sc (Hl & Ho & Hp & Hc & Hd). unfold pstep.
    destruct (p_done j) eqn:Ed; [repeat split; auto|].
    destruct (p_len j) as [l|] eqn:El.
    - (* copy *)
      destruct Hc as (Hl1 & Hl2 & Hl3). cbn [fst]. unfold good. cbn [p_seg p_file p_off p_len p_done].
      assert (Hlen : l <= length (p_file j) - p_off j).
      { rewrite Hl1. unfold chunk. rewrite firstn_length, skipn_length. lia. }
      assert (Hsrc : length (firstn l (p_priv j)) = l).
      { rewrite Hl3. symmetry. exact Hl1. }
      repeat split.
      + unfold write_at. rewrite !app_length, firstn_length, skipn_length, Hsrc. lia.
      + lia.
      + unfold write_at. rewrite firstn_add.
        assert (Ha : length (firstn (p_off j) (p_seg j)) = p_off j) by (rewrite firstn_length; lia).
        rewrite firstn_app. rewrite Ha, Nat.sub_diag. cbn [firstn]. rewrite app_nil_r.
        rewrite firstn_firstn, Nat.min_id.
        rewrite skipn_app, Ha, Nat.sub_diag. cbn [skipn].
        rewrite (skipn_all2 (firstn (p_off j) (p_seg j))) by lia. cbn [app].
        rewrite firstn_app, Hsrc, Nat.sub_diag. cbn [firstn]. rewrite app_nil_r.
        rewrite (firstn_all2 (firstn l (p_priv j))) by lia.
        rewrite Hp, Hl3. rewrite (firstn_add _ (p_off j) l (p_file j)). f_equal.
        rewrite Hl1. unfold chunk. now rewrite firstn_len_firstn.
      + discriminate.
    - (* read *)
      destruct (chunk j) as [|x t] eqn:Ec; cbn [fst].
      + unfold good. cbn [p_seg p_file p_off p_len p_done]. repeat split; auto.
        intros _. unfold chunk in Ec. apply (f_equal (@length N)) in Ec. rewrite firstn_length, skipn_length in Ec. cbn in Ec. lia.
      + unfold good. cbn [p_seg p_file p_off p_len p_done p_priv]. repeat split; auto.
        * unfold chunk. cbn [p_off p_file]. fold (chunk j). now rewrite Ec.
        * cbn. lia.
        * unfold chunk. cbn [p_off p_file]. fold (chunk j). rewrite Ec. apply firstn_all.
  Qed.

  Lemma step_nth_good : forall i js sc, Forall good js -> Forall good (fst (step_nth false i js sc)).
  Proof.
    intros i js. revert i. induction js as [|j r IH]; intros i sc H; [destruct i; constructor|].
    inversion H as [|? ? Hj Hr]; subst. destruct i as [|i]; cbn [step_nth].
    - pose proof (pstep_good j sc Hj) as G. destruct (pstep false j sc). cbn [fst] in *. now constructor.
    - specialize (IH i sc Hr). destruct (step_nth false i r sc). cbn [fst] in *. now constructor.
  Qed.

  Lemma wrun_good : forall sched w, Forall good (w_jobs w) -> Forall good (w_jobs (wrun false sched w)).
  Proof.
    induction sched as [|i r IH]; intros w H; [assumption|]. cbn [wrun fold_left]. apply IH.
    unfold wstep. pose proof (step_nth_good i (w_jobs w) (w_scratch w) H) as G.
    destruct (step_nth false i (w_jobs w) (w_scratch w)). exact G.
  Qed.

  Lemma good_done : forall j, good j -> p_done j = true -> p_seg j = p_file j.
  Proof.
    intros j (Hl & Ho & Hp & Hc & Hd) E. specialize (Hd E). rewrite Hd in Hp.
    rewrite firstn_all in Hp. rewrite <- Hl in Hp. now rewrite firstn_all in Hp.
  Qed.

  (* whatever the interleaving of the bodies, a body that has finished has filled its segment with its page file *)
  Theorem concurrent_page_ins_restore_the_bytes : forall files sched i j,
    nth_error (w_jobs (wrun false sched (wstart files))) i = Some j -> p_done j = true -> p_seg j = p_file j.
  Proof.
    intros files sched i j Hn Hd. apply good_done; [|assumption].
    assert (H : Forall good (w_jobs (wrun false sched (wstart files)))).
    { apply wrun_good. unfold wstart. cbn [w_jobs]. apply Forall_forall. intros x Hx. apply in_map_iff in Hx.
      destruct Hx as [f [<- _]]. apply good_fresh. }
    rewrite Forall_forall in H. apply H. eapply nth_error_In; eauto.
  Qed.

  (* ... and the file it restores is the one it was started with: nobody else's *)
  Lemma pstep_file : forall sh j sc, p_file (fst (pstep sh j sc)) = p_file j.
  Proof.
    intros sh j sc. unfold pstep. destruct (p_done j); [reflexivity|].
    destruct (p_len j); [reflexivity|]. destruct (chunk j); [reflexivity|]. destruct sh; reflexivity.
  Qed.

  Lemma step_nth_files : forall sh i js sc, map p_file (fst (step_nth sh i js sc)) = map p_file js.
  Proof.
    intros sh i js. revert i. induction js as [|j r IH]; intros i sc; [destruct i; reflexivity|].
    destruct i as [|i]; cbn [step_nth].
    - pose proof (pstep_file sh j sc) as G. destruct (pstep sh j sc). cbn [fst map] in *. now rewrite G.
    - specialize (IH i sc). destruct (step_nth sh i r sc). cbn [fst map] in *. now rewrite IH.
  Qed.

  Theorem page_in_files_fixed : forall sh sched w, map p_file (w_jobs (wrun sh sched w)) = map p_file (w_jobs w).
  Proof.
    intros sh. induction sched as [|i r IH]; intro w; [reflexivity|]. cbn [wrun fold_left].
    fold (wrun sh r (wstep sh w i)). rewrite IH. unfold wstep.
    pose proof (step_nth_files sh i (w_jobs w) (w_scratch w)) as G. destruct (step_nth sh i (w_jobs w) (w_scratch w)). exact G.
  Qed.
End Chunks.
