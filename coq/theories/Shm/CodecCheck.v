(* Executable checkers used by the correspondence harness (harness/c17.py): the model is
   run on the same messages / byte strings as cascade.shm.api and the results compared. *)
From Coq Require Import List NArith ZArith String Bool.
From EKW Require Import Shm.Codec.
Import ListNotations.

Definition value_eqb (a b : value) : bool :=
  match a, b with
  | VInt x, VInt y => Z.eqb x y
  | VStr s, VStr t => if list_eq_dec N.eq_dec s t then true else false
  | _, _ => false
  end.

Definition bytes_eqb (a b : list N) : bool := if list_eq_dec N.eq_dec a b then true else false.

(* reorder a message given in dataclass-field order into the order ser() writes *)
Definition norm (c : cls) (m : msg) : option msg :=
  fold_right (fun p acc => match acc, lookup (fst p) m with
                           | Some r, Some v => Some ((fst p, v) :: r)
                           | _, _ => None end) (Some []) (cser c).

Definition msg_equiv (fields : list string) (a b : msg) : bool :=
  Nat.eqb (List.length a) (List.length b) &&
  forallb (fun f => match lookup f a, lookup f b with
                    | Some x, Some y => value_eqb x y
                    | _, _ => false end) fields.

Fixpoint find_by_name (n : string) (cs : list cls) : option cls :=
  match cs with [] => None | c :: r => if String.eqb n (cname c) then Some c else find_by_name n r end.

(* expected: inl bytes | inr exception-name *)
Definition check_ser (tb : table) (cs : list cls) (case : string * msg * (list N + string)) : bool :=
  let '(n, m, expect) := case in
  match find_by_name n cs with
  | None => false
  | Some c =>
      let r := match norm c m with Some m' => ser tb c m' | None => Err "AttributeError" end in
      match r, expect with
      | Ok bs, inl bs' => bytes_eqb bs bs'
      | Err e, inr e' => String.eqb e e'
      | _, _ => false
      end
  end.

Definition check_deser (tb : table) (case : list N * (string * msg + string)) : bool :=
  let '(bs, expect) := case in
  match deser tb bs, expect with
  | Ok (n, m), inl (n', m') => String.eqb n n' && msg_equiv (map fst m') m m' && msg_equiv (map fst m) m m'
  | Err e, inr e' => String.eqb e e'
  | _, _ => false
  end.
