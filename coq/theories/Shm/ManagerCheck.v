(* Executable checker used by harness/c08.py and harness/c09.py: the model is run on the same op list
   as the real LocalServer/Manager/Disk code and everything visible at the seams is compared. *)
From Coq Require Import List NArith ZArith String Bool.
From EKW Require Import Shm.Lottery Shm.Manager Shm.ManagerConc.
Import ListNotations.

Definition opt_eqb {A} (eqb : A -> A -> bool) (a b : option A) : bool :=
  match a, b with
  | Some x, Some y => eqb x y
  | None, None => true
  | _, _ => false
  end.

Fixpoint list_eqb {A} (eqb : A -> A -> bool) (a b : list A) : bool :=
  match a, b with
  | [], [] => true
  | x :: r, y :: s => eqb x y && list_eqb eqb r s
  | _, _ => false
  end.

Definition resp_eqb (a b : resp) : bool :=
  match a, b with
  | RGranted k, RGranted k' => N.eqb k k'
  | RErr e, RErr e' => String.eqb e e'
  | RGot k l r, RGot k' l' r' => N.eqb k k' && N.eqb l l' && N.eqb r r'
  | ROk, ROk => true
  | RWrote x, RWrote y => Bool.eqb x y
  | RBytes x, RBytes y => opt_eqb (list_eqb N.eqb) x y
  | RJob x, RJob y => Bool.eqb x y
  | _, _ => false
  end.

Definition jkind_eqb (a b : jkind) : bool :=
  match a, b with PageOut, PageOut | PageIn, PageIn => true | _, _ => false end.

Definition seen_eqb (a b : jkind * key * N) : bool :=
  let '(ka, ya, sa) := a in let '(kb, yb, sb) := b in jkind_eqb ka kb && N.eqb ya yb && N.eqb sa sb.

Definition output_eqb (a b : output) : bool :=
  let '(ra, fa, ja) := a in let '(rb, fb, jb) := b in
  resp_eqb ra rb && Z.eqb fa fb && list_eqb seen_eqb ja jb.

(* (configured capacity, what /dev/shm offers, epoch of the clock, op list with scripted instants, outputs observed on the implementation) *)
Definition check_case (c : option Z * Z * Z * list op * list output) : bool :=
  let '(cfg, avail, epoch, ops, outs) := c in
  list_eqb output_eqb (fst (run (start cfg avail) (map (shift_op epoch) ops))) outs.

(* the same for a fine-grained history (Shm/ManagerConc.v) *)
Definition check_fcase (c : option Z * Z * Z * list fop * list output) : bool :=
  let '(cfg, avail, epoch, ops, outs) := c in
  list_eqb output_eqb (fst (frun (fstart cfg avail) (map (shift_fop epoch) ops))) outs.

(* index of the first differing output, for diagnostics *)
Fixpoint first_diff (n : nat) (a b : list output) : option nat :=
  match a, b with
  | [], [] => None
  | x :: r, y :: s => if output_eqb x y then first_diff (S n) r s else Some n
  | _, _ => Some n
  end.
Definition where_differs (c : option Z * Z * Z * list op * list output) : option nat :=
  let '(cfg, avail, epoch, ops, outs) := c in first_diff 0 (fst (run (start cfg avail) (map (shift_op epoch) ops))) outs.
Definition where_fdiffers (c : option Z * Z * Z * list fop * list output) : option nat :=
  let '(cfg, avail, epoch, ops, outs) := c in first_diff 0 (fst (frun (fstart cfg avail) (map (shift_fop epoch) ops))) outs.
