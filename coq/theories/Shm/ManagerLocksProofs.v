(* C09, reachability: no request handler and no disk-job callback of the store blocks on pageout_one
   (Shm/ManagerLocks.v), for every state and every op; the section inside Manager.purge is entered exactly
   when purge returns space; and calling purge from inside a section under pageout_one would block for ever
   exactly in that case -- which a failed page-out whose segment still exists reaches. *)
From Coq Require Import List NArith ZArith String Bool Lia.
From EKW Require Import Shm.Lottery Shm.Manager Shm.ManagerProofs Shm.ManagerLocks.
Import ListNotations.
Open Scope Z_scope.

Lemma play_app : forall a b h,
  play h (a ++ b) = match play h a with Some h' => play h' b | None => None end.
Proof.
  induction a as [|e a IH]; intros b h; cbn; [reflexivity|].
  destruct e; [destruct h; [reflexivity|apply IH]|apply IH].
Qed.

Lemma play_purge_events : forall k s, play false (purge_events k s) = Some false.
Proof. intros k s. unfold purge_events. destruct (purge_credits k s); reflexivity. Qed.

Lemma play_mdp_events : forall k s, play false (maybe_delayed_purge_events k s) = Some false.
Proof.
  intros k s. unfold maybe_delayed_purge_events. destruct (lookup k (dsets s)) as [ds|]; [|reflexivity].
  destruct (d_delayed ds && _); [apply play_purge_events|reflexivity].
Qed.

Lemma play_close_events : forall k r s, play false (close_events k r s) = Some false.
Proof.
  intros k r s. unfold close_events. destruct (lookup k (dsets s)) as [ds|]; [|reflexivity].
  destruct r as [rd|].
  - destruct (status_eqb (d_status ds) InMemory); [apply play_mdp_events|reflexivity].
  - destruct (status_eqb (d_status ds) Created); [apply play_mdp_events|reflexivity].
Qed.

Lemma play_job_cb_events : forall j s, play false (job_cb_events j s) = Some false.
Proof.
  intros j s. unfold job_cb_events. destruct (find_job j (jobs s)) as [jb|]; [|reflexivity].
  destruct (j_phase jb) as [| |ok]; try reflexivity.
  destruct (j_kind jb), ok; try reflexivity.
  - rewrite play_app, play_purge_events. reflexivity.
  - apply play_purge_events.
Qed.

(* every handler and every callback, started by a thread that holds nothing, runs to its end and holds nothing then *)
Theorem handlers_never_block : forall s o, play false (step_events s o) = Some false.
Proof.
  intros s o. destruct o; cbn [step_events]; try reflexivity.
  - apply play_close_events.
  - apply play_purge_events.
  - apply play_job_cb_events.
Qed.

Theorem history_never_blocks : forall ops s es, In es (events_along s ops) -> play false es = Some false.
Proof.
  induction ops as [|o r IH]; intros s es H; cbn in H; [contradiction|].
  destruct H as [<-|H]; [apply handlers_never_block|eauto].
Qed.

(* the section of Manager.purge is entered exactly when purge gives space back *)
Theorem purge_section_iff_credit : forall k s,
  free (purge k s) = if purge_credits k s
                     then free s + match lookup k (dsets s) with Some ds => Z.of_N (d_size ds) | None => 0 end
                     else free s.
Proof.
  intros k s. unfold purge, purge_credits. destruct (lookup k (dsets s)) as [ds|]; [|reflexivity].
  destruct (d_readers ds); [|reflexivity].
  destruct (d_status ds); try reflexivity; destruct (lookup k (segs s)); reflexivity.
Qed.

(* purge called while the caller holds pageout_one blocks exactly when purge has something to give back *)
Theorem purge_inside_section_blocks : forall k s,
  play false (purge_inside_section_events k s) = None <-> purge_credits k s = true.
Proof.
  intros k s. unfold purge_inside_section_events, purge_events. destruct (purge_credits k s); cbn; split; congruence.
Qed.

(* ... and that case is reached by the callback of a page-out that failed while its segment exists (the page file
   could not be written): capacity 4, a closed dataset of 3 bytes, an allocation that needs its room, a disk fault *)
Definition failed_pageout_witness : list op := [
  Add 1%N 3%N 1; Write 1%N [1;2;3]%N; Close 1%N None; Add 2%N 3%N 2; JobIo 0%N true ].

Theorem failed_pageout_reaches_purge_section :
  let s := exec (init 4) failed_pageout_witness in
  exists jb, find_job 0%N (jobs s) = Some jb /\ j_kind jb = PageOut /\ j_phase jb = CbPending false /\
    let s0 := with_jobs (drop_job 0%N (jobs s)) s in
    purge_credits (j_key jb) s0 = true /\
    play false (job_cb_events 0%N s) = Some false /\
    play false (purge_inside_section_events (j_key jb) s0) = None.
Proof. vm_compute. eexists. repeat split; reflexivity. Qed.
