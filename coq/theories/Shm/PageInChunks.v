(* Several page-in bodies at the same time (src/cascade/shm/disk.py, Disk._page_in on the 4 threads of Disk.readers).
   Shm/Manager.v runs the body of a page-in job as ONE step (JobIo).  The real body is a loop

       while True:  b = f.read(chunk);  l = len(b);  if not l: break;  shm.buf[i:i+l] = b;  i += l

   and the bodies of different jobs (different keys: different page files, different segments) interleave between any two of
   these operations.  Here a job is (page file, segment so far, offset, the chunk that has been read but not yet copied) and a
   SCHEDULE is any list of job numbers: each entry lets that job do its next operation (read a chunk / copy it).
   `shared = false` is the code: the chunk read lives in a buffer of the job's own (`b`, a fresh bytes object).
   `shared = true` is a body that reads into ONE scratch buffer belonging to the Disk: expressible, and wrong.
   No proofs in this file (Shm/PageInChunksProofs.v). *)
From Coq Require Import List Arith Lia Bool NArith.
Import ListNotations.

Definition bytes := list N.

Record pjob : Type := mkP {
  p_file : bytes;            (* the page file (not written to while it is paged in) *)
  p_seg : bytes;             (* the segment created for the job, zero-filled, of the dataset's size *)
  p_off : nat;               (* i *)
  p_len : option nat;        (* Some l: a chunk of l bytes has been read and is yet to be copied *)
  p_priv : bytes;            (* the job's own buffer *)
  p_done : bool
}.

Record world : Type := mkW {
  w_jobs : list pjob;
  w_scratch : bytes          (* the buffer every job reads into when `shared` *)
}.

(* seg[off : off + len src] = src *)
Definition write_at (off : nat) (src seg : bytes) : bytes := firstn off seg ++ src ++ skipn (off + length src) seg.
(* f.readinto(buf): the first len c bytes of buf are overwritten *)
Definition read_into (c buf : bytes) : bytes := c ++ skipn (length c) buf.

Section Chunks.
  Variable ch : nat.         (* the chunk size, 4096 in disk.py *)

  Definition chunk (j : pjob) : bytes := firstn ch (skipn (p_off j) (p_file j)).

  (* the next operation of job j; returns the job and the scratch buffer *)
  Definition pstep (shared : bool) (j : pjob) (scratch : bytes) : pjob * bytes :=
    if p_done j then (j, scratch) else
    match p_len j with
    | None =>
        let c := chunk j in
        match c with
        | [] => (mkP (p_file j) (p_seg j) (p_off j) None (p_priv j) true, scratch)
        | _ => if shared
               then (mkP (p_file j) (p_seg j) (p_off j) (Some (length c)) (p_priv j) false, read_into c scratch)
               else (mkP (p_file j) (p_seg j) (p_off j) (Some (length c)) c false, scratch)
        end
    | Some l =>
        let src := firstn l (if shared then scratch else p_priv j) in
        (mkP (p_file j) (write_at (p_off j) src (p_seg j)) (p_off j + l) None (p_priv j) false, scratch)
    end.

  Fixpoint step_nth (shared : bool) (i : nat) (js : list pjob) (scratch : bytes) : list pjob * bytes :=
    match js, i with
    | [], _ => ([], scratch)
    | j :: r, O => let '(j', sc) := pstep shared j scratch in (j' :: r, sc)
    | j :: r, S i' => let '(r', sc) := step_nth shared i' r scratch in (j :: r', sc)
    end.

  Definition wstep (shared : bool) (w : world) (i : nat) : world :=
    let '(js, sc) := step_nth shared i (w_jobs w) (w_scratch w) in mkW js sc.

  Definition wrun (shared : bool) (sched : list nat) (w : world) : world := fold_left (wstep shared) sched w.

  Definition fresh (file : bytes) : pjob := mkP file (repeat 0%N (length file)) 0 None [] false.
  Definition wstart (files : list bytes) : world := mkW (map fresh files) (repeat 0%N ch).
End Chunks.
