(* Executable model of the shared-memory store:
     src/cascade/shm/dataset.py   Dataset.is_pageoutable, Manager.add / close_callback / page_out /
                                  page_out_at_least / page_in / get / purge (is_exit=False), incl. the
                                  `fix:` commit that releases the pageout lock when the lottery is empty
     src/cascade/shm/disk.py      Disk._page_out / _page_in as asynchronous jobs whose steps run when the op
                                  list says: page-out = `JobIo` (attach + write the file), `JobUnlink`
                                  (shm.unlink of the name), `JobCb` (the Manager callback); page-in = `JobIo`
                                  (create + read back), `JobCb`; requests can interleave between any two steps
     src/cascade/shm/server.py    the error mapping of LocalServer.start (an exception in a handler
                                  becomes an error response; the loop goes on)
   plus the world outside: named segments (`segs`) and page-out files (`files`), and the two client-side
   steps that touch them (`Write` = SharedMemory(create=True) + fill, `ReadSeg`).
   Keys are numbers; shmid = key (md5 prefix assumed injective on the keys in use).  Sizes are N, free
   space / capacity / times are Z.  The Python closure `callback` captures the Dataset OBJECT: `j_orphan`
   records that the object was popped from `datasets` after the job was submitted (so a later mutation
   through the closure is invisible and `ds.size` is the size of the dead object).
   `d_written` / `d_closed` are ghost fields (segment contents at the writer's close / the close happened);
   nothing reads them.
   No proofs in this file. *)
From Coq Require Import List NArith ZArith String Bool.
From EKW Require Import Shm.Lottery.
Import ListNotations.
Open Scope string_scope.
Open Scope list_scope.

Definition bytes := list N.

(* ------------------------------------------------------------------ Python dict (insertion ordered) *)
Section Dict.
  Context {V : Type}.
  Fixpoint lookup (k : key) (d : list (key * V)) : option V :=
    match d with
    | [] => None
    | (k', v) :: r => if N.eqb k k' then Some v else lookup k r
    end.
  (* in-place mutation of the value stored under k *)
  Fixpoint alter (k : key) (f : V -> V) (d : list (key * V)) : list (key * V) :=
    match d with
    | [] => []
    | (k', v) :: r => if N.eqb k k' then (k', f v) :: r else (k', v) :: alter k f r
    end.
  (* d.pop(k) *)
  Fixpoint remove (k : key) (d : list (key * V)) : list (key * V) :=
    match d with
    | [] => []
    | (k', v) :: r => if N.eqb k k' then r else (k', v) :: remove k r
    end.
  (* d[k] = v *)
  Definition put (k : key) (v : V) (d : list (key * V)) : list (key * V) :=
    match lookup k d with
    | Some _ => alter k (fun _ => v) d
    | None => d ++ [(k, v)]
    end.
End Dict.

(* ------------------------------------------------------------------ data *)
Inductive status : Type := Created | InMemory | PagingOut | OnDisk | PagedIn.

Definition status_eqb (a b : status) : bool :=
  match a, b with
  | Created, Created | InMemory, InMemory | PagingOut, PagingOut | OnDisk, OnDisk | PagedIn, PagedIn => true
  | _, _ => false
  end.

Record dataset : Type := mkDs {
  d_size : N;
  d_status : status;
  d_created : Z;
  d_readers : list (N * Z);      (* ongoing_reads: rdid -> start time *)
  d_first : Z;                   (* retrieved_first, 0 = never *)
  d_last : Z;
  d_delayed : bool;              (* delayed_purge *)
  d_written : option bytes;      (* ghost: contents of the segment when the writer closed *)
  d_closed : bool                (* ghost: the writer's close_callback was accepted *)
}.

Definition set_status (s : status) (d : dataset) : dataset :=
  mkDs (d_size d) s (d_created d) (d_readers d) (d_first d) (d_last d) (d_delayed d) (d_written d) (d_closed d).
Definition set_delayed (d : dataset) : dataset :=
  mkDs (d_size d) (d_status d) (d_created d) (d_readers d) (d_first d) (d_last d) true (d_written d) (d_closed d).
Definition set_readers (r : list (N * Z)) (d : dataset) : dataset :=
  mkDs (d_size d) (d_status d) (d_created d) r (d_first d) (d_last d) (d_delayed d) (d_written d) (d_closed d).
Definition set_written (w : option bytes) (d : dataset) : dataset :=
  mkDs (d_size d) (d_status d) (d_created d) (d_readers d) (d_first d) (d_last d) (d_delayed d) w true.
Definition add_reader (rd : N) (now : Z) (d : dataset) : dataset :=
  mkDs (d_size d) (d_status d) (d_created d) (put rd now (d_readers d))
       (if (d_first d =? 0)%Z then now else d_first d) now (d_delayed d) (d_written d) (d_closed d).

Inductive jkind : Type := PageOut | PageIn.
(* a page-out body has two observable halves: attach + write the file, then unlink the NAME (a purge can land between
   them); a page-in body is one step *)
Inductive jphase : Type := IoPending | UnlinkPending | CbPending (ok : bool).

Record job : Type := mkJob {
  j_id : N;
  j_kind : jkind;
  j_key : key;
  j_size : N;          (* ds.size of the captured object *)
  j_phase : jphase;
  j_orphan : bool      (* the captured Dataset object is no longer the one registered under j_key *)
}.

Definition set_phase (p : jphase) (j : job) : job := mkJob (j_id j) (j_kind j) (j_key j) (j_size j) p (j_orphan j).
Definition orphan_if (k : key) (j : job) : job :=
  mkJob (j_id j) (j_kind j) (j_key j) (j_size j) (j_phase j) (j_orphan j || N.eqb (j_key j) k).

Record state : Type := mkSt {
  capacity : Z;
  free : Z;                        (* Manager.free_space *)
  lock : bool;                     (* pageout_all is held *)
  count : Z;                       (* pageout_count *)
  dsets : list (key * dataset);    (* Manager.datasets *)
  segs : list (key * bytes);       (* /dev/shm *)
  files : list (key * bytes);      (* the page-out directory *)
  jobs : list job;                 (* submitted to the Disk pools, callback not yet run *)
  next_jid : N
}.

Definition init (cap : Z) : state := mkSt cap cap false 0 [] [] [] [] 0.

(* Manager.__init__(prefix, capacity): `configured` is the capacity the server was started with (None / 0: not configured),
   `avail` what get_capacity() reports for /dev/shm (findmnt AVAIL).  Not configured: everything that is available; configured
   with more than is available: trimmed to it.  capacity and free_space both start at the resulting value. *)
Definition configure (configured : option Z) (avail : Z) : Z :=
  match configured with
  | None => avail
  | Some c => if (c =? 0)%Z then avail else if (c >? avail)%Z then avail else c
  end.
Definition start (configured : option Z) (avail : Z) : state := init (configure configured avail).

Definition with_free (f : Z) (s : state) : state :=
  mkSt (capacity s) f (lock s) (count s) (dsets s) (segs s) (files s) (jobs s) (next_jid s).
Definition with_lock (l : bool) (c : Z) (s : state) : state :=
  mkSt (capacity s) (free s) l c (dsets s) (segs s) (files s) (jobs s) (next_jid s).
Definition with_dsets (d : list (key * dataset)) (s : state) : state :=
  mkSt (capacity s) (free s) (lock s) (count s) d (segs s) (files s) (jobs s) (next_jid s).
Definition with_segs (g : list (key * bytes)) (s : state) : state :=
  mkSt (capacity s) (free s) (lock s) (count s) (dsets s) g (files s) (jobs s) (next_jid s).
Definition with_files (g : list (key * bytes)) (s : state) : state :=
  mkSt (capacity s) (free s) (lock s) (count s) (dsets s) (segs s) g (jobs s) (next_jid s).
Definition with_jobs (j : list job) (s : state) : state :=
  mkSt (capacity s) (free s) (lock s) (count s) (dsets s) (segs s) (files s) j (next_jid s).
Definition submit (kd : jkind) (k : key) (sz : N) (s : state) : state :=
  mkSt (capacity s) (free s) (lock s) (count s) (dsets s) (segs s) (files s)
       (jobs s ++ [mkJob (next_jid s) kd k sz IoPending false]) (next_jid s + 1).

(* ------------------------------------------------------------------ responses *)
Inductive resp : Type :=
| RGranted (shmid : key)                   (* AllocateResponse(shmid, "") *)
| RErr (e : string)                        (* error field: wait / conflict / capacity exceeded / exception class *)
| RGot (shmid : key) (l : N) (rdid : N)    (* GetResponse *)
| ROk                                      (* OkResponse() *)
| RWrote (created : bool)
| RBytes (b : option bytes)
| RJob (ran : bool).

(* ------------------------------------------------------------------ dataset.py *)
Definition STALE_CREATE : Z := 900000000000.
Definition STALE_READ : Z := 900000000000.

Definition max_list (x : Z) (l : list Z) : Z := fold_left Z.max l x.

Definition no_fresh_read (now : Z) (d : dataset) : bool :=
  match map snd (d_readers d) with
  | [] => true
  | t :: r => (now - max_list t r >? STALE_READ)%Z
  end.

Definition is_pageoutable (now : Z) (d : dataset) : bool :=
  (status_eqb (d_status d) Created && (now - d_created d >? STALE_CREATE)%Z)
  || (status_eqb (d_status d) InMemory && no_fresh_read now d).

(* Manager.purge(key, is_exit=False); never raises (the outer try logs and returns) *)
Definition purge (k : key) (s : state) : state :=
  match lookup k (dsets s) with
  | None => s                                                     (* KeyError, logged *)
  | Some ds =>
      match d_readers ds with
      | _ :: _ => with_dsets (alter k set_delayed (dsets s)) s    (* delayed *)
      | [] =>
          match d_status ds with
          | OnDisk => s                                           (* skipped *)
          | _ =>
              match lookup k (segs s) with
              | None => s                                         (* FileNotFoundError, logged *)
              | Some _ =>
                  with_jobs (map (orphan_if k) (jobs s))
                    (with_dsets (remove k (dsets s))
                      (with_free (free s + Z.of_N (d_size ds))
                        (with_segs (remove k (segs s)) s)))
              end
          end
      end
  end.

(* Manager.page_out(key): status := paging_out, job submitted *)
Definition page_out (s : state) (k : key) : state :=
  match lookup k (dsets s) with
  | None => s
  | Some ds => submit PageOut k (d_size ds) (with_dsets (alter k (set_status PagingOut) (dsets s)) s)
  end.

Definition candidates (now : Z) (d : list (key * dataset)) : list entity :=
  map (fun kd => mkEntity (fst kd) (d_created (snd kd)) (d_first (snd kd)) (d_last (snd kd)) (d_size (snd kd)))
      (filter (fun kd => is_pageoutable now (snd kd)) d).

(* Manager.page_out_at_least(amount); `fixed` = with the fix: commit (the model of the code is `true`) *)
Definition page_out_at_least_gen (fixed : bool) (amount now : Z) (s : state) : state :=
  if lock s then s else
  let winners := lottery (candidates now (dsets s)) amount in
  match winners with
  | [] => with_lock (negb fixed) 0 s
  | _ => fold_left page_out winners (with_lock true (Z.of_nat (List.length winners)) s)
  end.
Definition page_out_at_least := page_out_at_least_gen true.

Definition new_dataset (size : N) (now : Z) : dataset := mkDs size Created now [] 0 0 false None false.

Definition add (k : key) (size : N) (now : Z) (s : state) : state * resp :=
  match lookup k (dsets s) with
  | Some _ => (s, RErr "conflict")
  | None =>
      if (Z.of_N size >? capacity s)%Z then (s, RErr "capacity exceeded")
      else if (Z.of_N size >? free s)%Z then (page_out_at_least (Z.of_N size - free s) now s, RErr "wait")
      else (with_dsets (dsets s ++ [(k, new_dataset size now)]) (with_free (free s - Z.of_N size) s), RGranted k)
  end.

Definition maybe_delayed_purge (k : key) (s : state) : state :=
  match lookup k (dsets s) with
  | Some ds => if d_delayed ds && match d_readers ds with [] => true | _ => false end then purge k s else s
  | None => s
  end.

(* Manager.close_callback(key, rdid); rdid "" = None *)
Definition close (k : key) (r : option N) (s : state) : state * resp :=
  match lookup k (dsets s) with
  | None => (s, RErr "KeyError")
  | Some ds =>
      match r with
      | None =>
          if status_eqb (d_status ds) Created
          then (maybe_delayed_purge k
                  (with_dsets (alter k (fun d => set_written (lookup k (segs s)) (set_status InMemory d)) (dsets s)) s), ROk)
          else (s, RErr "ValueError")
      | Some rd =>
          if status_eqb (d_status ds) InMemory
          then (maybe_delayed_purge k
                  (match lookup rd (d_readers ds) with
                   | None => s
                   | Some _ => with_dsets (alter k (fun d => set_readers (remove rd (d_readers d)) d) (dsets s)) s
                   end), ROk)
          else (s, RErr "ValueError")
      end
  end.

(* Manager.page_in(key), reached from get with status on_disk and size <= free_space *)
Definition page_in (k : key) (ds : dataset) (s : state) : state * resp :=
  let s1 := with_dsets (alter k (set_status PagedIn) (dsets s)) s in
  if (free s <? Z.of_N (d_size ds))%Z then (s1, RErr "ValueError")
  else (submit PageIn k (d_size ds) (with_free (free s - Z.of_N (d_size ds)) s1), RErr "wait").

Fixpoint first_fresh (cands : list N) (readers : list (N * Z)) : option N :=
  match cands with
  | [] => None
  | c :: r => match lookup c readers with None => Some c | Some _ => first_fresh r readers end
  end.

Definition get (k : key) (now : Z) (cands : list N) (s : state) : state * resp :=
  match lookup k (dsets s) with
  | None => (s, RErr "KeyError")
  | Some ds =>
      match d_status ds with
      | Created | PagedIn | PagingOut => (s, RErr "wait")
      | OnDisk =>
          if (Z.of_N (d_size ds) >? free s)%Z
          then (page_out_at_least (Z.of_N (d_size ds) - free s) now s, RErr "wait")
          else page_in k ds s
      | InMemory =>
          match first_fresh cands (d_readers ds) with
          | None => (s, RErr "RuntimeError")       (* the scripted uuid4 ran dry *)
          | Some rd => (with_dsets (alter k (add_reader rd now) (dsets s)) s, RGot k (d_size ds) rd)
          end
      end
  end.

(* ------------------------------------------------------------------ disk.py, two halves *)
Definition zeros (n : N) : bytes := repeat 0%N (N.to_nat n).
Definition CHUNK : N := 4096.

Fixpoint find_job (j : N) (l : list job) : option job :=
  match l with
  | [] => None
  | x :: r => if N.eqb (j_id x) j then Some x else find_job j r
  end.
Definition update_job (j : N) (f : job -> job) (l : list job) : list job :=
  map (fun x => if N.eqb (j_id x) j then f x else x) l.
Definition drop_job (j : N) (l : list job) : list job :=
  filter (fun x => negb (N.eqb (j_id x) j)) l.

Definition to_phase (j : N) (p : jphase) (s : state) : state :=
  with_jobs (update_job j (set_phase p) (jobs s)) s.
Definition finish_io (j : N) (ok : bool) (s : state) : state := to_phase j (CbPending ok) s.

(* Disk._page_out body, first half: attach to the segment (fails if the name is gone), open the file "wb", write the mapping *)
Definition io_page_out (jb : job) (fault : bool) (s : state) : state :=
  match lookup (j_key jb) (segs s) with
  | None => finish_io (j_id jb) false s
  | Some bs =>
      if fault then finish_io (j_id jb) false s
      else to_phase (j_id jb) UnlinkPending (with_files (put (j_key jb) bs (files s)) s)
  end.

(* second half: shm.unlink() removes whatever is registered under the name NOW; FileNotFoundError = failed page-out *)
Definition job_unlink (j : N) (s : state) : state * resp :=
  match find_job j (jobs s) with
  | Some jb =>
      match j_kind jb, j_phase jb with
      | PageOut, UnlinkPending =>
          (match lookup (j_key jb) (segs s) with
           | None => finish_io j false s
           | Some _ => finish_io j true (with_segs (remove (j_key jb) (segs s)) s)
           end, RJob true)
      | _, _ => (s, RJob false)
      end
  | None => (s, RJob false)
  end.

(* Disk._page_in body: create segment of ds.size, copy the file into it chunk by chunk *)
Definition io_page_in (jb : job) (fault : bool) (s : state) : state :=
  let k := j_key jb in
  let n := j_size jb in
  if (n =? 0)%N then finish_io (j_id jb) false s                       (* SharedMemory(size=0): ValueError *)
  else match lookup k (segs s) with
  | Some _ => finish_io (j_id jb) false s                              (* FileExistsError *)
  | None =>
      let created := with_segs (segs s ++ [(k, zeros n)]) s in
      if fault then finish_io (j_id jb) false created
      else match lookup k (files s) with
      | None => finish_io (j_id jb) false created
      | Some f =>
          let len := N.of_nat (List.length f) in
          if (len <=? n)%N
          then finish_io (j_id jb) true (with_segs (segs s ++ [(k, f ++ zeros (n - len))]) s)
          else let q := ((n / CHUNK) * CHUNK)%N in                     (* the chunks that still fit were copied *)
               finish_io (j_id jb) false (with_segs (segs s ++ [(k, firstn (N.to_nat q) f ++ zeros (n - q))]) s)
      end
  end.

Definition job_io (j : N) (fault : bool) (s : state) : state * resp :=
  match find_job j (jobs s) with
  | Some jb =>
      match j_phase jb with
      | IoPending => (match j_kind jb with PageOut => io_page_out jb fault s | PageIn => io_page_in jb fault s end, RJob true)
      | _ => (s, RJob false)
      end
  | None => (s, RJob false)
  end.

(* `with self.pageout_one: self.pageout_count -= 1; if self.pageout_count == 0: self.pageout_all.release()` *)
Definition count_down (s : state) : state :=
  let c := (count s - 1)%Z in
  with_lock (if (c =? 0)%Z then false else lock s) c s.

Definition job_cb (j : N) (s : state) : state * resp :=
  match find_job j (jobs s) with
  | Some jb =>
      match j_phase jb with
      | CbPending ok =>
          let s0 := with_jobs (drop_job j (jobs s)) s in
          (match j_kind jb, ok with
           | PageOut, true =>
               let s1 := if j_orphan jb then s0 else with_dsets (alter (j_key jb) (set_status OnDisk) (dsets s0)) s0 in
               count_down (with_free (free s1 + Z.of_N (j_size jb)) s1)
           | PageOut, false => count_down (purge (j_key jb) s0)
           | PageIn, true =>
               if j_orphan jb then s0 else with_dsets (alter (j_key jb) (set_status InMemory) (dsets s0)) s0
           | PageIn, false => purge (j_key jb) s0
           end, RJob true)
      | _ => (s, RJob false)
      end
  | None => (s, RJob false)
  end.

(* ------------------------------------------------------------------ the world: clients and the serve loop *)
Inductive op : Type :=
| Add (k : key) (size : N) (now : Z)
| Write (k : key) (b : bytes)                   (* client: SharedMemory(shmid, create=True, size=len b); buf[:] = b *)
| Close (k : key) (rdid : option N)
| Get (k : key) (now : Z) (uuids : list N)
| Purge (k : key)
| JobIo (j : N) (fault : bool)
| JobUnlink (j : N)
| JobCb (j : N)
| ReadSeg (k : key)
| ReadFile (k : key).

Definition step (s : state) (o : op) : state * resp :=
  match o with
  | Add k size now => add k size now s
  | Write k b =>
      match lookup k (segs s) with
      | Some _ => (s, RWrote false)
      | None => (with_segs (segs s ++ [(k, b)]) s, RWrote true)
      end
  | Close k r => close k r s
  | Get k now u => get k now u s
  | Purge k => (purge k s, ROk)
  | JobIo j f => job_io j f s
  | JobUnlink j => job_unlink j s
  | JobCb j => job_cb j s
  | ReadSeg k => (s, RBytes (lookup k (segs s)))
  | ReadFile k => (s, RBytes (lookup k (files s)))
  end.

(* what is visible at the seams after one op: the response, FreeSpaceResponse, the jobs handed to the Disk pools
   (the size is visible for page-in only) *)
Definition output := (resp * Z * list (jkind * key * N))%type.

Definition seen_job (j : job) : jkind * key * N :=
  (j_kind j, j_key j, match j_kind j with PageIn => j_size j | PageOut => 0%N end).

Definition observe (s s' : state) (r : resp) : output :=
  (r, free s', map seen_job (filter (fun j => (next_jid s <=? j_id j)%N) (jobs s'))).

Fixpoint run (s : state) (ops : list op) : list output * state :=
  match ops with
  | [] => ([], s)
  | o :: r =>
      let '(s', rp) := step s o in
      let '(outs, fin) := run s' r in
      (observe s s' rp :: outs, fin)
  end.

Definition exec (s : state) (ops : list op) : state := snd (run s ops).

(* the op lists of the harness carry scripted instants; the store reads them off a clock whose epoch is `e` *)
Definition shift_op (e : Z) (o : op) : op :=
  match o with
  | Add k size now => Add k size (now + e)
  | Get k now u => Get k (now + e) u
  | _ => o
  end.
