(* Executable checkers for the VALUES of fluent graphs (harness/c13.py, stream "sem"): the model
   runs the program (Fluent/Action.v), evaluates every cell of the result with the tensor
   semantics of Fluent/ActionSem.v on the source arrays the harness used, and the result is
   compared with what evaluating the real Action.graph() gave: shape and every element, exactly
   (integer data), or the class of the exception at the first cell that raises.
   `check_any` puts the three kinds of correspondence case under one type so that one Coq run
   serves all streams.  Glue (trusted with the harness): flat row-major data -> nested body. *)
From Coq Require Import List NArith ZArith String Bool.
From Coq Require QArith Qcanon.
From EKW Require Import Fluent.XArr Fluent.Action Fluent.ActionProofs Fluent.ActionCheck Fluent.ActionSem Fluent.ActionSemT.
Import ListNotations.
Open Scope string_scope.
Open Scope list_scope.

Fixpoint chunks {A} (cnt k : nat) (l : list A) : list (list A) :=
  match cnt with
  | O => []
  | S c => firstn k l :: chunks c k (skipn k l)
  end.

Definition prod_shape (s : list nat) : nat := fold_right Nat.mul 1%nat s.

Fixpoint unflat (s : list nat) (l : list Z) : BT.nd :=
  match s with
  | [] => BT.Leaf (qz (hd 0%Z l))
  | m :: r => BT.Node (map (unflat r) (chunks m (prod_shape r) l))
  end.

(* array from shape + integer data, row-major *)
Definition ti (s : list nat) (d : list Z) : BT.tensor := BT.T s (unflat s d).

Definition wf_input (t : BT.tensor) : bool :=
  BT.conforms (BT.shape t) (BT.body t) &&
  Nat.eqb (List.length (BT.leaves (BT.shape t) (BT.body t))) (prod_shape (BT.shape t)).

Definition oval := (list nat * list Z)%type.

Definition val_eqb (v : val) (o : oval) : bool :=
  match v with
  | BT.Ok t => BT.shape_eqb (BT.shape t) (fst o) && BT.conforms (BT.shape t) (BT.body t) &&
               list_eqb Qcanon.Qc_eq_bool (BT.leaves (BT.shape t) (BT.body t)) (map qz (snd o))
  | BT.Err _ => false
  end.

Definition is_okb (v : val) : bool := match v with BT.Ok _ => true | BT.Err _ => false end.

Definition vcase := (list instr * list BT.tensor * (list oval + nat * string))%type.

Definition check_values (c : vcase) : bool :=
  let '(p, srcs, exp) := c in
  forallb wf_input srcs &&
  match run [] p with
  | Ok env =>
      match rev env with
      | a :: _ =>
          let vs := values srcs a in
          match exp with
          | inl os => all2 val_eqb vs os
          | inr (k, e) =>
              (* the cells before the k-th evaluate, the k-th raises e *)
              forallb is_okb (firstn k vs) &&
              match nth_error vs k with Some (BT.Err e') => String.eqb e e' | _ => false end
          end
      | [] => false
      end
  | Err _ => false
  end.

(* ------------------------------------------------------------------ typed values (Fluent/ActionSemT.v) *)
(* a source array with its element type; observed cell = element type, shape, exact values as num/den
   (a binary floating-point number IS a rational) *)
Definition tsrc (d : BD.dtype) (s : list nat) (l : list Z) : tarr := (d, ti s l).
Definition ovalT := (BD.dtype * list nat * list (Z * positive))%type.

Definition qfrac (x : Z * positive) : Qcanon.Qc := Qcanon.Q2Qc (QArith_base.Qmake (fst x) (snd x)).

(* the model has no opinion: the exact result is not a value of the floating-point result type, or not a
   number at all.  (An uninterpreted callable is NOT in this list: the typed stream only uses interpreted ones.) *)
Definition silent (e : string) : bool :=
  existsb (String.eqb e) ["rounding-outside-model"; "NaN-outside-model"; "irrational-outside-model"; "inf-outside-model";
                          "fractional-exponent-outside-model"].

Definition val_eqbT (exact : bool) (v : tval) (o : ovalT) : bool :=
  let '(od, os, ol) := o in
  match v with
  | BT.Ok (d, t) => BD.dtype_eqb d od && BT.shape_eqb (BT.shape t) os && BT.conforms (BT.shape t) (BT.body t) &&
                    list_eqb Qcanon.Qc_eq_bool (BT.leaves (BT.shape t) (BT.body t)) (map qfrac ol)
  | BT.Err e => negb exact && silent e
  end.

Definition is_okbT (v : tval) : bool := match v with BT.Ok _ => true | BT.Err _ => false end.

Definition wf_inputT (a : tarr) : bool := wf_input (snd a) && BD.all_repr (fst a) (snd a).

(* exact = true: the harness vouches that nothing on the way can round (integer / boolean element types under
   ring and structural operations, or floating-point data whose every intermediate value is a small integer):
   then the model must DECIDE every cell *)
Definition tcase := (list instr * list tarr * (list ovalT + nat * string) * bool)%type.

Definition check_values_t (c : tcase) : bool :=
  let '(p, srcs, exp, exact) := c in
  forallb wf_inputT srcs &&
  match run [] p with
  | Ok env =>
      match rev env with
      | a :: _ =>
          let vs := valuesT srcs a in
          match exp with
          | inl os => all2 (val_eqbT exact) vs os
          | inr (k, e) =>
              forallb is_okbT (firstn k vs) &&
              match nth_error vs k with Some (BT.Err e') => String.eqb e e' | _ => false end
          end
      | [] => false
      end
  | Err _ => false
  end.

Inductive anycase : Type :=
| CLast (c : list instr * (observed + string))       (* structure of the last result / exception class *)
| CAll (c : list instr * list (nat * observed))      (* structure of several results of one session *)
| CVal (c : vcase)                                   (* values of the last result *)
| CValT (c : tcase).                                 (* values AND element types of the last result *)

Definition check_any (c : anycase) : bool :=
  match c with
  | CLast x => check_case x
  | CAll x => check_session x
  | CVal x => check_values x
  | CValT x => check_values_t x
  end.

(* for diagnosis from the harness: the model's values as text-free data *)
Definition model_values (p : list instr) (srcs : list BT.tensor) : list (list nat * list Qcanon.Qc + string) :=
  match run [] p with
  | Ok env => match rev env with
              | a :: _ => map (fun v : val => match v with
                                      | BT.Ok t => inl (BT.shape t, BT.leaves (BT.shape t) (BT.body t))
                                      | BT.Err e => inr e end) (values srcs a)
              | [] => [] end
  | Err e => [inr e]
  end.

Definition model_values_t (p : list instr) (srcs : list tarr) : list (BD.dtype * list nat * list Qcanon.Qc + string) :=
  match run [] p with
  | Ok env => match rev env with
              | a :: _ => map (fun v : tval => match v with
                                      | BT.Ok (d, t) => inl (d, BT.shape t, BT.leaves (BT.shape t) (BT.body t))
                                      | BT.Err e => inr e end) (valuesT srcs a)
              | [] => [] end
  | Err e => [inr e]
  end.
