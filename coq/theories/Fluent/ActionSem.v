(* What a fluent graph COMPUTES on array payloads (array-API back-end, numpy arrays), not only
   how it is wired: the callables the fluent layer itself puts into nodes -- backends.take
   (expand), backends.stack (stack / flatten), backends.concat (concatenate), the named
   reductions, two-argument arithmetic, backends.trivial (broadcast) -- are interpreted by the
   exact tensor semantics of Backends/Tensor.v + Backends/Ops.v (the reference the back-ends
   themselves are held against by C15).  In particular the keyword arguments the fluent layer
   passes are READ here: `dim` of take and `axis` of stack / concat are positions in the
   payload array, counted from the front (>= 0) or from the back (< 0), exactly as
   Backends.Ops.norm_index reads them.  A node whose callable or argument shape is not
   interpreted is an `Err "...outside-model"` value, never a made-up array.

   No proofs in this file (Fluent/ActionSemProofs.v).  User callables stay uninterpreted in
   Fluent/ActionProofs.v (`ev` for any `ap`); this file is one particular `ap`. *)
From Coq Require Import List NArith ZArith String Bool.
From Coq Require QArith Qcanon.
From EKW Require Import Fluent.XArr Fluent.Action Fluent.ActionProofs.
From EKW Require Backends.Tensor Backends.Ops.
Import ListNotations.
Open Scope string_scope.
Open Scope list_scope.

Module BT := EKW.Backends.Tensor.
Module BO := EKW.Backends.Ops.

(* the value of a node: an array, or the class of the exception its evaluation raises *)
Definition val : Type := BT.res BT.tensor.

(* the input values of a node, if every producer succeeded; otherwise the FIRST failure in
   argument order (arguments are evaluated left to right, depth first) *)
Fixpoint all_ok (vs : list val) : BT.res (list BT.tensor) :=
  match vs with
  | [] => BT.Ok []
  | BT.Err e :: _ => BT.Err e
  | BT.Ok t :: r => match all_ok r with
                    | BT.Ok ts => BT.Ok (t :: ts)
                    | BT.Err e => BT.Err e
                    end
  end.

Definition qz (z : Z) : Qcanon.Qc := Qcanon.Q2Qc (QArith_base.inject_Z z).
(* a Python int handed over as the second operand of arithmetic: a 0-d array *)
Definition scalarT (z : Z) : BT.tensor := BT.T [] (BT.Leaf (qz z)).

Definition outside : val := BT.Err "uninterpreted-outside-model".

(* the one keyword argument the fluent layer adds itself, and nothing else *)
Definition kw_only (key : string) (kw : kwargs) : option cv :=
  match kw with
  | [(k, v)] => if String.eqb k key then Some v else None
  | _ => None
  end.

Definition is_reduction (n : string) : bool :=
  (n =? "sum") || (n =? "prod") || (n =? "min") || (n =? "max") || (n =? "mean").

(* NumPy ufunc name of backends.<name> *)
Definition bin_name (n : string) : option string :=
  if n =? "add" then Some "add" else if n =? "subtract" then Some "subtract"
  else if n =? "multiply" then Some "multiply" else if n =? "divide" then Some "divide"
  else if n =? "pow" then Some "power" else None.

(* payload.func applied to the input values, then the statics, with kwargs: the backends' functions *)
Definition apT (f : fn) (vs : list val) (ex : list cv) (kw : kwargs) : val :=
  match all_ok vs with
  | BT.Err e => BT.Err e
  | BT.Ok ts =>
      let n := fname f in
      if n =? "trivial" then
        match ts, ex, kw with [t], [], [] => BT.Ok t | _, _, _ => outside end
      else if n =? "take" then
        (* _expand_transform: Payload(backends.take, [input0, index], {"dim": dim}) *)
        match ts, ex, kw_only "dim" kw with
        | [t], [CZ i], Some (CZ d) => BO.take_op t (inl i) d
        | _, _, _ => outside
        end
      else if n =? "stack" then
        (* Action.stack / flatten: Payload(backends.stack, kwargs={"axis": axis}) *)
        match ex, kw_only "axis" kw with
        | [], Some (CZ a) => BO.stack_op ts a
        | _, _ => outside
        end
      else if n =? "concat" then
        match ex, kw with
        | [], [] => BO.concat_op ts 0
        | [], _ => match kw_only "axis" kw with Some (CZ a) => BO.concat_op ts a | _ => outside end
        | _, _ => outside
        end
      else if is_reduction n then
        (* several inputs: reduced element-wise; ONE input: everything inside it is reduced *)
        match ex, kw with
        | [], [] => BO.reduce_op n ts None
        | _, _ => outside
        end
      else match bin_name n with
           | Some u =>
               match ts, ex, kw with
               | [a; b], [], [] => BO.bin_op u a b
               | [a], [CZ c], [] => BO.bin_op u a (scalarT c)
               | _, _, _ => outside
               end
           | None => outside
           end
  end.

(* source number i computes the i-th given array *)
Definition src_of (srcs : list BT.tensor) (i : N) : val :=
  if (i <? 4096)%N then
    match nth_error srcs (N.to_nat i) with Some t => BT.Ok t | None => BT.Err "NoSuchSource" end
  else BT.Err "NoSuchSource".

(* the value of a cell / of every cell (row-major) of a node array *)
Definition evT (srcs : list BT.tensor) (e : expr) : val := ev val (src_of srcs) apT e.
Definition values (srcs : list BT.tensor) (a : xarr) : list val := map (evT srcs) (cells a).

(* take(t, i, dim=d) and stack(parts, axis=d) as the fluent layer calls them *)
Definition take_val (v : val) (i d : Z) : val := apT f_take [v] [CZ i] [("dim", CZ d)].
Definition stack_val (vs : list val) (d : Z) : val := apT f_stack vs [] [("axis", CZ d)].
