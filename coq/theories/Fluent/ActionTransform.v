(* Action.transform (the loop: body, _add_dimension, join; then _squeeze_dimension) for bodies
   whose results all have the same dimensions and scalar coordinates, and its instance
   Action.expand.  Arbitrary rank, sizes and number of parameters. *)
From Coq Require Import List Arith NArith ZArith String Bool Lia.
From EKW Require Import Fluent.XArr Fluent.Action Fluent.Batch Fluent.ActionProofs Fluent.ActionSpecs Fluent.ActionStd.
Import ListNotations.
Open Scope list_scope.

(* ------------------------------------------------------------------ list surgery *)
Lemma insert_at_cons {A} : forall k (x d : A) l, insert_at (S k) x (d :: l) = d :: insert_at k x l.
Proof. reflexivity. Qed.

Lemma insert_at_length {A} : forall k (x : A) l, List.length (insert_at k x l) = S (List.length l).
Proof.
  intros. unfold insert_at. rewrite app_length. simpl. rewrite <- plus_n_Sm, <- app_length, firstn_skipn. reflexivity.
Qed.

Lemma nth_insert {A} : forall k (x d : A) l, k <= List.length l -> nth k (insert_at k x l) d = x.
Proof.
  intros k x d l H. unfold insert_at. rewrite app_nth2; rewrite firstn_length_le by exact H; [|lia].
  now rewrite Nat.sub_diag.
Qed.

Lemma remove_insert {A} : forall k (x : A) l, k <= List.length l -> remove_at k (insert_at k x l) = l.
Proof.
  induction k as [|k IH]; intros x l H; [reflexivity|].
  destruct l as [|d l]; [simpl in H; lia|]. rewrite insert_at_cons.
  change (remove_at (S k) (d :: insert_at k x l)) with (d :: remove_at k (insert_at k x l)).
  f_equal. apply IH. simpl in H. lia.
Qed.

Lemma replace_insert {A} : forall k (x y : A) l, k <= List.length l ->
  replace_at k y (insert_at k x l) = insert_at k y l.
Proof.
  induction k as [|k IH]; intros x y l H; [reflexivity|].
  destruct l as [|d l]; [simpl in H; lia|]. rewrite !insert_at_cons.
  change (replace_at (S k) y (d :: insert_at k x l)) with (d :: replace_at k y (insert_at k x l)).
  f_equal. apply IH. simpl in H. lia.
Qed.

Lemma remove_replace {A} : forall k (x : A) l, k <= List.length l ->
  remove_at k (replace_at k x l) = remove_at k l.
Proof.
  induction k as [|k IH]; intros x l H.
  - destruct l; reflexivity.
  - destruct l as [|d l]; [simpl in H; lia|].
    change (remove_at (S k) (replace_at (S k) x (d :: l))) with (d :: remove_at k (replace_at k x l)).
    change (remove_at (S k) (d :: l)) with (d :: remove_at k l).
    f_equal. apply IH. simpl in H. lia.
Qed.

Lemma nth_replace {A} : forall k (x d : A) l, k <= List.length l -> nth k (replace_at k x l) d = x.
Proof.
  intros k x d l H. unfold replace_at. rewrite app_nth2; rewrite firstn_length_le by exact H; [|lia].
  now rewrite Nat.sub_diag.
Qed.

Lemma firstn_S_nth {A} : forall i (l : list A) v, nth_error l i = Some v -> firstn (S i) l = firstn i l ++ [v].
Proof.
  induction i as [|i IH]; intros [|x l] v H; simpl in H; try discriminate.
  - inversion H; reflexivity.
  - cbn [firstn app]. f_equal. now apply IH.
Qed.

Lemma find_dim_insert : forall n k x l,
  find_dim n l = None -> k <= List.length l -> dname x = n -> find_dim n (insert_at k x l) = Some k.
Proof.
  intros n. induction k as [|k IH]; intros x l Hn Hk Hx.
  - unfold insert_at. simpl. rewrite Hx, String.eqb_refl. reflexivity.
  - destruct l as [|d l]; [simpl in Hk; lia|]. rewrite insert_at_cons. simpl in *.
    destruct (String.eqb n (dname d)); [discriminate|].
    destruct (find_dim n l) eqn:E; [discriminate|]. rewrite (IH x l E ltac:(lia) Hx). reflexivity.
Qed.

Lemma norm_axis_le : forall nd ax k, norm_axis nd ax = Some k -> k <= nd.
Proof.
  intros nd ax k H. unfold norm_axis in H.
  destruct ((0 <=? ax)%Z && (ax <=? Z.of_nat nd)%Z) eqn:E1.
  - apply andb_prop in E1 as [A B]. inversion H. lia.
  - destruct ((ax <? 0)%Z && (- (Z.of_nat nd + 1) <=? ax)%Z) eqn:E2; [|discriminate].
    apply andb_prop in E2 as [A B]. inversion H. lia.
Qed.

Lemma dims_compat_refl : forall l, dims_compat l l = Ok tt.
Proof.
  induction l as [|d l IH]; [reflexivity|]. simpl. unfold dim_compat.
  rewrite String.eqb_refl. cbn [negb].
  destruct (dindexed d); cbn [andb negb].
  - rewrite list_eqb_refl. cbn [bind]. exact IH.
  - rewrite Nat.eqb_refl. cbn [bind]. exact IH.
Qed.

Definition scal_ok (sc : list (string * cv)) : Prop := forall n v, In (n, v) sc -> lookup n sc = Some v.

Lemma fresh_no_coord : forall n z, fresh n z -> has_coord n z = false.
Proof. intros n z [H1 H2]. unfold has_coord. now rewrite H1, H2. Qed.

(* ------------------------------------------------------------------ the transform loop *)
Section TransformSpec.
  Variable P : Type.
  Variable body : P -> res xarr.
  Variable B : nat -> xarr.                       (* result of the body for parameter number j *)
  Variables (D : list dimn) (Sc : list (string * cv)) (name : string) (vs : list cv) (axis : Z) (k : nat).
  Hypothesis HBd : forall j, xdims (B j) = D.
  Hypothesis HBs : forall j, xscal (B j) = Sc.
  Hypothesis Hfd : find_dim name D = None.
  Hypothesis Hfs : lookup name Sc = None.
  Hypothesis Hscal : scal_ok Sc.
  Hypothesis Hax : norm_axis (List.length D) axis = Some k.

  Definition newdim (i : nat) : dimn := {| dname := name; dcoords := firstn i vs; dindexed := true |}.

  Definition Inv (i : nat) (c : xarr) : Prop :=
    xdims c = insert_at k (newdim i) D /\ xscal c = Sc /\
    forall idx, List.length idx = S (List.length D) -> nth k idx 0 < i ->
      xat c idx = xat (B (nth k idx 0)) (remove_at k idx).

  Let Hk : k <= List.length D := norm_axis_le _ _ _ Hax.

  Lemma expand_B : forall i v,
    x_expand_dims name v axis (B i) =
    Ok {| xdims := insert_at k {| dname := name; dcoords := [v]; dindexed := true |} D;
          xscal := Sc; xat := fun idx => xat (B i) (remove_at k idx) |}.
  Proof.
    intros. unfold x_expand_dims, has_coord. rewrite HBd, HBs, Hfd, Hfs. cbn [orb]. rewrite Hax. reflexivity.
  Qed.

  Lemma loop_spec : forall rest i acc,
    i + List.length rest <= List.length vs ->
    (forall j p, nth_error rest j = Some p -> body p = Ok (B (i + j))) ->
    match acc with None => i = 0 | Some c => 0 < i /\ Inv i c end ->
    0 < i + List.length rest ->
    exists c, transform_loop body name vs axis rest i acc = Ok (Some c) /\ Inv (i + List.length rest) c.
  Proof.
    induction rest as [|p rest IH]; intros i acc Hlen Hbody Hacc Hpos.
    - simpl in *. rewrite Nat.add_0_r in *. destruct acc as [c|]; [|lia]. exists c. split; [reflexivity|apply Hacc].
    - cbn [transform_loop]. rewrite (Hbody 0 p eq_refl), Nat.add_0_r. cbn [bind].
      rewrite (fresh_no_coord name (B i)) by (split; [now rewrite HBd|now rewrite HBs]).
      cbn [List.length] in Hlen.
      destruct (nth_error vs i) as [v|] eqn:Ev; [|apply nth_error_None in Ev; lia].
      rewrite expand_B. cbn [bind].
      set (r' := {| xdims := insert_at k {| dname := name; dcoords := [v]; dindexed := true |} D;
                    xscal := Sc; xat := fun idx => xat (B i) (remove_at k idx) |}).
      assert (Hstep : exists c', match acc with None => Ok r' | Some c => x_concat name None c r' end = Ok c'
                                 /\ Inv (S i) c').
      { destruct acc as [c|].
        - destruct Hacc as (Hi & Hd & Hs & Hc).
          subst r'. unfold x_concat, promote. rewrite Hd. cbn [xdims].
          rewrite (find_dim_insert name k (newdim i) D Hfd Hk eq_refl),
            (find_dim_insert name k {| dname := name; dcoords := [v]; dindexed := true |} D Hfd Hk eq_refl). rewrite Nat.eqb_refl. cbn [negb].
          rewrite !Hd. cbn [xdims xscal].
          rewrite !nth_insert by exact Hk. rewrite !remove_insert by exact Hk.
          rewrite dims_compat_refl. cbn [bind]. rewrite Hs.
          rewrite (merge_scal_sub Sc Sc Hscal). cbn [bind dindexed newdim Bool.eqb negb dcoords].
          eexists. split; [reflexivity|].
          assert (Hfl : List.length (firstn i vs) = i) by (apply firstn_length_le; lia).
          split; [|split].
          + cbn [xdims]. rewrite replace_insert by exact Hk. unfold newdim. now rewrite (firstn_S_nth _ _ _ Ev).
          + reflexivity.
          + intros idx Hl Hp. cbn [xat]. unfold dsize, newdim. cbn [dcoords]. rewrite Hfl.
            destruct (Nat.ltb (nth k idx 0) i) eqn:El.
            * apply Nat.ltb_lt in El. now apply Hc.
            * apply Nat.ltb_ge in El. assert (nth k idx 0 = i) as -> by lia.
              cbn [xat]. now rewrite remove_replace by lia.
        - subst i r'. eexists. split; [reflexivity|]. split; [|split].
          + cbn [xdims]. unfold newdim. now rewrite (firstn_S_nth _ _ _ Ev).
          + reflexivity.
          + intros idx Hl Hp. assert (nth k idx 0 = 0) as -> by lia. reflexivity. }
      destruct Hstep as (c' & Ec' & Hinv). rewrite Ec'. cbn [bind].
      destruct (IH (S i) (Some c')) as (c & Ec & Hc).
      + lia.
      + intros j q Hq. replace (S i + j) with (i + S j) by lia. exact (Hbody (S j) q Hq).
      + split; [lia|exact Hinv].
      + lia.
      + exists c. split; [exact Ec|]. cbn [List.length]. now rewrite <- plus_n_Sm.
  Qed.

  (* two or more parameters: the new dimension stays, with the first m given values as coordinates *)
  Theorem transform_many : forall params vals,
    2 <= List.length params ->
    vs = match vals with Some v => v | None => zrange (List.length params) end ->
    List.length params <= List.length vs ->
    (forall j p, nth_error params j = Some p -> body p = Ok (B j)) ->
    exists r, transform body name vals axis params = Ok r /\ Inv (List.length params) r.
  Proof.
    intros params vals H2 Hvs Hlen Hbody. unfold transform. rewrite <- Hvs.
    destruct (loop_spec params 0 None ltac:(simpl; lia) Hbody eq_refl ltac:(simpl; lia)) as (c & Ec & Hc).
    rewrite Ec. cbn [bind]. cbn [Nat.add] in Hc. destruct Hc as (Hd & Hs & Hcell).
    unfold x_squeeze. rewrite Hd, (find_dim_insert name k (newdim (List.length params)) D Hfd Hk eq_refl), nth_insert by exact Hk.
    cbn [dindexed newdim andb]. unfold dsize, newdim. cbn [dcoords]. rewrite firstn_length_le by exact Hlen.
    destruct (Nat.eqb (List.length params) 1) eqn:E; [apply Nat.eqb_eq in E; lia|].
    exists c. split; [reflexivity|]. repeat split; assumption.
  Qed.

  (* one parameter: the dimension is squeezed into a scalar coordinate *)
  Theorem transform_single : forall p vals v,
    vs = match vals with Some w => w | None => zrange 1 end ->
    nth_error vs 0 = Some v ->
    body p = Ok (B 0) ->
    exists r, transform body name vals axis [p] = Ok r /\
      xdims r = D /\ xscal r = Sc ++ [(name, v)] /\
      forall t, List.length t = List.length D -> xat r t = xat (B 0) t.
  Proof.
    intros p vals v Hvs Hv Hb. unfold transform. cbn [List.length]. rewrite <- Hvs.
    assert (Hl : 1 <= List.length vs) by (destruct vs; [discriminate|simpl; lia]).
    destruct (loop_spec [p] 0 None ltac:(simpl; lia)) as (c & Ec & Hd & Hs & Hcell).
    { intros [|j] q Hq; simpl in Hq; [inversion Hq; subst; exact Hb|destruct j; discriminate]. }
    { reflexivity. } { simpl; lia. }
    rewrite Ec. cbn [bind]. cbn [Nat.add List.length] in Hd, Hcell.
    unfold x_squeeze. rewrite Hd, (find_dim_insert name k (newdim 1) D Hfd Hk eq_refl), nth_insert by exact Hk.
    cbn [dindexed newdim andb]. unfold dsize, newdim. cbn [dcoords]. rewrite firstn_length_le by exact Hl.
    cbn [Nat.eqb]. eexists. split; [reflexivity|]. cbn [xdims xscal xat].
    split; [now rewrite remove_insert by exact Hk|]. split.
    - rewrite Hs. destruct vs as [|w ws]; [discriminate|]. simpl in Hv. inversion Hv; subst. reflexivity.
    - intros t Ht. rewrite Hcell.
      + rewrite nth_insert by lia. now rewrite remove_insert by lia.
      + rewrite insert_at_length. now rewrite Ht.
      + rewrite nth_insert by lia. lia.
  Qed.
End TransformSpec.

(* ------------------------------------------------------------------ expand *)
Lemma zrange_length : forall n, List.length (zrange n) = n.
Proof. intros. unfold zrange. now rewrite map_length, seq_length. Qed.

(* expand with two or more indices: a new indexed dimension at the normalised axis whose
   position i holds take(cell, i-th index, dim=internal) of the operand's cell *)
Theorem expand_spec_many : forall name vals internal sel axis bkw a k,
  fresh name a -> scal_ok (xscal a) -> norm_axis (List.length (xdims a)) axis = Some k ->
  let idxs := match sel with inl n => zrange n | inr l => l end in
  2 <= List.length idxs ->
  match vals with Some v => List.length v = List.length idxs | None => True end ->
  exists r, a_expand name vals internal sel axis bkw a = Ok r /\
    xdims r = insert_at k {| dname := name;
                             dcoords := match vals with Some v => v | None => zrange (List.length idxs) end;
                             dindexed := true |} (xdims a) /\
    xscal r = xscal a /\
    forall idx, List.length idx = S (List.length (xdims a)) -> nth k idx 0 < List.length idxs ->
      xat r idx = App f_take [xat a (remove_at k idx)] [nth (nth k idx 0) idxs (CZ 0)]
                      (("dim"%string, internal) :: bkw).
Proof.
  intros name vals internal sel axis bkw a k [Hfd Hfs] Hsc Hax idxs H2 Hv.
  unfold a_expand. fold idxs.
  assert (Hchk : match vals with Some vs => negb (Nat.eqb (List.length vs) (List.length idxs)) | None => false end = false).
  { destruct vals as [v|]; [|reflexivity]. rewrite Hv, Nat.eqb_refl. reflexivity. }
  rewrite Hchk.
  set (vs := match vals with Some v => v | None => zrange (List.length idxs) end).
  assert (Hlen : List.length idxs <= List.length vs).
  { unfold vs. destruct vals as [v|]; [rewrite Hv; lia|rewrite zrange_length; lia]. }
  destruct (transform_many cv (fun i => Ok (a_map f_take [i] (("dim"%string, internal) :: bkw) a))
              (fun j => a_map f_take [nth j idxs (CZ 0)] (("dim"%string, internal) :: bkw) a)
              (xdims a) (xscal a) name vs axis k
              (fun _ => eq_refl) (fun _ => eq_refl) Hfd Hfs Hsc Hax idxs vals H2 eq_refl Hlen)
    as (r & Er & Hd & Hs & Hc).
  { intros j p Hp. now rewrite (nth_error_nth _ _ (CZ 0) Hp). }
  exists r. split; [exact Er|]. split; [|split; [exact Hs|]].
  - rewrite Hd. unfold newdim. f_equal. f_equal. unfold vs.
    destruct vals as [v|]; [rewrite <- Hv; apply firstn_all|].
    rewrite <- (zrange_length (List.length idxs)) at 1. apply firstn_all.
  - intros idx Hl Hp. rewrite (Hc idx Hl Hp). reflexivity.
Qed.

(* expand with a single index: no new dimension, a scalar coordinate instead *)
Theorem expand_spec_single : forall name vals internal sel axis bkw a k i v,
  fresh name a -> scal_ok (xscal a) -> norm_axis (List.length (xdims a)) axis = Some k ->
  match sel with inl n => zrange n | inr l => l end = [i] ->
  match vals with Some w => w | None => zrange 1 end = [v] ->
  exists r, a_expand name vals internal sel axis bkw a = Ok r /\
    xdims r = xdims a /\ xscal r = xscal a ++ [(name, v)] /\
    forall t, List.length t = List.length (xdims a) ->
      xat r t = App f_take [xat a t] [i] (("dim"%string, internal) :: bkw).
Proof.
  intros name vals internal sel axis bkw a k i v [Hfd Hfs] Hsc Hax Hi Hv.
  unfold a_expand. rewrite Hi.
  assert (Hchk : match vals with Some vs => negb (Nat.eqb (List.length vs) (List.length [i])) | None => false end = false).
  { destruct vals as [w|]; [|reflexivity]. rewrite Hv. reflexivity. }
  rewrite Hchk.
  destruct (transform_single cv (fun i => Ok (a_map f_take [i] (("dim"%string, internal) :: bkw) a))
              (fun _ => a_map f_take [i] (("dim"%string, internal) :: bkw) a)
              (xdims a) (xscal a) name [v] axis k
              (fun _ => eq_refl) (fun _ => eq_refl) Hfd Hfs Hsc Hax i vals v (eq_sym Hv) eq_refl eq_refl)
    as (r & Er & Hd & Hs & Hc).
  exists r. repeat split; assumption.
Qed.

(* ------------------------------------------------------------------ one batching round = its transcription *)
Lemma map_nth_seq {A} : forall (l : list A) d, map (fun i => nth i l d) (seq 0 (List.length l)) = l.
Proof.
  induction l as [|x l IH]; intros d; [reflexivity|]. cbn [List.length seq map nth]. f_equal.
  rewrite <- seq_shift, map_map. apply IH.
Qed.

Lemma map_seq_shift {A} : forall (h : nat -> A) lo cnt, map h (seq lo cnt) = map (fun i => h (lo + i)) (seq 0 cnt).
Proof.
  intros h lo cnt. revert lo. induction cnt as [|c IH]; intros lo; [reflexivity|].
  cbn [seq map]. rewrite Nat.add_0_r. f_equal. rewrite IH, <- (seq_shift c 0), map_map.
  apply map_ext. intros i. f_equal. lia.
Qed.

Lemma index_of_nodup : forall l i d, nodupb l = true -> i < List.length l -> index_of (nth i l d) l = Some i.
Proof.
  induction l as [|x l IH]; intros i d Hn Hi; [simpl in Hi; lia|].
  simpl in Hn. apply andb_prop in Hn as [Hx Hn]. destruct i as [|i]; simpl.
  - now rewrite cv_eqb_refl.
  - simpl in Hi. destruct (cv_eqb (nth i l d) x) eqn:E.
    + exfalso. apply negb_true_iff in Hx.
      assert (Hex : existsb (cv_eqb x) l = true).
      { apply existsb_exists. exists (nth i l d). split; [apply nth_In; lia|].
        (* cv_eqb is symmetric *)
        clear -E. revert E. generalize (nth i l d). intros c. revert x.
        induction c as [z|s| |a IHa b IHb|z]; intros [z'|s'| |a' b'|z']; simpl; try discriminate; try reflexivity.
        - now rewrite Z.eqb_sym. - now rewrite String.eqb_sym.
        - intros H. apply andb_prop in H as [H1 H2]. now rewrite (IHa _ H1), (IHb _ H2).
        - now rewrite Z.eqb_sym. }
      congruence.
    + rewrite (IH i d Hn ltac:(lia)). reflexivity.
Qed.

Lemma all_some_map_some {A B} : forall (h : A -> option B) (g : A -> B) l,
  (forall x, In x l -> h x = Some (g x)) -> all_some (map h l) = Some (map g l).
Proof.
  induction l as [|x l IH]; intros H; [reflexivity|]. simpl. rewrite (H x (or_introl eq_refl)).
  rewrite IH by (intros; apply H; now right). reflexivity.
Qed.

Lemma find_dim_replace_same : forall n l k d,
  find_dim n l = Some k -> dname d = n -> find_dim n (replace_at k d l) = Some k.
Proof.
  intros n. induction l as [|x l IH]; intros k d H Hd; [discriminate|]. simpl in H.
  destruct (String.eqb n (dname x)) eqn:E.
  - inversion H; subst k. unfold replace_at. simpl. now rewrite Hd, String.eqb_refl.
  - destruct (find_dim n l) as [k'|] eqn:E'; [|discriminate]. inversion H; subst k.
    change (replace_at (S k') d (x :: l)) with (x :: replace_at k' d l). simpl. rewrite E.
    now rewrite (IH k' d eq_refl Hd).
Qed.

Lemma find_dim_lt : forall n l k, find_dim n l = Some k -> k < List.length l.
Proof.
  intros n. induction l as [|x l IH]; intros k H; [discriminate|]. simpl in *.
  destruct (String.eqb n (dname x)); [inversion H; lia|].
  destruct (find_dim n l) as [k'|]; [|discriminate]. inversion H. specialize (IH k' eq_refl). lia.
Qed.

Lemma default_dim_names : forall d a b, map dname (xdims a) = map dname (xdims b) -> default_dim d a = default_dim d b.
Proof.
  intros d a b H. unfold default_dim. destruct (String.eqb d ""); [|reflexivity].
  destruct (xdims a) as [|x l], (xdims b) as [|y m]; simpl in H; try discriminate; [reflexivity|].
  inversion H. congruence.
Qed.

Lemma skipn_nth_cons {A} : forall k (l : list A) d, k < List.length l -> skipn k l = nth k l d :: skipn (S k) l.
Proof.
  induction k as [|k IH]; intros l d H; destruct l as [|x l]; simpl in H; try lia; [reflexivity|].
  simpl. apply IH. lia.
Qed.

Lemma replace_at_names : forall k d l, k < List.length l -> dname d = dname (nth k l dflt_dim) ->
  map dname (replace_at k d l) = map dname l.
Proof.
  intros k d l H Hd. unfold replace_at. rewrite map_app. cbn [map]. rewrite Hd.
  rewrite <- (firstn_skipn k l) at 4. rewrite map_app. f_equal.
  now rewrite (skipn_nth_cons k l dflt_dim H).
Qed.

Section BatchRound.
  Variables (f : fn) (kw : kwargs) (dim : string) (bs : nat) (a : xarr) (k : nat).
  Hypothesis Hk : find_dim dim (xdims a) = Some k.
  Hypothesis Hdd : default_dim dim a = Ok dim.
  Hypothesis Hix : forall d, In d (xdims a) -> dindexed d = true.
  Hypothesis Hnd : nodupb (dcoords (nth k (xdims a) dflt_dim)) = true.

  Let dk := nth k (xdims a) dflt_dim.
  Let cs := dcoords dk.
  Let n := size_at k a.
  Let D := remove_at k (xdims a).

  Let Hkl : k < List.length (xdims a) := find_dim_lt _ _ _ Hk.

  (* what _batch_transform returns for the labels at positions ps *)
  Lemma batch_body_positions : forall ps,
    (forall p, In p ps -> p < n) ->
    exists r, batch_body f kw dim (map (fun p => nth p cs (CZ 0)) ps) a = Ok r /\
      xdims r = D /\ xscal r = xscal a /\
      forall t, List.length t = List.length D ->
        xat r t = if Nat.eqb (List.length ps) 1 then xat a (insert_at k (nth 0 ps 0) t)
                  else App f (map (fun p => xat a (insert_at k p t)) ps) [] kw.
  Proof.
    intros ps Hps. unfold batch_body, a_select. cbn [validate_sel bind]. rewrite Hk. cbn [bind fold_res fst snd].
    unfold x_sel1. rewrite Hk. fold dk. rewrite (Hix dk) by (apply nth_In; exact Hkl). cbn [negb].
    fold cs. replace (nodupb cs) with true by (symmetry; exact Hnd). cbn [negb]. rewrite map_map.
    rewrite (all_some_map_some _ (fun p => p)) by (intros p Hp; apply index_of_nodup; [exact Hnd|apply Hps, Hp]).
    rewrite map_id. cbn [bind].
    set (sel := x_take_many k ps a).
    assert (Hsd : xdims sel = replace_at k {| dname := dname dk; dcoords := map (fun p => nth p cs (CZ 0)) ps; dindexed := true |} (xdims a)).
    { unfold sel, x_take_many. cbn [xdims]. fold dk. rewrite (Hix dk) by (apply nth_In; exact Hkl). reflexivity. }
    assert (Hname : dname dk = dim) by (apply find_dim_some_name; exact Hk).
    assert (Hfk : find_dim dim (xdims sel) = Some k) by (rewrite Hsd; apply find_dim_replace_same; [exact Hk|exact Hname]).
    rewrite Hfk.
    assert (Hsz : size_at k sel = List.length ps).
    { unfold size_at. rewrite Hsd, nth_replace by lia. unfold dsize. cbn [dcoords]. now rewrite map_length. }
    rewrite Hsz.
    assert (Hcell : forall x t, List.length t = List.length D -> xat sel (insert_at k x t) = xat a (insert_at k (nth x ps 0) t)).
    { intros x t Ht. unfold sel, x_take_many. cbn [xat].
      assert (k <= List.length t).
      { rewrite Ht. unfold D, remove_at. rewrite app_length, firstn_length_le, skipn_length by lia. lia. }
      rewrite nth_insert by assumption. now rewrite replace_insert by assumption. }
    assert (HD : remove_at k (xdims sel) = D) by (rewrite Hsd; apply remove_replace; lia).
    destruct (Nat.eqb (List.length ps) 1) eqn:E1.
    - unfold x_squeeze. rewrite Hfk. rewrite Hsd. rewrite nth_replace by lia. cbn [dindexed andb].
      unfold dsize. cbn [dcoords]. rewrite map_length, E1.
      eexists. split; [reflexivity|]. cbn [xdims xscal xat]. split; [apply remove_replace; lia|]. split; [reflexivity|].
      intros t Ht. apply Hcell, Ht.
    - rewrite a_reduce_unbatched.
      rewrite (default_dim_names dim sel a), Hdd.
      2:{ rewrite Hsd. apply replace_at_names; [exact Hkl|reflexivity]. }
      cbn [bind]. rewrite Hfk.
      eexists. split; [reflexivity|]. cbn [xdims xscal xat reduce_core]. rewrite HD.
      split; [apply reindexed_fix; intros d Hd; apply Hix; eapply In_remove_at; exact Hd|].
      split; [reflexivity|]. intros t Ht. rewrite Hsz. f_equal.
      rewrite <- (map_nth_seq ps 0) at 2. rewrite map_map. apply map_ext. intros x. apply Hcell, Ht.
  Qed.
End BatchRound.

Lemma norm_axis_0 : forall nd, norm_axis nd 0 = Some 0.
Proof. intros. unfold norm_axis. cbn [Z.leb Z.compare]. destruct (0 <=? Z.of_nat nd)%Z eqn:E; [reflexivity|]. apply Z.leb_gt in E. lia. Qed.

Lemma nth_error_map_seq {A} : forall (g : nat -> A) m j p, nth_error (map g (seq 0 m)) j = Some p -> p = g j /\ j < m.
Proof.
  intros g m j p H. assert (Hj : j < m).
  { assert (Hn : nth_error (map g (seq 0 m)) j <> None) by congruence.
    apply nth_error_Some in Hn. now rewrite map_length, seq_length in Hn. }
  split; [|exact Hj]. rewrite (nth_error_nth' _ (g 0)) in H by (now rewrite map_length, seq_length).
  inversion H. rewrite (map_nth g (seq 0 m) 0 j), seq_nth by exact Hj. reflexivity.
Qed.

(* THE ROUND: batched.transform(_batch_transform, chunks, newname), transcribed statement by
   statement (Action.batch_round_t), is the closed form Action.batch_round used by the model
   of Action.reduce: same dimensions and coordinates, same scalar coordinates, same cell at
   every index of the result. *)
Theorem batch_round_transcription : forall f kw dim bs newname a k,
  find_dim dim (xdims a) = Some k -> default_dim dim a = Ok dim ->
  (forall d, In d (xdims a) -> dindexed d = true) ->
  nodupb (dcoords (nth k (xdims a) dflt_dim)) = true ->
  scal_ok (xscal a) -> fresh newname a ->
  0 < bs -> bs < size_at k a ->
  exists r, batch_round_t f kw dim bs newname a = Ok r /\
    xdims r = xdims (batch_round f kw k bs newname a) /\
    xscal r = xscal (batch_round f kw k bs newname a) /\
    forall idx, List.length idx = List.length (xdims r) -> hd 0 idx < nbatches (size_at k a) bs ->
      xat r idx = xat (batch_round f kw k bs newname a) idx.
Proof.
  intros f kw dim bs newname a k Hk Hdd Hix Hnd Hsc [Hfd Hfs] Hbs Hn.
  set (cs := dcoords (nth k (xdims a) dflt_dim)).
  set (n := size_at k a) in *.
  assert (Hncs : List.length cs = n) by reflexivity.
  set (D := remove_at k (xdims a)).
  set (ps := fun j => seq (j * bs) (Nat.min bs (n - j * bs))).
  set (lab := fun j => firstn bs (skipn (j * bs) cs)).
  assert (Hlab : forall j, lab j = map (fun p => nth p cs (CZ 0)) (ps j)).
  { intros j. unfold lab, ps. rewrite <- Hncs.
    rewrite <- (map_nth_seq cs (CZ 0)) at 1. exact (chunk_map_seq cv _ bs j (List.length cs)). }
  assert (Hps : forall j p, In p (ps j) -> p < n).
  { intros j p Hp. unfold ps in Hp. apply in_seq in Hp. lia. }
  set (fb := {| xdims := D; xscal := xscal a; xat := fun _ => Src 0 |}).
  set (B := fun j => match batch_body f kw dim (lab j) a with Ok r => r | Err _ => fb end).
  assert (HB : forall j, batch_body f kw dim (lab j) a = Ok (B j) /\ xdims (B j) = D /\ xscal (B j) = xscal a /\
             forall t, List.length t = List.length D ->
               xat (B j) t = if Nat.eqb (List.length (ps j)) 1 then xat a (insert_at k (nth 0 (ps j) 0) t)
                             else App f (map (fun p => xat a (insert_at k p t)) (ps j)) [] kw).
  { intros j. destruct (batch_body_positions f kw dim a k Hk Hdd Hix Hnd (ps j) (Hps j)) as (r & Er & Hr).
    fold cs in Er. rewrite <- Hlab in Er. unfold B. rewrite Er. split; [reflexivity|exact Hr]. }
  unfold batch_round_t. rewrite Hk. fold cs. unfold label_chunks. fold lab. rewrite Hncs.
  set (nb := nbatches n bs).
  assert (Hnb2 : 2 <= nb) by (apply nb_ge2; assumption).
  destruct (transform_many (list cv) (fun labels => batch_body f kw dim labels a) B D (xscal a) newname
              (zrange (List.length (map lab (seq 0 nb)))) 0 0
              (fun j => proj1 (proj2 (HB j))) (fun j => proj1 (proj2 (proj2 (HB j)))))
    with (params := map lab (seq 0 nb)) (vals := @None (list cv)) as (r & Er & Hd & Hs & Hc).
  - apply find_dim_none_iff. intros d Hd. apply In_remove_at in Hd.
    now apply (proj1 (find_dim_none_iff newname (xdims a)) Hfd).
  - exact Hfs.
  - exact Hsc.
  - apply norm_axis_0.
  - now rewrite map_length, seq_length.
  - reflexivity.
  - now rewrite zrange_length.
  - intros j p Hp. apply nth_error_map_seq in Hp as [-> _]. apply HB.
  - exists r. split; [exact Er|]. rewrite map_length, seq_length in *.
    assert (Hdims : xdims r = xdims (batch_round f kw k bs newname a)).
    { rewrite Hd. unfold insert_at, newdim. cbn [firstn skipn app xdims batch_round].
      rewrite <- (zrange_length nb) at 1. rewrite firstn_all. fold n nb. f_equal.
      symmetry. apply reindexed_fix. intros d Hdd'. apply Hix. eapply In_remove_at. exact Hdd'. }
    split; [exact Hdims|]. split; [exact Hs|].
    intros idx Hl Hb. destruct idx as [|b t]; [rewrite Hd, insert_at_length in Hl; discriminate|].
    cbn [hd] in Hb. rewrite Hd, insert_at_length in Hl. cbn [List.length] in Hl.
    rewrite (Hc (b :: t)); [|cbn [List.length]; lia|exact Hb].
    cbn [nth]. change (remove_at 0 (b :: t)) with t.
    destruct (HB b) as (_ & _ & _ & Hcell). rewrite Hcell by lia.
    cbn [xat batch_round hd tl]. fold n. unfold ps. rewrite seq_length.
    destruct (Nat.eqb (Nat.min bs (n - b * bs)) 1) eqn:E; [|reflexivity].
    apply Nat.eqb_eq in E. rewrite E. reflexivity.
Qed.
