(* Theorems about the VALUES of expand / stack graphs under the tensor semantics of
   Fluent/ActionSem.v: which element of the payload array a node built by Action.expand
   holds, for positions of the internal dimension counted from the front or from the back,
   and that stacking what expand took apart gives the payload back.  Any rank, any sizes. *)
From Coq Require Import List Arith NArith ZArith String Bool Lia.
From Coq Require QArith Qcanon.
From EKW Require Import Fluent.XArr Fluent.Action Fluent.Batch Fluent.ActionProofs Fluent.ActionSpecs
  Fluent.ActionStd Fluent.ActionTransform Fluent.ActionSem.
Import ListNotations.
Open Scope list_scope.

(* ------------------------------------------------------------------ nested arrays *)
(* the default element BT.kid falls back to (never reached on a conforming array) *)
Local Notation leaf0 := (BT.Leaf (Qcanon.Q2Qc (QArith_base.Qmake 0 1))).

Lemma conforms_node : forall m r t, BT.conforms (m :: r) t = true ->
  exists l, t = BT.Node l /\ List.length l = m /\ forall c, In c l -> BT.conforms r c = true.
Proof.
  intros m r [q|l] H; simpl in H; [discriminate|].
  apply andb_true_iff in H as [H1 H2]. exists l. split; [reflexivity|]. split; [now apply Nat.eqb_eq|].
  now apply forallb_forall.
Qed.

Lemma kid_node_map : forall (g : BT.nd -> BT.nd) l j d, j < List.length l ->
  BT.kid j (BT.Node (map g l)) = g (nth j l d).
Proof.
  intros g l j d Hj. unfold BT.kid. cbn [BT.children].
  rewrite (nth_indep (map g l) leaf0 (g d)) by (now rewrite map_length).
  apply map_nth.
Qed.

(* taking every position along an axis and stacking the pieces along the same axis rebuilds the array *)
Lemma stack_take_nd : forall pre n rest b,
  BT.conforms (pre ++ n :: rest) b = true ->
  BT.stack_ax pre (map (fun i => BT.take_int_ax pre i b) (seq 0 n)) = b.
Proof.
  induction pre as [|m p IH]; intros n rest b H.
  - cbn [app] in H. apply conforms_node in H as (l & -> & Hl & _).
    cbn [BT.stack_ax BT.take_int_ax]. unfold BT.kid. cbn [BT.children]. f_equal.
    rewrite <- Hl. apply map_nth_seq.
  - cbn [app] in H. apply conforms_node in H as (l & -> & Hl & Hall).
    cbn [BT.stack_ax BT.take_int_ax BT.children]. f_equal.
    rewrite <- Hl. rewrite <- (map_nth_seq l leaf0) at 2.
    apply map_ext_in. intros j Hj. apply in_seq in Hj.
    rewrite map_map.
    rewrite (map_ext_in _ (fun i => BT.take_int_ax p i (nth j l leaf0))).
    + apply (IH n rest). apply Hall. apply nth_In. lia.
    + intros i _. apply kid_node_map. lia.
Qed.

(* ------------------------------------------------------------------ shapes and positions *)
Lemma insert_remove_nth : forall a (s : list nat), a < List.length s ->
  BT.insert_nth a (nth a s 0) (BT.remove_nth a s) = s.
Proof.
  unfold BT.insert_nth, BT.remove_nth.
  induction a as [|a IH]; intros [|y s] H; simpl in *; try lia; [reflexivity|].
  f_equal. apply IH. lia.
Qed.

Lemma firstn_remove_nth : forall a (s : list nat), firstn a (BT.remove_nth a s) = firstn a s.
Proof.
  unfold BT.remove_nth. induction a as [|a IH]; intros [|y s]; simpl; try reflexivity.
  f_equal. apply IH.
Qed.

Lemma remove_nth_length : forall a (s : list nat), a < List.length s ->
  S (List.length (BT.remove_nth a s)) = List.length s.
Proof.
  unfold BT.remove_nth. induction a as [|a IH]; intros [|y s] H; simpl in *; try lia.
  rewrite IH; lia.
Qed.

Lemma split_at_nth : forall a (s : list nat), a < List.length s ->
  firstn a s ++ nth a s 0 :: skipn (S a) s = s.
Proof.
  induction a as [|a IH]; intros [|y s] H; simpl in *; try lia; [reflexivity|].
  f_equal. apply IH. lia.
Qed.

Lemma norm_index_lt : forall n i a, BT.norm_index n i = Some a -> a < n.
Proof.
  intros n i a H. unfold BT.norm_index in H.
  destruct ((0 <=? i) && (i <? Z.of_nat n))%Z eqn:E1.
  - apply andb_true_iff in E1 as [E0 E1]. inversion H. lia.
  - destruct ((- Z.of_nat n <=? i) && (i <? 0))%Z eqn:E2; [|discriminate].
    apply andb_true_iff in E2 as [E2 E3]. inversion H. lia.
Qed.

Lemma norm_index_nat : forall n i, i < n -> BT.norm_index n (Z.of_nat i) = Some i.
Proof.
  intros n i H. unfold BT.norm_index.
  replace ((0 <=? Z.of_nat i) && (Z.of_nat i <? Z.of_nat n))%Z with true
    by (symmetry; apply andb_true_iff; split; lia).
  now rewrite Nat2Z.id.
Qed.

(* a position counted from the back is the position counted from the front minus the rank *)
Lemma norm_index_from_back : forall n d, (0 <= d < Z.of_nat n)%Z ->
  BT.norm_index n (d - Z.of_nat n) = BT.norm_index n d.
Proof.
  intros n d H. unfold BT.norm_index.
  replace ((0 <=? d) && (d <? Z.of_nat n))%Z with true by (symmetry; apply andb_true_iff; split; lia).
  replace ((0 <=? d - Z.of_nat n) && (d - Z.of_nat n <? Z.of_nat n))%Z with false
    by (symmetry; apply andb_false_iff; left; lia).
  replace ((- Z.of_nat n <=? d - Z.of_nat n) && (d - Z.of_nat n <? 0))%Z with true
    by (symmetry; apply andb_true_iff; split; lia).
  f_equal. lia.
Qed.

Lemma shape_eqb_refl : forall s, BT.shape_eqb s s = true.
Proof. intros s. unfold BT.shape_eqb. destruct (list_eq_dec Nat.eq_dec s s); [reflexivity|contradiction]. Qed.

Lemma common_shape_map {A} : forall (g : A -> BT.tensor) s l, l <> [] ->
  (forall x, BT.shape (g x) = s) -> BO.common_shape (map g l) = Some s.
Proof.
  intros g s [|x l] Hne Hs; [contradiction|]. cbn [map BO.common_shape].
  replace (forallb _ (map g l)) with true.
  - now rewrite Hs.
  - symmetry. apply forallb_forall. intros u Hu. apply in_map_iff in Hu as (y & <- & _).
    rewrite !Hs. apply shape_eqb_refl.
Qed.

Lemma all_ok_map_ok {A} : forall (g : A -> BT.tensor) l,
  all_ok (map (fun x => BT.Ok (g x)) l) = BT.Ok (map g l).
Proof. induction l as [|x l IH]; [reflexivity|]. cbn [map all_ok]. now rewrite IH. Qed.

Lemma nth_zrange : forall n x, x < n -> nth x (zrange n) (CZ 0) = CZ (Z.of_nat x).
Proof.
  intros n x H. unfold zrange.
  rewrite (nth_indep _ (CZ 0) (CZ (Z.of_nat 0))) by (now rewrite map_length, seq_length).
  rewrite (map_nth (fun i => CZ (Z.of_nat i))). now rewrite seq_nth.
Qed.

(* ------------------------------------------------------------------ take and stack as the fluent layer calls them *)
Lemma take_val_ok : forall t i d, take_val (BT.Ok t) i d = BO.take_op t (inl i) d.
Proof. reflexivity. Qed.

Lemma take_val_err : forall e i d, take_val (BT.Err e) i d = BT.Err e.
Proof. reflexivity. Qed.

Lemma stack_val_ok : forall vs d, stack_val vs d =
  match all_ok vs with BT.Ok ts => BO.stack_op ts d | BT.Err e => BT.Err e end.
Proof. intros. unfold stack_val, apT. destruct (all_ok vs); reflexivity. Qed.

(* the element take picks: position k of the internal dimension a, whichever way the dimension was named *)
Theorem take_val_spec : forall t i d a k,
  BT.norm_index (List.length (BT.shape t)) d = Some a ->
  BT.norm_index (nth a (BT.shape t) 0) i = Some k ->
  take_val (BT.Ok t) i d =
  BT.Ok (BT.T (BT.remove_nth a (BT.shape t)) (BT.take_int_ax (firstn a (BT.shape t)) k (BT.body t))).
Proof. intros t i d a k Hd Hi. rewrite take_val_ok. unfold BO.take_op. now rewrite Hd, Hi. Qed.

(* dim = d and dim = d - rank address the same internal dimension: same value *)
Theorem take_val_from_back : forall t i d, (0 <= d < Z.of_nat (List.length (BT.shape t)))%Z ->
  take_val (BT.Ok t) i (d - Z.of_nat (List.length (BT.shape t))) = take_val (BT.Ok t) i d.
Proof.
  intros t i d H. rewrite !take_val_ok. unfold BO.take_op. now rewrite norm_index_from_back.
Qed.

(* an internal dimension outside -rank .. rank-1 is an AxisError when the graph runs *)
Theorem take_val_bad_dim : forall t i d,
  BT.norm_index (List.length (BT.shape t)) d = None -> take_val (BT.Ok t) i d = BT.Err "AxisError".
Proof. intros t i d H. rewrite take_val_ok. unfold BO.take_op. now rewrite H. Qed.

(* take every position of internal dimension d, stack the pieces at d': the payload again, as
   soon as d and d' name the same position (each counted from the front or from the back) *)
Theorem take_then_stack : forall t d d' a,
  BT.valid t ->
  BT.norm_index (List.length (BT.shape t)) d = Some a ->
  BT.norm_index (List.length (BT.shape t)) d' = Some a ->
  1 <= nth a (BT.shape t) 0 ->
  stack_val (map (fun i => take_val (BT.Ok t) (Z.of_nat i) d) (seq 0 (nth a (BT.shape t) 0))) d' = BT.Ok t.
Proof.
  intros [s b] d d' a Hv Hd Hd' Hn. unfold BT.valid in Hv. cbn [BT.shape BT.body] in *.
  set (n := nth a s 0) in *.
  assert (Ha : a < List.length s) by (eapply norm_index_lt; exact Hd).
  set (piece := fun i => BT.T (BT.remove_nth a s) (BT.take_int_ax (firstn a s) i b)).
  rewrite stack_val_ok.
  rewrite (map_ext_in _ (fun i => BT.Ok (piece i))).
  2:{ intros i Hi. apply in_seq in Hi.
      apply (take_val_spec (BT.T s b) (Z.of_nat i) d a i Hd). cbn [BT.shape]. apply norm_index_nat. lia. }
  rewrite all_ok_map_ok. unfold BO.stack_op.
  rewrite (common_shape_map piece (BT.remove_nth a s)).
  2:{ intros E. assert (L : List.length (seq 0 n) = 0) by now rewrite E. rewrite seq_length in L. lia. }
  2:{ reflexivity. }
  rewrite remove_nth_length by exact Ha. rewrite Hd'.
  rewrite map_length, seq_length. fold n. unfold n at 1. rewrite insert_remove_nth by exact Ha.
  rewrite firstn_remove_nth, map_map. cbn [piece BT.body].
  rewrite (stack_take_nd (firstn a s) n (skipn (S a) s)); [reflexivity|].
  unfold n. now rewrite split_at_nth.
Qed.

(* ------------------------------------------------------------------ expand, then stack the new dimension away *)
Section ExpandStack.
  Variable srcs : list BT.tensor.

  (* the values of expand: cell (.., i at the new axis, ..) holds take(payload of the operand's cell, i, dim=d) *)
  Theorem expand_values : forall name d n axis a k r,
    fresh name a -> scal_ok (xscal a) -> norm_axis (List.length (xdims a)) axis = Some k -> 2 <= n ->
    a_expand name None (CZ d) (inl n) axis [] a = Ok r ->
    forall idx, List.length idx = S (List.length (xdims a)) -> nth k idx 0 < n ->
      evT srcs (xat r idx) = take_val (evT srcs (xat a (remove_at k idx))) (Z.of_nat (nth k idx 0)) d.
  Proof.
    intros name d n axis a k r Hf Hs Hax Hn He idx Hl Hp.
    destruct (expand_spec_many name None (CZ d) (inl n) axis [] a k Hf Hs Hax) as (r' & Er & _ & _ & Hc).
    { cbn. now rewrite zrange_length. }
    { exact I. }
    rewrite Er in He. inversion He; subst r'.
    rewrite (Hc idx Hl) by (cbn; now rewrite zrange_length).
    cbn [zrange]. rewrite nth_zrange by exact Hp. reflexivity.
  Qed.

  Theorem expand_then_stack_values : forall name d d' n axis a k r1 r2,
    name <> ""%string -> fresh name a -> scal_ok (xscal a) ->
    norm_axis (List.length (xdims a)) axis = Some k -> 2 <= n ->
    a_expand name None (CZ d) (inl n) axis [] a = Ok r1 ->
    a_stack name 0 false d' [] r1 = Ok r2 ->
    xdims r2 = map reindexed (xdims a) /\ xscal r2 = xscal a /\
    forall t tt ka, List.length t = List.length (xdims a) ->
      evT srcs (xat a t) = BT.Ok tt -> BT.valid tt ->
      BT.norm_index (List.length (BT.shape tt)) d = Some ka ->
      BT.norm_index (List.length (BT.shape tt)) d' = Some ka ->
      nth ka (BT.shape tt) 0 = n ->
      evT srcs (xat r2 t) = BT.Ok tt.
  Proof.
    intros name d d' n axis a k r1 r2 Hne Hf Hs Hax Hn He Hst.
    destruct (expand_spec_many name None (CZ d) (inl n) axis [] a k Hf Hs Hax) as (r' & Er & Hd1 & Hs1 & Hc).
    { cbn. now rewrite zrange_length. }
    { exact I. }
    rewrite Er in He. inversion He; subst r'. clear He.
    cbn [zrange] in Hd1. rewrite zrange_length in Hd1.
    assert (Hk : k <= List.length (xdims a)) by (eapply norm_axis_le; exact Hax).
    assert (Hfind : find_dim name (xdims r1) = Some k).
    { rewrite Hd1. apply find_dim_insert; [apply Hf|exact Hk|reflexivity]. }
    assert (Hsize : size_at k r1 = n).
    { unfold size_at. rewrite Hd1, nth_insert by exact Hk. unfold dsize. cbn [dcoords]. apply zrange_length. }
    destruct (stack_cells name d' [] r1 r2 k Hne Hfind ltac:(lia) Hst) as (Hd2 & Hs2 & Hc2).
    split; [|split].
    - rewrite Hd2, Hd1. now rewrite remove_insert.
    - now rewrite Hs2.
    - intros t tt ka Hl Hev Hv Hka Hka' Hnn.
      rewrite Hc2, Hsize. unfold evT at 1. cbn [ev]. rewrite map_map.
      rewrite (map_ext_in _ (fun x => take_val (BT.Ok tt) (Z.of_nat x) d)).
      + rewrite <- Hnn. apply (take_then_stack tt d d' ka Hv Hka Hka'). lia.
      + intros x Hx. apply in_seq in Hx.
        assert (Hlen : List.length (insert_at k x t) = S (List.length (xdims a))) by (rewrite insert_at_length; lia).
        assert (Hnth : nth k (insert_at k x t) 0 = x) by (apply nth_insert; lia).
        rewrite (Hc (insert_at k x t) Hlen) by (cbn; rewrite zrange_length, Hnth; lia).
        rewrite Hnth, remove_insert by lia. cbn [zrange]. rewrite nth_zrange by lia.
        cbn [ev map]. fold (evT srcs (xat a t)). rewrite Hev. reflexivity.
  Qed.
End ExpandStack.

(* ------------------------------------------------------------------ calls do not see each other *)
(* what a call returns is a function of the instruction and of the operands it names: results
   of other calls made earlier in the same session (a longer environment) change nothing *)
Lemma getv_prefix : forall env more i x, getv env i = Ok x -> getv (env ++ more) i = Ok x.
Proof.
  intros env more i x H. unfold getv in *. destruct (nth_error env i) as [y|] eqn:E; [|discriminate].
  rewrite nth_error_app1 by (apply nth_error_Some; congruence). now rewrite E.
Qed.

Definition operands (ins : instr) : list nat :=
  match ins with
  | ISource _ _ => []
  | IMap a _ _ | IReduce a _ _ _ _ _ | INamed a _ _ _ _ _ | IMean a _ _ _ _ | IStd a _ _ _ _
  | IStack a _ _ _ _ _ | IConcat a _ _ _ _ | IFlatten a _ _ _ | IExpand a _ _ _ _ _ _
  | ISelect a _ _ | IIselect a _ _ | IBinC a _ _ _ | ITransform a _ _ _ _ _ | IBatchRound a _ _ _ _ _ => [a]
  | IBroadcast a b _ | IJoin a b _ _ _ | IBinA a b _ _ => [a; b]
  end.

Theorem step_ignores_other_results : forall env more ins,
  (forall i, In i (operands ins) -> i < List.length env) ->
  step (env ++ more) ins = step env ins.
Proof.
  intros env more ins H.
  assert (G : forall i, In i (operands ins) -> getv (env ++ more) i = getv env i).
  { intros i Hi. unfold getv. rewrite nth_error_app1 by (apply H; exact Hi). reflexivity. }
  destruct ins; cbn [step operands] in *; try reflexivity;
    try (rewrite (G a) by (left; reflexivity); reflexivity);
    try (rewrite (G a) by (left; reflexivity); rewrite (G b) by (right; left; reflexivity); reflexivity).
Qed.
