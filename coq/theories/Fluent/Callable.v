(* Model of earthkit.workflows.fluent.callable_id: the digest that stands for the callable of a
   node inside the node name (Names.v takes that digest as the callable).  As of the repository
   commits "fix: node names hash an identity of the callable" and "fix: callable_id hashes the
   repr of every callable that is not a Python function" (before the latter a callable that is
   not a function, has a __qualname__ and no __self__ -- functools.lru_cache wrappers, objects
   dressed by functools.update_wrapper, classes -- contributed module and qualified name only:
   `cid_legacy` in NamesCheck.v).  No proofs in this file.

   Python                                         here
   ------                                         ----
   what callable_id reads off a callable          dv (constructors DFunc / DOther / DRec)
   describe(obj) inside callable_id               dv, encoded by `enc`
     code object                                  DCode co_code.hex() co_names co_varnames [describe(c) for c in co_consts]
     Python function                              DFunc ... (its callable_id, computed with the path `_seen`)
     function already on the path `_seen`         DRec   ("<recursive>")
     empty closure cell                           DEmpty ("<empty>")
     anything else                                DRepr (repr obj)
   bound method  m = obj.f                        DFunc with the data of m.__func__ and self = repr(obj)
   plain function                                 DFunc with self = "None"  (repr(getattr(func, "__self__", None)))
   callable object, builtin, class, wrapper ...   DOther module qualname (repr func)
   the list `parts`, tuples, dicts, None, str     pv
   repr of such a value                           Section variable R (CPython's repr on str / None / tuple / list / dict)
   custom_hash (sha256 hexdigest)                 Section variable H
*)
From Coq Require Import List String Ascii Bool Arith.
From EKW Require Import Fluent.Names.
Import ListNotations.
Open Scope string_scope.
Open Scope list_scope.

(* Python values that are printed by repr(parts) *)
Inductive pv :=
  | PStr (s : string)
  | PNone
  | PTuple (l : list pv)
  | PList (l : list pv)
  | PDict (l : list (string * pv)).

Definition popt (o : option string) : pv := match o with Some s => PStr s | None => PNone end.

(* the ingredients of a callable's identity, as a tree *)
Inductive dv :=
  | DRepr (r : string)
  | DCode (hex : string) (names varnames : list string) (consts : list dv)
  | DRec
  | DEmpty
  | DFunc (module qualname : option string) (code : dv) (defaults : list dv)
          (kwkeys : list string) (kwvals : list dv)     (* __kwdefaults__: keys and described values *)
          (closure : list dv)                            (* cell contents, DEmpty for an empty cell *)
          (self : string)                                (* repr(__self__); "None" when there is none *)
  | DOther (module qualname : option string) (r : string).

Section CallableId.
Variable H : string -> string.      (* custom_hash *)
Variable R : pv -> string.          (* repr *)

(* describe(obj) / callable_id(obj): the value that goes into `parts` of the enclosing callable *)
Fixpoint enc (v : dv) : pv :=
  match v with
  | DRepr r => PStr r
  | DCode h ns vs cs => PTuple [PStr h; PTuple (map PStr ns); PTuple (map PStr vs); PList (map enc cs)]
  | DRec => PStr "<recursive>"
  | DEmpty => PStr "<empty>"
  | DFunc m q c ds kk kv cl s =>
      PStr (H (R (PList (popt m :: popt q :: enc c :: PList (map enc ds) :: PDict (List.combine kk (map enc kv))
                         :: map enc cl ++ [PStr s]))))
  | DOther m q r => PStr (H (R (PList [popt m; popt q; PStr r])))
  end.

(* callable_id(func): a string in every case *)
Definition cid (v : dv) : string := match enc v with PStr s => s | _ => "" end.

(* every digest of a function inside the description is 64 characters (a sha256 hexdigest);
   Names.wf_node asks the same of the callable of a node *)
Fixpoint dig64 (v : dv) : bool :=
  match v with
  | DCode _ _ _ cs => forallb dig64 cs
  | DFunc m q c ds kk kv cl s =>
      Nat.eqb (String.length (cid (DFunc m q c ds kk kv cl s))) 64
      && dig64 c && forallb dig64 ds && forallb dig64 kv && forallb dig64 cl
  | _ => true
  end.

End CallableId.

(* the domain of the model.  A repr that is itself 64 hex digits, or one of the two marker
   strings, could be taken for a described function / an empty cell: excluded (repr of a str
   carries quotes, of a number of that length does not occur, objects print with < > or letters) *)
Definition digest_like (r : string) : bool := Nat.eqb (String.length r) 64 && allc hexchar r.

Definition repr_ok (r : string) : bool :=
  negb (digest_like r) && negb (String.eqb r "<recursive>") && negb (String.eqb r "<empty>").

Definition is_code (v : dv) : bool := match v with DCode _ _ _ _ => true | _ => false end.

(* `inner`: the value stands where describe() put it (constants, defaults, closure contents);
   describe() only hands functions over to callable_id, so DOther does not occur there *)
Fixpoint wf_dv (inner : bool) (v : dv) : bool :=
  match v with
  | DRepr r => repr_ok r
  | DCode _ _ _ cs => forallb (wf_dv true) cs
  | DRec => true
  | DEmpty => true
  | DFunc _ _ c ds kk kv cl _ =>
      is_code c && wf_dv true c && forallb (wf_dv true) ds
      && Nat.eqb (List.length kk) (List.length kv) && forallb (wf_dv true) kv && forallb (wf_dv true) cl
  | DOther _ _ _ => negb inner
  end.

(* a callable handed to callable_id from outside *)
Definition is_callable (v : dv) : bool :=
  match v with DFunc _ _ _ _ _ _ _ _ => true | DOther _ _ _ => true | _ => false end.

Definition wf_callable (v : dv) : bool := is_callable v && wf_dv false v.

(* ------------------------------------------------------------------ decidable equality (for the checker) *)
Definition all2 {A B} (f : A -> B -> bool) : list A -> list B -> bool :=
  fix go (l : list A) (l' : list B) : bool :=
    match l, l' with
    | [], [] => true
    | x :: r, y :: r' => f x y && go r r'
    | _, _ => false
    end.

Definition ostr_eqb (a b : option string) : bool :=
  match a, b with
  | Some x, Some y => String.eqb x y
  | None, None => true
  | _, _ => false
  end.

Fixpoint dv_eqb (a b : dv) : bool :=
  match a, b with
  | DRepr r, DRepr r' => String.eqb r r'
  | DCode h ns vs cs, DCode h' ns' vs' cs' =>
      String.eqb h h' && all2 String.eqb ns ns' && all2 String.eqb vs vs' && all2 dv_eqb cs cs'
  | DRec, DRec => true
  | DEmpty, DEmpty => true
  | DFunc m q c ds kk kv cl s, DFunc m' q' c' ds' kk' kv' cl' s' =>
      ostr_eqb m m' && ostr_eqb q q' && dv_eqb c c' && all2 dv_eqb ds ds' && all2 String.eqb kk kk'
      && all2 dv_eqb kv kv' && all2 dv_eqb cl cl' && String.eqb s s'
  | DOther m q r, DOther m' q' r' => ostr_eqb m m' && ostr_eqb q q' && String.eqb r r'
  | _, _ => false
  end.
