(* Facts about the typed value semantics of Fluent/ActionSemT.v:
     * sum / prod of integer elements obey the batch law WITH wrap-around (arithmetic modulo 2^64 is a
       ring homomorphism), so the batching theorems of ActionProofs.v apply to integer / boolean arrays,
       element type included;
     * the element type of a sum / prod over arguments of types d and acc_dtype d is acc_dtype d
       (Backends/Dtype.v result_dtype_seq: what xp.asarray + xp.sum give);
     * a reduction that FOLDS its inputs pairwise with the element-wise ufunc keeps the element type of
       the inputs: on booleans and narrow integers it never computes what sum / prod compute. *)
From Coq Require Import List NArith ZArith String Bool Lia.
From Coq Require QArith Qcanon.
From EKW Require Import Fluent.XArr Fluent.Action Fluent.Batch Fluent.ActionProofs Fluent.ActionSem Fluent.ActionSemT.
Import ListNotations.
Open Scope string_scope.
Open Scope list_scope.

(* ------------------------------------------------------------------ wrap-around is a ring homomorphism *)
Section Wrap.
  Variables lo hi : Z.
  Hypothesis Hm : (lo <= hi)%Z.
  Notation W := (BD.wrap lo hi).
  Notation m := (hi - lo + 1)%Z.

  Lemma wrap_congr : forall a b, ((a - lo) mod m = (b - lo) mod m)%Z -> W a = W b.
  Proof. intros a b H. unfold BD.wrap. now rewrite H. Qed.

  Lemma wrap_add_l : forall a r, W (W a + r) = W (a + r).
  Proof.
    intros a r. apply wrap_congr. unfold BD.wrap.
    replace (lo + (a - lo) mod m + r - lo)%Z with ((a - lo) mod m + r)%Z by lia.
    rewrite Zplus_mod_idemp_l. f_equal. lia.
  Qed.

  Lemma wrap_add_r : forall a r, W (r + W a) = W (r + a).
  Proof. intros a r. rewrite (Z.add_comm r (W a)), (Z.add_comm r a). apply wrap_add_l. Qed.

  Lemma wrap_mul_l : forall a r, W (W a * r) = W (a * r).
  Proof.
    intros a r. apply wrap_congr. unfold BD.wrap.
    assert (Hpos : (0 < m)%Z) by lia.
    (* (lo + x mod m) * r - lo  ==  a * r - lo   (mod m) *)
    replace ((lo + (a - lo) mod m) * r - lo)%Z with (((a - lo) mod m) * r + (lo * r - lo))%Z by ring.
    replace (a * r - lo)%Z with ((a - lo) * r + (lo * r - lo))%Z by ring.
    rewrite (Zplus_mod (((a - lo) mod m) * r)), (Zplus_mod ((a - lo) * r)).
    f_equal. f_equal. rewrite Zmult_mod_idemp_l. reflexivity.
  Qed.

  Lemma wrap_mul_r : forall a r, W (r * W a) = W (r * a).
  Proof. intros a r. rewrite (Z.mul_comm r (W a)), (Z.mul_comm r a). apply wrap_mul_l. Qed.

  (* ---------------------------------------------------------------- the batch law, pointwise *)
  Section Law.
    Variable op : list Z -> Z.
    Variable u : Z.                       (* op [] *)
    Variable bop : Z -> Z -> Z.
    Hypothesis op_nil : op [] = u.
    Hypothesis op_cons : forall x l, op (x :: l) = bop x (op l).
    Hypothesis op_app : forall l l', op (l ++ l') = bop (op l) (op l').
    Hypothesis op_one : forall x, op [x] = x.
    Hypothesis wrap_l : forall a r, W (bop (W a) r) = W (bop a r).
    Hypothesis wrap_r : forall a r, W (bop r (W a)) = W (bop r a).

    Notation g := (accI lo hi op).
    Notation passg := (pass iv g).

    Lemma g_err : forall c, c <> [] -> iv_err (g c) = existsb iv_err c.
    Proof.
      intros [|x c] Hc; [congruence|]. unfold accI.
      destruct (existsb iv_err (x :: c)); reflexivity.
    Qed.

    Lemma pass_err : forall c, c <> [] -> iv_err (passg c) = existsb iv_err c.
    Proof.
      intros c Hc. unfold pass. destruct c as [|x [|y c]]; [congruence| |apply g_err; discriminate].
      simpl. now rewrite orb_false_r.
    Qed.

    (* a batch's result stands for the batch: under the accumulator's wrap-around it can be replaced by
       the operation on the batch's elements *)
    Lemma pass_val : forall c r, c <> [] -> existsb iv_err c = false ->
      W (bop (iv_val (passg c)) r) = W (bop (op (map iv_val c)) r).
    Proof.
      intros c r Hc He. unfold pass. destruct c as [|x [|y c]]; [congruence| |].
      - simpl. now rewrite op_one.
      - unfold accI. rewrite He. cbn [iv_val]. apply wrap_l.
    Qed.

    Lemma existsb_concat {A} : forall (p : A -> bool) (cs : list (list A)),
      existsb p (List.concat cs) = existsb (existsb p) cs.
    Proof. induction cs as [|c cs IH]; simpl; [reflexivity|]. now rewrite existsb_app, IH. Qed.

    Lemma err_map_pass : forall cs, Forall (fun c => c <> []) cs ->
      existsb iv_err (map passg cs) = existsb (existsb iv_err) cs.
    Proof.
      induction cs as [|c cs IH]; intros H; [reflexivity|]. inversion H; subst. simpl.
      rewrite pass_err by assumption. now rewrite IH.
    Qed.

    Lemma vals_map_pass : forall cs, Forall (fun c => c <> []) cs ->
      existsb (existsb iv_err) cs = false ->
      W (op (map iv_val (map passg cs))) = W (op (map iv_val (List.concat cs))).
    Proof.
      induction cs as [|c cs IH]; intros H He; [reflexivity|]. inversion H; subst.
      simpl in He. apply orb_false_iff in He as [Hc Hcs].
      cbn [map List.concat]. rewrite map_app, op_cons, op_app.
      rewrite pass_val by assumption.
      rewrite <- wrap_r, IH by assumption. now rewrite wrap_r.
    Qed.

    Theorem accI_batch_law : batch_law iv g.
    Proof.
      intros cs H2 Hne.
      assert (Hc : List.concat cs <> []).
      { destruct cs as [|c cs]; [simpl in H2; lia|]. inversion Hne; subst. destruct c; [congruence|]. discriminate. }
      assert (Hp : map passg cs <> []) by (destruct cs; [simpl in H2; lia|discriminate]).
      unfold accI at 1 3.
      destruct (map passg cs) eqn:Ep; [congruence|]. rewrite <- Ep.
      destruct (List.concat cs) eqn:Ec; [congruence|]. rewrite <- Ec.
      rewrite err_map_pass, existsb_concat by assumption.
      destruct (existsb (existsb iv_err) cs) eqn:He; [reflexivity|].
      f_equal. now apply vals_map_pass.
    Qed.
  End Law.

  Lemma zsum_app : forall l l', zsum (l ++ l') = (zsum l + zsum l')%Z.
  Proof. induction l as [|x l IH]; intros l'; simpl; [reflexivity|]. rewrite IH. lia. Qed.
  Lemma zprod_app : forall l l', zprod (l ++ l') = (zprod l * zprod l')%Z.
  Proof. induction l as [|x l IH]; intros l'; simpl; [now destruct (zprod l')|]. rewrite IH. lia. Qed.

  Theorem sumI_batch_law : batch_law iv (accI lo hi zsum).
  Proof.
    apply (accI_batch_law zsum Z.add); intros; simpl; try lia; try reflexivity.
    - apply zsum_app. - apply wrap_add_l. - apply wrap_add_r.
  Qed.

  Theorem prodI_batch_law : batch_law iv (accI lo hi zprod).
  Proof.
    apply (accI_batch_law zprod Z.mul); intros; simpl; try lia; try reflexivity.
    - apply zprod_app. - apply wrap_mul_l. - apply wrap_mul_r.
  Qed.

  Lemma apI_sum_law : forall kw, batch_law iv (gf iv (apI lo hi) f_sum kw).
  Proof. intros kw. exact sumI_batch_law. Qed.

  Lemma apI_prod_law : forall kw b, batch_law iv (gf iv (apI lo hi) {| fname := "prod"; fbatch := b |} kw).
  Proof. intros kw b. exact prodI_batch_law. Qed.

  (* without overflow the accumulator holds the exact sum *)
  Lemma wrap_id : forall z, (lo <= z <= hi)%Z -> W z = z.
  Proof. intros z Hz. unfold BD.wrap. rewrite Z.mod_small by lia. lia. Qed.
End Wrap.

(* ------------------------------------------------------------------ the element type of an accumulating reduction *)
Definition narrow_or_acc (d x : BD.dtype) : bool := BD.dtype_eqb x d || BD.dtype_eqb x (BD.acc_dtype d).

Lemma dtype_eqb_eq : forall a b, BD.dtype_eqb a b = true -> a = b.
Proof. intros [] []; simpl; congruence. Qed.

Lemma fold_promote_closed : forall d, is_int d = true -> forall ds x,
  narrow_or_acc d x = true -> forallb (narrow_or_acc d) ds = true ->
  narrow_or_acc d (fold_left BD.promote ds x) = true.
Proof.
  intros d Hd. induction ds as [|y ds IH]; intros x Hx H; [exact Hx|].
  simpl in H. apply andb_prop in H as [Hy H]. simpl. apply IH; [|exact H].
  unfold narrow_or_acc in *. apply orb_prop in Hx. apply orb_prop in Hy.
  destruct Hx as [Hx|Hx], Hy as [Hy|Hy]; apply dtype_eqb_eq in Hx; apply dtype_eqb_eq in Hy; subst x y;
    destruct d; try discriminate Hd; reflexivity.
Qed.

(* the arguments of a batched sum / prod are of type d (sources, batches of one) or acc_dtype d (results of
   batches): NumPy's result type is acc_dtype d whatever the mixture and the order *)
Theorem accumulating_result_dtype : forall d, is_int d = true -> forall name ts ax ds,
  (name = "sum" \/ name = "prod") -> ds <> [] -> forallb (narrow_or_acc d) ds = true ->
  BD.result_dtype_seq (BO.CReduce name ts ax) ds = Some (BD.acc_dtype d).
Proof.
  intros d Hd name ts ax ds Hn Hne H. destruct ds as [|x ds]; [congruence|].
  simpl in H. apply andb_prop in H as [Hx H].
  unfold BD.result_dtype_seq, BD.result_dtype_with, BD.promote_seq.
  assert (Hc := fold_promote_closed d Hd ds x Hx H).
  f_equal. unfold BD.op_dtype.
  assert (En : ((name =? "sum") || (name =? "prod"))%bool = true) by (destruct Hn; subst name; reflexivity).
  rewrite En. unfold narrow_or_acc in Hc. apply orb_prop in Hc as [Hc|Hc]; apply dtype_eqb_eq in Hc; rewrite Hc;
    destruct d; try discriminate Hd; reflexivity.
Qed.

(* ------------------------------------------------------------------ the pairwise fold is another function *)
Lemma store_dtype : forall d t r, store d t = BT.Ok r -> fst r = d.
Proof.
  intros d t r. unfold store. destruct (is_int d); [intros H; now inversion H|].
  destruct (BD.all_repr d t); [intros H; now inversion H|discriminate].
Qed.

Lemma applyT_dtype : forall seq c ds D r, BD.common_of seq ds = Some D -> applyT seq c ds = BT.Ok r ->
  fst r = BD.op_dtype c D.
Proof.
  intros seq c ds D r HD. unfold applyT. rewrite HD.
  destruct (refused c D); [discriminate|].
  destruct (forallb _ _); [|discriminate].
  destruct (BO.apply _) as [t|e]; [|discriminate]. simpl. apply store_dtype.
Qed.

Definition narrow (d : BD.dtype) : bool := is_int d && negb (BD.dtype_eqb d (BD.acc_dtype d)).

(* two arrays of a boolean / narrow integer type d: xp.add / xp.multiply give an array of type d, the
   reduction an array of the accumulator type -- whatever the values, the two results differ *)
Theorem fold_keeps_dtype_reduction_accumulates : forall d name u ta tb rf rr,
  narrow d = true -> (name = "sum" /\ u = "add" \/ name = "prod" /\ u = "multiply") ->
  fold_sem u [BT.Ok (d, ta); BT.Ok (d, tb)] = BT.Ok rf ->
  apTT {| fname := name; fbatch := true |} [BT.Ok (d, ta); BT.Ok (d, tb)] [] [] = BT.Ok rr ->
  fst rf = d /\ fst rr = BD.acc_dtype d /\ rf <> rr.
Proof.
  intros d name u ta tb rf rr Hd Hn Hf Hr.
  unfold narrow in Hd. apply andb_prop in Hd as [Hi Hne].
  assert (Hpl : BD.common_of false [d; d] = Some d) by (destruct d; reflexivity).
  assert (Hps : BD.common_of true [d; d] = Some d) by (destruct d; reflexivity).
  assert (E1 : fst rf = d).
  { unfold fold_sem in Hf. simpl in Hf.
    rewrite (applyT_dtype _ _ _ _ _ Hpl Hf).
    destruct Hn as [[_ ->]|[_ ->]]; destruct d; try discriminate Hi; reflexivity. }
  assert (E2 : fst rr = BD.acc_dtype d).
  { destruct Hn as [[-> _]|[-> _]].
    - change (applyT true (BO.CReduce "sum" [ta; tb] None) [d; d] = BT.Ok rr) in Hr.
      rewrite (applyT_dtype _ _ _ _ _ Hps Hr); reflexivity.
    - change (applyT true (BO.CReduce "prod" [ta; tb] None) [d; d] = BT.Ok rr) in Hr.
      rewrite (applyT_dtype _ _ _ _ _ Hps Hr); reflexivity. }
  repeat split; [exact E1|exact E2|].
  intros ->. rewrite E1 in E2. rewrite <- E2 in Hne. destruct d; discriminate.
Qed.
