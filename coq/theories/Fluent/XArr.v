(* Mini-xarray of graph nodes: the part of xarray.DataArray that earthkit.workflows.fluent
   uses on ARRAYS OF NODES (src/earthkit/workflows/fluent.py), executable.

   An array is: ordered dimensions (name, coordinate values, "has an index" flag), scalar
   coordinates, and the cell at every multi-index.  Cells are kept as a FUNCTION from the
   multi-index (list nat, one position per dimension, in dimension order), so every
   operation is a re-indexing and cell-level statements need no flattening arithmetic.
   A cell is the expression the node computes: what Node.payload / Node.inputs encode. *)
From Coq Require Import List Arith ZArith String Bool Lia.
Import ListNotations.
Open Scope string_scope.
Open Scope list_scope.

Inductive res (A : Type) : Type := Ok (a : A) | Err (e : string).
Arguments Ok {A} a.
Arguments Err {A} e.

Definition bind {A B} (r : res A) (f : A -> res B) : res B :=
  match r with Ok a => f a | Err e => Err e end.
Notation "'do' x <- r ; k" := (bind r (fun x => k)) (at level 200, x pattern, r at level 100, k at level 200).

(* coordinate values and static payload arguments: ints, strings, the float 0.5 of
   power(0.5), the label "first-last" that reduce(keep_dim=True) gives the kept dimension, and
   an integer-valued Python FLOAT (the 2.0 of power(2.0): as a number it is CZ 2, as an operand it
   makes NumPy compute in floating point -- Fluent/ActionSemT.v) *)
Inductive cv : Type := CZ (z : Z) | CS (s : string) | CHalf | CKept (a b : cv) | CF (z : Z).

Fixpoint cv_eqb (a b : cv) : bool :=
  match a, b with
  | CZ x, CZ y => Z.eqb x y
  | CS x, CS y => String.eqb x y
  | CHalf, CHalf => true
  | CKept a1 a2, CKept b1 b2 => cv_eqb a1 b1 && cv_eqb a2 b2
  | CF x, CF y => Z.eqb x y
  | _, _ => false
  end.

Fixpoint list_eqb {A} (eqb : A -> A -> bool) (l1 l2 : list A) : bool :=
  match l1, l2 with
  | [], [] => true
  | x :: r, y :: s => eqb x y && list_eqb eqb r s
  | _, _ => false
  end.

Definition kwargs := list (string * cv).

(* a callable: its __name__ and its `batchable` attribute (backends.batchable decorator) *)
Record fn : Type := { fname : string; fbatch : bool }.
Definition fn_eqb (f g : fn) : bool := String.eqb (fname f) (fname g) && Bool.eqb (fbatch f) (fbatch g).

(* Node(payload=(func, args, kwargs), inputs): args = the inputs in order, then the static
   extras (fluent.py only ever builds [input0..inputN-1] or [input0, const]) *)
Inductive expr : Type :=
| Src (i : N)
| App (f : fn) (ins : list expr) (extra : list cv) (kw : kwargs).

Record dimn : Type := { dname : string; dcoords : list cv; dindexed : bool }.
Definition dsize (d : dimn) : nat := List.length (dcoords d).

Record xarr : Type := {
  xdims : list dimn;
  xscal : list (string * cv);         (* scalar (0-d) coordinates *)
  xat : list nat -> expr              (* cell at a multi-index *)
}.

Definition shape (a : xarr) : list nat := map dsize (xdims a).

(* ------------------------------------------------------------------ list helpers *)
Definition insert_at {A} (k : nat) (x : A) (l : list A) : list A := firstn k l ++ x :: skipn k l.
Definition remove_at {A} (k : nat) (l : list A) : list A := firstn k l ++ skipn (S k) l.
Definition replace_at {A} (k : nat) (x : A) (l : list A) : list A := firstn k l ++ x :: skipn (S k) l.

Fixpoint find_dim (n : string) (ds : list dimn) : option nat :=
  match ds with
  | [] => None
  | d :: r => if String.eqb n (dname d) then Some 0 else option_map S (find_dim n r)
  end.

Fixpoint lookup {A} (n : string) (l : list (string * A)) : option A :=
  match l with [] => None | (k, v) :: r => if String.eqb n k then Some v else lookup n r end.

Definition remove_key {A} (n : string) (l : list (string * A)) : list (string * A) :=
  filter (fun p => negb (String.eqb n (fst p))) l.

Definition has_coord (n : string) (a : xarr) : bool :=
  match find_dim n (xdims a) with
  | Some k => dindexed (nth k (xdims a) {| dname := ""; dcoords := []; dindexed := false |})
  | None => match lookup n (xscal a) with Some _ => true | None => false end
  end.

Definition dflt_dim : dimn := {| dname := ""; dcoords := []; dindexed := false |}.

Fixpoint index_of (c : cv) (l : list cv) : option nat :=
  match l with [] => None | x :: r => if cv_eqb c x then Some 0 else option_map S (index_of c r) end.

Fixpoint nodupb (l : list cv) : bool :=
  match l with [] => true | x :: r => negb (existsb (cv_eqb x) r) && nodupb r end.

Definition zrange (n : nat) : list cv := map (fun i => CZ (Z.of_nat i)) (seq 0 n).

(* all multi-indices of a shape, row-major (the order of ndarray.flatten / np.nditer) *)
Fixpoint all_idx (sh : list nat) : list (list nat) :=
  match sh with
  | [] => [[]]
  | n :: r => flat_map (fun i => map (cons i) (all_idx r)) (seq 0 n)
  end.

Definition cells (a : xarr) : list expr := map (xat a) (all_idx (shape a)).

(* python-style axis normalisation for an insertion into an array of rank nd:
   valid positions are -(nd+1) .. nd *)
Definition norm_axis (nd : nat) (axis : Z) : option nat :=
  let n := Z.of_nat nd in
  if (0 <=? axis)%Z && (axis <=? n)%Z then Some (Z.to_nat axis)
  else if (axis <? 0)%Z && (- (n + 1) <=? axis)%Z then Some (Z.to_nat (axis + n + 1))
  else None.

(* ------------------------------------------------------------------ xarray operations *)

(* DataArray.expand_dims({name: [value]}, axis) *)
Definition x_expand_dims (name : string) (value : cv) (axis : Z) (a : xarr) : res xarr :=
  if has_coord name a || match find_dim name (xdims a) with Some _ => true | None => false end
  then Err "ValueError"
  else match norm_axis (List.length (xdims a)) axis with
       | None => Err "IndexError"
       | Some k =>
           Ok {| xdims := insert_at k {| dname := name; dcoords := [value]; dindexed := true |} (xdims a);
                 xscal := xscal a;
                 xat := fun idx => xat a (remove_at k idx) |}
       end.

(* Action._squeeze_dimension: only when the name has a coordinate of length 1 *)
Definition x_squeeze (name : string) (drop : bool) (a : xarr) : res xarr :=
  match find_dim name (xdims a) with
  | Some k =>
      let d := nth k (xdims a) dflt_dim in
      if dindexed d && Nat.eqb (dsize d) 1 then
        Ok {| xdims := remove_at k (xdims a);
              xscal := if drop then xscal a else xscal a ++ [(name, nth 0 (dcoords d) (CZ 0))];
              xat := fun idx => xat a (insert_at k 0 idx) |}
      else Ok a
  | None =>
      match lookup name (xscal a) with
      | Some _ => Err "TypeError"       (* len() of a 0-d coordinate *)
      | None => Ok a
      end
  end.

Inductive selv : Type := SOne (c : cv) | SMany (cs : list cv).
Inductive iselv : Type := IOne (i : Z) | IMany (is : list Z).

Fixpoint all_some {A} (l : list (option A)) : option (list A) :=
  match l with
  | [] => Some []
  | Some x :: r => option_map (cons x) (all_some r)
  | None :: _ => None
  end.

(* positional selection along axis k *)
Definition x_take_one (k p : nat) (name : string) (drop : bool) (a : xarr) : xarr :=
  let d := nth k (xdims a) dflt_dim in
  {| xdims := remove_at k (xdims a);
     xscal := if drop || negb (dindexed d) then xscal a else xscal a ++ [(name, nth p (dcoords d) (CZ 0))];
     xat := fun idx => xat a (insert_at k p idx) |}.

Definition x_take_many (k : nat) (ps : list nat) (a : xarr) : xarr :=
  let d := nth k (xdims a) dflt_dim in
  {| xdims := replace_at k {| dname := dname d;
                              dcoords := if dindexed d then map (fun p => nth p (dcoords d) (CZ 0)) ps
                                         else zrange (List.length ps);
                              dindexed := dindexed d |} (xdims a);
     xscal := xscal a;
     xat := fun idx => xat a (replace_at k (nth (nth k idx 0) ps 0) idx) |}.

(* DataArray.sel with one key, drop=drop, for one key that is a dimension *)
Definition x_sel1 (name : string) (v : selv) (drop : bool) (a : xarr) : res xarr :=
  match find_dim name (xdims a) with
  | None => Err "KeyError"
  | Some k =>
      let d := nth k (xdims a) dflt_dim in
      if negb (dindexed d) then Err "Unsupported" else
      match v with
      | SOne c => match index_of c (dcoords d) with
                  | Some p =>
                      (* a label that occurs again keeps the dimension (all matches): not modelled *)
                      if existsb (cv_eqb c) (skipn (S p) (dcoords d)) then Err "Unsupported"
                      else Ok (x_take_one k p name drop a)
                  | None => Err "KeyError" end
      | SMany cs =>
          (* pandas get_indexer: a list of labels needs a uniquely valued index *)
          if negb (nodupb (dcoords d)) then Err "InvalidIndexError" else
          match all_some (map (fun c => index_of c (dcoords d)) cs) with
          | Some ps => Ok (x_take_many k ps a)
          | None => Err "KeyError" end
      end
  end.

Definition norm_pos (n : nat) (i : Z) : option nat :=
  let z := Z.of_nat n in
  if (0 <=? i)%Z && (i <? z)%Z then Some (Z.to_nat i)
  else if (i <? 0)%Z && (- z <=? i)%Z then Some (Z.to_nat (i + z)) else None.

Definition x_isel1 (name : string) (v : iselv) (drop : bool) (a : xarr) : res xarr :=
  match find_dim name (xdims a) with
  | None => Err "ValueError"
  | Some k =>
      let d := nth k (xdims a) dflt_dim in
      match v with
      | IOne i => match norm_pos (dsize d) i with
                  | Some p => Ok (x_take_one k p name drop a)
                  | None => Err "IndexError" end
      | IMany is => match all_some (map (norm_pos (dsize d)) is) with
                    | Some ps => Ok (x_take_many k ps a)
                    | None => Err "IndexError" end
      end
  end.

(* equality of two dimensions for xr.concat(join="exact") *)
Definition dim_compat (d1 d2 : dimn) : res unit :=
  if negb (String.eqb (dname d1) (dname d2)) then Err "Unsupported"
  else if dindexed d1 && dindexed d2 then
    (if list_eqb cv_eqb (dcoords d1) (dcoords d2) then Ok tt else Err "AlignmentError")
  else if negb (dindexed d1) && negb (dindexed d2) then
    (if Nat.eqb (dsize d1) (dsize d2) then Ok tt else Err "ValueError")
  else Err "Unsupported".

Fixpoint dims_compat (l1 l2 : list dimn) : res unit :=
  match l1, l2 with
  | [], [] => Ok tt
  | d1 :: r1, d2 :: r2 => do _ <- dim_compat d1 d2; dims_compat r1 r2
  | _, _ => Err "Unsupported"
  end.

(* scalar coordinates of a concat result: union; a name with two different values is a MergeError *)
Fixpoint merge_scal (s1 s2 : list (string * cv)) : res (list (string * cv)) :=
  match s2 with
  | [] => Ok s1
  | (n, v) :: r =>
      match lookup n s1 with
      | Some v1 => if cv_eqb v v1 then merge_scal s1 r else Err "MergeError"
      | None => do m <- merge_scal s1 r; Ok (m ++ [(n, v)])
      end
  end.

(* bring the concat dimension into being: an existing dimension stays; a scalar coordinate
   of that name becomes a length-1 dimension in front; otherwise a new unindexed one in front *)
Definition promote (name : string) (a : xarr) : xarr * nat :=
  match find_dim name (xdims a) with
  | Some k => (a, k)
  | None =>
      let d := match lookup name (xscal a) with
               | Some v => {| dname := name; dcoords := [v]; dindexed := true |}
               | None => {| dname := name; dcoords := [CZ 0]; dindexed := false |}
               end in
      ({| xdims := d :: xdims a; xscal := remove_key name (xscal a); xat := fun idx => xat a (tl idx) |}, 0)
  end.

(* xr.concat([a, b], dim, coords="minimal", join="exact"); `given` = coordinate values of a
   new dimension handed over as a DataArray *)
Definition x_concat (name : string) (given : option (list cv)) (a b : xarr) : res xarr :=
  let '(a', ka) := promote name a in
  let '(b', kb) := promote name b in
  if negb (Nat.eqb ka kb) then Err "Unsupported" else
  let da := nth ka (xdims a') dflt_dim in
  let db := nth kb (xdims b') dflt_dim in
  do _ <- dims_compat (remove_at ka (xdims a')) (remove_at kb (xdims b'));
  do sc <- merge_scal (xscal a') (xscal b');
  if negb (Bool.eqb (dindexed da) (dindexed db)) then Err "Unsupported" else
  let na := dsize da in
  let coords := dcoords da ++ dcoords db in
  do nd <- match given with
           | None => Ok {| dname := name;
                           dcoords := if dindexed da then coords else zrange (List.length coords);
                           dindexed := dindexed da |}
           | Some cs => if Nat.eqb (List.length cs) (List.length coords)
                        then Ok {| dname := name; dcoords := cs; dindexed := true |}
                        else Err "ValueError"
           end;
  Ok {| xdims := replace_at ka nd (xdims a');
        xscal := sc;
        xat := fun idx => let p := nth ka idx 0 in
                          if Nat.ltb p na then xat a' idx else xat b' (replace_at ka (p - na) idx) |}.

(* dimension order of a.broadcast_like(b, exclude): b's dimensions (not excluded), then a's
   own further ones, then the excluded ones a has, in `exclude` order *)
Definition in_names (n : string) (l : list string) : bool := existsb (String.eqb n) l.

Definition bcast_dims (a b : xarr) (excl : list string) : list dimn :=
  let fromb := filter (fun d => negb (in_names (dname d) excl)) (xdims b) in
  let froma := filter (fun d => negb (in_names (dname d) excl) &&
                                match find_dim (dname d) (xdims b) with Some _ => false | None => true end) (xdims a) in
  let exa := flat_map (fun n => match find_dim n (xdims a) with
                                | Some k => [nth k (xdims a) dflt_dim] | None => [] end) excl in
  (* a shared dimension keeps a's own description (the coordinates are asserted equal) *)
  map (fun d => match find_dim (dname d) (xdims a) with
                | Some k => nth k (xdims a) dflt_dim | None => d end) fromb ++ froma ++ exa.

Definition x_broadcast_like (a b : xarr) (excl : list string) : xarr :=
  let rd := bcast_dims a b excl in
  {| xdims := rd;
     xscal := xscal a;
     xat := fun idx => xat a (map (fun d => match find_dim (dname d) rd with
                                            | Some k => nth k idx 0 | None => 0 end) (xdims a)) |}.
