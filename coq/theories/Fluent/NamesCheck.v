(* Executable checkers used by harness/c14.py.
   check_names : the real fluent API built a graph; for every node the harness reports
     what it was built from (callable = the harness' own identity of the callable, a
     64-hex token that does NOT come from the implementation; static values; inputs by
     index) and the name the implementation gave (split at the last ':').  The model
     computes the string that is hashed (from the observed names of the inputs) and the
     part before ':'.  Since the hash itself is not evaluated in Coq, the comparison is:
     the part before ':' is equal, every digest is 64 hex characters, and two nodes have
     the same digest exactly when the model's hashed strings are equal -- i.e. there is an
     injective H with  observed name = node_name H ... for all nodes of the case.
   check_ops : a sequence of fluent operations on actions; the model heap after every
     operation is compared with the arrays (dims, coordinates, cells) of ALL actions
     observed after that operation, and the returned action with the returned slot.
   Also here: a concrete injective hash with hex output (for the non-vacuity examples) and
   the transcription of the code before the fix: commits (operand rewriting). *)
From Coq Require Import List String Ascii Bool Arith.
From EKW Require Import Fluent.Names.
Import ListNotations.
Open Scope string_scope.
Open Scope list_scope.

Fixpoint lookup_s (k : string) (l : list (string * string)) : string :=
  match l with
  | [] => ""
  | (k', v) :: r => if String.eqb k k' then v else lookup_s k r
  end.

(* ------------------------------------------------------------------ names *)
Record nspec := NS {
  ns_f : string;                          (* harness identity of the callable *)
  ns_args : list val;
  ns_kw : list (string * val);
  ns_ins : list (nat * option string);    (* earlier node, output taken *)
  ns_nout : string;                       (* str(num_outputs) *)
  ns_base : string;                       (* observed name before the last ':' *)
  ns_digest : string }.                   (* observed name after the last ':' *)

Definition obs_name (n : nspec) : string := ns_base n ++ String ch_colon (ns_digest n).

Definition ns_wf (table : list (string * string)) (i : nat) (n : nspec) : bool :=
  Nat.eqb (String.length (ns_f n)) 64 && safe_str (ns_base n)
  && forallb val_ok (ns_args n) && forallb (fun kv => safe_str (fst kv) && val_ok (snd kv)) (ns_kw n)
  && forallb (fun x => Nat.ltb (fst x) i && out_ok (snd x)) (ns_ins n)
  && Nat.eqb (String.length (ns_digest n)) 64 && allc hexchar (ns_digest n).

Definition innames_of (nodes : list nspec) (n : nspec) : list string :=
  map (fun x => in_print (match nth_error nodes (fst x) with Some p => obs_name p | None => "" end) (snd x)) (ns_ins n).

Definition pre_of (table : list (string * string)) (nodes : list nspec) (n : nspec) : string :=
  preimage (fun f => lookup_s f table) (ns_f n) (ns_args n) (ns_kw n) (innames_of nodes n) (ns_nout n).

Fixpoint enum_from {A} (i : nat) (l : list A) : list (nat * A) :=
  match l with [] => [] | x :: r => (i, x) :: enum_from (S i) r end.

(* sources: per from_source call the (node index, str(multi_index)) in iteration order *)
Definition group_ok (table : list (string * string)) (nodes : list nspec) (g : list (nat * string)) : bool :=
  let items := map (fun x => (match nth_error nodes (fst x) with Some n => lookup_s (ns_f n) table | None => "" end, snd x)) g in
  let got := map (fun x => match nth_error nodes (fst x) with Some n => ns_base n | None => "" end) g in
  if list_eq_dec string_dec (source_labels items []) got then true else false.

Definition check_names (c : list (string * string) * list nspec * list (list (nat * string))) : bool :=
  let '(table, nodes, groups) := c in
  let en := enum_from 0 nodes in
  let in_group := List.concat (map (map fst) groups) in
  forallb (fun x => ns_wf table (fst x) (snd x)) en
  && forallb (group_ok table nodes) groups
  && forallb (fun x => existsb (Nat.eqb (fst x)) in_group
                       || String.eqb (ns_base (snd x)) (lookup_s (ns_f (snd x)) table)) en
  && (let pres := map (fun n => (pre_of table nodes n, ns_digest n)) nodes in
      forallb (fun a => forallb (fun b => Bool.eqb (String.eqb (fst a) (fst b)) (String.eqb (snd a) (snd b))) pres) pres).

(* ------------------------------------------------------------------ operations *)
Definition str_list_eqb (a b : list string) : bool := if list_eq_dec string_dec a b then true else false.

Definition dims_eqb (a b : list (string * list string)) : bool :=
  Nat.eqb (List.length a) (List.length b) &&
  forallb (fun p => String.eqb (fst (fst p)) (fst (snd p)) && str_list_eqb (snd (fst p)) (snd (snd p))) (List.combine a b).

Definition scal_sub (a b : list (string * string)) : bool :=
  forallb (fun x => existsb (fun y => String.eqb (fst x) (fst y) && String.eqb (snd x) (snd y)) b) a.

(* scalar coordinates are a dict: compared as sets *)
Definition arr_eqb (a b : arr) : bool :=
  dims_eqb (dims a) (dims b) && scal_sub (scal a) (scal b) && scal_sub (scal b) (scal a)
  && Nat.eqb (cells a) (cells b).

Definition heap_eqb (a b : heap) : bool :=
  Nat.eqb (List.length a) (List.length b) && forallb (fun p => arr_eqb (fst p) (snd p)) (List.combine a b).

(* one step: the operation, the slot the implementation returned, all actions afterwards *)
Fixpoint check_steps (h : heap) (steps : list (op * nat * heap)) : bool :=
  match steps with
  | [] => true
  | (o, slot, after) :: rest =>
      match exec h o with
      | Ok (h', s) => Nat.eqb s slot && heap_eqb h' after && check_steps h' rest
      | Err _ => false
      end
  end.

Definition check_ops (c : heap * list (op * nat * heap)) : bool := check_steps (fst c) (snd c).

(* ------------------------------------------------------------------ a concrete hash for examples *)
Definition hex_of_nibble (n : nat) : ascii := nth n hexdigits "0"%char.

Fixpoint hexenc (s : string) : string :=
  match s with
  | EmptyString => EmptyString
  | String c r => let n := nat_of_ascii c in String (hex_of_nibble (n / 16)) (String (hex_of_nibble (n mod 16)) (hexenc r))
  end.

(* ------------------------------------------------------------------ the code before the fixes *)
(* join(match_coord_values=True) assigned the rewritten array to other_action.nodes *)
Definition join_legacy (h : heap) (self other : loc) (d : string) (matchc : bool) (c : nat) : res (heap * loc) :=
  bind (read h self) (fun a => bind (read h other) (fun b =>
    let hw := if matchc then write h other (assign_from a b) else (h, other) in
    bind (read (fst hw) (snd hw)) (fun b' => Ok (fst hw, Temp (concat_arr a b' d c))))).

(* _combine_nodes squeezed the operand itself and returned it *)
Definition combine_legacy (h : heap) (self : loc) (d : string) (keep : bool) (result : arr) : res (heap * loc) :=
  bind (read h self) (fun a =>
    match dim_size a d with
    | None => Err "KeyError"
    | Some 1 => if keep then Ok (h, self) else squeeze_dimension h self d false
    | Some _ => atomic h result
    end).
