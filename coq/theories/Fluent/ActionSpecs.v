(* Cell / dimension specifications of the structural operations of the fluent model
   (Fluent/Action.v): join, two-action arithmetic, iselect, stack / concatenate / flatten.
   Every statement is for arbitrary arrays; nothing is bounded. *)
From Coq Require Import List Arith NArith ZArith String Bool Lia.
From EKW Require Import Fluent.XArr Fluent.Action Fluent.Batch Fluent.ActionProofs.
Import ListNotations.
Open Scope list_scope.

(* ------------------------------------------------------------------ small facts *)
Lemma cv_eqb_refl : forall c, cv_eqb c c = true.
Proof.
  induction c as [z|s| |a IHa b IHb|z]; simpl.
  - apply Z.eqb_refl. - apply String.eqb_refl. - reflexivity. - now rewrite IHa, IHb. - apply Z.eqb_refl.
Qed.

Lemma list_eqb_refl : forall l, list_eqb cv_eqb l l = true.
Proof. induction l as [|x l IH]; simpl; [reflexivity|]. now rewrite cv_eqb_refl, IH. Qed.

Lemma lookup_in {A} : forall n (v : A) l, In (n, v) l -> exists v', lookup n l = Some v'.
Proof.
  intros n v l. induction l as [|[k w] l IH]; intros H; [destruct H|]. simpl.
  destruct (String.eqb n k) eqn:E; [eauto|]. destruct H as [H|H]; [|auto].
  inversion H; subst. rewrite String.eqb_refl in E. discriminate.
Qed.

Lemma merge_scal_sub : forall s1 s2,
  (forall n v, In (n, v) s2 -> lookup n s1 = Some v) -> merge_scal s1 s2 = Ok s1.
Proof.
  intros s1 s2. induction s2 as [|[n v] s2 IH]; intros H; simpl; [reflexivity|].
  rewrite (H n v (or_introl eq_refl)), cv_eqb_refl. apply IH. intros; apply H; now right.
Qed.

Lemma mapM_in {A B} (f : A -> res B) : forall l l', mapM f l = Ok l' ->
  forall y, In y l' -> exists x, In x l /\ f x = Ok y.
Proof.
  induction l as [|x l IH]; intros l' H y Hy; simpl in H.
  - inversion H; subst. destruct Hy.
  - destruct (f x) as [b|] eqn:Ef; cbn [bind] in H; [|discriminate].
    destruct (mapM f l) as [bs|]; cbn [bind] in H; [|discriminate].
    inversion H; subst. destruct Hy as [<-|Hy]; [exists x; split; [now left|exact Ef]|].
    destruct (IH bs eq_refl y Hy) as (x' & Hx & Hf). exists x'. split; [now right|exact Hf].
Qed.

Lemma mapM_proj {A B C} (f : A -> res B) (g : A -> C) (h : B -> C) :
  (forall x y, f x = Ok y -> h y = g x) ->
  forall l l', mapM f l = Ok l' -> map h l' = map g l.
Proof.
  intros Hp. induction l as [|x l IH]; intros l' H; simpl in H.
  - inversion H; reflexivity.
  - destruct (f x) as [b|] eqn:Ef; cbn [bind] in H; [|discriminate].
    destruct (mapM f l) as [bs|]; cbn [bind] in H; [|discriminate].
    inversion H; subst. simpl. now rewrite (Hp _ _ Ef), (IH bs eq_refl).
Qed.

Lemma find_dim_names : forall n l l', map dname l = map dname l' -> find_dim n l = find_dim n l'.
Proof.
  intros n. induction l as [|d l IH]; intros [|d' l'] H; simpl in H; try discriminate; [reflexivity|].
  inversion H as [[Hd Hl]]. simpl. rewrite Hd. now rewrite (IH l' Hl).
Qed.

Lemma lookup_none_names {A} : forall n (l l' : list (string * A)),
  map fst l = map fst l' -> lookup n l = None -> lookup n l' = None.
Proof.
  intros n. induction l as [|[k v] l IH]; intros [|[k' v'] l'] H Hn; simpl in H; try discriminate; [reflexivity|].
  inversion H; subst. simpl in *. destruct (String.eqb n k'); [discriminate|]. eapply IH; eassumption.
Qed.

Lemma remove_key_none {A} : forall n (l : list (string * A)), lookup n l = None -> remove_key n l = l.
Proof.
  intros n. induction l as [|[k v] l IH]; intros H; simpl in *; [reflexivity|].
  destruct (String.eqb n k); [discriminate|]. simpl. now rewrite IH.
Qed.

(* a name used neither by a dimension nor by a scalar coordinate *)
Definition fresh (n : string) (z : xarr) : Prop :=
  find_dim n (xdims z) = None /\ lookup n (xscal z) = None.

(* ------------------------------------------------------------------ join *)
Lemma match_coords_props : forall x y y',
  match_coords x y = Ok y' ->
  map dname (xdims y') = map dname (xdims y) /\ map fst (xscal y') = map fst (xscal y) /\
  xat y' = xat y /\
  forall n v, In (n, v) (xscal y') ->
    lookup n (xscal x) = Some v \/ (lookup n (xscal x) = None /\ In (n, v) (xscal y)).
Proof.
  intros x y y' H. unfold match_coords in H.
  destruct (mapM _ (xdims y)) as [ds|] eqn:Eds; cbn [bind] in H; [|discriminate].
  destruct (mapM _ (xscal y)) as [sc|] eqn:Esc; cbn [bind] in H; [|discriminate].
  inversion H; subst y'; clear H. cbn [xdims xscal xat]. split; [|split; [|split; [reflexivity|]]].
  - eapply mapM_proj; [|exact Eds]. intros dy d Hd. cbv beta in Hd.
    destruct (find_dim (dname dy) (xdims x)).
    + destruct (_ && _); [destruct (Nat.eqb _ _); [inversion Hd; reflexivity|discriminate]|].
      destruct (_ || _); [discriminate|inversion Hd; reflexivity].
    + destruct (lookup _ _); [destruct (dindexed dy); [discriminate|]|]; inversion Hd; reflexivity.
  - eapply mapM_proj; [|exact Esc]. intros p q Hq. cbv beta in Hq.
    destruct (lookup (fst p) (xscal x)); [inversion Hq; reflexivity|].
    destruct (find_dim _ _); [destruct (dindexed _); [discriminate|]|]; inversion Hq; reflexivity.
  - intros n v Hin. destruct (mapM_in _ _ _ Esc _ Hin) as (p & Hp & Hf). cbv beta in Hf.
    destruct (lookup (fst p) (xscal x)) eqn:El.
    + inversion Hf; subst. now left.
    + right. assert (p = (n, v)) as ->.
      { destruct (find_dim _ _); [destruct (dindexed _); [discriminate|]|]; now inversion Hf. }
      split; [exact El|exact Hp].
Qed.

(* join along a NEW dimension: the result has the new dimension in front (size 2), position 0
   holds the cells of the first operand and position 1 those of the second *)
Theorem concat_new_spec : forall name given a b r,
  fresh name a -> fresh name b -> x_concat name given a b = Ok r ->
  exists nd, xdims r = nd :: xdims a /\ dname nd = name /\
    match given with
    | None => dcoords nd = zrange 2 /\ dindexed nd = false
    | Some cs => dcoords nd = cs /\ dindexed nd = true /\ List.length cs = 2
    end /\
    dims_compat (xdims a) (xdims b) = Ok tt /\
    merge_scal (xscal a) (xscal b) = Ok (xscal r) /\
    forall t, xat r (0 :: t) = xat a t /\ xat r (1 :: t) = xat b t.
Proof.
  intros name given a b r [Hda Hsa] [Hdb Hsb] H. unfold x_concat, promote in H.
  rewrite Hda, Hsa, Hdb, Hsb in H. cbn [Nat.eqb negb nth] in H.
  unfold remove_at in H. cbn [firstn skipn app xdims xscal] in H.
  rewrite (remove_key_none _ _ Hsa), (remove_key_none _ _ Hsb) in H.
  destruct (dims_compat (xdims a) (xdims b)) as [[]|] eqn:Ec; cbn [bind] in H; [|discriminate].
  destruct (merge_scal (xscal a) (xscal b)) as [sc|] eqn:Em; cbn [bind] in H; [|discriminate].
  cbn in H.
  destruct given as [cs|].
  - destruct (Nat.eqb (List.length cs) 2) eqn:El; cbn [bind] in H; [|discriminate].
    inversion H; subst r; clear H. eexists. cbn [xdims xscal xat]. unfold replace_at. cbn [firstn skipn app].
    split; [reflexivity|]. split; [reflexivity|]. split; [repeat split; now apply Nat.eqb_eq|].
    repeat split.
  - cbn [bind] in H. inversion H; subst r; clear H. eexists. cbn [xdims xscal xat]. unfold replace_at. cbn [firstn skipn app].
    split; [reflexivity|]. split; [reflexivity|]. repeat split.
Qed.

(* join along an EXISTING dimension (same axis in both operands): coordinates are appended,
   positions below the first operand's size hold its cells, the others the second operand's *)
Theorem concat_existing_spec : forall name a b k r,
  find_dim name (xdims a) = Some k -> find_dim name (xdims b) = Some k ->
  x_concat name None a b = Ok r ->
  let da := nth k (xdims a) dflt_dim in let db := nth k (xdims b) dflt_dim in
  xdims r = replace_at k {| dname := name;
                            dcoords := if dindexed da then dcoords da ++ dcoords db
                                       else zrange (List.length (dcoords da ++ dcoords db));
                            dindexed := dindexed da |} (xdims a) /\
  dims_compat (remove_at k (xdims a)) (remove_at k (xdims b)) = Ok tt /\
  merge_scal (xscal a) (xscal b) = Ok (xscal r) /\
  forall idx, xat r idx = if Nat.ltb (nth k idx 0) (size_at k a) then xat a idx
                          else xat b (replace_at k (nth k idx 0 - size_at k a) idx).
Proof.
  intros name a b k r Ha Hb H. unfold x_concat, promote in H. rewrite Ha, Hb in H.
  rewrite Nat.eqb_refl in H. cbn [negb] in H.
  destruct (dims_compat _ _) as [[]|] eqn:Ec; cbn [bind] in H; [|discriminate].
  destruct (merge_scal _ _) as [sc|] eqn:Em; cbn [bind] in H; [|discriminate].
  destruct (negb _); [discriminate|]. cbn [bind] in H. inversion H; subst r; clear H.
  cbn [xdims xscal xat]. repeat split.
Qed.

(* Action.join = optional coordinate matching, then the concat above *)
Theorem join_spec : forall name given matchc a b r,
  a_join name given matchc a b = Ok r ->
  exists b', (if matchc then match_coords a b else Ok b) = Ok b' /\ xat b' = xat b /\
             x_concat name given a b' = Ok r.
Proof.
  intros name given matchc a b r H. unfold a_join in H.
  destruct matchc.
  - destruct (match_coords a b) as [b'|] eqn:Em; cbn [bind] in H; [|discriminate].
    exists b'. split; [reflexivity|]. split; [|exact H]. now apply match_coords_props in Em.
  - cbn [bind] in H. exists b. repeat split. exact H.
Qed.

(* ------------------------------------------------------------------ two-action arithmetic *)
Definition DT : string := "**datatype**"%string.

Theorem bin_spec : forall f kw x y r,
  fresh DT x -> fresh DT y -> a_bin f kw x y = Ok r ->
  xdims r = map reindexed (xdims x) /\
  (exists y', match_coords x y = Ok y' /\ merge_scal (xscal x) (xscal y') = Ok (xscal r)) /\
  forall t, xat r t = App f [xat x t; xat y t] [] kw.
Proof.
  intros f kw x y r Hx Hy H. unfold a_bin in H.
  destruct (a_join _ _ _ _ _) as [j|] eqn:Ej; cbn [bind] in H; [|discriminate].
  apply join_spec in Ej as (y' & Em & Hat & Ec).
  pose proof (match_coords_props _ _ _ Em) as (Hn & Hs & _ & _).
  assert (Hy' : fresh DT y').
  { destruct Hy as [Hy1 Hy2]. split.
    - now rewrite (find_dim_names _ _ _ Hn).
    - eapply lookup_none_names; [symmetry; exact Hs|exact Hy2]. }
  apply (concat_new_spec _ _ _ _ _ Hx Hy') in Ec as (nd & Hd & Hnm & (Hc & Hi) & _ & Hms & Hcell).
  rewrite a_reduce_unbatched in H. unfold default_dim in H. cbn [String.eqb] in H. rewrite Hd in H.
  cbn [bind find_dim] in H. rewrite Hnm in H. change (String.eqb DT DT) with true in H. cbn iota in H.
  inversion H; subst r; clear H. cbn [xdims xscal xat reduce_core]. rewrite Hd.
  unfold remove_at. cbn [firstn skipn app]. split; [reflexivity|]. split; [eauto|].
  intros t. unfold size_at. rewrite Hd. cbn [nth]. unfold dsize. rewrite Hc. cbn [zrange seq map List.length].
  change (insert_at 0 0 t) with (0 :: t). change (insert_at 0 1 t) with (1 :: t).
  destruct (Hcell t) as [-> ->]. now rewrite Hat.
Qed.

(* ------------------------------------------------------------------ iselect *)
Theorem iselect_one_spec : forall name i drop a r,
  x_isel1 name (IOne i) drop a = Ok r ->
  exists k p, find_dim name (xdims a) = Some k /\
    norm_pos (size_at k a) i = Some p /\
    xdims r = remove_at k (xdims a) /\
    forall t, xat r t = xat a (insert_at k p t).
Proof.
  intros name i drop a r H. unfold x_isel1 in H.
  destruct (find_dim name (xdims a)) as [k|] eqn:Ek; [|discriminate].
  destruct (norm_pos _ i) as [p|] eqn:Ep; [|discriminate].
  inversion H; subst r. exists k, p. repeat split; assumption.
Qed.

Theorem iselect_many_spec : forall name is drop a r,
  x_isel1 name (IMany is) drop a = Ok r ->
  exists k ps, find_dim name (xdims a) = Some k /\
    all_some (map (norm_pos (size_at k a)) is) = Some ps /\
    xdims r = replace_at k (let d := nth k (xdims a) dflt_dim in
                            {| dname := dname d;
                               dcoords := if dindexed d then map (fun p => nth p (dcoords d) (CZ 0)) ps
                                          else zrange (List.length ps);
                               dindexed := dindexed d |}) (xdims a) /\
    xscal r = xscal a /\
    forall idx, xat r idx = xat a (replace_at k (nth (nth k idx 0) ps 0) idx).
Proof.
  intros name is drop a r H. unfold x_isel1 in H.
  destruct (find_dim name (xdims a)) as [k|] eqn:Ek; [|discriminate].
  destruct (all_some _) as [ps|] eqn:Ep; [|discriminate].
  inversion H; subst r. exists k, ps. repeat split. exact Ep.
Qed.

(* ------------------------------------------------------------------ stack / concatenate / flatten *)
(* on a dimension of size <> 1 they ARE the reduction with backends.stack / backends.concat *)
Theorem stack_is_reduce : forall d bs keep axis bkw a k,
  find_dim d (xdims a) = Some k -> size_at k a <> 1 ->
  a_stack d bs keep axis bkw a = a_reduce f_stack (("axis"%string, CZ axis) :: bkw) d bs keep a.
Proof.
  intros. unfold a_stack, combine_nodes. rewrite H.
  destruct (Nat.eqb (size_at k a) 1) eqn:E; [apply Nat.eqb_eq in E; contradiction|reflexivity].
Qed.

Theorem concatenate_is_reduce : forall d bs keep bkw a k,
  find_dim d (xdims a) = Some k -> size_at k a <> 1 ->
  a_concatenate d bs keep bkw a = a_reduce f_concat bkw d bs keep a.
Proof.
  intros. unfold a_concatenate, combine_nodes. rewrite H.
  destruct (Nat.eqb (size_at k a) 1) eqn:E; [apply Nat.eqb_eq in E; contradiction|reflexivity].
Qed.

Theorem flatten_cells : forall d axis bkw a r,
  a_flatten d axis bkw a = Ok r ->
  exists d' k, default_dim d a = Ok d' /\ find_dim d' (xdims a) = Some k /\
    xdims r = map reindexed (remove_at k (xdims a)) /\ xscal r = xscal a /\
    forall t, xat r t = App f_stack (map (fun x => xat a (insert_at k x t)) (seq 0 (size_at k a)))
                            [] (("axis"%string, CZ axis) :: bkw).
Proof. intros d axis bkw a r H. exact (reduce_spec_drop _ _ _ _ _ H). Qed.

Theorem stack_cells : forall d axis bkw a r k,
  d <> ""%string -> find_dim d (xdims a) = Some k -> size_at k a <> 1 ->
  a_stack d 0 false axis bkw a = Ok r ->
  xdims r = map reindexed (remove_at k (xdims a)) /\ xscal r = xscal a /\
  forall t, xat r t = App f_stack (map (fun x => xat a (insert_at k x t)) (seq 0 (size_at k a)))
                          [] (("axis"%string, CZ axis) :: bkw).
Proof.
  intros d axis bkw a r k Hd Hk Hn H. rewrite (stack_is_reduce _ _ _ _ _ _ _ Hk Hn) in H.
  apply reduce_spec_drop in H as (d' & k' & Ed & Ek & H).
  unfold default_dim in Ed. apply String.eqb_neq in Hd. rewrite Hd in Ed. inversion Ed; subst d'.
  rewrite Hk in Ek. inversion Ek; subst k'. exact H.
Qed.

Theorem concatenate_cells : forall d bkw a r k,
  d <> ""%string -> find_dim d (xdims a) = Some k -> size_at k a <> 1 ->
  a_concatenate d 0 false bkw a = Ok r ->
  xdims r = map reindexed (remove_at k (xdims a)) /\ xscal r = xscal a /\
  forall t, xat r t = App f_concat (map (fun x => xat a (insert_at k x t)) (seq 0 (size_at k a))) [] bkw.
Proof.
  intros d bkw a r k Hd Hk Hn H. rewrite (concatenate_is_reduce _ _ _ _ _ _ Hk Hn) in H.
  apply reduce_spec_drop in H as (d' & k' & Ed & Ek & H).
  unfold default_dim in Ed. apply String.eqb_neq in Hd. rewrite Hd in Ed. inversion Ed; subst d'.
  rewrite Hk in Ek. inversion Ek; subst k'. exact H.
Qed.
