(* Executable checker used by harness/c14.py for the construction log of a fluent program.
   check_build : every construction of a Payload object and of a fluent Node, in the order
     in which the real API performed them while BOTH builds of a program ran (the Payload
     objects the program holds live on from the first build to the second): per Node
     what it was given (the k-th Payload object seen, or something made on the spot), the
     name override, the inputs (earlier constructions, output taken), the number of outputs,
     and what was OBSERVED: the name (split at the last ':') and the arguments the node's
     payload held right after the construction; at the end of the case the arguments every
     node and every Payload object holds then.  The heap machine of Fluent/NamesHeap.v is run
     on the log (the hash is not evaluated in Coq: at each Node the machine's H answers
     with the observed digest, so the names of the inputs are the observed ones); compared
     are the part before ':', the arguments after each construction, all list objects at the
     end, and: two constructions have the same digest exactly when the machine hashed the
     same string -- i.e. there is an injective H under which the machine computes the
     observed names.
   Also here: the program used for the examples of Props/C14.v. *)
From Coq Require Import List String Ascii Bool Arith.
From EKW Require Import Fluent.Names Fluent.NamesCheck Fluent.NamesHeap.
Import ListNotations.
Open Scope string_scope.
Open Scope list_scope.

Inductive cstep :=
| CP (f : string) (args : list val) (kw : list (string * val))
| CN (src : nsrc) (ovr : option string) (ins : list (nat * option string)) (nout : string)
     (base digest : string) (args0 : list val).

Fixpoint vals_eqb (a b : list val) : bool :=
  match a, b with
  | [], [] => true
  | x :: r, y :: s => val_eqb x y && vals_eqb r s
  | _, _ => false
  end.

Fixpoint lists_eqb (a b : list (list val)) : bool :=
  match a, b with
  | [], [] => true
  | x :: r, y :: s => vals_eqb x y && lists_eqb r s
  | _, _ => false
  end.

(* callable identities and digests come as short aliases (injective per case; the shape of the
   real digests is checked by NamesCheck.check_names on the same nodes): letters and digits *)
Definition alnum (c : ascii) : bool :=
  let n := nat_of_ascii c in (Nat.leb 48 n && Nat.leb n 57) || (Nat.leb 97 n && Nat.leb n 122).

Definition src_ok (s : nsrc) : bool :=
  match s with
  | SPayload _ => true
  | SFunc f args kw => forallb val_ok args && forallb (fun kv => safe_str (fst kv) && val_ok (snd kv)) kw
  end.

(* run the log; collects the observed digests in construction order *)
Fixpoint check_steps (cname : string -> string) (st : state) (steps : list cstep) (digests : list string) : option (state * list string) :=
  match steps with
  | [] => Some (st, digests)
  | CP f args kw :: rest =>
      if forallb val_ok args && forallb (fun kv => safe_str (fst kv) && val_ok (snd kv)) kw then
        match exec_with (fun _ => "") cname pcopy st (BPayload f args kw) with
        | Ok st' => check_steps cname st' rest digests
        | Err _ => None
        end
      else None
  | CN src ovr ins nout base digest args0 :: rest =>
      match exec_with (fun _ => digest) cname pcopy st (BNode src ovr ins nout) with
      | Ok st' =>
          match nth_error (s_nodes st') (List.length (s_nodes st)) with
          | Some nd =>
              if src_ok src && String.eqb (n_base nd) base && safe_str base && forallb (fun x => out_ok (snd x)) ins
                 && vals_eqb (deref (s_heap st') (n_args nd)) args0 && allc alnum digest
              then check_steps cname st' rest (digests ++ [digest]) else None
          | None => None
          end
      | Err _ => None
      end
  end.

Definition check_build (c : list (string * string) * list cstep * list (list val) * list (list val)) : bool :=
  let '(table, steps, node_args, payload_args) := c in
  match check_steps (fun f => lookup_s f table) init steps [] with
  | None => false
  | Some (st, digests) =>
      lists_eqb (map (fun nd => deref (s_heap st) (n_args nd)) (s_nodes st)) node_args
      && lists_eqb (map (fun p => deref (s_heap st) (p_args p)) (s_payloads st)) payload_args
      && (let pres := List.combine (map n_pre (s_nodes st)) digests in
          Nat.eqb (List.length digests) (List.length (s_nodes st))
          && forallb (fun a => forallb (fun b => Bool.eqb (String.eqb (fst a) (fst b)) (String.eqb (snd a) (snd b))) pres) pres)
  end.

(* ------------------------------------------------------------------ the example program *)
(* P = Payload(f, kwargs={'scale': 2.0});  three sources;  src.map(P) (one input per node);
   src.reduce(P, dim) (three inputs);  then the program is built a second time: src.map(P) *)
Definition ex_f := "00000000000000000000000000000000000000000000000000000000000000c1".
Definition ex_r := "00000000000000000000000000000000000000000000000000000000000000c2".
Definition ex_cn (f : string) : string := if String.eqb f ex_f then "combine" else "read".
Definition ex_prog : list bop :=
  [BPayload ex_f [] [("scale", VAtom "2.0")];
   BNode (SFunc ex_r [VAtom "0"] []) (Some "read") [] "1";
   BNode (SFunc ex_r [VAtom "1"] []) (Some "read(1,)") [] "1";
   BNode (SFunc ex_r [VAtom "2"] []) (Some "read(2,)") [] "1";
   BNode (SPayload 0) None [(0, None)] "1";                                   (* node 3: first build, map *)
   BNode (SPayload 0) None [(0, None); (1, None); (2, None)] "1";             (* node 4: reduce *)
   BNode (SPayload 0) None [(0, None)] "1"].                                  (* node 5: second build, map *)
