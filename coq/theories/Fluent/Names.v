(* Model of node naming in earthkit.workflows.fluent (Payload.__str__, Node.__init__,
   from_source) as of the repository commits "fix: node names hash an identity of the
   callable" and "fix: node names also hash the number of outputs", and of the aliasing /
   in-place behaviour of Action operations as of the three "fix:" commits on join,
   stack/concatenate and transform.  No proofs in this file.

   Python                                   here
   ------                                   ----
   callable                                 its callable_id digest (a string); `cname`
                                            (Section variable) gives its __name__
   static argument / keyword value          val: VAtom (repr of an int, float, bool, None ...:
                                            a token without quote and list/dict delimiters)
                                            or VStr (a str without quote and backslash)
   str(list), str(dict)                     rlist, rdict (", " between items, repr of items)
   custom_hash (sha256 hexdigest)           Section variable H
   Node(payload, inputs, num_outputs, name) fnode (a tree: the inputs are nodes), nname
   x.name / f"{x.parent.name}.{x.name}"     in_name
*)
From Coq Require Import List String Ascii Bool Arith.
Import ListNotations.
Open Scope string_scope.
Open Scope list_scope.

(* ------------------------------------------------------------------ characters *)
Definition ch_quote : ascii := "'"%char.
Definition ch_colon : ascii := ":"%char.
Definition ch_dot : ascii := "."%char.
Definition ch_comma : ascii := ","%char.
Definition ch_rbrack : ascii := "]"%char.
Definition ch_rbrace : ascii := "}"%char.
Definition ch_bslash : ascii := "\"%char.

(* characters that end an item inside str(list) / str(dict) *)
Definition stopchar (c : ascii) : bool :=
  Ascii.eqb c ch_comma || Ascii.eqb c ch_rbrack || Ascii.eqb c ch_rbrace.

Definition atomchar (c : ascii) : bool := negb (stopchar c) && negb (Ascii.eqb c ch_quote).

Fixpoint allc (p : ascii -> bool) (s : string) : bool :=
  match s with EmptyString => true | String c r => p c && allc p r end.

Definition nochar (c : ascii) (s : string) : bool := allc (fun x => negb (Ascii.eqb x c)) s.

Definition hexdigits : list ascii :=
  ["0"; "1"; "2"; "3"; "4"; "5"; "6"; "7"; "8"; "9"; "a"; "b"; "c"; "d"; "e"; "f"]%char.
Definition hexchar (c : ascii) : bool := existsb (Ascii.eqb c) hexdigits.

(* a str whose repr is  ' + s + '  : no quote, no backslash (repr would escape / switch quotes) *)
Definition safe_str (s : string) : bool :=
  allc (fun c => negb (Ascii.eqb c ch_quote) && negb (Ascii.eqb c ch_bslash)) s.

(* ------------------------------------------------------------------ static values *)
Inductive val := VAtom (s : string) | VStr (s : string).

Definition val_eqb (a b : val) : bool :=
  match a, b with
  | VAtom s, VAtom t => String.eqb s t
  | VStr s, VStr t => String.eqb s t
  | _, _ => false
  end.

Definition val_ok (v : val) : bool :=
  match v with
  | VAtom s => negb (String.eqb s "") && allc atomchar s
  | VStr s => safe_str s
  end.

Definition rstr (s : string) : string := String ch_quote (s ++ String ch_quote "").

(* repr(v) *)
Definition rval (v : val) : string :=
  match v with VAtom s => s | VStr s => rstr s end.

(* ", ".join(items) *)
Fixpoint ritems {T} (rt : T -> string) (xs : list T) : string :=
  match xs with
  | [] => ""
  | x :: t => match t with [] => rt x | _ :: _ => rt x ++ ", " ++ ritems rt t end
  end.

Definition rlist (xs : list val) : string := "[" ++ ritems rval xs ++ "]".
Definition rkv (kv : string * val) : string := rstr (fst kv) ++ ": " ++ rval (snd kv).
Definition rdict (kw : list (string * val)) : string := "{" ++ ritems rkv kw ++ "}".
Definition rnames (ns : list string) : string := "[" ++ ritems rstr ns ++ "]".

(* ------------------------------------------------------------------ Node.__init__ *)
Fixpoint nat_digits (fuel n : nat) (acc : string) : string :=
  match fuel with
  | O => acc
  | S f =>
      let d := String (ascii_of_nat (48 + n mod 10)) acc in
      if Nat.ltb n 10 then d else nat_digits f (n / 10) d
  end.
Definition nat_str (n : nat) : string := nat_digits (S n) n "".

(* Node.input_name(i) *)
Definition input_name (i : nat) : string := "input" ++ nat_str i.

(* for x in range(len(inputs)): if input_name(x) not in payload.args: payload.args.append(...) *)
Fixpoint add_placeholders (args : list val) (i n : nat) : list val :=
  match n with
  | O => args
  | S n' =>
      let p := VStr (input_name i) in
      add_placeholders (if existsb (val_eqb p) args then args else args ++ [p]) (S i) n'
  end.

Definition full_args (args : list val) (nin : nat) : list val := add_placeholders args 0 nin.

Section Naming.
Variable H : string -> string.        (* custom_hash *)
Variable cname : string -> string.    (* callable (its callable_id) -> __name__ ("" if it has none) *)

(* the string that is hashed: callable_id(func) + str(payload) + str([input names]) + str(num_outputs);
   `nout` is the number of outputs as printed (a decimal token) *)
Definition preimage (f : string) (args : list val) (kw : list (string * val)) (innames : list string) (nout : string) : string :=
  f ++ cname f ++ rlist (full_args args (List.length innames)) ++ rdict kw ++ rnames innames ++ nout.

(* name given by the caller (from_source) or payload.name() *)
Definition base_name (ovr : option string) (f : string) : string :=
  match ovr with Some n => n | None => cname f end.

Definition node_name (ovr : option string) (f : string) (args : list val) (kw : list (string * val))
           (innames : list string) (nout : string) : string :=
  base_name ovr f ++ String ch_colon (H (preimage f args kw innames nout)).

(* a fluent Node with everything it was built from; an input is another node taken whole
   (None: the Node object was passed, default output) or one of its outputs (Some o) *)
Inductive fnode :=
  FN (ovr : option string) (f : string) (args : list val) (kw : list (string * val))
     (ins : list (fnode * option string)) (nout : string).

Definition in_print (pname : string) (o : option string) : string :=
  match o with None => pname | Some o => pname ++ String ch_dot o end.

Fixpoint nname (n : fnode) : string :=
  match n with
  | FN ovr f args kw ins nout =>
      node_name ovr f args kw (map (fun x => in_print (nname (fst x)) (snd x)) ins) nout
  end.

(* what the node computes: callable, static arguments as stored in the node (placeholders
   added), keywords, and for every input the computation it comes from and the output taken *)
Inductive comp := CT (f : string) (args : list val) (kw : list (string * val)) (ins : list (comp * string)).

Definition out_of (o : option string) : string := match o with None => "0" | Some o => o end.

Fixpoint comp_of (n : fnode) : comp :=
  match n with
  | FN _ f args kw ins _ =>
      CT f (full_args args (List.length ins)) kw (map (fun x => (comp_of (fst x), out_of (snd x))) ins)
  end.

(* what the caller gives besides the computation, along the tree: the label (from_source), the
   number of outputs, whether an input was handed over as Node or as Output *)
Inductive labels := LB (ovr : option string) (nout : string) (ins : list (labels * bool)).
Fixpoint labels_of (n : fnode) : labels :=
  match n with
  | FN ovr _ _ _ ins nout =>
      LB ovr nout (map (fun x => (labels_of (fst x), match snd x with None => false | Some _ => true end)) ins)
  end.

(* what lowering reads off a node (cascade.low.into.node2task): payload and, per input,
   (parent name, output name) *)
Definition lowered (n : fnode) : string * list val * list (string * val) * list (string * string) :=
  match n with
  | FN _ f args kw ins _ =>
      (f, full_args args (List.length ins), kw, map (fun x => (nname (fst x), out_of (snd x))) ins)
  end.

Definition nout_of (n : fnode) : string := match n with FN _ _ _ _ _ nout => nout end.

(* the domain of the model: strings whose repr is the plain quoted form, atoms that are
   single tokens, output names without '.' and ':' (they are str(int)), callable ids that
   are 64 characters (a hexdigest) *)
Definition out_ok (o : option string) : bool :=
  match o with
  | None => true
  | Some o => safe_str o && nochar ch_dot o && nochar ch_colon o
  end.

Fixpoint wf_node (n : fnode) : bool :=
  match n with
  | FN ovr f args kw ins _ =>
      Nat.eqb (String.length f) 64 && safe_str (base_name ovr f)
      && forallb val_ok args && forallb (fun kv => safe_str (fst kv) && val_ok (snd kv)) kw
      && forallb (fun x => wf_node (fst x) && out_ok (snd x)) ins
  end.

End Naming.

(* ------------------------------------------------------------------ from_source *)
(* name = payload.name(); if name in node_names: name += str(it.multi_index); node_names.add(name)
   `items` = (callable name, str(multi_index)) in iteration order *)
Fixpoint source_labels (items : list (string * string)) (seen : list string) : list string :=
  match items with
  | [] => []
  | (n, idx) :: r =>
      let n' := if existsb (String.eqb n) seen then (n ++ idx)%string else n in
      n' :: source_labels r (n' :: seen)
  end.

(* ------------------------------------------------------------------ actions and in-place edits *)
(* An Action is a Python object holding `nodes`, an xarray of nodes.  Of that array the
   model keeps the dimensions with their coordinate labels, the scalar coordinates, and a
   token standing for the cell contents (in-place edits of an action never change cells).
   `heap` = the actions the program can see, by creation order.  Operations of the fluent
   API work on `loc`s: an action of the heap, or a temporary that is not (yet) visible. *)
Record arr := mkArr { dims : list (string * list string); scal : list (string * string); cells : nat }.

Inductive loc := Existing (slot : nat) | Temp (a : arr).

Inductive res (A : Type) : Type := Ok (a : A) | Err (e : string).
Arguments Ok {A} a.
Arguments Err {A} e.
Definition bind {A B} (r : res A) (f : A -> res B) : res B :=
  match r with Ok a => f a | Err e => Err e end.

Definition heap := list arr.

Definition read (h : heap) (l : loc) : res arr :=
  match l with
  | Temp a => Ok a
  | Existing s => match nth_error h s with Some a => Ok a | None => Err "model:dangling" end
  end.

Fixpoint set_nth {A} (l : list A) (n : nat) (x : A) : list A :=
  match l, n with
  | [], _ => []
  | _ :: r, O => x :: r
  | y :: r, S n' => y :: set_nth r n' x
  end.

(* self.nodes = <new array>  on the object at l *)
Definition write (h : heap) (l : loc) (a : arr) : heap * loc :=
  match l with
  | Temp _ => (h, Temp a)
  | Existing s => (set_nth h s a, Existing s)
  end.

Definition has_dim (a : arr) (d : string) : bool := existsb (fun x => String.eqb (fst x) d) (dims a).
Definition has_coord (a : arr) (d : string) : bool :=
  has_dim a d || existsb (fun x => String.eqb (fst x) d) (scal a).
Definition dim_size (a : arr) (d : string) : option nat :=
  match find (fun x => String.eqb (fst x) d) (dims a) with
  | Some x => Some (List.length (snd x))
  | None => None
  end.

Fixpoint insert_at {A} (n : nat) (x : A) (l : list A) : list A :=
  match n, l with
  | O, _ => x :: l
  | S n', [] => [x]
  | S n', y :: r => y :: insert_at n' x r
  end.

(* nodes.expand_dims({name: [value]}, axis); a scalar coordinate of that name is replaced *)
Definition expand_dims (a : arr) (name value : string) (axis : nat) : arr :=
  mkArr (insert_at axis (name, [value]) (dims a))
        (filter (fun x => negb (String.eqb (fst x) name)) (scal a)) (cells a).

(* nodes.squeeze(dim, drop): the dimension of size one becomes a scalar coordinate (or goes) *)
Definition squeeze (a : arr) (d : string) (drop : bool) : arr :=
  match find (fun x => String.eqb (fst x) d) (dims a) with
  | Some (_, [v]) =>
      mkArr (filter (fun x => negb (String.eqb (fst x) d)) (dims a))
            (if drop then scal a else scal a ++ [(d, v)]) (cells a)
  | _ => a
  end.

(* Action._add_dimension(name, value, axis): in place *)
Definition add_dimension (h : heap) (l : loc) (name value : string) (axis : nat) : res (heap * loc) :=
  bind (read h l) (fun a => Ok (write h l (expand_dims a name value axis))).

(* Action._squeeze_dimension(dim, drop): in place, only if dim is a coordinate of length 1 *)
Definition squeeze_dimension (h : heap) (l : loc) (d : string) (drop : bool) : res (heap * loc) :=
  bind (read h l) (fun a =>
    if has_dim a d && match dim_size a d with Some 1 => true | _ => false end
    then Ok (write h l (squeeze a d drop)) else Ok (h, l)).

(* type(x)(x.nodes): a new Action object on the same array *)
Definition fresh_copy (h : heap) (l : loc) : res loc := bind (read h l) (fun a => Ok (Temp a)).

(* xr.concat([a, b], dim, join="exact") along an existing dimension, along a scalar coordinate
   both have (it becomes the first dimension), or along a new dimension without labels *)
Definition concat_arr (a b : arr) (d : string) (c : nat) : arr :=
  if has_dim a d then
    mkArr (map (fun x => if String.eqb (fst x) d
                         then (fst x, snd x ++ match find (fun y => String.eqb (fst y) d) (dims b) with
                                               | Some y => snd y | None => [] end)
                         else x) (dims a)) (scal a) c
  else match find (fun y => String.eqb (fst y) d) (scal a), find (fun y => String.eqb (fst y) d) (scal b) with
       | Some va, Some vb =>
           mkArr ((d, [snd va; snd vb]) :: dims a) (filter (fun x => negb (String.eqb (fst x) d)) (scal a)) c
       | _, _ => mkArr ((d, ["0"; "1"]) :: dims a) (scal a) c
       end.

(* Action.join(other, dim, match_coord_values): the other action's coordinates are
   overridden on a local copy of its array; the result is a new action *)
Definition assign_from (self other : arr) : arr :=
  mkArr (map (fun x => match find (fun y => String.eqb (fst y) (fst x)) (dims self) with
                       | Some y => (fst x, snd y) | None => x end) (dims other))
        (map (fun x => match find (fun y => String.eqb (fst y) (fst x)) (scal self) with
                       | Some y => y | None => x end) (scal other))
        (cells other).

Definition join (h : heap) (self other : loc) (d : string) (matchc : bool) (c : nat) : res (heap * loc) :=
  bind (read h self) (fun a => bind (read h other) (fun b =>
    let b' := if matchc then assign_from a b else b in
    Ok (h, Temp (concat_arr a b' d c)))).

(* reduce / map / broadcast / non-empty select build a new array from scratch: the model takes
   the observed result array (no claim about it here: that is property C13) *)
Definition atomic (h : heap) (result : arr) : res (heap * loc) := Ok (h, Temp result).

(* Action.select(criteria): `self` itself when no criterion is left after validation *)
Definition select (h : heap) (self : loc) (crit_empty : bool) (result : arr) : res (heap * loc) :=
  if crit_empty then Ok (h, self) else atomic h result.

(* _combine_nodes(action, method, dim, keep_dim) behind stack / concatenate *)
Definition combine (h : heap) (self : loc) (d : string) (keep : bool) (result : arr) : res (heap * loc) :=
  bind (read h self) (fun a =>
    match dim_size a d with
    | None => Err "KeyError"
    | Some 1 =>
        if keep then Ok (h, self)
        else bind (fresh_copy h self) (fun t => squeeze_dimension h t d false)
    | Some _ => atomic h result
    end).

(* functions handed to Action.transform *)
Inductive tfunc :=
  | TFSelf                    (* lambda action, *a: action *)
  | TFMap (c : nat)           (* e.g. _expand_transform: action.map(...), same dimensions, new cells c *)
  | TFSelect (crit_empty : bool) (result : arr).

Definition apply_tfunc (h : heap) (self : loc) (f : tfunc) : res (heap * loc) :=
  match f with
  | TFSelf => Ok (h, self)
  | TFMap c => bind (read h self) (fun a => atomic h (mkArr (dims a) (scal a) c))
  | TFSelect e r => select h self e r
  end.

(* the loop of Action.transform; `res` = None before the first parameter.
   params: (function applied, coordinate value for this parameter, cells of the joined result) *)
Fixpoint transform_loop (h : heap) (self : loc) (params : list (tfunc * string * nat))
         (d : string) (axis : nat) (acc : option loc) : res (heap * option loc) :=
  match params with
  | [] => Ok (h, acc)
  | (f, v, c) :: rest =>
      bind (apply_tfunc h self f) (fun r1 =>
      bind (fresh_copy (fst r1) (snd r1)) (fun nr =>
      bind (read (fst r1) nr) (fun a =>
      bind (if has_coord a d then Ok (fst r1, nr) else add_dimension (fst r1) nr d v axis) (fun r2 =>
      match acc with
      | None => transform_loop (fst r2) self rest d axis (Some (snd r2))
      | Some prev =>
          bind (join (fst r2) prev (snd r2) d false c) (fun r3 =>
          transform_loop (fst r3) self rest d axis (Some (snd r3)))
      end))))
  end.

Definition transform (h : heap) (self : loc) (params : list (tfunc * string * nat)) (d : string) (axis : nat)
  : res (heap * loc) :=
  bind (transform_loop h self params d axis None) (fun r =>
    match snd r with
    | None => Err "ValueError"
    | Some l => squeeze_dimension (fst r) l d false
    end).

(* public operations, on actions of the heap *)
Inductive op :=
  | OAtomic (self : nat) (others : list nat) (result : arr)   (* map, reduce, broadcast, flatten, ... *)
  | OSelect (self : nat) (crit_empty : bool) (result : arr)
  | OJoin (self other : nat) (d : string) (matchc : bool) (c : nat)
  | OBinary (self other : nat) (result : arr)                 (* add/subtract/...: join then reduce *)
  | OCombine (self : nat) (d : string) (keep : bool) (result : arr)
  | OTransform (self : nat) (params : list (tfunc * string * nat)) (d : string) (axis : nat).

(* the returned object becomes visible: a temporary gets the next slot *)
Definition publish (r : heap * loc) : heap * nat :=
  match snd r with
  | Existing s => (fst r, s)
  | Temp a => (fst r ++ [a], List.length (fst r))
  end.

Definition valid (h : heap) (s : nat) : bool := Nat.ltb s (List.length h).

Definition exec (h : heap) (o : op) : res (heap * nat) :=
  match o with
  | OAtomic s os r =>
      if valid h s && forallb (valid h) os then bind (atomic h r) (fun x => Ok (publish x)) else Err "model:dangling"
  | OSelect s e r =>
      if valid h s then bind (select h (Existing s) e r) (fun x => Ok (publish x)) else Err "model:dangling"
  | OJoin s o d m c =>
      bind (join h (Existing s) (Existing o) d m c) (fun x => Ok (publish x))
  | OBinary s o r =>
      bind (join h (Existing s) (Existing o) "**datatype**" true 0) (fun x =>
      bind (atomic (fst x) r) (fun y => Ok (publish y)))
  | OCombine s d k r =>
      bind (combine h (Existing s) d k r) (fun x => Ok (publish x))
  | OTransform s ps d ax =>
      bind (transform h (Existing s) ps d ax) (fun x => Ok (publish x))
  end.

Fixpoint run (h : heap) (ops : list op) : res heap :=
  match ops with
  | [] => Ok h
  | o :: r => bind (exec h o) (fun x => run (fst x) r)
  end.
