(* One-dimensional core of batching (what happens to the list of values along the reduced
   dimension at one fixed remaining coordinate) and the algebra behind the batched mean/std.
   No size bounds anywhere. *)
From Coq Require Import List Arith ZArith Lia Field.
From EKW Require Import Fluent.XArr Fluent.Action.
Import ListNotations.
Open Scope list_scope.

(* ------------------------------------------------------------------ arithmetic of ceil(n / bs) *)
Lemma nb_pos_lt : forall n bs b, 0 < bs -> b < nbatches n bs -> b * bs < n.
Proof.
  intros n bs b Hbs Hb. unfold nbatches in Hb.
  assert (H := Nat.mul_div_le (n + bs - 1) bs ltac:(lia)). nia.
Qed.

Lemma nb_cover : forall n bs, 0 < bs -> n <= nbatches n bs * bs.
Proof.
  intros n bs Hbs. unfold nbatches.
  assert (H := Nat.mul_succ_div_gt (n + bs - 1) bs ltac:(lia)). nia.
Qed.

Lemma nb_lt : forall n bs, 2 <= bs -> bs < n -> nbatches n bs < n.
Proof.
  intros n bs H2 Hn. unfold nbatches.
  apply Nat.div_lt_upper_bound; [lia|nia].
Qed.

Lemma nb_ge2 : forall n bs, 0 < bs -> bs < n -> 2 <= nbatches n bs.
Proof.
  intros n bs Hbs Hn. unfold nbatches. apply Nat.div_le_lower_bound; lia.
Qed.

(* ------------------------------------------------------------------ list facts *)
Lemma skipn_add {A} : forall a b (l : list A), skipn (a + b) l = skipn b (skipn a l).
Proof. induction a as [|a IH]; intros b l; [reflexivity|]. destruct l; simpl; [now rewrite skipn_nil|apply IH]. Qed.

Lemma skipn_seq : forall k s n, skipn k (seq s n) = seq (s + k) (n - k).
Proof.
  induction k as [|k IH]; intros s n; simpl.
  - now rewrite Nat.add_0_r, Nat.sub_0_r.
  - destruct n as [|n]; simpl; [reflexivity|]. rewrite IH. f_equal. lia.
Qed.

Lemma firstn_seq : forall k s n, firstn k (seq s n) = seq s (Nat.min k n).
Proof.
  induction k as [|k IH]; intros s n; simpl; [reflexivity|].
  destruct n as [|n]; simpl; [reflexivity|]. now rewrite IH.
Qed.

Section Batch1D.
  Variable V : Type.
  Variable g : list V -> V.          (* the reduction, kwargs fixed *)

  (* what _batch_transform does with one batch: a single element is passed through *)
  Definition pass (c : list V) : V := match c with [x] => x | _ => g c end.
  Definition chunk (bs b : nat) (l : list V) : list V := firstn bs (skipn (b * bs) l).
  Definition round1 (bs : nat) (l : list V) : list V :=
    map (fun b => pass (chunk bs b l)) (seq 0 (nbatches (List.length l) bs)).

  Fixpoint loop1 (fuel bs : nat) (l : list V) : option (list V) :=
    if Nat.ltb bs (List.length l) then
      match fuel with 0 => None | S fu => loop1 fu bs (round1 bs l) end
    else Some l.

  (* the batch law: reducing the per-batch results (at least two batches, none empty, singletons
     passed through) is reducing everything at once *)
  Definition batch_law : Prop :=
    forall cs : list (list V), 2 <= List.length cs -> Forall (fun c => c <> []) cs ->
      g (map pass cs) = g (concat cs).

  Lemma chunk_succ : forall bs b l, chunk bs (S b) l = chunk bs b (skipn bs l).
  Proof. intros. unfold chunk. simpl. now rewrite skipn_add. Qed.

  Lemma concat_chunks : forall bs m l, List.length l <= m * bs ->
    concat (map (fun b => chunk bs b l) (seq 0 m)) = l.
  Proof.
    intros bs m. induction m as [|m IH]; intros l Hl.
    - destruct l; [reflexivity|simpl in Hl; lia].
    - simpl. rewrite <- seq_shift, map_map.
      rewrite (map_ext _ (fun b => chunk bs b (skipn bs l))) by (intros; apply chunk_succ).
      rewrite IH by (rewrite skipn_length; lia).
      unfold chunk. simpl. apply firstn_skipn.
  Qed.

  Lemma chunk_nonempty : forall bs b l, 0 < bs -> b * bs < List.length l -> chunk bs b l <> [].
  Proof.
    intros bs b l Hbs Hb E. apply (f_equal (@List.length V)) in E. unfold chunk in E.
    rewrite firstn_length, skipn_length in E. simpl in E. lia.
  Qed.

  Lemma round1_length : forall bs l, List.length (round1 bs l) = nbatches (List.length l) bs.
  Proof. intros. unfold round1. now rewrite map_length, seq_length. Qed.

  Theorem round1_law : batch_law -> forall bs l, 0 < bs -> bs < List.length l -> g (round1 bs l) = g l.
  Proof.
    intros Hlaw bs l Hbs Hl. unfold round1.
    rewrite <- (map_map (fun b => chunk bs b l) pass).
    rewrite Hlaw.
    - now rewrite concat_chunks by (apply nb_cover; exact Hbs).
    - rewrite map_length, seq_length. apply nb_ge2; assumption.
    - apply Forall_forall. intros c Hc. apply in_map_iff in Hc as (b & <- & Hb).
      apply in_seq in Hb. apply chunk_nonempty; [exact Hbs|]. apply nb_pos_lt; [exact Hbs|lia].
  Qed.

  Theorem loop1_law : batch_law -> forall bs, 0 < bs -> forall fuel l l',
    loop1 fuel bs l = Some l' -> g l' = g l.
  Proof.
    intros Hlaw bs Hbs. induction fuel as [|fu IH]; intros l l' H; simpl in H.
    - destruct (Nat.ltb bs (List.length l)); [discriminate|]. now inversion H.
    - destruct (Nat.ltb bs (List.length l)) eqn:E.
      + apply Nat.ltb_lt in E. rewrite (IH _ _ H). apply round1_law; assumption.
      + now inversion H.
  Qed.

  (* the loop terminates within (size of the dimension) rounds whenever bs >= 2 *)
  Theorem loop1_fuel : forall bs, 2 <= bs -> forall fuel l, List.length l <= fuel ->
    exists l', loop1 fuel bs l = Some l'.
  Proof.
    intros bs Hbs. induction fuel as [|fu IH]; intros l Hl; simpl.
    - destruct (Nat.ltb bs (List.length l)) eqn:E; [apply Nat.ltb_lt in E; lia|eauto].
    - destruct (Nat.ltb bs (List.length l)) eqn:E; [|eauto].
      apply Nat.ltb_lt in E. apply IH. rewrite round1_length.
      assert (H := nb_lt (List.length l) bs Hbs E). lia.
  Qed.

  (* a batch read off positions lo .. lo+cnt-1 of a tabulated column *)
  Lemma chunk_map_seq : forall (h : nat -> V) bs b n,
    chunk bs b (map h (seq 0 n)) = map h (seq (b * bs) (Nat.min bs (n - b * bs))).
  Proof.
    intros. unfold chunk. rewrite skipn_map, firstn_map, skipn_seq, firstn_seq. reflexivity.
  Qed.
End Batch1D.

(* ------------------------------------------------------------------ a field: sum, mean, std *)
Section FieldAlgebra.
  Variables (K : Type) (k0 k1 : K) (kadd kmul ksub : K -> K -> K) (kopp : K -> K)
            (kdiv : K -> K -> K) (kinv : K -> K).
  Hypothesis Kth : field_theory k0 k1 kadd kmul ksub kopp kdiv kinv eq.
  Add Field Kfield : Kth.

  Notation "x + y" := (kadd x y).
  Notation "x * y" := (kmul x y).
  Notation "x - y" := (ksub x y).
  Notation "x / y" := (kdiv x y).

  Fixpoint of_nat (n : nat) : K := match n with 0 => k0 | S m => k1 + of_nat m end.
  Definition ksum (l : list K) : K := fold_right kadd k0 l.
  Definition sq (x : K) : K := x * x.

  Lemma ksum_app : forall l m, ksum (l ++ m) = ksum l + ksum m.
  Proof. induction l as [|x l IH]; intros m; simpl; [ring|rewrite IH; ring]. Qed.

  Lemma ksum_concat : forall cs, ksum (concat cs) = ksum (map ksum cs).
  Proof. induction cs as [|c cs IH]; simpl; [reflexivity|]. now rewrite ksum_app, IH. Qed.

  (* sum satisfies the batch law (singletons passed through) *)
  Theorem sum_batch_law : batch_law K ksum.
  Proof.
    intros cs _ _. rewrite ksum_concat. f_equal. apply map_ext_in. intros c _.
    destruct c as [|x [|y c]]; simpl; try reflexivity. ring.
  Qed.

  (* sum of squared deviations from ANY m *)
  Lemma dev_expand : forall m l,
    ksum (map (fun x => sq (x - m)) l) =
    ksum (map sq l) - (k1 + k1) * m * ksum l + of_nat (List.length l) * sq m.
  Proof. intros m. induction l as [|x l IH]; simpl; [unfold sq; ring|]. rewrite IH. unfold sq. ring. Qed.

  (* variance identity behind Action.std with a batch size:
     sum (x - mu)^2 / n  =  sum x^2 / n  -  (sum x / n)^2      with mu = sum x / n *)
  Theorem variance_identity : forall l,
    of_nat (List.length l) <> k0 ->
    let n := of_nat (List.length l) in
    let mu := ksum l / n in
    ksum (map (fun x => sq (x - mu)) l) / n = ksum (map sq l) / n - sq (ksum l / n).
  Proof.
    intros l Hn n mu. unfold mu. rewrite dev_expand. fold n. unfold sq. field. exact Hn.
  Qed.
End FieldAlgebra.
