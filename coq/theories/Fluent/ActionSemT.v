(* What a fluent graph computes on array payloads WITH ELEMENT TYPES.

   Fluent/ActionSem.v interprets the callables the fluent layer puts into nodes on exact rational
   arrays and is silent about dtypes; under it "sum the inputs" and "fold the inputs pairwise with
   xp.add" are the same function.  On NumPy arrays they are not: np.sum / np.prod ACCUMULATE booleans
   and narrow integers in the platform integer (a sum of masks is a count, int8 sums do not wrap at
   127), whereas a + b stays in the element type of its operands (True + True = True, int8 wraps).
   This file gives every value its element type (Backends/Dtype.v, imported read-only):

     store d t      how NumPy stores an exact result in element type d: integers wrap around
                    (two's complement, modulo 2^bits), booleans collapse to non-zero, floating-point
                    types hold the exact value or the value is OUTSIDE THE MODEL (rounding);
     applyT         the arguments are converted to their common element type (xp.asarray finds it
                    pairwise from the left for the multi-argument reductions, np.result_type
                    everywhere else), the exact operation of Backends/Ops.v is applied, the result
                    is stored in the operation's result type (Dtype.op_dtype: sum/prod accumulate,
                    mean/divide are floating point, the others keep the common type);
     scalar_dtype   a Python scalar operand is "weak": an int takes the array's type (int64 beside
                    a boolean array) and must fit it, a float makes integers float64;
     apTT           payload.func applied to typed input values, statics and kwargs;
     fold_sem       the foil: functools.reduce(xp.<elementwise>, args), what an "optimised"
                    reduction that folds its inputs pairwise computes.

   No proofs in this file (Fluent/ActionSemTProofs.v). *)
From Coq Require Import List NArith ZArith String Bool.
From Coq Require QArith Qcanon.
From EKW Require Import Fluent.XArr Fluent.Action Fluent.ActionProofs Fluent.ActionSem.
From EKW Require Backends.Tensor Backends.Ops Backends.Dtype.
Import ListNotations.
Open Scope string_scope.
Open Scope list_scope.

Module BD := EKW.Backends.Dtype.

Definition tarr : Type := (BD.dtype * BT.tensor)%type.
Definition tval : Type := BT.res tarr.

Definition is_int (d : BD.dtype) : bool :=
  match BD.kind_of d with BD.KInt _ _ => true | BD.KFloat _ _ _ => false end.

Definition store (d : BD.dtype) (t : BT.tensor) : tval :=
  if is_int d then BT.Ok (d, BD.convert d t)
  else if BD.all_repr d t then BT.Ok (d, t) else BT.Err "rounding-outside-model".

(* NumPy refuses to subtract booleans *)
Definition refused (c : BO.call) (D : BD.dtype) : bool :=
  match c with
  | BO.CBin n _ _ => (n =? "subtract") && BD.dtype_eqb D BD.DBool
  | _ => false
  end.

Definition applyT (seq : bool) (c : BO.call) (ds : list BD.dtype) : tval :=
  match BD.common_of seq ds with
  | None => BT.Err "ValueError"
  | Some D =>
      if refused c D then BT.Err "TypeError" else
      let c' := BD.map_inputs (BD.convert D) c in
      if forallb (BD.all_repr D) (BD.call_inputs c') then
        BT.bind (BO.apply c') (store (BD.op_dtype c D))
      else BT.Err "rounding-outside-model"
  end.

Fixpoint all_okT (vs : list tval) : BT.res (list tarr) :=
  match vs with
  | [] => BT.Ok []
  | BT.Err e :: _ => BT.Err e
  | BT.Ok t :: r => match all_okT r with
                    | BT.Ok ts => BT.Ok (t :: ts)
                    | BT.Err e => BT.Err e
                    end
  end.

Definition is_float (d : BD.dtype) : bool := negb (is_int d).

(* the element type a Python scalar operand takes beside an array of element type d *)
Definition scalar_dtype (d : BD.dtype) (float_lit : bool) : BD.dtype :=
  if float_lit then (if is_float d then d else BD.DF64)
  else (if BD.dtype_eqb d BD.DBool then BD.DI64 else d).

Definition qhalf : Qcanon.Qc := Qcanon.Q2Qc (QArith_base.Qmake 1 2).

(* array <op> Python scalar *)
Definition bin_scalar (u : string) (a : tarr) (q : Qcanon.Qc) (float_lit : bool) : tval :=
  let sd := scalar_dtype (fst a) float_lit in
  if BD.repr sd q then applyT false (BO.CBin u (snd a) (BT.T [] (BT.Leaf q))) [fst a; sd]
  else BT.Err "OverflowError".

Definition outsideT : tval := BT.Err "uninterpreted-outside-model".

Definition apTT (f : fn) (vs : list tval) (ex : list cv) (kw : kwargs) : tval :=
  match all_okT vs with
  | BT.Err e => BT.Err e
  | BT.Ok tas =>
      let ts := map snd tas in
      let ds := map fst tas in
      let n := fname f in
      if n =? "trivial" then
        match tas, ex, kw with [t], [], [] => BT.Ok t | _, _, _ => outsideT end
      else if n =? "take" then
        match ts, ex, kw_only "dim" kw with
        | [t], [CZ i], Some (CZ d) => applyT false (BO.CTake t (inl i) d) ds
        | _, _, _ => outsideT
        end
      else if n =? "stack" then
        match ex, kw_only "axis" kw with
        | [], Some (CZ a) => applyT false (BO.CStack ts a) ds
        | _, _ => outsideT
        end
      else if n =? "concat" then
        match ex, kw with
        | [], [] => applyT false (BO.CConcat ts 0) ds
        | [], _ => match kw_only "axis" kw with Some (CZ a) => applyT false (BO.CConcat ts a) ds | _ => outsideT end
        | _, _ => outsideT
        end
      else if is_reduction n then
        (* _xp_multi_args: xp.<n>(xp.asarray(args), axis=0) *)
        match ex, kw with
        | [], [] => applyT true (BO.CReduce n ts None) ds
        | _, _ => outsideT
        end
      else match bin_name n with
           | Some u =>
               match tas, ex, kw with
               | [a; b], [], [] => applyT false (BO.CBin u (snd a) (snd b)) ds
               | [a], [CZ c], [] => bin_scalar u a (qz c) false
               | [a], [CF c], [] => bin_scalar u a (qz c) true
               | [a], [CHalf], [] => bin_scalar u a qhalf true
               | _, _, _ => outsideT
               end
           | None => outsideT
           end
  end.

Definition src_ofT (srcs : list tarr) (i : N) : tval :=
  if (i <? 4096)%N then
    match nth_error srcs (N.to_nat i) with Some t => BT.Ok t | None => BT.Err "NoSuchSource" end
  else BT.Err "NoSuchSource".

Definition evTT (srcs : list tarr) (e : expr) : tval := ev tval (src_ofT srcs) apTT e.
Definition valuesT (srcs : list tarr) (a : xarr) : list tval := map (evTT srcs) (cells a).

(* ------------------------------------------------------------------ the foil *)
(* NumPy ufunc an "accumulate input by input" rewrite of a reduction would fold with *)
Definition elementwise_of (n : string) : option string :=
  if n =? "sum" then Some "add" else if n =? "prod" then Some "multiply" else None.

Definition bin2 (u : string) (x y : tval) : tval :=
  match x, y with
  | BT.Ok a, BT.Ok b => applyT false (BO.CBin u (snd a) (snd b)) [fst a; fst b]
  | BT.Err e, _ => BT.Err e
  | _, BT.Err e => BT.Err e
  end.

(* functools.reduce(xp.<u>, args) *)
Definition fold_sem (u : string) (vs : list tval) : tval :=
  match vs with
  | [] => BT.Err "TypeError"
  | v :: r => fold_left (bin2 u) r v
  end.

(* the SAME graph under an interpretation whose sum / prod fold their inputs pairwise *)
Definition apFold (f : fn) (vs : list tval) (ex : list cv) (kw : kwargs) : tval :=
  match elementwise_of (fname f), ex, kw, vs with
  | Some u, [], [], _ :: _ :: _ => fold_sem u vs
  | _, _, _, _ => apTT f vs ex kw
  end.

(* ------------------------------------------------------------------ one element, integers only *)
(* The batching theorems of Fluent/ActionProofs.v hold for ANY value type and interpretation that obey
   the batch law.  For integer / boolean arrays of ONE element type d the law can be proved with
   wrap-around included, pointwise: an element is an integer that is either still of type d (wide =
   false: a source, or a batch of one passed through) or already of the accumulator type acc_dtype d
   (wide = true: the result of a sum / prod); lo..hi is the accumulator's range (int64 / uint64).
   sum / prod of such elements: converted to the accumulator type (lossless: d widens to it),
   added / multiplied there modulo 2^64. *)
Inductive iv : Type := IV (wide : bool) (v : Z) | IErr.

Definition iv_err (x : iv) : bool := match x with IErr => true | IV _ _ => false end.
Definition iv_val (x : iv) : Z := match x with IV _ v => v | IErr => 0%Z end.
Definition zsum (l : list Z) : Z := fold_right Z.add 0%Z l.
Definition zprod (l : list Z) : Z := fold_right Z.mul 1%Z l.

Definition accI (lo hi : Z) (op : list Z -> Z) (vs : list iv) : iv :=
  match vs with
  | [] => IErr
  | _ => if existsb iv_err vs then IErr else IV true (BD.wrap lo hi (op (map iv_val vs)))
  end.

Definition apI (lo hi : Z) (f : fn) (vs : list iv) (ex : list cv) (kw : kwargs) : iv :=
  match ex with
  | [] => if fname f =? "sum" then accI lo hi zsum vs
          else if fname f =? "prod" then accI lo hi zprod vs
          else IErr
  | _ => IErr
  end.

Definition int_bounds (d : BD.dtype) : Z * Z :=
  match BD.kind_of d with BD.KInt lo hi => (lo, hi) | BD.KFloat _ _ _ => (0, 0)%Z end.
