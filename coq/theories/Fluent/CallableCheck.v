(* Executable checker used by harness/c14.py for callable_id, a concrete injective repr for
   the non-vacuity examples, and callable_id as it was before the fix: commit / as a variant
   that prints the receiver without its identity.
   check_callables : per program, for every callable the real API was given, the harness
     reports what the Python object is made of (module, qualified name, code object with its
     constants, defaults, closure contents, repr of the receiver / of the object; read off the
     object by the harness, not by callable_id), its __name__ ("" if none) and the digest in the
     name of a node without inputs and statics built from it (Node(callable).name after the
     last ':': a hash of callable_id, the name and constants).
     The hash is not evaluated in Coq; the comparison is: every description is in the domain,
     every digest is 64 hex characters, and two callables have the same digest exactly when
     their descriptions and names are equal -- i.e. there are injective H, R with
     observed name = node_name H ... (cid H R description) ... for all callables of the case. *)
From Coq Require Import List String Ascii Bool Arith.
From EKW Require Import Fluent.Names Fluent.NamesCheck Fluent.Callable.
Import ListNotations.
Open Scope string_scope.
Open Scope list_scope.

Definition check_callables (c : list (dv * string * string)) : bool :=
  forallb (fun x => wf_callable (fst (fst x)) && digest_like (snd x)) c
  && forallb (fun a => forallb (fun b =>
       Bool.eqb (dv_eqb (fst (fst a)) (fst (fst b)) && String.eqb (snd (fst a)) (snd (fst b)))
                (String.eqb (snd a) (snd b))) c) c.

(* ------------------------------------------------------------------ a concrete injective repr *)
(* not Python's: every value starts with a letter, strings are hex-encoded and closed by '.',
   containers are closed by ')' *)
Definition serl {T} (f : T -> string) : list T -> string :=
  fix go (l : list T) : string := match l with [] => ")" | x :: r => (f x ++ go r)%string end.

Definition sers (s : string) : string := ("S" ++ hexenc s ++ ".")%string.

Fixpoint ser (v : pv) : string :=
  match v with
  | PStr s => sers s
  | PNone => "N"
  | PTuple l => ("T" ++ serl ser l)%string
  | PList l => ("L" ++ serl ser l)%string
  | PDict l => ("D" ++ serl (fun kv : string * pv => let (k, x) := kv in (sers k ++ ser x)%string) l)%string
  end.

(* ------------------------------------------------------------------ variants of the code *)
(* before "fix: callable_id hashes the repr of every callable that is not a Python function":
   the repr was appended only without a __qualname__ or with a __self__ *)
Definition cid_other_legacy (H : string -> string) (R : pv -> string)
           (m q : option string) (has_self : bool) (r : string) : string :=
  H (R (PList ([popt m; popt q] ++
               (if (match q with None => true | Some _ => false end) || has_self then [PStr r] else [])))).

(* a variant that prints the receiver of a bound method by its class only (no address, no state) *)
Definition cid_method_by_class (H : string -> string) (R : pv -> string) (class_of : string -> string) (v : dv) : string :=
  match v with
  | DFunc m q c ds kk kv cl s => cid H R (DFunc m q c ds kk kv cl (class_of s))
  | _ => cid H R v
  end.
