(* Executable transcription of earthkit.workflows.fluent.Action (src/earthkit/workflows/fluent.py,
   with the `fix:` commits of branch verif-C13) over the mini-xarray of Fluent/XArr.v.
   Every Python `raise` that a well-typed call can reach is an `Err <exception class>`;
   `Err "Unsupported"` marks inputs outside the modelled fragment (mixed indexed/unindexed
   dimensions, dimension orders that xarray would re-align) -- theorems speak about `Ok`. *)
From Coq Require Import List Arith ZArith String Bool Lia DecimalString DecimalNat Decimal.
From EKW Require Import Fluent.XArr.
Import ListNotations.
Open Scope string_scope.
Open Scope list_scope.

Definition str_of_nat (n : nat) : string := NilZero.string_of_uint (Nat.to_uint n).

Definition F (n : string) (b : bool) : fn := {| fname := n; fbatch := b |}.
(* backends.<name>: the batchable flags are what backends/__init__.py declares; the
   correspondence run reads the real attribute of every callable it meets *)
Definition f_sum := F "sum" true.
Definition f_prod := F "prod" true.
Definition f_min := F "min" true.
Definition f_max := F "max" true.
Definition f_mean := F "mean" false.
Definition f_std := F "std" false.
Definition f_stack := F "stack" false.
Definition f_concat := F "concat" true.
Definition f_add := F "add" false.
Definition f_sub := F "subtract" false.
Definition f_mul := F "multiply" false.
Definition f_div := F "divide" false.
Definition f_pow := F "pow" false.
Definition f_take := F "take" false.
Definition f_trivial := F "trivial" false.

Fixpoint mapM {A B} (f : A -> res B) (l : list A) : res (list B) :=
  match l with
  | [] => Ok []
  | x :: r => do y <- f x; do ys <- mapM f r; Ok (y :: ys)
  end.

(* ------------------------------------------------------------------ map *)
(* Action.map(Payload(f, args=(input0, *extra), kwargs=kw)) *)
Definition a_map (f : fn) (extra : list cv) (kw : kwargs) (a : xarr) : xarr :=
  {| xdims := xdims a; xscal := xscal a; xat := fun idx => App f [xat a idx] extra kw |}.

(* ------------------------------------------------------------------ reduce *)
Definition reindexed (d : dimn) : dimn := {| dname := dname d; dcoords := dcoords d; dindexed := true |}.

Definition size_at (k : nat) (a : xarr) : nat := dsize (nth k (xdims a) dflt_dim).

(* the node loop of Action.reduce: one node per remaining coordinate, consuming the nodes
   along axis k in coordinate order *)
Definition reduce_core (f : fn) (kw : kwargs) (k : nat) (a : xarr) : xarr :=
  {| xdims := map reindexed (remove_at k (xdims a));
     xscal := xscal a;
     xat := fun t => App f (map (fun x => xat a (insert_at k x t)) (seq 0 (size_at k a))) [] kw |}.

Definition nbatches (n bs : nat) : nat := (n + bs - 1) / bs.

(* one round of  batched.transform(_batch_transform, [({dim: lst[i:i+bs]}, payload) for i in range(0, n, bs)], newname):
   every batch is selected (drop=True), reduced -- or only squeezed when it has one element --
   given the new dimension at axis 0 with coordinate = batch number, and the results are
   joined along it *)
Definition batch_round (f : fn) (kw : kwargs) (k bs : nat) (newname : string) (a : xarr) : xarr :=
  let n := size_at k a in
  {| xdims := {| dname := newname; dcoords := zrange (nbatches n bs); dindexed := true |}
              :: map reindexed (remove_at k (xdims a));
     xscal := xscal a;
     xat := fun idx =>
       let b := hd 0 idx in let t := tl idx in
       let lo := b * bs in
       let cnt := Nat.min bs (n - lo) in
       if Nat.eqb cnt 1 then xat a (insert_at k lo t)
       else App f (map (fun x => xat a (insert_at k x t)) (seq lo cnt)) [] kw |}.

(* the while loop of Action.reduce; fuel = size of the reduced dimension (never runs out for
   bs >= 2, see ActionProofs.batch_loop_fuel) *)
Fixpoint batch_loop (fuel : nat) (f : fn) (kw : kwargs) (bs level : nat) (name : string) (k : nat) (a : xarr)
  : res (xarr * nat) :=
  if Nat.ltb bs (size_at k a) then
    match fuel with
    | 0 => Err "OutOfFuel"
    | S fu =>
        let nm := String.append "batch." (String.append (str_of_nat level) (String.append "." name)) in
        batch_loop fu f kw bs (S level) nm 0 (batch_round f kw k bs nm a)
    end
  else Ok (a, k).

Definition default_dim (d : string) (a : xarr) : res string :=
  if String.eqb d "" then match xdims a with [] => Err "IndexError" | d0 :: _ => Ok (dname d0) end else Ok d.

Definition kept_label (d : dimn) : cv := CKept (hd (CZ 0) (dcoords d)) (last (dcoords d) (CZ 0)).

Definition a_reduce (f : fn) (kw : kwargs) (d : string) (bs : nat) (keep : bool) (a : xarr) : res xarr :=
  do d' <- default_dim d a;
  do bk <- (if Nat.ltb 1 bs then
              match find_dim d' (xdims a) with
              | None => Err "KeyError"
              | Some k =>
                  if Nat.ltb bs (size_at k a) then
                    if negb (fbatch f) then Err "ValueError"
                    else if negb (forallb dindexed (xdims a)) then Err "Unsupported"
                    else if negb (nodupb (dcoords (nth k (xdims a) dflt_dim))) then Err "InvalidIndexError"
                    else do r <- batch_loop (size_at k a) f kw bs 0 d' k a; Ok (fst r, Some (snd r))
                  else Ok (a, Some k)
              end
            else Ok (a, find_dim d' (xdims a)));
  match snd bk with
  | None => Err "ValueError"
  | Some k =>
      let r := reduce_core f kw k (fst bk) in
      if keep then
        match find_dim d' (xdims a) with
        | Some k0 => x_expand_dims d' (kept_label (nth k0 (xdims a) dflt_dim)) (Z.of_nat k0) r
        | None => Err "ValueError"
        end
      else Ok r
  end.

(* ------------------------------------------------------------------ two-argument methods *)
Definition a_scalar_op (f : fn) (c : cv) (kw : kwargs) (a : xarr) : xarr := a_map f [c] kw a.

(* join(match_coord_values=True): coordinates of `x` overwrite the same-named ones of `y` *)
Definition match_coords (x y : xarr) : res xarr :=
  do ds <- mapM (fun dy =>
            match find_dim (dname dy) (xdims x) with
            | Some k =>
                let dx := nth k (xdims x) dflt_dim in
                if dindexed dx && dindexed dy then
                  if Nat.eqb (dsize dx) (dsize dy)
                  then Ok {| dname := dname dy; dcoords := dcoords dx; dindexed := true |}
                  else Err "CoordinateValidationError"
                else if dindexed dx || dindexed dy then Err "Unsupported" else Ok dy
            | None => match lookup (dname dy) (xscal x) with
                      | Some _ => if dindexed dy then Err "Unsupported" else Ok dy
                      | None => Ok dy end
            end) (xdims y);
  do sc <- mapM (fun p : string * cv =>
            match lookup (fst p) (xscal x) with
            | Some v => Ok (fst p, v)
            | None => match find_dim (fst p) (xdims x) with
                      | Some k => if dindexed (nth k (xdims x) dflt_dim) then Err "Unsupported" else Ok p
                      | None => Ok p end
            end) (xscal y);
  Ok {| xdims := ds; xscal := sc; xat := xat y |}.

Definition a_join (name : string) (given : option (list cv)) (matchc : bool) (a b : xarr) : res xarr :=
  do b' <- (if matchc then match_coords a b else Ok b);
  x_concat name given a b'.

(* Action.__two_arg_method with an Action operand *)
Definition a_bin (f : fn) (kw : kwargs) (a b : xarr) : res xarr :=
  do j <- a_join "**datatype**" None true a b;
  a_reduce f kw "" 0 false j.

(* ------------------------------------------------------------------ mean / std *)
Definition a_mean (d : string) (bs : nat) (keep : bool) (bkw : kwargs) (a : xarr) : res xarr :=
  do d' <- default_dim d a;
  if Nat.leb bs 1 then a_reduce f_mean bkw d' 0 keep a else
  match find_dim d' (xdims a) with
  | None => Err "KeyError"
  | Some k =>
      let n := size_at k a in
      if Nat.leb n bs then a_reduce f_mean bkw d' 0 keep a
      else do s <- a_reduce f_sum bkw d' bs keep a;
           Ok (a_scalar_op f_div (CZ (Z.of_nat n)) [] s)
  end.

Definition a_std (d : string) (bs : nat) (keep : bool) (bkw : kwargs) (a : xarr) : res xarr :=
  do d' <- default_dim d a;
  if Nat.leb bs 1 then a_reduce f_std bkw d' 0 keep a else
  match find_dim d' (xdims a) with
  | None => Err "KeyError"
  | Some k =>
      let n := size_at k a in
      if Nat.leb n bs then a_reduce f_std bkw d' 0 keep a
      else
        do m <- a_mean d' bs keep bkw a;
        let mean_sq := a_scalar_op f_pow (CZ 2) [] m in
        (* self.power(2.0): a FLOAT exponent, so that integer / boolean arrays are squared in floating point
           and not in their own element type (fix4-C13) *)
        do s <- a_reduce f_sum bkw d' bs keep (a_scalar_op f_pow (CF 2) [] a);
        let norm := a_scalar_op f_div (CZ (Z.of_nat n)) [] s in
        do df <- a_bin f_sub [] norm mean_sq;
        Ok (a_scalar_op f_pow CHalf [] df)
  end.

(* ------------------------------------------------------------------ stack / concatenate / flatten *)
Definition combine_nodes (f : fn) (kw : kwargs) (d : string) (bs : nat) (keep : bool) (a : xarr) : res xarr :=
  match find_dim d (xdims a) with
  | None => Err "KeyError"
  | Some k =>
      if Nat.eqb (size_at k a) 1 then (if keep then Ok a else x_squeeze d false a)
      else a_reduce f kw d bs keep a
  end.

Definition a_stack (d : string) (bs : nat) (keep : bool) (axis : Z) (bkw : kwargs) (a : xarr) : res xarr :=
  combine_nodes f_stack (("axis", CZ axis) :: bkw) d bs keep a.
Definition a_concatenate (d : string) (bs : nat) (keep : bool) (bkw : kwargs) (a : xarr) : res xarr :=
  combine_nodes f_concat bkw d bs keep a.
Definition a_flatten (d : string) (axis : Z) (bkw : kwargs) (a : xarr) : res xarr :=
  a_reduce f_stack (("axis", CZ axis) :: bkw) d 0 false a.

(* ------------------------------------------------------------------ transform / expand *)
Fixpoint transform_loop {P} (body : P -> res xarr) (name : string) (vals : list cv) (axis : Z)
         (params : list P) (i : nat) (acc : option xarr) : res (option xarr) :=
  match params with
  | [] => Ok acc
  | p :: rest =>
      do r <- body p;
      do r' <- (if has_coord name r then Ok r
                else match nth_error vals i with
                     | Some v => x_expand_dims name v axis r
                     | None => Err "IndexError" end);
      do acc' <- match acc with None => Ok r' | Some c => x_concat name None c r' end;
      transform_loop body name vals axis rest (S i) (Some acc')
  end.

Definition transform {P} (body : P -> res xarr) (name : string) (vals : option (list cv)) (axis : Z)
           (params : list P) : res xarr :=
  let vs := match vals with Some v => v | None => zrange (List.length params) end in
  do r <- transform_loop body name vs axis params 0 None;
  match r with
  | None => Err "ValueError"
  | Some c => x_squeeze name false c
  end.

Definition a_expand (name : string) (vals : option (list cv)) (internal : cv) (sel : nat + list cv)
           (axis : Z) (bkw : kwargs) (a : xarr) : res xarr :=
  let idxs := match sel with inl n => zrange n | inr l => l end in
  if match vals with Some vs => negb (Nat.eqb (List.length vs) (List.length idxs)) | None => false end
  then Err "ValueError"
  else transform (fun i => Ok (a_map f_take [i] (("dim", internal) :: bkw) a)) name vals axis idxs.

(* ------------------------------------------------------------------ select / iselect *)
Fixpoint validate_sel (crit : list (string * selv)) (a : xarr) : res (list (string * selv)) :=
  match crit with
  | [] => Ok []
  | (key, v) :: r =>
      do rest <- validate_sel r a;
      match find_dim key (xdims a) with
      | Some _ => Ok ((key, v) :: rest)
      | None =>
          match lookup key (xscal a), v with
          | Some c, SOne c' => if cv_eqb c c' then Ok rest else Err "NotImplementedError"
          | Some _, SMany _ => Err "Unsupported"
          | None, _ => Err "NotImplementedError"
          end
      end
  end.

Fixpoint fold_res {A B} (f : B -> A -> res B) (l : list A) (b : B) : res B :=
  match l with [] => Ok b | x :: r => do b' <- f b x; fold_res f r b' end.

Definition a_select (crit : list (string * selv)) (drop : bool) (a : xarr) : res xarr :=
  do c <- validate_sel crit a;
  fold_res (fun x kv => x_sel1 (fst kv) (snd kv) drop x) c a.

Fixpoint validate_isel (crit : list (string * iselv)) (a : xarr) : res (list (string * iselv)) :=
  match crit with
  | [] => Ok []
  | (key, v) :: r =>
      do rest <- validate_isel r a;
      match find_dim key (xdims a) with
      | Some _ => Ok ((key, v) :: rest)
      | None =>
          match lookup key (xscal a), v with
          | Some c, IOne i => if cv_eqb c (CZ i) then Ok rest else Err "NotImplementedError"
          | Some _, IMany _ => Err "Unsupported"
          | None, _ => Err "NotImplementedError"
          end
      end
  end.

Definition a_iselect (crit : list (string * iselv)) (drop : bool) (a : xarr) : res xarr :=
  do c <- validate_isel crit a;
  fold_res (fun x kv => x_isel1 (fst kv) (snd kv) drop x) c a.

(* ------------------------------------------------------------------ one batching round, transcribed *)
(* _batch_transform(action, {dim: labels}, payload): select the labels (drop=True); a batch of
   one element is only squeezed, otherwise reduced with the payload *)
Definition batch_body (f : fn) (kw : kwargs) (dim : string) (labels : list cv) (a : xarr) : res xarr :=
  do sel <- a_select [(dim, SMany labels)] true a;
  match find_dim dim (xdims sel) with
  | None => Ok sel
  | Some k => if Nat.eqb (size_at k sel) 1 then x_squeeze dim true sel
              else a_reduce f kw dim 0 false sel
  end.

(* lst[i : i + bs] for i in range(0, len(lst), bs) *)
Definition label_chunks (bs : nat) (cs : list cv) : list (list cv) :=
  map (fun b => firstn bs (skipn (b * bs) cs)) (seq 0 (nbatches (List.length cs) bs)).

(* batched.transform(_batch_transform, [({dim: chunk}, payload) ...], newname): the statement of
   the while loop in Action.reduce, through the generic transform.  Action.batch_round is its
   closed form (ActionTransform.batch_round_transcription proves them equal cell by cell). *)
Definition batch_round_t (f : fn) (kw : kwargs) (dim : string) (bs : nat) (newname : string) (a : xarr) : res xarr :=
  match find_dim dim (xdims a) with
  | None => Err "KeyError"
  | Some k => transform (fun labels => batch_body f kw dim labels a) newname None 0
                        (label_chunks bs (dcoords (nth k (xdims a) dflt_dim)))
  end.

(* ------------------------------------------------------------------ broadcast *)
Definition bcast_check (a b : xarr) (excl : list string) : res unit :=
  do _ <- mapM (fun db =>
      if negb (dindexed db) || in_names (dname db) excl then Ok tt else
      match find_dim (dname db) (xdims a) with
      | Some k => let da := nth k (xdims a) dflt_dim in
                  if dindexed da then
                    (if list_eqb cv_eqb (dcoords da) (dcoords db) then Ok tt else Err "AssertionError")
                  else Ok tt
      | None => match lookup (dname db) (xscal a) with Some _ => Err "Unsupported" | None => Ok tt end
      end) (xdims b);
  do _ <- mapM (fun p : string * cv =>
      if in_names (fst p) excl then Ok tt else
      match lookup (fst p) (xscal a) with
      | Some v => if cv_eqb v (snd p) then Ok tt else Err "AssertionError"
      | None => match find_dim (fst p) (xdims a) with
                | Some k => if dindexed (nth k (xdims a) dflt_dim) then Err "Unsupported" else Ok tt
                | None => Ok tt end
      end) (xscal b);
  Ok tt.

Definition a_broadcast (excl : list string) (a b : xarr) : res xarr :=
  do _ <- bcast_check a b excl;
  (* shared unindexed dimensions must agree in size; an indexed/unindexed mix is not modelled *)
  do _ <- mapM (fun db => if in_names (dname db) excl then Ok tt else
            match find_dim (dname db) (xdims a) with
            | Some k => let da := nth k (xdims a) dflt_dim in
                        if Bool.eqb (dindexed da) (dindexed db) && Nat.eqb (dsize da) (dsize db)
                        then Ok tt else Err "Unsupported"
            | None => Ok tt end) (xdims b);
  Ok (a_map f_trivial [] [] (x_broadcast_like a b excl)).

(* ------------------------------------------------------------------ programs *)
Inductive tbody : Type :=
| TBMap (f : fn) (kw : kwargs)          (* lambda act, p: act.map(Payload(f, (input0, p), kw)) *)
| TBSel (d : string) (drop : bool).     (* lambda act, p: act.select({d: p}, drop=drop) *)

Inductive named : Type := NSum | NProd | NMin | NMax.
Definition named_fn (n : named) : fn :=
  match n with NSum => f_sum | NProd => f_prod | NMin => f_min | NMax => f_max end.

Inductive instr : Type :=
| ISource (dims : list (string * list cv)) (base : N)
| IMap (a : nat) (f : fn) (kw : kwargs)
| IReduce (a : nat) (f : fn) (kw : kwargs) (d : string) (bs : nat) (keep : bool)
| INamed (a : nat) (n : named) (d : string) (bs : nat) (keep : bool) (bkw : kwargs)
| IMean (a : nat) (d : string) (bs : nat) (keep : bool) (bkw : kwargs)
| IStd (a : nat) (d : string) (bs : nat) (keep : bool) (bkw : kwargs)
| IStack (a : nat) (d : string) (bs : nat) (keep : bool) (axis : Z) (bkw : kwargs)
| IConcat (a : nat) (d : string) (bs : nat) (keep : bool) (bkw : kwargs)
| IFlatten (a : nat) (d : string) (axis : Z) (bkw : kwargs)
| IExpand (a : nat) (name : string) (vals : option (list cv)) (internal : cv) (sel : nat + list cv) (axis : Z) (bkw : kwargs)
| ISelect (a : nat) (crit : list (string * selv)) (drop : bool)
| IIselect (a : nat) (crit : list (string * iselv)) (drop : bool)
| IBroadcast (a b : nat) (excl : list string)
| IJoin (a b : nat) (name : string) (given : option (list cv)) (matchc : bool)
| IBinA (a b : nat) (f : fn) (kw : kwargs)
| IBinC (a : nat) (f : fn) (c : cv) (kw : kwargs)
| ITransform (a : nat) (body : tbody) (params : list cv) (name : string) (vals : option (list cv)) (axis : Z)
(* a.transform(_batch_transform, [({d: lst[i:i+bs]}, Payload(f, kwargs=kw)) for i in range(0, n, bs)], name):
   one round of the batching loop, called directly *)
| IBatchRound (a : nat) (f : fn) (kw : kwargs) (d : string) (bs : nat) (name : string).

Fixpoint ravel (sh idx : list nat) : nat :=
  match sh, idx with
  | _ :: r, i :: t => i * fold_right Nat.mul 1 r + ravel r t
  | _, _ => 0
  end.

(* from_source over an array of payloads: source number = base + row-major position *)
Definition a_source (dims : list (string * list cv)) (base : N) : xarr :=
  let ds := map (fun p => {| dname := fst p; dcoords := snd p; dindexed := true |}) dims in
  {| xdims := ds; xscal := [];
     xat := fun idx => Src (base + N.of_nat (ravel (map dsize ds) idx)) |}.

Definition getv (env : list xarr) (i : nat) : res xarr :=
  match nth_error env i with Some a => Ok a | None => Err "BadProgram" end.

Definition step (env : list xarr) (ins : instr) : res xarr :=
  match ins with
  | ISource dims base => Ok (a_source dims base)
  | IMap a f kw => do x <- getv env a; Ok (a_map f [] kw x)
  | IReduce a f kw d bs keep => do x <- getv env a; a_reduce f kw d bs keep x
  | INamed a n d bs keep bkw => do x <- getv env a; a_reduce (named_fn n) bkw d bs keep x
  | IMean a d bs keep bkw => do x <- getv env a; a_mean d bs keep bkw x
  | IStd a d bs keep bkw => do x <- getv env a; a_std d bs keep bkw x
  | IStack a d bs keep axis bkw => do x <- getv env a; a_stack d bs keep axis bkw x
  | IConcat a d bs keep bkw => do x <- getv env a; a_concatenate d bs keep bkw x
  | IFlatten a d axis bkw => do x <- getv env a; a_flatten d axis bkw x
  | IExpand a name vals internal sel axis bkw => do x <- getv env a; a_expand name vals internal sel axis bkw x
  | ISelect a crit drop => do x <- getv env a; a_select crit drop x
  | IIselect a crit drop => do x <- getv env a; a_iselect crit drop x
  | IBroadcast a b excl => do x <- getv env a; do y <- getv env b; a_broadcast excl x y
  | IJoin a b name given matchc => do x <- getv env a; do y <- getv env b; a_join name given matchc x y
  | IBinA a b f kw => do x <- getv env a; do y <- getv env b; a_bin f kw x y
  | IBinC a f c kw => do x <- getv env a; Ok (a_scalar_op f c kw x)
  | ITransform a body params name vals axis =>
      do x <- getv env a;
      transform (fun p => match body with
                          | TBMap f kw => Ok (a_map f [p] kw x)
                          | TBSel d drop => a_select [(d, SOne p)] drop x
                          end) name vals axis params
  | IBatchRound a f kw d bs name => do x <- getv env a; batch_round_t f kw d bs name x
  end.

(* a program is a list of instructions in SSA form (operands refer to earlier results);
   its value is the last result *)
Fixpoint run (env : list xarr) (p : list instr) : res (list xarr) :=
  match p with
  | [] => Ok env
  | i :: r => do x <- step env i; run (env ++ [x]) r
  end.
