(* Proofs about Fluent/Callable.v: callable_id separates callables -- equal digests only for
   equal module, qualified name, code (with nested code constants), defaults, keyword defaults,
   closure contents and receiver (repr of __self__) resp. repr of a non-function callable --
   under an injective hash with hex output of 64 characters and an injective repr. *)
From Coq Require Import List String Ascii Bool Arith Lia.
From EKW Require Import Fluent.Names Fluent.NamesCheck Fluent.NamesProofs Fluent.Callable Fluent.CallableCheck.
Import ListNotations.
Open Scope string_scope.
Open Scope list_scope.

(* ------------------------------------------------------------------ induction over descriptions *)
Lemma dv_ind' (P : dv -> Prop) :
  (forall r, P (DRepr r)) ->
  (forall h ns vs cs, Forall P cs -> P (DCode h ns vs cs)) ->
  P DRec -> P DEmpty ->
  (forall m q c ds kk kv cl s, P c -> Forall P ds -> Forall P kv -> Forall P cl -> P (DFunc m q c ds kk kv cl s)) ->
  (forall m q r, P (DOther m q r)) ->
  forall v, P v.
Proof.
  intros Hr Hc Hrec Hemp Hf Ho. fix IH 1. intros v.
  pose (go := fix go (l : list dv) : Forall P l :=
                match l with [] => Forall_nil _ | x :: r => Forall_cons x (IH x) (go r) end).
  destruct v as [r | h ns vs cs | | | m q c ds kk kv cl s | m q r].
  - apply Hr.
  - apply Hc. apply go.
  - apply Hrec.
  - apply Hemp.
  - apply Hf; [apply IH | apply go | apply go | apply go].
  - apply Ho.
Qed.

(* ------------------------------------------------------------------ lists *)
Lemma map_inj_on {A B} (f : A -> B) (P : A -> Prop) (Q : A -> Prop) :
  forall l, Forall (fun x => P x /\ forall y, Q y -> f x = f y -> x = y) l ->
  forall l', Forall Q l' -> map f l = map f l' -> l = l'.
Proof.
  induction l as [|x l IHl]; intros Hall [|y l'] Hq E; simpl in E; try discriminate; auto.
  inversion E as [[E1 E2]]. inversion Hall as [|? ? [_ Hx] Hl]; subst. inversion Hq as [|? ? Qy Ql]; subst.
  f_equal; [apply Hx; assumption | apply IHl; assumption].
Qed.

Lemma map_PStr_inj : forall l l', map PStr l = map PStr l' -> l = l'.
Proof.
  induction l as [|x l IHl]; intros [|y l'] E; simpl in E; try discriminate; auto.
  inversion E. f_equal; auto.
Qed.

Lemma combine_inj {A B} : forall (k k' : list A) (v v' : list B),
  List.length k = List.length v -> List.length k' = List.length v' ->
  List.combine k v = List.combine k' v' -> k = k' /\ v = v'.
Proof.
  induction k as [|a k IHk]; intros k' v v' L L' E.
  - destruct v; [|discriminate]. destruct k' as [|a' k']; [destruct v'; [auto|discriminate]|].
    destruct v'; [discriminate|]. simpl in E. discriminate.
  - destruct v as [|b v]; [discriminate|]. destruct k' as [|a' k']; [simpl in E; discriminate|].
    destruct v' as [|b' v']; [discriminate|]. simpl in E. inversion E; subst.
    simpl in L, L'. destruct (IHk k' v v') as [E1 E2]; [lia | lia | assumption |]. subst. auto.
Qed.

Lemma all2_eq {A} (f : A -> A -> bool) :
  forall l, Forall (fun x => forall y, f x y = true <-> x = y) l -> forall l', all2 f l l' = true <-> l = l'.
Proof.
  induction l as [|x l IHl]; intros Hall [|y l']; simpl; split; intros E; try discriminate; auto.
  - inversion Hall as [|? ? Hx Hl]; subst. apply andb_true_iff in E as [E1 E2].
    apply Hx in E1. apply (IHl Hl) in E2. subst. reflexivity.
  - inversion Hall as [|? ? Hx Hl]; subst. inversion E; subst. apply andb_true_iff. split.
    + apply Hx. reflexivity.
    + apply (IHl Hl). reflexivity.
Qed.

Lemma str_all2_eq : forall l l', all2 String.eqb l l' = true <-> l = l'.
Proof.
  intros l. apply all2_eq. apply Forall_forall. intros x _ y. apply String.eqb_eq.
Qed.

Lemma ostr_eqb_eq : forall a b, ostr_eqb a b = true <-> a = b.
Proof.
  intros [a|] [b|]; simpl; split; intros E; try discriminate; auto.
  - apply String.eqb_eq in E. subst. reflexivity.
  - inversion E. apply String.eqb_refl.
Qed.

(* the checker's equality is equality *)
Lemma dv_eqb_eq : forall a b, dv_eqb a b = true <-> a = b.
Proof.
  induction a as [r | h ns vs cs IHcs | | | m q c ds kk kv cl s IHc IHds IHkv IHcl | m q r] using dv_ind';
    intros b; destruct b as [r' | h' ns' vs' cs' | | | m' q' c' ds' kk' kv' cl' s' | m' q' r'];
    simpl; split; intros E; try discriminate; try reflexivity.
  - apply String.eqb_eq in E. subst. reflexivity.
  - inversion E. apply String.eqb_refl.
  - repeat (apply andb_true_iff in E; destruct E as [E ?]).
    apply String.eqb_eq in E. apply str_all2_eq in H1. apply str_all2_eq in H0.
    apply (all2_eq dv_eqb cs IHcs) in H. subst. reflexivity.
  - inversion E; subst. repeat (apply andb_true_iff; split).
    + apply String.eqb_refl.
    + apply str_all2_eq. reflexivity.
    + apply str_all2_eq. reflexivity.
    + apply (all2_eq dv_eqb cs' IHcs). reflexivity.
  - repeat (apply andb_true_iff in E; destruct E as [E ?]).
    apply ostr_eqb_eq in E. apply ostr_eqb_eq in H5. apply IHc in H4.
    apply (all2_eq dv_eqb ds IHds) in H3. apply str_all2_eq in H2.
    apply (all2_eq dv_eqb kv IHkv) in H1. apply (all2_eq dv_eqb cl IHcl) in H0.
    apply String.eqb_eq in H. subst. reflexivity.
  - inversion E; subst. repeat (apply andb_true_iff; split);
      try (apply ostr_eqb_eq; reflexivity); try (apply str_all2_eq; reflexivity); try apply String.eqb_refl.
    + apply IHc. reflexivity.
    + apply (all2_eq dv_eqb ds' IHds). reflexivity.
    + apply (all2_eq dv_eqb kv' IHkv). reflexivity.
    + apply (all2_eq dv_eqb cl' IHcl). reflexivity.
  - repeat (apply andb_true_iff in E; destruct E as [E ?]).
    apply ostr_eqb_eq in E. apply ostr_eqb_eq in H0. apply String.eqb_eq in H. subst. reflexivity.
  - inversion E; subst. repeat (apply andb_true_iff; split);
      try (apply ostr_eqb_eq; reflexivity); apply String.eqb_refl.
Qed.

Lemma popt_inj : forall a b, popt a = popt b -> a = b.
Proof. intros [a|] [b|] E; simpl in E; try discriminate; auto. inversion E. reflexivity. Qed.

Section CallableProofs.
Variable H : string -> string.
Variable R : pv -> string.
Hypothesis H_inj : forall a b, H a = H b -> a = b.
Hypothesis H_hex : forall a, allc hexchar (H a) = true.
Hypothesis R_inj : forall a b, R a = R b -> a = b.

(* in the domain: shape, and every function digest inside is 64 characters *)
Definition okd (v : dv) : bool := wf_dv true v && dig64 H R v.

Lemma repr_not_digest : forall r a, repr_ok r = true -> String.length (H a) = 64 -> r <> H a.
Proof.
  intros r a Hr L E. subst. unfold repr_ok, digest_like in Hr. rewrite L, H_hex in Hr. discriminate.
Qed.

Lemma marker_not_digest : forall a, "<recursive>" <> H a /\ "<empty>" <> H a.
Proof.
  intros a. split; intros E; pose proof (H_hex a) as Hh; rewrite <- E in Hh; discriminate.
Qed.

Lemma map_enc_inj : forall l l',
  Forall (fun x => okd x = true /\ forall y, okd y = true -> enc H R x = enc H R y -> x = y) l ->
  forallb okd l' = true -> map (enc H R) l = map (enc H R) l' -> l = l'.
Proof.
  intros l l' Hl Hl' E.
  apply (map_inj_on (enc H R) (fun x => okd x = true) (fun y => okd y = true) l Hl l'); [|exact E].
  apply Forall_forall. intros y Hy. rewrite forallb_forall in Hl'. apply Hl'. exact Hy.
Qed.

Lemma Forall_ok_split (P : dv -> Prop) : forall l,
  Forall (fun x => okd x = true -> P x) l -> forallb okd l = true ->
  Forall (fun x => okd x = true /\ P x) l.
Proof.
  induction l as [|x l IHl]; intros Hall Hwf; constructor.
  - inversion Hall; subst. simpl in Hwf. apply andb_true_iff in Hwf as [W1 W2]. auto.
  - inversion Hall; subst. simpl in Hwf. apply andb_true_iff in Hwf as [W1 W2]. auto.
Qed.

Lemma okd_list : forall l, forallb (wf_dv true) l = true -> forallb (dig64 H R) l = true -> forallb okd l = true.
Proof.
  induction l as [|x l IHl]; intros A B; [reflexivity|]. simpl in *.
  apply andb_true_iff in A as [A1 A2]. apply andb_true_iff in B as [B1 B2].
  unfold okd at 1. rewrite A1, B1, (IHl A2 B2). reflexivity.
Qed.

Ltac junk :=
  exfalso;
  match goal with
  | E : PStr (H _) = PStr _ |- _ =>
      inversion E as [E']; symmetry in E';
      first [ eapply repr_not_digest; eassumption
            | eapply (proj1 (marker_not_digest _)); eassumption
            | eapply (proj2 (marker_not_digest _)); eassumption ]
  | E : PStr _ = PStr (H _) |- _ =>
      inversion E as [E'];
      first [ eapply repr_not_digest; eassumption
            | eapply (proj1 (marker_not_digest _)); eassumption
            | eapply (proj2 (marker_not_digest _)); eassumption ]
  | E : PStr _ = PStr _ |- _ => inversion E; subst; vm_compute in *; discriminate
  end.

(* describe() is injective on descriptions of the domain *)
Lemma enc_inj_inner : forall a, wf_dv true a = true -> dig64 H R a = true ->
  forall b, wf_dv true b = true -> dig64 H R b = true -> enc H R a = enc H R b -> a = b.
Proof.
  induction a as [r | h ns vs cs IHcs | | | m q c ds kk kv cl s IHc IHds IHkv IHcl | m q r] using dv_ind';
    intros Wa Da b Wb Db E; destruct b as [r' | h' ns' vs' cs' | | | m' q' c' ds' kk' kv' cl' s' | m' q' r'];
    simpl in E; try discriminate; simpl in Wa, Wb; try discriminate; try reflexivity;
    cbn [dig64] in Da, Db; unfold cid in Da, Db; cbn [enc] in Da, Db;
    repeat match goal with
           | X : _ && _ = true |- _ => apply andb_true_iff in X; destruct X
           | X : Nat.eqb _ 64 = true |- _ => apply Nat.eqb_eq in X
           end;
    try solve [junk].
  - inversion E. reflexivity.
  - inversion E as [[E1 E2 E3 E4]]. apply map_PStr_inj in E2. apply map_PStr_inj in E3. subst.
    f_equal. apply (map_enc_inj cs cs'); [| apply okd_list; assumption | assumption].
    apply Forall_ok_split; [| apply okd_list; assumption].
    eapply Forall_impl; [|exact IHcs]. intros x Hx Wx y Wy. unfold okd in Wx, Wy.
    apply andb_true_iff in Wx as [? ?]. apply andb_true_iff in Wy as [? ?]. apply Hx; assumption.
  - inversion E as [E']. apply H_inj in E'. apply R_inj in E'. inversion E' as [[Em Eq Ec Ed Ek Ecl]].
    apply popt_inj in Em. apply popt_inj in Eq.
    apply app_inj_tail in Ecl as [Ecl Es]. inversion Es.
    assert (LIST : forall l l', Forall (fun x => wf_dv true x = true -> dig64 H R x = true ->
                     forall b, wf_dv true b = true -> dig64 H R b = true -> enc H R x = enc H R b -> x = b) l ->
                   forallb (wf_dv true) l = true -> forallb (dig64 H R) l = true ->
                   forallb (wf_dv true) l' = true -> forallb (dig64 H R) l' = true ->
                   map (enc H R) l = map (enc H R) l' -> l = l').
    { intros l l' IHl W1 D1 W2 D2 EE. apply (map_enc_inj l l'); [| apply okd_list; assumption | assumption].
      apply Forall_ok_split; [| apply okd_list; assumption].
      eapply Forall_impl; [|exact IHl]. intros x Hx Wx y Wy. unfold okd in Wx, Wy.
      apply andb_true_iff in Wx as [? ?]. apply andb_true_iff in Wy as [? ?]. apply Hx; assumption. }
    apply IHc in Ec; try assumption.
    apply LIST in Ed; try assumption.
    apply combine_inj in Ek as [Ek1 Ek2]; [| rewrite map_length; apply Nat.eqb_eq; assumption | rewrite map_length; apply Nat.eqb_eq; assumption].
    apply LIST in Ek2; try assumption.
    apply LIST in Ecl; try assumption.
    subst. reflexivity.
Qed.

(* callable_id separates callables: functions, bound methods (same function, another receiver),
   callable objects and other non-functions (their repr), in any combination *)
Theorem callable_id_injective : forall a b,
  wf_callable a = true -> wf_callable b = true -> dig64 H R a = true -> dig64 H R b = true ->
  cid H R a = cid H R b -> a = b.
Proof.
  intros a b Wa Wb Da Db E. unfold wf_callable in Wa, Wb.
  apply andb_true_iff in Wa as [Ca Wa]. apply andb_true_iff in Wb as [Cb Wb].
  destruct a as [r | h ns vs cs | | | m q c ds kk kv cl s | m q r]; try discriminate;
    destruct b as [r' | h' ns' vs' cs' | | | m' q' c' ds' kk' kv' cl' s' | m' q' r']; try discriminate.
  - apply enc_inj_inner; [exact Wa | exact Da | exact Wb | exact Db |]. unfold cid in E. simpl in E. simpl. f_equal. exact E.
  - unfold cid in E. simpl in E. apply H_inj in E. apply R_inj in E. exfalso. inversion E.
  - unfold cid in E. simpl in E. apply H_inj in E. apply R_inj in E. exfalso. inversion E.
  - unfold cid in E. simpl in E. apply H_inj in E. apply R_inj in E.
    inversion E as [[Em Eq Er]]. apply popt_inj in Em. apply popt_inj in Eq. subst. reflexivity.
Qed.

(* in particular the receiver of a bound method enters the identity *)
Corollary receiver_enters_identity : forall m q c ds kk kv cl s s',
  wf_callable (DFunc m q c ds kk kv cl s) = true ->
  dig64 H R (DFunc m q c ds kk kv cl s) = true -> dig64 H R (DFunc m q c ds kk kv cl s') = true ->
  cid H R (DFunc m q c ds kk kv cl s) = cid H R (DFunc m q c ds kk kv cl s') -> s = s'.
Proof.
  intros m q c ds kk kv cl s s' W D D' E.
  assert (W' : wf_callable (DFunc m q c ds kk kv cl s') = true) by exact W.
  pose proof (callable_id_injective _ _ W W' D D' E) as X. inversion X. reflexivity.
Qed.

(* and so does the repr of a callable that is not a function, whatever names it carries *)
Corollary repr_enters_identity : forall m q r r',
  cid H R (DOther m q r) = cid H R (DOther m q r') -> r = r'.
Proof.
  intros m q r r' E.
  pose proof (callable_id_injective (DOther m q r) (DOther m q r') eq_refl eq_refl eq_refl eq_refl E) as X.
  inversion X. reflexivity.
Qed.

(* the digest of a callable is a hash value *)
Lemma cid_hex : forall a, wf_callable a = true -> allc hexchar (cid H R a) = true.
Proof.
  intros a W. unfold wf_callable in W. apply andb_true_iff in W as [C _].
  destruct a; try discriminate; unfold cid; simpl; auto.
Qed.

(* node names: two nodes with one name run the same callable (not only: carry the same digest) *)
Theorem same_name_same_callable : forall (cname : string -> string) (ca cb : dv)
    ovr args kw ins nout ovr' args' kw' ins' nout',
  wf_callable ca = true -> wf_callable cb = true -> dig64 H R ca = true -> dig64 H R cb = true ->
  wf_node cname (FN ovr (cid H R ca) args kw ins nout) = true ->
  wf_node cname (FN ovr' (cid H R cb) args' kw' ins' nout') = true ->
  nname H cname (FN ovr (cid H R ca) args kw ins nout) = nname H cname (FN ovr' (cid H R cb) args' kw' ins' nout') ->
  ca = cb.
Proof.
  intros cname ca cb ovr args kw ins nout ovr' args' kw' ins' nout' Wa Wb Da Db Na Nb E.
  pose proof (name_injective H cname H_inj H_hex _ _ Na Nb E) as C. simpl in C. injection C as Ef _ _ _.
  apply callable_id_injective; assumption.
Qed.

End CallableProofs.

(* ------------------------------------------------------------------ the concrete repr of CallableCheck.v is injective *)
Lemma pv_ind' (P : pv -> Prop) :
  (forall s, P (PStr s)) -> P PNone ->
  (forall l, Forall P l -> P (PTuple l)) ->
  (forall l, Forall P l -> P (PList l)) ->
  (forall l, Forall (fun kv => P (snd kv)) l -> P (PDict l)) ->
  forall v, P v.
Proof.
  intros Hs Hn Ht Hl Hd. fix IH 1. intros v.
  pose (go := fix go (l : list pv) : Forall P l :=
                match l with [] => Forall_nil _ | x :: r => Forall_cons x (IH x) (go r) end).
  destruct v as [s | | l | l | l].
  - apply Hs.
  - apply Hn.
  - apply Ht. apply go.
  - apply Hl. apply go.
  - apply Hd.
    refine ((fix god (l : list (string * pv)) : Forall (fun kv => P (snd kv)) l :=
               match l with
               | [] => Forall_nil _
               | x :: r => Forall_cons x (match x as x0 return P (snd x0) with (k, y) => IH y end) (god r)
               end) l).
Qed.

Definition prefix_free {T} (f : T -> string) (x : T) : Prop :=
  forall y r r', (f x ++ r = f y ++ r')%string -> x = y /\ r = r'.

Definition rparen : ascii := ")"%char.
Definition headed {T} (f : T -> string) (x : T) : Prop := exists c t, f x = String c t /\ c <> rparen.

Lemma hex_not_dot : forall s, allc (fun x => negb (Ascii.eqb x "."%char)) (hexenc s) = true.
Proof.
  intros s. apply (allc_impl hexchar); [|apply hexenc_hex].
  intros c Hc. destruct (Ascii.eqb_spec c "."%char) as [->|]; [discriminate Hc | reflexivity].
Qed.

Lemma sers_prefix_free : forall s, prefix_free sers s.
Proof.
  intros s t r r' E. unfold sers in E. simpl in E. injection E as E.
  rewrite !app_assoc_s in E. simpl in E.
  destruct (split_at_stop (fun x => Ascii.eqb x "."%char) (hexenc s) (hexenc t) "."%char r "."%char r'
              (hex_not_dot s) (hex_not_dot t) eq_refl eq_refl E) as (E1 & _ & E2).
  apply hexenc_inj in E1. auto.
Qed.

Lemma sers_headed : forall s, headed sers s.
Proof. intros s. exists "S"%char, (hexenc s ++ ".")%string. split; [reflexivity | discriminate]. Qed.

Lemma serl_prefix_free {T} (f : T -> string) : forall l,
  Forall (prefix_free f) l -> (forall x, headed f x) -> prefix_free (serl f) l.
Proof.
  induction l as [|x l IHl]; intros Hall Hh [|y l'] r r' E; simpl in E.
  - injection E as E. auto.
  - exfalso. destruct (Hh y) as (c & t & Ey & Hc). rewrite Ey in E. simpl in E. injection E as E1 _.
    apply Hc. symmetry. exact E1.
  - exfalso. destruct (Hh x) as (c & t & Ex & Hc). rewrite Ex in E. simpl in E. injection E as E1 _.
    apply Hc. exact E1.
  - rewrite !app_assoc_s in E. inversion Hall as [|? ? Hx Hl]; subst.
    destruct (Hx y _ _ E) as [-> E']. destruct (IHl Hl Hh l' r r' E') as [-> ->]. auto.
Qed.

Lemma ser_headed : forall v, headed ser v.
Proof.
  intros [s | | l | l | l]; simpl.
  - apply sers_headed.
  - exists "N"%char, ""%string. split; [reflexivity | discriminate].
  - eexists _, _. split; [reflexivity | discriminate].
  - eexists _, _. split; [reflexivity | discriminate].
  - eexists _, _. split; [reflexivity | discriminate].
Qed.

Lemma ser_prefix_free : forall v, prefix_free ser v.
Proof.
  induction v as [s | | l IHl | l IHl | l IHl] using pv_ind'; intros w r r' E;
    destruct w as [s' | | l' | l' | l']; simpl in E; try (unfold sers in E; simpl in E); try discriminate.
  - destruct (sers_prefix_free s s' r r' E) as [-> ->]. auto.
  - injection E as E. auto.
  - injection E as E. destruct (serl_prefix_free ser l IHl ser_headed l' r r' E) as [-> ->]. auto.
  - injection E as E. destruct (serl_prefix_free ser l IHl ser_headed l' r r' E) as [-> ->]. auto.
  - injection E as E.
    set (f := fun kv : string * pv => let (k, x) := kv in (sers k ++ ser x)%string) in *.
    assert (Hpf : Forall (prefix_free f) l).
    { eapply Forall_impl; [|exact IHl]. intros [k x] Hx [k' x'] q q' Eq. unfold f in Eq.
      rewrite !app_assoc_s in Eq. destruct (sers_prefix_free k k' _ _ Eq) as [-> Eq'].
      simpl in Hx. destruct (Hx x' q q' Eq') as [-> ->]. auto. }
    assert (Hhd : forall kv, headed f kv).
    { intros [k x]. unfold f, headed. cbv beta iota. destruct (sers_headed k) as (c & t & Ek & Hc). rewrite Ek.
      exists c, (t ++ ser x)%string. split; [reflexivity | exact Hc]. }
    destruct (serl_prefix_free f l Hpf Hhd l' r r' E) as [-> ->]. auto.
Qed.

Theorem ser_inj : forall a b, ser a = ser b -> a = b.
Proof.
  intros a b E. destruct (ser_prefix_free a b "" "") as [X _]; [|exact X].
  rewrite !app_nil_r_s. exact E.
Qed.
