(* Proofs about the fluent model (Fluent/Action.v): cell-level specification of reduce,
   batching invariance for every batch size, mean through sum/divide.  All statements are
   for arbitrary arrays (any rank, any sizes); no bounds. *)
From Coq Require Import List Arith NArith ZArith String Bool Lia Field.
From EKW Require Import Fluent.XArr Fluent.Action Fluent.Batch.
Import ListNotations.
Open Scope list_scope.

Lemma norm_axis_nat : forall nd k k1, norm_axis nd (Z.of_nat k) = Some k1 -> k1 = k /\ k <= nd.
Proof.
  intros nd k k1 H. unfold norm_axis in H.
  destruct (0 <=? Z.of_nat k)%Z eqn:E0; [|lia].
  destruct (Z.of_nat k <=? Z.of_nat nd)%Z eqn:E1; simpl in H.
  - inversion H. rewrite Nat2Z.id. split; [reflexivity|lia].
  - destruct (Z.of_nat k <? 0)%Z eqn:E2; [lia|]. simpl in H. discriminate.
Qed.

Lemma reindexed_idem : forall l, map reindexed (map reindexed l) = map reindexed l.
Proof. intros. rewrite map_map. apply map_ext. intros []; reflexivity. Qed.

(* two arrays with the same dimensions/coordinates whose cells are related by P *)
Definition rel (P : expr -> expr -> Prop) (r r0 : xarr) : Prop :=
  xdims r = xdims r0 /\ xscal r = xscal r0 /\ forall t, P (xat r t) (xat r0 t).

Lemma expand_dims_rel : forall P n v ax r r0 e,
  rel P r r0 -> x_expand_dims n v ax r = Ok e ->
  exists e0, x_expand_dims n v ax r0 = Ok e0 /\ rel P e e0.
Proof.
  intros P n v ax r r0 e (Hd & Hs & Hv) H. unfold x_expand_dims, has_coord in *.
  rewrite Hd, Hs in H.
  destruct (_ || _); [discriminate|].
  destruct (norm_axis _ ax) as [k|]; [|discriminate].
  inversion H; subst e; clear H. eexists; split; [reflexivity|].
  split; [reflexivity|]. split; [reflexivity|]. intros t; simpl. apply Hv.
Qed.

(* the unbatched path of Action.reduce, spelled out *)
Lemma a_reduce_unbatched : forall f kw d keep a,
  a_reduce f kw d 0 keep a =
  bind (default_dim d a) (fun d' =>
    match find_dim d' (xdims a) with
    | None => Err "ValueError"%string
    | Some k => if keep then x_expand_dims d' (kept_label (nth k (xdims a) dflt_dim)) (Z.of_nat k) (reduce_core f kw k a)
                else Ok (reduce_core f kw k a)
    end).
Proof.
  intros. unfold a_reduce. destruct (default_dim d a) as [d'|e]; simpl; [|reflexivity].
  destruct (find_dim d' (xdims a)); reflexivity.
Qed.

(* ---------------------------------------------------------------- reduce: what every cell is *)
Theorem reduce_spec_drop : forall f kw d a r,
  a_reduce f kw d 0 false a = Ok r ->
  exists d' k, default_dim d a = Ok d' /\ find_dim d' (xdims a) = Some k /\
    xdims r = map reindexed (remove_at k (xdims a)) /\ xscal r = xscal a /\
    forall t, xat r t = App f (map (fun x => xat a (insert_at k x t)) (seq 0 (size_at k a))) [] kw.
Proof.
  intros f kw d a r H. rewrite a_reduce_unbatched in H.
  destruct (default_dim d a) as [d'|]; simpl in H; [|discriminate].
  destruct (find_dim d' (xdims a)) as [k|] eqn:Ek; [|discriminate].
  inversion H; subst r. exists d', k. repeat split; try reflexivity; assumption.
Qed.

Theorem reduce_spec_keep : forall f kw d a r,
  a_reduce f kw d 0 true a = Ok r ->
  exists d' k, default_dim d a = Ok d' /\ find_dim d' (xdims a) = Some k /\
    xdims r = insert_at k {| dname := d'; dcoords := [kept_label (nth k (xdims a) dflt_dim)]; dindexed := true |}
                        (map reindexed (remove_at k (xdims a))) /\
    xscal r = xscal a /\
    forall t, xat r t = App f (map (fun x => xat a (insert_at k x (remove_at k t))) (seq 0 (size_at k a))) [] kw.
Proof.
  intros f kw d a r H. rewrite a_reduce_unbatched in H.
  destruct (default_dim d a) as [d'|]; simpl in H; [|discriminate].
  destruct (find_dim d' (xdims a)) as [k|] eqn:Ek; [|discriminate].
  unfold x_expand_dims in H. destruct (_ || _); [discriminate|].
  destruct (norm_axis _ _) as [k1|] eqn:En; [|discriminate].
  apply norm_axis_nat in En as [-> _]. inversion H; subst r.
  exists d', k. repeat split; try reflexivity; assumption.
Qed.

Section Semantics.
  Variable V : Type.
  Variable src : N -> V.
  Variable ap : fn -> list V -> list cv -> kwargs -> V.

  (* the value a node computes: payload.func applied to the input values, then the statics, with kwargs *)
  Fixpoint ev (e : expr) : V :=
    match e with
    | Src i => src i
    | App f ins ex kw => ap f (map ev ins) ex kw
    end.

  Definition gf (f : fn) (kw : kwargs) : list V -> V := fun vs => ap f vs [] kw.
  Definition same : xarr -> xarr -> Prop := rel (fun e e0 => ev e = ev e0).

  (* the values along axis k at the remaining coordinate t, in coordinate order *)
  Definition col (a : xarr) (k : nat) (t : list nat) : list V :=
    map (fun x => ev (xat a (insert_at k x t))) (seq 0 (size_at k a)).

  Lemma col_length : forall a k t, List.length (col a k t) = size_at k a.
  Proof. intros. unfold col. now rewrite map_length, seq_length. Qed.

  Lemma ev_reduce_core : forall f kw k a t, ev (xat (reduce_core f kw k a) t) = gf f kw (col a k t).
  Proof. intros. simpl. unfold gf, col. now rewrite map_map. Qed.

  Lemma size_at_round : forall f kw k bs nm a,
    size_at 0 (batch_round f kw k bs nm a) = nbatches (size_at k a) bs.
  Proof. intros. unfold size_at at 1. simpl. unfold dsize, zrange. simpl. now rewrite map_length, seq_length. Qed.

  (* one batching round acts on every column as the 1-D round *)
  Lemma col_round : forall f kw k bs nm a t,
    col (batch_round f kw k bs nm a) 0 t = round1 V (gf f kw) bs (col a k t).
  Proof.
    intros. unfold col at 1. rewrite size_at_round. unfold round1. rewrite col_length.
    apply map_ext. intros b. unfold col. rewrite chunk_map_seq.
    change (insert_at 0 b t) with (b :: t). cbn [xat batch_round hd tl].
    destruct (Nat.min bs (size_at k a - b * bs)) as [|[|c]]; cbn [Nat.eqb].
    - reflexivity.
    - reflexivity.
    - cbn [ev]. unfold gf, pass. rewrite map_map. reflexivity.
  Qed.

  Lemma batch_loop_sound : forall fuel f kw bs level name k a a' k',
    batch_loop fuel f kw bs level name k a = Ok (a', k') ->
    (forall t, loop1 V (gf f kw) fuel bs (col a k t) = Some (col a' k' t)) /\
    map reindexed (remove_at k' (xdims a')) = map reindexed (remove_at k (xdims a)) /\
    xscal a' = xscal a.
  Proof.
    induction fuel as [|fu IH]; intros f kw bs level name k a a' k' H; cbn [batch_loop] in H.
    - destruct (Nat.ltb bs (size_at k a)) eqn:E; [discriminate|]. inversion H; subst.
      repeat split. intros t. cbn [loop1]. rewrite col_length, E. reflexivity.
    - destruct (Nat.ltb bs (size_at k a)) eqn:E.
      + apply IH in H as (Hl & Hd & Hs). repeat split.
        * intros t. cbn [loop1]. rewrite col_length, E. specialize (Hl t). rewrite col_round in Hl. exact Hl.
        * rewrite Hd. cbn [xdims batch_round]. unfold remove_at at 1. cbn [firstn skipn app].
          apply reindexed_idem.
        * rewrite Hs. reflexivity.
      + inversion H; subst. repeat split. intros t. cbn [loop1]. rewrite col_length, E. reflexivity.
  Qed.

  Lemma batch_loop_fuel : forall f kw bs, 2 <= bs -> forall fuel level name k a,
    size_at k a <= fuel -> exists r, batch_loop fuel f kw bs level name k a = Ok r.
  Proof.
    intros f kw bs Hbs. induction fuel as [|fu IH]; intros level name k a Hf; cbn [batch_loop].
    - destruct (Nat.ltb bs (size_at k a)) eqn:E; [apply Nat.ltb_lt in E; lia|eauto].
    - destruct (Nat.ltb bs (size_at k a)) eqn:E; [|eauto].
      apply Nat.ltb_lt in E. apply IH. rewrite size_at_round.
      assert (H := nb_lt (size_at k a) bs Hbs E). lia.
  Qed.

  (* ---------------------------------------------------------------- batching invariance *)
  Theorem reduce_batching_invariant : forall f kw,
    batch_law V (gf f kw) ->
    forall d bs keep a r,
      a_reduce f kw d bs keep a = Ok r ->
      exists r0, a_reduce f kw d 0 keep a = Ok r0 /\ same r r0.
  Proof.
    intros f kw Hlaw d bs keep a r H.
    assert (Hrefl : forall x, same x x) by (intros x; repeat split; reflexivity).
    rewrite a_reduce_unbatched. unfold a_reduce in H.
    destruct (default_dim d a) as [d'|]; cbn [bind] in *; [|discriminate].
    destruct (Nat.ltb 1 bs) eqn:E1.
    - destruct (find_dim d' (xdims a)) as [k|] eqn:Ek; [|discriminate].
      destruct (Nat.ltb bs (size_at k a)) eqn:E2.
      + destruct (fbatch f); cbn [negb] in H; [|discriminate].
        destruct (forallb dindexed (xdims a)); cbn [negb] in H; [|discriminate].
        destruct (nodupb _); cbn [negb] in H; [|discriminate].
        destruct (batch_loop _ _ _ _ _ _ _ _) as [[a' k']|] eqn:EL; cbn [bind fst snd] in H; [|discriminate].
        apply batch_loop_sound in EL as (Hl & Hd & Hs).
        assert (Hsame : same (reduce_core f kw k' a') (reduce_core f kw k a)).
        { split; [exact Hd|]. split; [exact Hs|]. intros t. rewrite !ev_reduce_core.
          apply Nat.ltb_lt in E1. eapply loop1_law; [exact Hlaw| |apply Hl]. lia. }
        destruct keep.
        * eapply expand_dims_rel in H; [|exact Hsame]. exact H.
        * inversion H; subst r. eexists; split; [reflexivity|exact Hsame].
      + cbn [bind fst snd] in H. exists r. split; [exact H|apply Hrefl].
    - cbn [bind fst snd] in H. destruct (find_dim d' (xdims a)) as [k|]; [|discriminate].
      exists r. split; [exact H|apply Hrefl].
  Qed.

  (* a batch size never makes a reduction fail that succeeds unbatched, provided the function is
     batchable, every dimension has an index and the labels of the reduced dimension are distinct *)
  Theorem reduce_batched_defined : forall f kw d bs keep a r0,
    a_reduce f kw d 0 keep a = Ok r0 ->
    fbatch f = true -> forallb dindexed (xdims a) = true ->
    (forall d' k, default_dim d a = Ok d' -> find_dim d' (xdims a) = Some k ->
                  nodupb (dcoords (nth k (xdims a) dflt_dim)) = true) ->
    exists r, a_reduce f kw d bs keep a = Ok r.
  Proof.
    intros f kw d bs keep a r0 H0 Hb Hix Hnd.
    rewrite a_reduce_unbatched in H0. unfold a_reduce.
    destruct (default_dim d a) as [d'|] eqn:Ed; cbn [bind] in *; [|discriminate].
    destruct (find_dim d' (xdims a)) as [k|] eqn:Ek; [|discriminate].
    specialize (Hnd d' k eq_refl Ek).
    destruct (Nat.ltb 1 bs) eqn:E1; cbn [bind fst snd].
    - destruct (Nat.ltb bs (size_at k a)) eqn:E2; cbn [bind fst snd].
      + rewrite Hb, Hix, Hnd. cbn [negb].
        apply Nat.ltb_lt in E1.
        destruct (batch_loop_fuel f kw bs ltac:(lia) (size_at k a) 0 d' k a (le_n _)) as [[a' k'] EL].
        pose proof EL as EL'. apply batch_loop_sound in EL' as (_ & Hd & Hs).
        rewrite EL. cbn [bind fst snd].
        destruct keep; [|eauto].
        unfold x_expand_dims, has_coord in *. cbn [xdims xscal reduce_core] in *. rewrite Hd, Hs.
        destruct (_ || _); [discriminate|]. destruct (norm_axis _ _); [eauto|discriminate].
      + destruct keep; eauto.
    - destruct keep; eauto.
  Qed.
End Semantics.

(* ------------------------------------------------------------------ structural operations *)
Theorem map_spec : forall f ex kw a t,
  xdims (a_map f ex kw a) = xdims a /\ xscal (a_map f ex kw a) = xscal a /\
  xat (a_map f ex kw a) t = App f [xat a t] ex kw.
Proof. intros. repeat split. Qed.

(* broadcast: the cell at t is the trivial node over the operand's cell at t restricted to the
   operand's own dimensions (looked up by name in the result's dimension order) *)
Theorem broadcast_spec : forall excl a b r,
  a_broadcast excl a b = Ok r ->
  xdims r = bcast_dims a b excl /\ xscal r = xscal a /\
  forall t, xat r t = App f_trivial
    [xat a (map (fun d => match find_dim (dname d) (bcast_dims a b excl) with
                          | Some k => nth k t 0 | None => 0 end) (xdims a))] [] [].
Proof.
  intros excl a b r H. unfold a_broadcast in H.
  destruct (bcast_check a b excl); cbn [bind] in H; [|discriminate].
  destruct (mapM _ _); cbn [bind] in H; [|discriminate].
  inversion H; subst r. repeat split.
Qed.

(* select one label on a dimension: the cells at that label's position *)
Theorem select_one_spec : forall name c drop a r,
  x_sel1 name (SOne c) drop a = Ok r ->
  exists k p, find_dim name (xdims a) = Some k /\
    index_of c (dcoords (nth k (xdims a) dflt_dim)) = Some p /\
    xdims r = remove_at k (xdims a) /\
    forall t, xat r t = xat a (insert_at k p t).
Proof.
  intros name c drop a r H. unfold x_sel1 in H.
  destruct (find_dim name (xdims a)) as [k|] eqn:Ek; [|discriminate].
  destruct (negb _); [discriminate|].
  destruct (index_of c _) as [p|] eqn:Ep; [|discriminate].
  destruct (existsb _ _); [discriminate|].
  inversion H; subst r. exists k, p. repeat split; assumption.
Qed.

(* expand: position i of the new dimension holds take(cell, index i, dim=internal) *)
Theorem expand_cell_spec : forall i internal bkw a t,
  xat (a_map f_take [i] (("dim"%string, internal) :: bkw) a) t =
  App f_take [xat a t] [i] (("dim"%string, internal) :: bkw).
Proof. reflexivity. Qed.

Lemma default_dim_idem : forall d a d', default_dim d a = Ok d' -> default_dim d' a = Ok d'.
Proof.
  intros d a d' H. unfold default_dim in *.
  destruct (String.eqb d "") eqn:E.
  - destruct (xdims a) as [|d0 ds]; [discriminate|]. inversion H; subst d'.
    destruct (String.eqb (dname d0) ""); reflexivity.
  - inversion H; subst d'. rewrite E. reflexivity.
Qed.

(* ------------------------------------------------------------------ mean with a batch size, over a field *)
Section FieldSem.
  Variables (K : Type) (k0 k1 : K) (kadd kmul ksub : K -> K -> K) (kopp : K -> K)
            (kdiv : K -> K -> K) (kinv : K -> K).
  Hypothesis Kth : field_theory k0 k1 kadd kmul ksub kopp kdiv kinv eq.
  Variable ksqrt : K -> K.
  Variable other : fn -> list K -> list cv -> kwargs -> K.     (* every other callable: uninterpreted *)
  Variable srcK : N -> K.

  Notation nat2K := (of_nat K k0 k1 kadd).
  Notation sumK := (ksum K k0 kadd).

  Definition of_Z (z : Z) : K :=
    match z with Z0 => k0 | Zpos p => nat2K (Pos.to_nat p) | Zneg p => kopp (nat2K (Pos.to_nat p)) end.

  Lemma of_Z_of_nat : forall n, of_Z (Z.of_nat n) = nat2K n.
  Proof. intros [|n]; [reflexivity|]. simpl Z.of_nat. unfold of_Z. now rewrite SuccNat2Pos.id_succ. Qed.

  Definition cvK (c : cv) : K := match c with CZ z => of_Z z | _ => k0 end.
  Definition named (f : fn) (n : string) : bool := String.eqb (fname f) n.

  (* backends.sum / mean / divide / subtract / pow (2 and 0.5) / std on scalars of the field;
     sqrt is uninterpreted *)
  Definition apK (f : fn) (vs : list K) (ex : list cv) (kw : kwargs) : K :=
    if named f "sum" then sumK vs
    else if named f "mean" then kdiv (sumK vs) (nat2K (List.length vs))
    else if named f "divide" then
      match vs, ex with
      | [v], [c] => kdiv v (cvK c)
      | [v; w], [] => kdiv v w
      | _, _ => other f vs ex kw
      end
    else if named f "subtract" then
      match vs, ex with
      | [v; w], [] => ksub v w
      | _, _ => other f vs ex kw
      end
    else if named f "pow" then
      match vs, ex with
      | [v], [CZ 2%Z] => kmul v v
      | [v], [CF 2%Z] => kmul v v
      | [v], [CHalf] => ksqrt v
      | _, _ => other f vs ex kw
      end
    else if named f "std" then
      let n := nat2K (List.length vs) in
      let mu := kdiv (sumK vs) n in
      ksqrt (kdiv (sumK (map (fun x => sq K kmul (ksub x mu)) vs)) n)
    else other f vs ex kw.

  Notation evK := (ev K srcK apK).
  Notation sameK := (same K srcK apK).

  Lemma sum_law_sem : forall kw, batch_law K (gf K apK f_sum kw).
  Proof.
    intros kw cs H2 Hne.
    assert (Hg : forall vs, gf K apK f_sum kw vs = sumK vs) by reflexivity.
    rewrite !Hg.
    rewrite (map_ext (pass K (gf K apK f_sum kw)) (pass K sumK))
      by (intros [|x [|y c]]; reflexivity).
    exact (sum_batch_law K k0 k1 kadd kmul ksub kopp kdiv kinv Kth cs H2 Hne).
  Qed.

  (* Action.mean with any batch size has the dimensions and the values of the unbatched mean *)
  Theorem mean_batching_invariant : forall d bs keep bkw a r,
    a_mean d bs keep bkw a = Ok r ->
    exists r0, a_mean d 0 keep bkw a = Ok r0 /\ sameK r r0.
  Proof.
    intros d bs keep bkw a r H.
    assert (Hrefl : forall x, sameK x x) by (intros x; repeat split; reflexivity).
    unfold a_mean in *.
    destruct (default_dim d a) as [d'|] eqn:Ed; cbn [bind] in *; [|discriminate].
    change (Nat.leb 0 1) with true. cbn iota.
    destruct (Nat.leb bs 1); [exists r; split; [exact H|apply Hrefl]|].
    destruct (find_dim d' (xdims a)) as [k|] eqn:Ek; [|discriminate].
    destruct (Nat.leb (size_at k a) bs); [exists r; split; [exact H|apply Hrefl]|].
    destruct (a_reduce f_sum bkw d' bs keep a) as [s|] eqn:Es; cbn [bind] in H; [|discriminate].
    inversion H; subst r; clear H.
    apply (reduce_batching_invariant K srcK apK f_sum bkw (sum_law_sem bkw)) in Es as (s0 & Es0 & Hd & Hs & Hv).
    rewrite a_reduce_unbatched in Es0. rewrite a_reduce_unbatched.
    rewrite (default_dim_idem _ _ _ Ed) in *. cbn [bind] in *. rewrite Ek in *.
    set (P := fun e e0 : expr => exists ins, List.length ins = size_at k a /\
                 e = App f_sum ins [] bkw /\ e0 = App f_mean ins [] bkw).
    assert (Hcore : rel P (reduce_core f_sum bkw k a) (reduce_core f_mean bkw k a)).
    { repeat split. intros t. eexists. split; [|split; reflexivity]. now rewrite map_length, seq_length. }
    assert (Hgoal : forall r0, rel P s0 r0 -> sameK (a_scalar_op f_div (CZ (Z.of_nat (size_at k a))) [] s) r0).
    { intros r0 (Hd0 & Hs0 & Hp). split; [cbn [xdims a_scalar_op a_map]; congruence|].
      split; [cbn [xscal a_scalar_op a_map]; congruence|].
      intros t. cbn [xat a_scalar_op a_map]. cbn [ev map]. rewrite Hv.
      destruct (Hp t) as (ins & Hlen & E1 & E2). rewrite E1, E2. cbn [ev].
      unfold apK at 1. cbn [named fname f_div F String.eqb Ascii.eqb Bool.eqb cvK].
      unfold apK. cbn [named fname f_sum f_mean F String.eqb Ascii.eqb Bool.eqb].
      rewrite map_length, Hlen, of_Z_of_nat. reflexivity. }
    destruct keep.
    - destruct (expand_dims_rel P _ _ _ _ _ _ Hcore Es0) as (r0 & Er0 & Hr0).
      exists r0. split; [exact Er0|]. apply Hgoal, Hr0.
    - inversion Es0; subst s0. eexists; split; [reflexivity|]. apply Hgoal, Hcore.
  Qed.
End FieldSem.
