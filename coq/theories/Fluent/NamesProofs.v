(* Proofs about Fluent/Names.v.
   Part 1: str(list)/str(dict) of tokens and quoted strings are uniquely decodable.
   Part 2: equal node names => equal computations (given an injective hash with hex output
           and callable ids that identify callables); names are a function of computation
           and caller-given labels; lowering by name is unambiguous.
   Part 3: the operations of the fluent API never write to an action that already exists. *)
From Coq Require Import List String Ascii Bool Arith Lia.
From EKW Require Import Fluent.Names.
Import ListNotations.
Open Scope string_scope.
Open Scope list_scope.

(* ------------------------------------------------------------------ strings *)
Lemma app_assoc_s : forall a b c : string, ((a ++ b) ++ c = a ++ (b ++ c))%string.
Proof. induction a as [|x a IH]; intros b c; simpl; [reflexivity | rewrite IH; reflexivity]. Qed.

Lemma app_nil_r_s : forall a : string, (a ++ "" = a)%string.
Proof. induction a as [|x a IH]; simpl; [reflexivity | rewrite IH; reflexivity]. Qed.

Lemma app_inv_head_s : forall a b c : string, (a ++ b = a ++ c)%string -> b = c.
Proof. induction a as [|x a IH]; intros b c E; simpl in E; [exact E | inversion E; auto]. Qed.

Lemma length_app_s : forall a b : string, String.length (a ++ b) = String.length a + String.length b.
Proof. induction a as [|x a IH]; intros b; simpl; [reflexivity | rewrite IH; reflexivity]. Qed.

Lemma allc_app : forall p a b, allc p (a ++ b) = allc p a && allc p b.
Proof. induction a as [|x a IH]; intros b; simpl; [reflexivity | rewrite IH, andb_assoc; reflexivity]. Qed.

Lemma allc_impl : forall (p q : ascii -> bool) s, (forall c, p c = true -> q c = true) -> allc p s = true -> allc q s = true.
Proof.
  induction s as [|x s IH]; intros Hpq Hs; simpl in *; [reflexivity|].
  apply andb_prop in Hs as [Hx Hs]. rewrite (Hpq _ Hx), (IH Hpq Hs). reflexivity.
Qed.

(* equal-length prefixes of equal strings are equal *)
Lemma app_eq_length : forall a b r r' : string,
  String.length a = String.length b -> (a ++ r = b ++ r')%string -> a = b /\ r = r'.
Proof.
  induction a as [|x a IH]; intros [|y b] r r' L E; simpl in *; try discriminate.
  - split; [reflexivity | exact E].
  - inversion E; subst. injection L as L. destruct (IH b r r' L H1) as [-> ->]. split; reflexivity.
Qed.

(* cut at the first character of a class none of the two prefixes contains *)
Lemma split_at_stop : forall (p : ascii -> bool) (a b : string) c r d r',
  allc (fun x => negb (p x)) a = true -> allc (fun x => negb (p x)) b = true ->
  p c = true -> p d = true ->
  (a ++ String c r = b ++ String d r')%string -> a = b /\ c = d /\ r = r'.
Proof.
  induction a as [|x a IH]; intros [|y b] c r d r' Ha Hb Hc Hd E; simpl in *.
  - inversion E; auto.
  - inversion E; subst. apply andb_prop in Hb as [Hy _]. rewrite Hc in Hy. discriminate.
  - inversion E; subst. apply andb_prop in Ha as [Hx _]. rewrite Hd in Hx. discriminate.
  - inversion E; subst. apply andb_prop in Ha as [_ Ha]. apply andb_prop in Hb as [_ Hb].
    destruct (IH b c r d r' Ha Hb Hc Hd H1) as (-> & -> & ->). auto.
Qed.

Lemma nochar_app_has : forall c a b, nochar c (a ++ String c b) = false.
Proof.
  intros c a b. unfold nochar. rewrite allc_app. simpl. rewrite Ascii.eqb_refl. simpl.
  apply andb_false_r.
Qed.

(* cut at the last occurrence of c: the tails do not contain c *)
Lemma split_at_last : forall c (a b h h' : string),
  nochar c h = true -> nochar c h' = true ->
  (a ++ String c h = b ++ String c h')%string -> a = b /\ h = h'.
Proof.
  induction a as [|x a IH]; intros [|y b] h h' Hh Hh' E; simpl in *.
  - inversion E; auto.
  - inversion E; subst. rewrite nochar_app_has in Hh. discriminate.
  - inversion E; subst. rewrite nochar_app_has in Hh'. discriminate.
  - inversion E; subst. destruct (IH b h h' Hh Hh' H1) as [-> ->]. auto.
Qed.

(* ------------------------------------------------------------------ character classes *)
Lemma hexchar_props : forall c, hexchar c = true ->
  Ascii.eqb c ch_colon = false /\ Ascii.eqb c ch_dot = false /\ Ascii.eqb c ch_quote = false.
Proof.
  intros c Hc. unfold hexchar in Hc. apply existsb_exists in Hc as (d & Hin & Hd).
  apply Ascii.eqb_eq in Hd. subst d. simpl in Hin.
  repeat (destruct Hin as [<- | Hin]; [repeat split; reflexivity|]). destruct Hin.
Qed.

Lemma hex_nochar : forall c s, (forall x, hexchar x = true -> Ascii.eqb x c = false) ->
  allc hexchar s = true -> nochar c s = true.
Proof.
  intros c s Hx Hs. unfold nochar. eapply allc_impl; [|exact Hs].
  intros x Hh. simpl. rewrite (Hx x Hh). reflexivity.
Qed.

Lemma safe_noquote : forall s, safe_str s = true -> nochar ch_quote s = true.
Proof.
  intros s Hs. unfold nochar. eapply allc_impl; [|exact Hs].
  intros c Hc. simpl in Hc. apply andb_prop in Hc as [Hc _]. exact Hc.
Qed.

(* ------------------------------------------------------------------ tokens *)
Definition stops (r : string) : Prop := exists c r', r = String c r' /\ stopchar c = true.

Lemma rstr_inj_prefix : forall s t r r',
  nochar ch_quote s = true -> nochar ch_quote t = true ->
  (rstr s ++ r = rstr t ++ r')%string -> s = t /\ r = r'.
Proof.
  intros s t r r' Hs Ht E. unfold rstr in E. simpl in E. injection E as E.
  rewrite !app_assoc_s in E. simpl in E.
  destruct (split_at_stop (fun x => Ascii.eqb x ch_quote) s t ch_quote r ch_quote r') as (A & _ & B); auto.
Qed.

Lemma rval_prefix : forall x y r r',
  val_ok x = true -> val_ok y = true -> stops r -> stops r' ->
  (rval x ++ r = rval y ++ r')%string -> x = y /\ r = r'.
Proof.
  intros [s|s] [t|t] r r' Hx Hy (c & r1 & -> & Hc) (d & r2 & -> & Hd) E; simpl in *.
  - apply andb_prop in Hx as [_ Hx]. apply andb_prop in Hy as [_ Hy].
    assert (A : forall u, allc atomchar u = true -> allc (fun x => negb (stopchar x)) u = true).
    { intros u Hu. eapply allc_impl; [|exact Hu]. intros a Ha. unfold atomchar in Ha.
      apply andb_prop in Ha as [Ha _]. exact Ha. }
    destruct (split_at_stop stopchar s t c r1 d r2 (A _ Hx) (A _ Hy) Hc Hd E) as (-> & -> & ->). auto.
  - apply andb_prop in Hx as [Hne Hx]. destruct s as [|a s]; [discriminate|].
    unfold rstr in E. simpl in E. injection E as E1 _. subst a. simpl in Hx.
    discriminate.
  - apply andb_prop in Hy as [Hne Hy]. destruct t as [|a t]; [discriminate|].
    unfold rstr in E. simpl in E. injection E as E1 _. subst a. simpl in Hy.
    discriminate.
  - destruct (rstr_inj_prefix s t _ _ (safe_noquote _ Hx) (safe_noquote _ Hy) E) as [-> E']. auto.
Qed.

Lemma rval_head : forall x, val_ok x = true -> exists c s, rval x = String c s /\ stopchar c = false.
Proof.
  intros [s|s] Hx; simpl in *.
  - apply andb_prop in Hx as [Hne Hx]. destruct s as [|a s]; [discriminate|].
    exists a, s. split; [reflexivity|]. simpl in Hx. apply andb_prop in Hx as [Ha _].
    unfold atomchar in Ha. apply andb_prop in Ha as [Ha _]. destruct (stopchar a); [discriminate|reflexivity].
  - eexists _, _. split; [reflexivity|reflexivity].
Qed.

Definition kv_ok (kv : string * val) : bool := safe_str (fst kv) && val_ok (snd kv).

Lemma rkv_prefix : forall x y r r',
  kv_ok x = true -> kv_ok y = true -> stops r -> stops r' ->
  (rkv x ++ r = rkv y ++ r')%string -> x = y /\ r = r'.
Proof.
  intros [k v] [k' v'] r r' Hx Hy Hr Hr' E. unfold kv_ok in *. cbn [fst snd] in *.
  apply andb_prop in Hx as [Hk Hv]. apply andb_prop in Hy as [Hk' Hv'].
  unfold rkv in E. cbn [fst snd] in E. rewrite !app_assoc_s in E.
  destruct (rstr_inj_prefix k k' _ _ (safe_noquote _ Hk) (safe_noquote _ Hk') E) as [-> E'].
  simpl in E'. injection E' as E'.
  destruct (rval_prefix v v' r r' Hv Hv' Hr Hr' E') as [-> ->]. auto.
Qed.

Lemma rkv_head : forall x, kv_ok x = true -> exists c s, rkv x = String c s /\ stopchar c = false.
Proof. intros [k v] _. eexists _, _. split; reflexivity. Qed.

Lemma rstr_head : forall x : string, exists c s, rstr x = String c s /\ stopchar c = false.
Proof. intros x. eexists _, _. split; reflexivity. Qed.

Lemma rstr_prefix_stops : forall x y r r',
  safe_str x = true -> safe_str y = true -> stops r -> stops r' ->
  (rstr x ++ r = rstr y ++ r')%string -> x = y /\ r = r'.
Proof. intros x y r r' Hx Hy _ _ E. exact (rstr_inj_prefix x y r r' (safe_noquote _ Hx) (safe_noquote _ Hy) E). Qed.

(* ------------------------------------------------------------------ ", ".join(items) + closing bracket *)
Section Items.
Variable T : Type.
Variable rt : T -> string.
Variable ok : T -> bool.
Hypothesis rt_prefix : forall x y r r', ok x = true -> ok y = true -> stops r -> stops r' ->
  (rt x ++ r = rt y ++ r')%string -> x = y /\ r = r'.
Hypothesis rt_head : forall x, ok x = true -> exists c s, rt x = String c s /\ stopchar c = false.
Variable cl : ascii.
Hypothesis cl_stop : stopchar cl = true.
Hypothesis cl_not_comma : cl <> ch_comma.

Lemma ritems_cons_head : forall x t, ok x = true -> exists c s, ritems rt (x :: t) = String c s /\ stopchar c = false.
Proof.
  intros x t Hx. destruct (rt_head x Hx) as (c & s & E & Hc). simpl. destruct t.
  - exists c, s. auto.
  - rewrite E. simpl. eexists _, _. split; [reflexivity | exact Hc].
Qed.

Lemma ritems_prefix : forall xs ys r r',
  forallb ok xs = true -> forallb ok ys = true ->
  (ritems rt xs ++ String cl r = ritems rt ys ++ String cl r')%string -> xs = ys /\ r = r'.
Proof.
  induction xs as [|x xs IH]; intros [|y ys] r r' Hxs Hys E.
  - simpl in E. inversion E. auto.
  - exfalso. simpl in Hys. apply andb_prop in Hys as [Hy _].
    destruct (ritems_cons_head y ys Hy) as (c & s & E' & Hc). rewrite E' in E. simpl in E.
    inversion E; subst. rewrite cl_stop in Hc. discriminate.
  - exfalso. simpl in Hxs. apply andb_prop in Hxs as [Hx _].
    destruct (ritems_cons_head x xs Hx) as (c & s & E' & Hc). rewrite E' in E. simpl in E.
    inversion E; subst. rewrite cl_stop in Hc. discriminate.
  - simpl in Hxs, Hys. apply andb_prop in Hxs as [Hx Hxs]. apply andb_prop in Hys as [Hy Hys].
    assert (Scl : forall z, stops (String cl z)) by (intros z; exists cl, z; auto).
    assert (Sco : forall z, stops (", " ++ z)) by (intros z; eexists _, _; split; [reflexivity|reflexivity]).
    destruct xs as [|x2 xs]; destruct ys as [|y2 ys].
    + simpl in E. destruct (rt_prefix x y _ _ Hx Hy (Scl r) (Scl r') E) as [-> E']. inversion E'. auto.
    + exfalso. change (ritems rt [x]) with (rt x) in E.
      change (ritems rt (y :: y2 :: ys)) with (rt y ++ ", " ++ ritems rt (y2 :: ys))%string in E.
      rewrite !app_assoc_s in E.
      destruct (rt_prefix x y _ _ Hx Hy (Scl r) (Sco _) E) as [_ E']. simpl in E'. inversion E'. auto.
    + exfalso. change (ritems rt [y]) with (rt y) in E.
      change (ritems rt (x :: x2 :: xs)) with (rt x ++ ", " ++ ritems rt (x2 :: xs))%string in E.
      rewrite !app_assoc_s in E.
      destruct (rt_prefix x y _ _ Hx Hy (Sco _) (Scl r') E) as [_ E']. simpl in E'. inversion E'. auto.
    + change (ritems rt (x :: x2 :: xs)) with (rt x ++ ", " ++ ritems rt (x2 :: xs))%string in E.
      change (ritems rt (y :: y2 :: ys)) with (rt y ++ ", " ++ ritems rt (y2 :: ys))%string in E.
      rewrite !app_assoc_s in E.
      destruct (rt_prefix x y _ _ Hx Hy (Sco _) (Sco _) E) as [-> E']. simpl in E'. injection E' as E'.
      destruct (IH (y2 :: ys) r r' Hxs Hys E') as [-> ->]. auto.
Qed.
End Items.

Lemma rbrack_stop : stopchar ch_rbrack = true. Proof. reflexivity. Qed.
Lemma rbrace_stop : stopchar ch_rbrace = true. Proof. reflexivity. Qed.
Lemma rbrack_nc : ch_rbrack <> ch_comma. Proof. discriminate. Qed.
Lemma rbrace_nc : ch_rbrace <> ch_comma. Proof. discriminate. Qed.

Lemma rlist_prefix : forall xs ys r r',
  forallb val_ok xs = true -> forallb val_ok ys = true ->
  (rlist xs ++ r = rlist ys ++ r')%string -> xs = ys /\ r = r'.
Proof.
  intros xs ys r r' Hx Hy E. unfold rlist in E. rewrite !app_assoc_s in E. simpl in E. injection E as E.
  apply (ritems_prefix val rval val_ok rval_prefix rval_head ch_rbrack rbrack_stop rbrack_nc) with (r := r) (r' := r'); auto.
Qed.

Lemma rdict_prefix : forall xs ys r r',
  forallb kv_ok xs = true -> forallb kv_ok ys = true ->
  (rdict xs ++ r = rdict ys ++ r')%string -> xs = ys /\ r = r'.
Proof.
  intros xs ys r r' Hx Hy E. unfold rdict in E. rewrite !app_assoc_s in E. simpl in E. injection E as E.
  apply (ritems_prefix _ rkv kv_ok rkv_prefix rkv_head ch_rbrace rbrace_stop rbrace_nc) with (r := r) (r' := r'); auto.
Qed.

Lemma rnames_prefix : forall xs ys r r',
  forallb safe_str xs = true -> forallb safe_str ys = true -> (rnames xs ++ r = rnames ys ++ r')%string -> xs = ys /\ r = r'.
Proof.
  intros xs ys r r' Hx Hy E. unfold rnames in E. rewrite !app_assoc_s in E. simpl in E. injection E as E.
  exact (ritems_prefix _ rstr safe_str rstr_prefix_stops (fun x _ => rstr_head x) ch_rbrack rbrack_stop rbrack_nc
              xs ys r r' Hx Hy E).
Qed.

Lemma rnames_inj : forall xs ys,
  forallb safe_str xs = true -> forallb safe_str ys = true -> rnames xs = rnames ys -> xs = ys.
Proof.
  intros xs ys Hx Hy E. unfold rnames in E. simpl in E. injection E as E.
  destruct (ritems_prefix _ rstr safe_str rstr_prefix_stops (fun x _ => rstr_head x) ch_rbrack rbrack_stop rbrack_nc
              xs ys "" "" Hx Hy E) as [-> _]. reflexivity.
Qed.

(* ------------------------------------------------------------------ placeholders are well-formed values *)
Lemma digit_char_ok : forall k, k < 10 ->
  let c := ascii_of_nat (48 + k) in
  (negb (Ascii.eqb c ch_quote) && negb (Ascii.eqb c ch_bslash)) = true.
Proof.
  intros k Hk. do 10 (destruct k as [|k]; [reflexivity|]). lia.
Qed.

Lemma nat_digits_safe : forall fuel n acc, safe_str acc = true -> safe_str (nat_digits fuel n acc) = true.
Proof.
  induction fuel as [|fuel IH]; intros n acc Hacc; cbn [nat_digits]; [exact Hacc|].
  assert (Hd : safe_str (String (ascii_of_nat (48 + n mod 10)) acc) = true).
  { unfold safe_str. cbn [allc]. fold (safe_str acc). rewrite Hacc, andb_true_r.
    apply (digit_char_ok (n mod 10)). apply Nat.mod_upper_bound. discriminate. }
  destruct (Nat.ltb n 10); [exact Hd | apply IH; exact Hd].
Qed.

Lemma input_name_safe : forall i, safe_str (input_name i) = true.
Proof.
  intros i. unfold input_name, safe_str. rewrite allc_app. apply andb_true_intro. split; [reflexivity|].
  apply nat_digits_safe. reflexivity.
Qed.

Lemma add_placeholders_ok : forall n args i, forallb val_ok args = true -> forallb val_ok (add_placeholders args i n) = true.
Proof.
  induction n as [|n IH]; intros args i Hargs; simpl; [exact Hargs|].
  apply IH. destruct (existsb _ args); [exact Hargs|].
  rewrite forallb_app, Hargs. simpl. rewrite input_name_safe. reflexivity.
Qed.

(* ------------------------------------------------------------------ induction over node trees *)
Lemma fnode_ind' (P : fnode -> Prop) :
  (forall ovr f args kw ins nout, Forall (fun x => P (fst x)) ins -> P (FN ovr f args kw ins nout)) ->
  forall n, P n.
Proof.
  intros Hs. fix IH 1. intros [ovr f args kw ins nout]. apply Hs.
  refine ((fix go (l : list (fnode * option string)) : Forall (fun x => P (fst x)) l :=
             match l with
             | [] => Forall_nil _
             | x :: r => Forall_cons x (match x as x0 return P (fst x0) with (p, o) => IH p end) (go r)
             end) ins).
Qed.

Section NamingProofs.
Variable H : string -> string.
Variable cname : string -> string.
Hypothesis H_inj : forall a b, H a = H b -> a = b.
Hypothesis H_hex : forall a, allc hexchar (H a) = true.

Notation nname := (nname H cname).
Notation wf_node := (wf_node cname).
Notation node_name := (node_name H cname).

Lemma H_nocolon : forall a, nochar ch_colon (H a) = true.
Proof. intros a. apply hex_nochar; [|apply H_hex]. intros x Hx. apply (hexchar_props x Hx). Qed.

Lemma H_safe : forall a, safe_str (H a) = true.
Proof.
  intros a. unfold safe_str. eapply allc_impl; [|apply H_hex]. intros c Hc.
  destruct (hexchar_props c Hc) as (_ & _ & Hq). rewrite Hq. simpl.
  unfold hexchar in Hc. apply existsb_exists in Hc as (d & Hin & Hd). apply Ascii.eqb_eq in Hd. subst d.
  simpl in Hin. repeat (destruct Hin as [<- | Hin]; [reflexivity|]). destruct Hin.
Qed.

Lemma wf_inv : forall ovr f args kw ins nout, wf_node (FN ovr f args kw ins nout) = true ->
  String.length f = 64 /\ safe_str (base_name cname ovr f) = true /\ forallb val_ok args = true /\
  forallb kv_ok kw = true /\ forallb (fun x => wf_node (fst x) && out_ok (snd x)) ins = true.
Proof.
  intros ovr f args kw ins nout Hw. cbn [Names.wf_node] in Hw.
  apply andb_prop in Hw as [Hw H5]. apply andb_prop in Hw as [Hw H4]. apply andb_prop in Hw as [Hw H3].
  apply andb_prop in Hw as [H1 H2]. apply Nat.eqb_eq in H1. repeat split; assumption.
Qed.

Lemma nname_unfold : forall ovr f args kw ins nout,
  nname (FN ovr f args kw ins nout) =
  node_name ovr f args kw (map (fun x => in_print (nname (fst x)) (snd x)) ins) nout.
Proof. reflexivity. Qed.

Lemma nname_safe : forall n, wf_node n = true -> safe_str (nname n) = true.
Proof.
  intros [ovr f args kw ins nout] Hw. destruct (wf_inv _ _ _ _ _ _ Hw) as (_ & Hb & _).
  rewrite nname_unfold. unfold Names.node_name, safe_str. rewrite allc_app. fold (safe_str (base_name cname ovr f)).
  rewrite Hb. simpl. apply H_safe.
Qed.

Lemma in_print_safe : forall p o, wf_node p = true -> out_ok o = true -> safe_str (in_print (nname p) o) = true.
Proof.
  intros p [o|] Hp Ho; simpl; [|apply nname_safe; exact Hp].
  unfold safe_str. rewrite allc_app. fold (safe_str (nname p)). rewrite (nname_safe p Hp). simpl.
  apply andb_prop in Ho as [Ho _]. apply andb_prop in Ho as [Ho _]. exact Ho.
Qed.

Lemma innames_safe : forall ins, forallb (fun x => wf_node (fst x) && out_ok (snd x)) ins = true ->
  forallb safe_str (map (fun x => in_print (nname (fst x)) (snd x)) ins) = true.
Proof.
  induction ins as [|x ins IH]; intros Hw; simpl in *; [reflexivity|].
  apply andb_prop in Hw as [Hx Hw]. apply andb_prop in Hx as [Hx Ho].
  rewrite (in_print_safe _ _ Hx Ho), (IH Hw). reflexivity.
Qed.

(* equal names: equal base, callable, stored arguments, keywords and printed input names *)
Lemma name_eq_parts : forall ovr f args kw ins nout ovr' f' args' kw' ins' nout',
  wf_node (FN ovr f args kw ins nout) = true -> wf_node (FN ovr' f' args' kw' ins' nout') = true ->
  nname (FN ovr f args kw ins nout) = nname (FN ovr' f' args' kw' ins' nout') ->
  base_name cname ovr f = base_name cname ovr' f' /\ f = f' /\
  full_args args (List.length ins) = full_args args' (List.length ins') /\ kw = kw' /\
  map (fun x => in_print (nname (fst x)) (snd x)) ins = map (fun x => in_print (nname (fst x)) (snd x)) ins' /\
  nout = nout'.
Proof.
  intros ovr f args kw ins nout ovr' f' args' kw' ins' nout' Hw Hw' E.
  destruct (wf_inv _ _ _ _ _ _ Hw) as (L & Hb & Ha & Hk & Hi).
  destruct (wf_inv _ _ _ _ _ _ Hw') as (L' & Hb' & Ha' & Hk' & Hi').
  rewrite !nname_unfold in E. unfold Names.node_name in E.
  destruct (split_at_last ch_colon _ _ _ _ (H_nocolon _) (H_nocolon _) E) as [Eb Eh].
  apply H_inj in Eh. unfold preimage in Eh. rewrite !map_length in Eh.
  destruct (app_eq_length f f' _ _ (eq_trans L (eq_sym L')) Eh) as [<- E1].
  apply app_inv_head_s in E1.
  destruct (rlist_prefix _ _ _ _ (add_placeholders_ok _ _ _ Ha) (add_placeholders_ok _ _ _ Ha') E1) as [Ea E2].
  destruct (rdict_prefix _ _ _ _ Hk Hk' E2) as [<- E3].
  apply rnames_prefix in E3 as [E3 E4]; [|apply innames_safe; assumption|apply innames_safe; assumption].
  repeat split; assumption.
Qed.

Lemma in_print_inj : forall p o q o',
  wf_node p = true -> wf_node q = true -> out_ok o = true -> out_ok o' = true ->
  in_print (nname p) o = in_print (nname q) o' -> nname p = nname q /\ o = o'.
Proof.
  assert (Mixed : forall p q o', wf_node q = true -> out_ok (Some o') = true ->
            nname p = in_print (nname q) (Some o') -> False).
  { intros [ovr f args kw ins nout] [ovr' f' args' kw' ins' nout'] o' Hq Ho E.
    rewrite !nname_unfold in E. unfold Names.node_name in E. simpl in E.
    rewrite app_assoc_s in E. simpl in E.
    simpl in Ho. apply andb_prop in Ho as [Ho Hc]. 
    match type of E with (_ ++ String _ ?h = _ ++ String _ ?h')%string =>
      assert (Hn : nochar ch_colon h' = true) end.
    { unfold nochar. rewrite allc_app. fold (nochar ch_colon (H (preimage cname f' args' kw' (map (fun x => in_print (nname (fst x)) (snd x)) ins') nout'))).
      rewrite H_nocolon. simpl. exact Hc. }
    destruct (split_at_last ch_colon _ _ _ _ (H_nocolon _) Hn E) as [_ Eh].
    pose proof (H_hex (preimage cname f args kw (map (fun x => in_print (nname (fst x)) (snd x)) ins) nout)) as Hh.
    rewrite Eh, allc_app in Hh. simpl in Hh. rewrite andb_false_r in Hh. discriminate. }
  intros p [o|] q [o'|] Hp Hq Ho Ho' E.
  - simpl in E. simpl in Ho, Ho'.
    apply andb_prop in Ho as [Ho _]. apply andb_prop in Ho as [_ Hd].
    apply andb_prop in Ho' as [Ho' _]. apply andb_prop in Ho' as [_ Hd'].
    destruct (split_at_last ch_dot _ _ _ _ Hd Hd' E) as [-> ->]. auto.
  - exfalso. symmetry in E. exact (Mixed q p o Hp Ho E).
  - exfalso. exact (Mixed p q o' Hq Ho' E).
  - simpl in E. auto.
Qed.

(* C14, first claim *)
Theorem name_injective : forall a b,
  wf_node a = true -> wf_node b = true -> nname a = nname b -> comp_of a = comp_of b.
Proof.
  induction a as [ovr f args kw ins nout IH] using fnode_ind'.
  intros [ovr' f' args' kw' ins' nout'] Hw Hw' E.
  destruct (name_eq_parts _ _ _ _ _ _ _ _ _ _ _ _ Hw Hw' E) as (_ & <- & Ea & <- & Ei & _).
  destruct (wf_inv _ _ _ _ _ _ Hw) as (_ & _ & _ & _ & Hi).
  destruct (wf_inv _ _ _ _ _ _ Hw') as (_ & _ & _ & _ & Hi').
  cbn [comp_of]. rewrite Ea. f_equal.
  clear Ea E Hw Hw'. revert ins' Hi' Ei. induction ins as [|[p o] ins IHl]; intros [|[q o'] ins'] Hi' Ei; simpl in *; try discriminate.
  - reflexivity.
  - injection Ei as E1 E2. inversion IH as [|? ? IHp IHr]; subst.
    apply andb_prop in Hi as [Hp Hi]. apply andb_prop in Hp as [Hp Ho].
    apply andb_prop in Hi' as [Hq Hi']. apply andb_prop in Hq as [Hq Ho'].
    destruct (in_print_inj p o q o' Hp Hq Ho Ho' E1) as [En ->].
    simpl in IHp. rewrite (IHp q Hp Hq En). f_equal. apply IHl; assumption.
Qed.

(* C14, lowering by name: two nodes of one name lower to the same task and the same edges *)
Theorem lowering_unambiguous : forall a b,
  wf_node a = true -> wf_node b = true -> nname a = nname b -> lowered H cname a = lowered H cname b.
Proof.
  intros [ovr f args kw ins nout] [ovr' f' args' kw' ins' nout'] Hw Hw' E.
  destruct (name_eq_parts _ _ _ _ _ _ _ _ _ _ _ _ Hw Hw' E) as (_ & <- & Ea & <- & Ei & _).
  destruct (wf_inv _ _ _ _ _ _ Hw) as (_ & _ & _ & _ & Hi).
  destruct (wf_inv _ _ _ _ _ _ Hw') as (_ & _ & _ & _ & Hi').
  unfold lowered. rewrite Ea. f_equal.
  clear Ea E Hw Hw'. revert ins' Hi' Ei. induction ins as [|[p o] ins IHl]; intros [|[q o'] ins'] Hi' Ei; simpl in *; try discriminate.
  - reflexivity.
  - injection Ei as E1 E2.
    apply andb_prop in Hi as [Hp Hi]. apply andb_prop in Hp as [Hp Ho].
    apply andb_prop in Hi' as [Hq Hi']. apply andb_prop in Hq as [Hq Ho'].
    destruct (in_print_inj p o q o' Hp Hq Ho Ho' E1) as [En ->].
    rewrite En. f_equal. apply IHl; assumption.
Qed.

(* nodes of one name have the same number of outputs (so deduplication by name merges them) *)
Theorem same_name_same_outputs : forall a b,
  wf_node a = true -> wf_node b = true -> nname a = nname b -> nout_of a = nout_of b.
Proof.
  intros [ovr f args kw ins nout] [ovr' f' args' kw' ins' nout'] Hw Hw' E.
  destruct (name_eq_parts _ _ _ _ _ _ _ _ _ _ _ _ Hw Hw' E) as (_ & _ & _ & _ & _ & En). exact En.
Qed.

(* C14, determinism: the name is a function of the computation and of the caller-given
   labels; nothing else (object identity, creation order, number of outputs) enters *)
Theorem name_function_of_computation : forall a b,
  comp_of a = comp_of b -> labels_of a = labels_of b -> nname a = nname b.
Proof.
  induction a as [ovr f args kw ins nout IH] using fnode_ind'.
  intros [ovr' f' args' kw' ins' nout'] Ec El.
  cbn [comp_of] in Ec. cbn [labels_of] in El. injection Ec as <- Ea <- Ei. injection El as <- <- El.
  rewrite !nname_unfold. unfold Names.node_name, preimage. rewrite !map_length.
  assert (En : map (fun x => in_print (nname (fst x)) (snd x)) ins = map (fun x => in_print (nname (fst x)) (snd x)) ins').
  { clear Ea. revert ins' Ei El. induction ins as [|[p o] ins IHl]; intros [|[q o'] ins'] Ei El; simpl in *; try discriminate.
    - reflexivity.
    - injection Ei as E1 E2 E3. injection El as L1 L2 L3. inversion IH as [|? ? IHp IHr]; subst.
      simpl in IHp. rewrite (IHp q E1 L1). 
      assert (o = o') as ->.
      { destruct o, o'; simpl in *; try discriminate; congruence. }
      f_equal. apply IHl; assumption. }
  rewrite En, Ea. reflexivity.
Qed.

End NamingProofs.

(* ------------------------------------------------------------------ operand integrity *)
Definition is_temp (l : loc) : Prop := exists a, l = Temp a.

Lemma bind_ok : forall A B (r : res A) (f : A -> res B) y, bind r f = Ok y -> exists x, r = Ok x /\ f x = Ok y.
Proof. intros A B [x|e] f y E; simpl in E; [exists x; auto | discriminate]. Qed.

Lemma write_temp : forall h a b, write h (Temp a) b = (h, Temp b).
Proof. reflexivity. Qed.

Lemma add_dimension_temp : forall h a n v ax h' l', add_dimension h (Temp a) n v ax = Ok (h', l') -> h' = h /\ is_temp l'.
Proof. intros h a n v ax h' l' E. unfold add_dimension in E. simpl in E. inversion E. split; [reflexivity | eexists; reflexivity]. Qed.

Lemma squeeze_dimension_temp : forall h a d dr h' l', squeeze_dimension h (Temp a) d dr = Ok (h', l') -> h' = h /\ is_temp l'.
Proof.
  intros h a d dr h' l' E. unfold squeeze_dimension in E. simpl in E.
  destruct (has_dim a d && _); inversion E; (split; [reflexivity | eexists; reflexivity]).
Qed.

Lemma fresh_copy_temp : forall h l t, fresh_copy h l = Ok t -> is_temp t.
Proof. intros h l t E. unfold fresh_copy in E. apply bind_ok in E as (a & _ & E). inversion E. eexists; reflexivity. Qed.

Lemma join_pure : forall h s o d m c h' l', join h s o d m c = Ok (h', l') -> h' = h /\ is_temp l'.
Proof.
  intros h s o d m c h' l' E. unfold join in E.
  apply bind_ok in E as (a & _ & E). apply bind_ok in E as (b & _ & E). inversion E.
  split; [reflexivity | eexists; reflexivity].
Qed.

Lemma atomic_pure : forall h r h' l', atomic h r = Ok (h', l') -> h' = h /\ is_temp l'.
Proof. intros h r h' l' E. inversion E. split; [reflexivity | eexists; reflexivity]. Qed.

Lemma select_pure : forall h s e r h' l', select h s e r = Ok (h', l') -> h' = h.
Proof. intros h s e r h' l' E. unfold select in E. destruct e; inversion E; reflexivity. Qed.

Lemma combine_pure : forall h s d k r h' l', combine h s d k r = Ok (h', l') -> h' = h.
Proof.
  intros h s d k r h' l' E. unfold combine in E. apply bind_ok in E as (a & _ & E).
  destruct (dim_size a d) as [[|[|n]]|]; try discriminate.
  - inversion E; reflexivity.
  - destruct k; [inversion E; reflexivity|].
    apply bind_ok in E as (t & Ht & E). destruct (fresh_copy_temp _ _ _ Ht) as (b & ->).
    apply squeeze_dimension_temp in E as [-> _]. reflexivity.
  - inversion E; reflexivity.
Qed.

Lemma apply_tfunc_pure : forall h s f h' l', apply_tfunc h s f = Ok (h', l') -> h' = h.
Proof.
  intros h s [|c|e r] h' l' E; cbn [apply_tfunc] in E.
  - inversion E; reflexivity.
  - apply bind_ok in E as (a & _ & E). inversion E; reflexivity.
  - exact (select_pure _ _ _ _ _ _ E).
Qed.

Lemma transform_loop_pure : forall params h s d ax acc h' r,
  (forall l, acc = Some l -> is_temp l) ->
  transform_loop h s params d ax acc = Ok (h', r) ->
  h' = h /\ (forall l, r = Some l -> is_temp l).
Proof.
  induction params as [|[[f v] c] rest IH]; intros h s d ax acc h' r Hacc E; simpl in E.
  - inversion E; subst. auto.
  - apply bind_ok in E as ([h1 l1] & E1 & E). apply apply_tfunc_pure in E1 as ->. cbn [fst snd] in E.
    apply bind_ok in E as (nr & Hnr & E). destruct (fresh_copy_temp _ _ _ Hnr) as (b & ->).
    apply bind_ok in E as (a & _ & E).
    apply bind_ok in E as ([h2 l2] & E2 & E). cbn [fst snd] in E.
    assert (h2 = h /\ is_temp l2) as [-> Hl2].
    { destruct (has_coord a d).
      - inversion E2; subst. split; [reflexivity | eexists; reflexivity].
      - exact (add_dimension_temp _ _ _ _ _ _ _ E2). }
    destruct acc as [prev|].
    + apply bind_ok in E as ([h3 l3] & E3 & E). apply join_pure in E3 as [-> Hl3]. cbn [fst snd] in E.
      apply (IH h s d ax (Some l3) h' r); [|exact E]. intros l El. inversion El; subst. exact Hl3.
    + apply (IH h s d ax (Some l2) h' r); [|exact E]. intros l El. inversion El; subst. exact Hl2.
Qed.

Lemma transform_pure : forall h s ps d ax h' l', transform h s ps d ax = Ok (h', l') -> h' = h.
Proof.
  intros h s ps d ax h' l' E. unfold transform in E. apply bind_ok in E as ([h1 r] & E1 & E).
  apply transform_loop_pure in E1 as [-> Hr]; [|intros l El; discriminate]. cbn [fst snd] in E.
  destruct r as [l|]; [|discriminate]. destruct (Hr l eq_refl) as (a & ->).
  apply squeeze_dimension_temp in E as [-> _]. reflexivity.
Qed.

Lemma publish_ext : forall h l h' s, publish (h, l) = (h', s) -> exists ext, h' = h ++ ext.
Proof.
  intros h [s0|a] h' s E; unfold publish in E; cbn [fst snd] in E; inversion E; subst.
  - exists []. rewrite app_nil_r. reflexivity.
  - exists [a]. reflexivity.
Qed.

Lemma exec_ext : forall h o h' s, exec h o = Ok (h', s) -> exists ext, h' = h ++ ext.
Proof.
  intros h o h' s E. destruct o as [s0 os r|s0 e r|s0 o d m c|s0 o r|s0 d k r|s0 ps d ax]; cbn [exec] in E.
  - destruct (valid h s0 && _); [|discriminate]. apply bind_ok in E as ([h1 l1] & E1 & E).
    apply atomic_pure in E1 as [-> _]. inversion E as [E']. exact (publish_ext _ _ _ _ E').
  - destruct (valid h s0); [|discriminate]. apply bind_ok in E as ([h1 l1] & E1 & E).
    apply select_pure in E1 as ->. inversion E as [E']. exact (publish_ext _ _ _ _ E').
  - apply bind_ok in E as ([h1 l1] & E1 & E). apply join_pure in E1 as [-> _].
    inversion E as [E']. exact (publish_ext _ _ _ _ E').
  - apply bind_ok in E as ([h1 l1] & E1 & E). apply join_pure in E1 as [-> _]. cbn [fst snd] in E.
    apply bind_ok in E as ([h2 l2] & E2 & E). apply atomic_pure in E2 as [-> _].
    inversion E as [E']. exact (publish_ext _ _ _ _ E').
  - apply bind_ok in E as ([h1 l1] & E1 & E). apply combine_pure in E1 as ->.
    inversion E as [E']. exact (publish_ext _ _ _ _ E').
  - apply bind_ok in E as ([h1 l1] & E1 & E). apply transform_pure in E1 as ->.
    inversion E as [E']. exact (publish_ext _ _ _ _ E').
Qed.

Lemma run_ext : forall ops h h', run h ops = Ok h' -> exists ext, h' = h ++ ext.
Proof.
  induction ops as [|o ops IH]; intros h h' E; simpl in E.
  - inversion E. exists []. rewrite app_nil_r. reflexivity.
  - apply bind_ok in E as ([h1 s] & E1 & E). apply exec_ext in E1 as (e1 & ->). cbn [fst] in E.
    apply IH in E as (e2 & ->). exists (e1 ++ e2). rewrite app_assoc. reflexivity.
Qed.

(* C14, second claim: whatever operations are applied, with whatever operands, every action
   that existed before still has the array (dimensions, coordinates, cells) it had *)
Theorem operands_intact : forall ops h h', run h ops = Ok h' ->
  forall i a, nth_error h i = Some a -> nth_error h' i = Some a.
Proof.
  intros ops h h' E i a Hi. apply run_ext in E as (ext & ->).
  rewrite nth_error_app1; [exact Hi|]. apply nth_error_Some. rewrite Hi. discriminate.
Qed.

(* the in-place primitives do write when aimed at a visible action: the theorem above is
   about how the operations use them, not about the primitives being harmless *)
Lemma squeeze_dimension_writes :
  squeeze_dimension [mkArr [("x", ["0"])] [] 7] (Existing 0) "x" false
  = Ok ([mkArr [] [("x", "0")] 7], Existing 0).
Proof. reflexivity. Qed.

(* ------------------------------------------------------------------ a concrete instance of the hash hypotheses *)
From EKW Require Import Fluent.NamesCheck.

Lemma hex_of_nibble_hex : forall n, n < 16 -> hexchar (hex_of_nibble n) = true.
Proof. intros n Hn. do 16 (destruct n as [|n]; [reflexivity|]). lia. Qed.

Lemma hex_of_nibble_inj : forall n m, n < 16 -> m < 16 -> hex_of_nibble n = hex_of_nibble m -> n = m.
Proof.
  intros n m Hn Hm E.
  do 16 (destruct n as [|n]; [do 16 (destruct m as [|m]; [first [reflexivity | discriminate E]|]); lia|]). lia.
Qed.

Lemma hexenc_hex : forall s, allc hexchar (hexenc s) = true.
Proof.
  induction s as [|c s IH]; [reflexivity|]. cbn [hexenc allc].
  rewrite IH, !hex_of_nibble_hex; [reflexivity| |].
  - apply Nat.mod_upper_bound. discriminate.
  - apply Nat.div_lt_upper_bound; [discriminate|]. pose proof (nat_ascii_bounded c). lia.
Qed.

Lemma nib_pair_inj : forall n m, n < 256 -> m < 256 ->
  hex_of_nibble (n / 16) = hex_of_nibble (m / 16) -> hex_of_nibble (n mod 16) = hex_of_nibble (m mod 16) -> n = m.
Proof.
  intros n m Hn Hm E1 E2.
  apply hex_of_nibble_inj in E1; [| apply Nat.div_lt_upper_bound; [discriminate|lia] | apply Nat.div_lt_upper_bound; [discriminate|lia]].
  apply hex_of_nibble_inj in E2; [| apply Nat.mod_upper_bound; discriminate | apply Nat.mod_upper_bound; discriminate].
  rewrite (Nat.div_mod n 16), (Nat.div_mod m 16); try discriminate. rewrite E1, E2. reflexivity.
Qed.

Lemma hexenc_inj : forall a b, hexenc a = hexenc b -> a = b.
Proof.
  induction a as [|c a IH]; intros [|d b] E; try discriminate; [reflexivity|].
  change (String (hex_of_nibble (nat_of_ascii c / 16)) (String (hex_of_nibble (nat_of_ascii c mod 16)) (hexenc a)) =
          String (hex_of_nibble (nat_of_ascii d / 16)) (String (hex_of_nibble (nat_of_ascii d mod 16)) (hexenc b))) in E.
  injection E as E1 E2 E3.
  pose proof (nib_pair_inj _ _ (nat_ascii_bounded c) (nat_ascii_bounded d) E1 E2) as En.
  f_equal; [|apply IH; exact E3].
  rewrite <- (ascii_nat_embedding c), <- (ascii_nat_embedding d). f_equal. exact En.
Qed.
