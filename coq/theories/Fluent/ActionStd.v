(* Action.std with a batch size: the composition
      (self.power(2).sum(batched).divide(n)  -  self.mean(batched).power(2)).power(0.5)
   has the dimensions and, over a field with an uninterpreted sqrt, the cell values of the
   unbatched std.  Any rank, any sizes, any batch size, with and without keep_dim. *)
From Coq Require Import List Arith NArith ZArith String Bool Lia Field.
From EKW Require Import Fluent.XArr Fluent.Action Fluent.Batch Fluent.ActionProofs Fluent.ActionSpecs.
Import ListNotations.
Open Scope list_scope.

(* ------------------------------------------------------------------ membership in the list surgery *)
Lemma In_firstn {A} : forall k (l : list A) x, In x (firstn k l) -> In x l.
Proof. intros k l x H. rewrite <- (firstn_skipn k l). apply in_or_app. now left. Qed.
Lemma In_skipn {A} : forall k (l : list A) x, In x (skipn k l) -> In x l.
Proof. intros k l x H. rewrite <- (firstn_skipn k l). apply in_or_app. now right. Qed.
Lemma In_remove_at {A} : forall k (l : list A) x, In x (remove_at k l) -> In x l.
Proof. intros k l x H. unfold remove_at in H. apply in_app_or in H as [H|H]; [eapply In_firstn|eapply In_skipn]; eassumption. Qed.
Lemma In_insert_at {A} : forall k (y : A) l x, In x (insert_at k y l) -> x = y \/ In x l.
Proof.
  intros k y l x H. unfold insert_at in H. apply in_app_or in H as [H|[H|H]].
  - right. eapply In_firstn; eassumption. - now left. - right. eapply In_skipn; eassumption.
Qed.

Lemma find_dim_none_iff : forall n l,
  find_dim n l = None <-> forall d, In d l -> String.eqb n (dname d) = false.
Proof.
  intros n. induction l as [|d l IH]; simpl; [split; [intros _ ? []|reflexivity]|].
  destruct (String.eqb n (dname d)) eqn:E.
  - split; [discriminate|]. intros H. specialize (H d (or_introl eq_refl)). congruence.
  - destruct (find_dim n l) eqn:Ef; simpl.
    + split; [discriminate|]. intros H. assert (Some n0 = None) by (apply IH; intros; apply H; now right). discriminate.
    + split; [|reflexivity]. intros _ d' [<-|Hd]; [exact E|]. now apply IH.
Qed.

Lemma find_dim_some_name : forall n l k, find_dim n l = Some k -> dname (nth k l dflt_dim) = n.
Proof.
  intros n. induction l as [|d l IH]; intros k H; [discriminate|]. simpl in H.
  destruct (String.eqb n (dname d)) eqn:E.
  - inversion H; subst. simpl. symmetry. now apply String.eqb_eq.
  - destruct (find_dim n l) as [k'|] eqn:E'; [|discriminate]. inversion H; subst. simpl. now apply IH.
Qed.

(* ------------------------------------------------------------------ what reduce results look like *)
Definition all_indexed (z : xarr) : Prop := forall d, In d (xdims z) -> dindexed d = true.

Lemma reindexed_fix : forall l, (forall d, In d l -> dindexed d = true) -> map reindexed l = l.
Proof.
  induction l as [|d l IH]; intros H; [reflexivity|]. simpl. rewrite IH by (intros; apply H; now right).
  f_equal. specialize (H d (or_introl eq_refl)). destruct d; simpl in *. now subst.
Qed.

Lemma core_fresh : forall n f kw k z, fresh n z -> fresh n (reduce_core f kw k z).
Proof.
  intros n f kw k z [H1 H2]. split; [|exact H2]. cbn [xdims reduce_core].
  apply find_dim_none_iff. intros d Hd. apply in_map_iff in Hd as (d0 & <- & Hd0).
  apply In_remove_at in Hd0. change (dname (reindexed d0)) with (dname d0).
  now apply (proj1 (find_dim_none_iff n (xdims z)) H1).
Qed.

Lemma core_indexed : forall f kw k z, all_indexed (reduce_core f kw k z).
Proof. intros f kw k z d Hd. cbn [xdims reduce_core] in Hd. apply in_map_iff in Hd as (d0 & <- & _). reflexivity. Qed.

Lemma expand_fresh : forall n name v ax z e,
  fresh n z -> name <> n -> x_expand_dims name v ax z = Ok e -> fresh n e.
Proof.
  intros n name v ax z e [H1 H2] Hne H. unfold x_expand_dims in H.
  destruct (_ || _); [discriminate|]. destruct (norm_axis _ _) as [k|]; [|discriminate].
  inversion H; subst e. split; [|exact H2]. cbn [xdims].
  apply find_dim_none_iff. intros d Hd. apply In_insert_at in Hd as [->|Hd].
  - cbn [dname]. apply String.eqb_neq. congruence.
  - now apply (proj1 (find_dim_none_iff n (xdims z)) H1).
Qed.

Lemma expand_indexed : forall name v ax z e,
  all_indexed z -> x_expand_dims name v ax z = Ok e -> all_indexed e.
Proof.
  intros name v ax z e Hz H. unfold x_expand_dims in H.
  destruct (_ || _); [discriminate|]. destruct (norm_axis _ _) as [k|]; [|discriminate].
  inversion H; subst e. intros d Hd. cbn [xdims] in Hd. apply In_insert_at in Hd as [->|Hd]; [reflexivity|now apply Hz].
Qed.

Section StdField.
  Variables (K : Type) (k0 k1 : K) (kadd kmul ksub : K -> K -> K) (kopp : K -> K)
            (kdiv : K -> K -> K) (kinv : K -> K).
  Hypothesis Kth : field_theory k0 k1 kadd kmul ksub kopp kdiv kinv eq.
  Variable ksqrt : K -> K.
  Variable other : fn -> list K -> list cv -> kwargs -> K.
  Variable srcK : N -> K.
  (* the counts that occur are invertible (characteristic 0, or just larger than every size) *)
  Hypothesis count_nonzero : forall n, 0 < n -> of_nat K k0 k1 kadd n <> k0.

  Notation nat2K := (of_nat K k0 k1 kadd).
  Notation sumK := (ksum K k0 kadd).
  Notation ap := (apK K k0 k1 kadd kmul ksub kopp kdiv ksqrt other).
  Notation evK := (ev K srcK ap).
  Notation sameK := (same K srcK ap).

  Definition pw (e : expr) : expr := App f_pow [e] [CF 2] [].

  Lemma ev_sum_sq : forall ins bkw,
    evK (App f_sum (map pw ins) [] bkw) = sumK (map (sq K kmul) (map evK ins)).
  Proof. intros. cbn [ev]. unfold apK at 1. cbn [named fname f_sum F String.eqb Ascii.eqb Bool.eqb]. now rewrite !map_map. Qed.

  Lemma ev_mean : forall ins bkw,
    evK (App f_mean ins [] bkw) = kdiv (sumK (map evK ins)) (nat2K (List.length (map evK ins))).
  Proof. reflexivity. Qed.

  Lemma ev_std : forall ins bkw,
    evK (App f_std ins [] bkw) =
    let col := map evK ins in
    let n := nat2K (List.length col) in
    let mu := kdiv (sumK col) n in
    ksqrt (kdiv (sumK (map (fun x => sq K kmul (ksub x mu)) col)) n).
  Proof. reflexivity. Qed.

  Theorem std_batching_invariant : forall d bs keep bkw a r,
    fresh DT a ->
    a_std d bs keep bkw a = Ok r ->
    exists r0, a_std d 0 keep bkw a = Ok r0 /\ sameK r r0.
  Proof.
    intros d bs keep bkw a r Hfr H.
    assert (Hrefl : forall x, sameK x x) by (intros x; repeat split; reflexivity).
    unfold a_std in *.
    destruct (default_dim d a) as [d'|] eqn:Ed; cbn [bind] in *; [|discriminate].
    change (Nat.leb 0 1) with true. cbn iota.
    destruct (Nat.leb bs 1) eqn:Eb1; [exists r; split; [exact H|apply Hrefl]|].
    destruct (find_dim d' (xdims a)) as [k|] eqn:Ek; [|discriminate].
    destruct (Nat.leb (size_at k a) bs) eqn:Eb2; [exists r; split; [exact H|apply Hrefl]|].
    destruct (a_mean d' bs keep bkw a) as [m|] eqn:Em; cbn [bind] in H; [|discriminate].
    destruct (a_reduce f_sum bkw d' bs keep _) as [s|] eqn:Es; cbn [bind] in H; [|discriminate].
    destruct (a_bin f_sub [] _ _) as [df|] eqn:Edf; cbn [bind] in H; [|discriminate].
    inversion H; subst r; clear H.
    set (n := size_at k a) in *.
    assert (Hnpos : 0 < n) by (apply Nat.leb_gt in Eb2; lia).
    pose proof (default_dim_idem _ _ _ Ed) as Edd.
    (* the batched mean against the unbatched one *)
    apply (mean_batching_invariant K k0 k1 kadd kmul ksub kopp kdiv kinv Kth ksqrt other srcK) in Em
      as (m0 & Em0 & Hdm & Hsm & Hvm).
    unfold a_mean in Em0. rewrite Edd in Em0. cbn [bind] in Em0. change (Nat.leb 0 1) with true in Em0. cbn iota in Em0.
    rewrite a_reduce_unbatched, Edd in Em0. cbn [bind] in Em0. rewrite Ek in Em0.
    (* the batched sum of squares against the unbatched one *)
    apply (reduce_batching_invariant K srcK ap f_sum bkw
             (sum_law_sem K k0 k1 kadd kmul ksub kopp kdiv kinv Kth ksqrt other bkw)) in Es
      as (s0 & Es0 & Hds & Hss & Hvs).
    rewrite a_reduce_unbatched in Es0.
    assert (Edd2 : default_dim d' (a_scalar_op f_pow (CF 2) [] a) = Ok d') by exact Edd.
    rewrite Edd2 in Es0. cbn [bind] in Es0.
    change (find_dim d' (xdims (a_scalar_op f_pow (CF 2) [] a))) with (find_dim d' (xdims a)) in Es0.
    rewrite Ek in Es0.
    rewrite a_reduce_unbatched, Edd. cbn [bind]. rewrite Ek.
    (* the three unbatched reductions, cell by cell *)
    set (cm := reduce_core f_mean bkw k a) in *.
    set (cs := reduce_core f_sum bkw k (a_scalar_op f_pow (CF 2) [] a)) in *.
    set (cr := reduce_core f_std bkw k a).
    set (P1 := fun e e0 : expr => exists ins, List.length ins = n /\
                 e = App f_mean ins [] bkw /\ e0 = App f_std ins [] bkw).
    set (P2 := fun e e0 : expr => exists ins,
                 e = App f_sum (map pw ins) [] bkw /\ e0 = App f_std ins [] bkw).
    assert (Hc1 : rel P1 cm cr).
    { repeat split. intros t. eexists. split; [|split; reflexivity]. now rewrite map_length, seq_length. }
    assert (Hc2 : rel P2 cs cr).
    { repeat split. intros t. exists (map (fun x => xat a (insert_at k x t)) (seq 0 (size_at k a))).
      split; [|reflexivity]. cbn [xat cs reduce_core a_scalar_op a_map]. unfold cs. cbn [xat reduce_core].
      rewrite map_map. reflexivity. }
    assert (Hfin : forall r0, rel P1 m0 r0 -> rel P2 s0 r0 -> fresh DT r0 -> all_indexed r0 ->
              sameK (a_scalar_op f_pow CHalf [] df) r0).
    { intros r0 (Hd1 & Hs1 & Hp1) (Hd2 & Hs2 & Hp2) Hfr0 Hix0.
      (* the subtraction node *)
      assert (Hfn : fresh DT (a_scalar_op f_div (CZ (Z.of_nat n)) [] s)).
      { destruct Hfr0 as [F1 F2]. split; cbn [xdims xscal a_scalar_op a_map]; congruence. }
      assert (Hfm : fresh DT (a_scalar_op f_pow (CZ 2) [] m)).
      { destruct Hfr0 as [F1 F2]. split; cbn [xdims xscal a_scalar_op a_map]; congruence. }
      destruct (bin_spec _ _ _ _ _ Hfn Hfm Edf) as (Hddf & (y' & Ey' & Hmerge) & Hcell).
      cbn [xdims xscal a_scalar_op a_map] in Hddf, Hmerge.
      split; [|split].
      - cbn [xdims a_scalar_op a_map]. rewrite Hddf, Hds, Hd2. now apply reindexed_fix.
      - cbn [xscal a_scalar_op a_map].
        assert (Hsub : merge_scal (xscal s) (xscal y') = Ok (xscal s)).
        { apply merge_scal_sub. intros nm v Hin.
          destruct (proj2 (proj2 (proj2 (match_coords_props _ _ _ Ey'))) nm v Hin) as [Hl|[Hl Hin2]].
          - exact Hl.
          - cbn [xscal a_scalar_op a_map] in Hl, Hin2. exfalso.
            assert (Hin3 : In (nm, v) (xscal s)) by congruence.
            destruct (lookup_in _ _ _ Hin3) as (v' & Hv'). congruence. }
        rewrite Hsub in Hmerge. inversion Hmerge as [Hq]. congruence.
      - intros t. cbn [xat a_scalar_op a_map]. rewrite Hcell. cbn [xat a_scalar_op a_map].
        destruct (Hp1 t) as (ins & Hlen & E1 & E3). destruct (Hp2 t) as (ins' & E2 & E3').
        rewrite E3 in E3'. inversion E3'; subst ins'. clear E3'.
        rewrite E3, ev_std. cbv zeta.
        assert (Hm : evK (xat m t) = kdiv (sumK (map evK ins)) (nat2K (List.length (map evK ins)))).
        { rewrite Hvm, E1. apply ev_mean. }
        assert (Hs : evK (xat s t) = sumK (map (sq K kmul) (map evK ins))).
        { rewrite Hvs, E2. apply ev_sum_sq. }
        assert (Hlen' : List.length (map evK ins) = n) by now rewrite map_length.
        pose proof (variance_identity K k0 k1 kadd kmul ksub kopp kdiv kinv Kth (map evK ins)) as Hvar.
        rewrite Hlen' in *. specialize (Hvar (count_nonzero n Hnpos)). cbv zeta in Hvar.
        rewrite Hvar.
        cbn [ev map]. rewrite Hm, Hs.
        unfold apK. cbn [named fname f_pow f_sub f_div F String.eqb Ascii.eqb Bool.eqb cvK].
        rewrite of_Z_of_nat. reflexivity. }
    destruct keep.
    - destruct (expand_dims_rel P1 _ _ _ _ _ _ Hc1 Em0) as (r0 & Er0 & Hr1).
      destruct (expand_dims_rel P2 _ _ _ _ _ _ Hc2 Es0) as (r0' & Er0' & Hr2).
      change (kept_label (nth k (xdims (a_scalar_op f_pow (CF 2) [] a)) dflt_dim))
        with (kept_label (nth k (xdims a) dflt_dim)) in Er0'.
      rewrite Er0 in Er0'. inversion Er0'; subst r0'. clear Er0'.
      exists r0. split; [exact Er0|]. apply Hfin; [exact Hr1|exact Hr2| |].
      + eapply expand_fresh; [apply core_fresh; exact Hfr| |exact Er0].
        intros ->. destruct Hfr as [F1 _]. congruence.
      + eapply expand_indexed; [apply core_indexed|exact Er0].
    - inversion Em0; subst m0. inversion Es0; subst s0.
      eexists; split; [reflexivity|]. apply Hfin; [exact Hc1|exact Hc2| |].
      + apply core_fresh; exact Hfr.
      + apply core_indexed.
  Qed.
End StdField.
