(* Proofs about Fluent/NamesHeap.v.  With the real Payload.copy (through the constructor) a
   Node construction writes to ONE list object, the one it has just allocated; so for ANY
   program of the caller -- Payload objects re-used for nodes with different numbers of
   inputs, in any order, any number of times -- the heap machine computes exactly the names
   Fluent/Names.v gives to the declared trees (run_refines), every node object holds, at the
   end, the payload its name was hashed from, and every Payload object of the caller holds
   what it was declared with.  The theorems of Fluent/NamesProofs.v (names identify
   computations, lowering by name is unambiguous, the name is a function of the
   computation) thereby hold of the node OBJECTS a program builds. *)
From Coq Require Import List String Ascii Bool Arith Lia.
From EKW Require Import Fluent.Names Fluent.NamesProofs Fluent.NamesHeap.
Import ListNotations.
Open Scope string_scope.
Open Scope list_scope.

(* ------------------------------------------------------------------ list objects *)
Lemma set_nth_length : forall A (l : list A) n x, List.length (set_nth l n x) = List.length l.
Proof. induction l as [|y r IH]; intros [|n] x; simpl; auto. Qed.

Lemma nth_set_nth_same : forall A (l : list A) n x d, n < List.length l -> nth n (set_nth l n x) d = x.
Proof. induction l as [|y r IH]; intros [|n] x d Hn; simpl in *; try lia; auto. apply IH. lia. Qed.

Lemma nth_set_nth_other : forall A (l : list A) n m x d, n <> m -> nth m (set_nth l n x) d = nth m l d.
Proof. induction l as [|y r IH]; intros [|n] [|m] x d Hn; simpl in *; try lia; auto. Qed.

Lemma deref_alloc_old : forall h l r, r < List.length h -> deref (h ++ [l]) r = deref h r.
Proof. intros h l r Hr. unfold deref. apply app_nth1. exact Hr. Qed.

Lemma deref_alloc_new : forall h l, deref (h ++ [l]) (List.length h) = l.
Proof. intros h l. unfold deref. rewrite app_nth2, Nat.sub_diag; [reflexivity|lia]. Qed.

(* the placeholders go to the list object r and to no other *)
Lemma place_from_spec : forall n i h r, r < List.length h ->
  List.length (place_from h r i n) = List.length h /\
  deref (place_from h r i n) r = add_placeholders (deref h r) i n /\
  forall m, m <> r -> deref (place_from h r i n) m = deref h m.
Proof.
  induction n as [|n IH]; intros i h r Hr; cbn [place_from add_placeholders].
  - repeat split; reflexivity.
  - destruct (existsb (val_eqb (VStr (input_name i))) (deref h r)) eqn:E.
    + apply IH. exact Hr.
    + assert (Hl : List.length (append h r (VStr (input_name i))) = List.length h) by apply set_nth_length.
      destruct (IH (S i) (append h r (VStr (input_name i))) r) as (L & D & O); [lia|].
      split; [lia|]. split.
      * rewrite D. unfold append, deref at 1. rewrite nth_set_nth_same by exact Hr. reflexivity.
      * intros m Hm. rewrite (O m Hm). unfold append, deref. apply nth_set_nth_other. auto.
Qed.

(* ------------------------------------------------------------------ the machine against the declaration *)
Definition frame (h h' : lheap) : Prop :=
  List.length h <= List.length h' /\ forall r, r < List.length h -> deref h' r = deref h r.

Lemma frame_alloc : forall h l, frame h (h ++ [l]).
Proof. intros h l. split; [rewrite app_length; lia | intros r Hr; apply deref_alloc_old; exact Hr]. Qed.

Lemma frame_trans : forall a b c, frame a b -> frame b c -> frame a c.
Proof. intros a b c [L1 D1] [L2 D2]. split; [lia|]. intros r Hr. rewrite D2 by lia. apply D1. exact Hr. Qed.

Lemma Forall2_imp : forall A B (P Q : A -> B -> Prop), (forall a b, P a b -> Q a b) ->
  forall l l', Forall2 P l l' -> Forall2 Q l l'.
Proof. intros A B P Q HPQ l l' F. induction F; constructor; auto. Qed.

Lemma Forall2_nth_error : forall A B (P : A -> B -> Prop) l l' i a,
  Forall2 P l l' -> nth_error l i = Some a -> exists b, nth_error l' i = Some b /\ P a b.
Proof.
  intros A B P l l' i a F. revert i. induction F as [|x y l l' Pxy F IH]; intros [|i] E; simpl in *; try discriminate.
  - injection E as <-. eauto.
  - apply IH. exact E.
Qed.

Lemma Forall2_nth_error_r : forall A B (P : A -> B -> Prop) l l' i b,
  Forall2 P l l' -> nth_error l' i = Some b -> exists a, nth_error l i = Some a /\ P a b.
Proof.
  intros A B P l l' i b F. revert i. induction F as [|x y l l' Pxy F IH]; intros [|i] E; simpl in *; try discriminate.
  - injection E as <-. eauto.
  - apply IH. exact E.
Qed.

Section Refinement.
Variable H : string -> string.
Variable cname : string -> string.

Notation nname := (nname H cname).

Definition pay_ok (h : lheap) (p : pobj) (d : decl) : Prop :=
  p_args p < List.length h /\ payload_view h p = d.

(* the node object carries the name of the declared tree and holds the declared payload *)
Definition node_ok (h : lheap) (nd : nobj) (t : fnode) : Prop :=
  n_args nd < List.length h /\ n_name nd = nname t /\ node_view h nd = declared_view t.

Definition R (st : state) (sp : spec) : Prop :=
  Forall2 (pay_ok (s_heap st)) (s_payloads st) (sp_decls sp) /\
  Forall2 (node_ok (s_heap st)) (s_nodes st) (sp_trees sp).

Lemma pay_ok_frame : forall h h' p d, frame h h' -> pay_ok h p d -> pay_ok h' p d.
Proof.
  intros h h' p d [L D] [Hr Hv]. split; [lia|]. unfold payload_view in *. rewrite D by exact Hr. exact Hv.
Qed.

Lemma node_ok_frame : forall h h' nd t, frame h h' -> node_ok h nd t -> node_ok h' nd t.
Proof.
  intros h h' nd t [L D] (Hr & Hn & Hv). split; [lia|]. split; [exact Hn|].
  unfold node_view in *. rewrite D by exact Hr. exact Hv.
Qed.

Lemma R_init : R init spec_init.
Proof. split; constructor. Qed.

Lemma in_names_trees : forall h nodes trees ins l,
  Forall2 (node_ok h) nodes trees -> in_names nodes ins = Some l ->
  exists its, in_trees trees ins = Some its /\ l = map (fun x => in_print (nname (fst x)) (snd x)) its /\
              List.length its = List.length ins.
Proof.
  intros h nodes trees ins l F. revert l. induction ins as [|[i o] ins IH]; intros l E; simpl in *.
  - injection E as <-. exists []. repeat split.
  - destruct (nth_error nodes i) as [nd|] eqn:En; [|discriminate].
    destruct (in_names nodes ins) as [l0|] eqn:E0; [|discriminate]. injection E as <-.
    destruct (Forall2_nth_error _ _ _ _ _ _ _ F En) as (t & Et & (_ & Hn & _)).
    destruct (IH l0 eq_refl) as (its & Ei & -> & Hl).
    exists ((t, o) :: its). rewrite Et, Ei. simpl. rewrite Hn, Hl. repeat split.
Qed.

(* Node.__init__ on a payload whose copy is a NEW list object holding `a` *)
Lemma ctor_step : forall st sp f a k ovr ins nout innames,
  R st sp -> in_names (s_nodes st) ins = Some innames ->
  let h1 := s_heap st ++ [a] in
  let r := List.length (s_heap st) in
  let h' := place_from h1 r 0 (List.length ins) in
  let pre := stored_preimage cname f (deref h' r) k innames nout in
  let base := base_name cname ovr f in
  exists its, in_trees (sp_trees sp) ins = Some its /\
    R (mkSt h' (s_payloads st) (s_nodes st ++ [mkNd base pre (base ++ String ch_colon (H pre)) f r k ins nout]))
      (mkSp (sp_decls sp) (sp_trees sp ++ [FN ovr f a k its nout])).
Proof.
  intros st sp f a k ovr ins nout innames [RP RN] Ein h1 r h' pre base.
  destruct (in_names_trees _ _ _ _ _ RN Ein) as (its & Eit & El & Hlen).
  exists its. split; [exact Eit|].
  assert (Hr : r < List.length h1) by (unfold h1, r; rewrite app_length; simpl; lia).
  destruct (place_from_spec (List.length ins) 0 h1 r Hr) as (L & D & O).
  fold h' in L, D, O.
  assert (Fr : frame (s_heap st) h').
  { split; [rewrite L; unfold h1; rewrite app_length; lia|]. intros m Hm.
    rewrite O by (unfold r; lia). apply deref_alloc_old. exact Hm. }
  assert (Dr : deref h' r = full_args a (List.length ins)).
  { rewrite D. unfold h1, r. rewrite deref_alloc_new. reflexivity. }
  split; cbn [s_heap s_payloads s_nodes sp_decls sp_trees].
  - eapply Forall2_imp; [|exact RP]. intros p d. apply pay_ok_frame. exact Fr.
  - apply Forall2_app.
    + eapply Forall2_imp; [|exact RN]. intros nd t. apply node_ok_frame. exact Fr.
    + constructor; [|constructor]. split; [cbn; lia|]. split.
      * cbn [n_name]. rewrite nname_unfold. unfold node_name, preimage, pre, stored_preimage, base.
        rewrite Dr, <- El. rewrite El at 2. rewrite map_length, Hlen. reflexivity.
      * unfold node_view, declared_view. cbn [n_func n_args n_kw]. rewrite Dr, Hlen. reflexivity.
Qed.

Lemma exec_refines : forall st sp o st',
  R st sp -> exec H cname st o = Ok st' -> exists sp', spec_exec sp o = Some sp' /\ R st' sp'.
Proof.
  intros st sp o st' HR E. destruct o as [f args kw | src ovr ins nout]; cbn [exec exec_with spec_exec] in *.
  - unfold pnew, alloc in E. injection E as <-. eexists. split; [reflexivity|].
    destruct HR as [RP RN]. split; cbn [s_heap s_payloads s_nodes sp_decls sp_trees].
    + apply Forall2_app.
      * eapply Forall2_imp; [|exact RP]. intros p d. apply pay_ok_frame. apply frame_alloc.
      * constructor; [|constructor]. split; [cbn; rewrite app_length; simpl; lia|].
        unfold payload_view. cbn [p_func p_args p_kw]. rewrite deref_alloc_new. reflexivity.
    + eapply Forall2_imp; [|exact RN]. intros nd t. apply node_ok_frame. apply frame_alloc.
  - unfold node_ctor in E.
    assert (Hsrc : forall f a k,
              (match src with SPayload i => nth_error (sp_decls sp) i | SFunc f0 a0 k0 => Some (f0, a0, k0) end) = Some (f, a, k) ->
              (match src with
               | SPayload i => match nth_error (s_payloads st) i with Some p => Ok (pcopy (s_heap st) p) | None => Err "IndexError" end
               | SFunc f0 a0 k0 => Ok (pnew (s_heap st) f0 a0 k0)
               end) = Ok (s_heap st ++ [a], mkP f (List.length (s_heap st)) k)).
    { intros f a k Ed. destruct src as [i | f0 a0 k0].
      - destruct HR as [RP _]. destruct (Forall2_nth_error_r _ _ _ _ _ _ _ RP Ed) as (p & Ep & (_ & Hv)).
        rewrite Ep. unfold pcopy, pnew, alloc, payload_view in *. injection Hv as -> -> ->. reflexivity.
      - injection Ed as -> -> ->. reflexivity. }
    destruct (match src with SPayload i => nth_error (sp_decls sp) i | SFunc f0 a0 k0 => Some (f0, a0, k0) end) as [[[f a] k]|] eqn:Ed.
    + rewrite (Hsrc f a k eq_refl) in E.
      destruct (in_names (s_nodes st) ins) as [innames|] eqn:Ein; [|discriminate].
      injection E as <-. cbn [p_func p_args p_kw].
      destruct (ctor_step st sp f a k ovr ins nout innames HR Ein) as (its & Eit & HR').
      rewrite Eit. eexists. split; [reflexivity|]. exact HR'.
    + exfalso. destruct src as [i | f0 a0 k0]; [|discriminate].
      destruct (nth_error (s_payloads st) i) as [p|] eqn:Ep; [|discriminate].
      destruct HR as [RP _]. destruct (Forall2_nth_error _ _ _ _ _ _ _ RP Ep) as (d & Ed' & _). congruence.
Qed.

Theorem run_refines : forall ops st sp st',
  R st sp -> run H cname ops st = Ok st' -> exists sp', spec_run ops sp = Some sp' /\ R st' sp'.
Proof.
  induction ops as [|o ops IH]; intros st sp st' HR E; cbn [run run_with spec_run] in *.
  - injection E as <-. eauto.
  - destruct (bind_ok _ _ _ _ _ E) as (st1 & E1 & E2).
    destruct (exec_refines st sp o st1 HR E1) as (sp1 & S1 & HR1). rewrite S1.
    exact (IH st1 sp1 st' HR1 E2).
Qed.

(* the three readings of the invariant at the END of a program *)
Theorem built_names_are_declared_names : forall ops st,
  run H cname ops init = Ok st ->
  exists sp, spec_run ops spec_init = Some sp /\
    map n_name (s_nodes st) = map nname (sp_trees sp) /\
    map (node_view (s_heap st)) (s_nodes st) = map declared_view (sp_trees sp) /\
    map (payload_view (s_heap st)) (s_payloads st) = sp_decls sp.
Proof.
  intros ops st E. destruct (run_refines ops init spec_init st R_init E) as (sp & Es & [RP RN]).
  exists sp. split; [exact Es|]. repeat split.
  - induction RN as [|nd t l l' (_ & Hn & _) _ IH]; simpl; [reflexivity|]. rewrite Hn, IH. reflexivity.
  - induction RN as [|nd t l l' (_ & _ & Hv) _ IH]; simpl; [reflexivity|]. rewrite Hv, IH. reflexivity.
  - induction RP as [|p d l l' (_ & Hv) _ IH]; simpl; [reflexivity|]. rewrite Hv, IH. reflexivity.
Qed.

Lemma map_nth_error_eq : forall A B C (f : A -> C) (g : B -> C) l l' i a,
  map f l = map g l' -> nth_error l i = Some a -> exists b, nth_error l' i = Some b /\ f a = g b.
Proof.
  intros A B C f g l. induction l as [|x l IH]; intros [|y l'] i a E Ea; simpl in *; try discriminate; destruct i; simpl in *; try discriminate.
  - injection Ea as <-. injection E as E _. eauto.
  - injection E as _ E. eapply IH; eauto.
Qed.

(* two node objects a program has built carry the same name only if they hold -- when the
   program is over, i.e. when the graph is lowered, serialised or united with another -- the
   same payload (callable, arguments with placeholders, keywords) and read the same outputs
   of nodes with the same names *)
Theorem built_same_name_same_payload :
  (forall a b, H a = H b -> a = b) -> (forall a, allc hexchar (H a) = true) ->
  forall ops st sp, run H cname ops init = Ok st -> spec_run ops spec_init = Some sp ->
  forallb (wf_node cname) (sp_trees sp) = true ->
  forall i j a b, nth_error (s_nodes st) i = Some a -> nth_error (s_nodes st) j = Some b ->
  n_name a = n_name b ->
  node_view (s_heap st) a = node_view (s_heap st) b /\
  exists ta tb, nth_error (sp_trees sp) i = Some ta /\ nth_error (sp_trees sp) j = Some tb /\
                comp_of ta = comp_of tb /\ lowered H cname ta = lowered H cname tb.
Proof.
  intros Hinj Hhex ops st sp E Es Hwf i j a b Ea Eb En.
  destruct (built_names_are_declared_names ops st E) as (sp' & Es' & Mn & Mv & _).
  rewrite Es in Es'. injection Es' as <-.
  destruct (map_nth_error_eq _ _ _ _ _ _ _ i a Mn Ea) as (ta & Eta & Na).
  destruct (map_nth_error_eq _ _ _ _ _ _ _ j b Mn Eb) as (tb & Etb & Nb).
  destruct (map_nth_error_eq _ _ _ _ _ _ _ i a Mv Ea) as (ta' & Eta' & Va).
  destruct (map_nth_error_eq _ _ _ _ _ _ _ j b Mv Eb) as (tb' & Etb' & Vb).
  rewrite Eta in Eta'. injection Eta' as <-. rewrite Etb in Etb'. injection Etb' as <-.
  rewrite forallb_forall in Hwf.
  assert (Wa : wf_node cname ta = true) by (apply Hwf; eapply nth_error_In; exact Eta).
  assert (Wb : wf_node cname tb = true) by (apply Hwf; eapply nth_error_In; exact Etb).
  assert (Enn : nname ta = nname tb) by congruence.
  pose proof (lowering_unambiguous H cname Hinj Hhex ta tb Wa Wb Enn) as Hl.
  pose proof (name_injective H cname Hinj Hhex ta tb Wa Wb Enn) as Hc.
  split.
  - rewrite Va, Vb. destruct ta, tb. unfold lowered in Hl. unfold declared_view. congruence.
  - exists ta, tb. repeat split; assumption.
Qed.

(* building the same thing again -- later in the program, in a second build of the program,
   after the Payload objects were used for nodes with any other numbers of inputs -- gives
   the same name: the name is a function of the declaration *)
Theorem rebuilt_same_names : forall ops st sp,
  run H cname ops init = Ok st -> spec_run ops spec_init = Some sp ->
  forall i j a b ta tb, nth_error (s_nodes st) i = Some a -> nth_error (s_nodes st) j = Some b ->
  nth_error (sp_trees sp) i = Some ta -> nth_error (sp_trees sp) j = Some tb ->
  comp_of ta = comp_of tb -> labels_of ta = labels_of tb -> n_name a = n_name b.
Proof.
  intros ops st sp E Es i j a b ta tb Ea Eb Eta Etb Hc Hl.
  destruct (built_names_are_declared_names ops st E) as (sp' & Es' & Mn & _).
  rewrite Es in Es'. injection Es' as <-.
  destruct (map_nth_error_eq _ _ _ _ _ _ _ i a Mn Ea) as (ta' & Eta' & Na).
  destruct (map_nth_error_eq _ _ _ _ _ _ _ j b Mn Eb) as (tb' & Etb' & Nb).
  rewrite Eta in Eta'. injection Eta' as <-. rewrite Etb in Etb'. injection Etb' as <-.
  rewrite Na, Nb. apply name_function_of_computation; assumption.
Qed.

End Refinement.
