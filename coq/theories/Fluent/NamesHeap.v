(* Model of how fluent nodes get their names WHILE a program is running, with the aliasing of
   the Python objects involved (src/earthkit/workflows/fluent.py: Payload.__init__,
   Payload.copy, Node.__init__):
     - the attribute `args` of a Payload is a reference to a list object;
     - Node.__init__ takes a copy of the Payload it is given (payload.copy()), appends the
       placeholders of its inputs to the copy's list IN PLACE, hashes str(payload) -- the
       list as it is at that moment -- into the name, and keeps the very list object in its
       payload tuple (to_tuple does not copy);
     - one Payload object the caller holds (a program constant, the Payload Action.map /
       Action.reduce hands to every node, every batch and the final aggregation of a batched
       reduction) is given to many Node constructions with different numbers of inputs,
       in the first build of a program and again in the second.
   So whether the name of a node still is the name of the payload the node holds later, and
   whether a second build of the same program hashes the same strings, depends on which
   list objects are shared.  The copy function is a parameter of the executor so that a
   reference-sharing copy (copy.copy) is expressible; `exec` / `run` instantiate the real one.
   Fluent/Names.v describes the name of a node as a function of what the node was declared
   with (a tree); `spec_exec` here reads that declaration off the caller's program, and
   Fluent/NamesHeapProofs.v shows that the heap machine computes exactly those names.
   No proofs in this file. *)
From Coq Require Import List String Ascii Bool Arith.
From EKW Require Import Fluent.Names.
Import ListNotations.
Open Scope string_scope.
Open Scope list_scope.

(* ------------------------------------------------------------------ list objects *)
(* the list objects, addressed in allocation order; allocated and appended to, never freed *)
Definition lheap := list (list val).

Definition deref (h : lheap) (r : nat) : list val := nth r h [].
Definition alloc (h : lheap) (l : list val) : lheap * nat := (h ++ [l], List.length h).
(* list.append on the object r *)
Definition append (h : lheap) (r : nat) (v : val) : lheap := set_nth h r (deref h r ++ [v]).

(* a Payload object: func (its callable_id digest, as in Names.v), args (a reference), kwargs *)
Record pobj := mkP { p_func : string; p_args : nat; p_kw : list (string * val) }.

(* Payload.__init__: self.args = list(args) / list(partial.args) -- a NEW list object *)
Definition pnew (h : lheap) (f : string) (args : list val) (kw : list (string * val)) : lheap * pobj :=
  let '(h', r) := alloc h args in (h', mkP f r kw).

(* Payload.copy(): Payload(self.func, self.args, self.kwargs) -- through the constructor *)
Definition pcopy (h : lheap) (p : pobj) : lheap * pobj := pnew h (p_func p) (deref h (p_args p)) (p_kw p).

(* what copy.copy(payload) does: another Payload object, the same list object *)
Definition pcopy_shallow (h : lheap) (p : pobj) : lheap * pobj := (h, p).

(* for x in range(len(inputs)):
       if self.input_name(x) not in payload.args: payload.args.append(self.input_name(x)) *)
Fixpoint place_from (h : lheap) (r : nat) (i n : nat) : lheap :=
  match n with
  | O => h
  | S n' =>
      let p := VStr (input_name i) in
      place_from (if existsb (val_eqb p) (deref h r) then h else append h r p) r (S i) n'
  end.

(* ------------------------------------------------------------------ nodes *)
(* what Node(...) is given as payload: a Payload object the caller holds, or a callable /
   functools.partial / Payload made on the spot, which nobody else refers to *)
Inductive nsrc := SPayload (i : nat) | SFunc (f : string) (args : list val) (kw : list (string * val)).

(* a fluent Node object: its name (with the string that was hashed), its payload tuple
   (func, THE list object, kwargs), its inputs (earlier node objects, output taken) *)
Record nobj := mkNd {
  n_base : string;
  n_pre : string;
  n_name : string;
  n_func : string;
  n_args : nat;
  n_kw : list (string * val);
  n_ins : list (nat * option string);
  n_nout : string }.

Record state := mkSt { s_heap : lheap; s_payloads : list pobj; s_nodes : list nobj }.
Definition init : state := mkSt [] [] [].

(* the caller's program *)
Inductive bop :=
| BPayload (f : string) (args : list val) (kw : list (string * val))      (* payloads.append(Payload(f, args, kw)) *)
| BNode (src : nsrc) (ovr : option string) (ins : list (nat * option string)) (nout : string).
                                                                          (* nodes.append(Node(src, inputs, num_outputs, name)) *)

Fixpoint in_names (nodes : list nobj) (ins : list (nat * option string)) : option (list string) :=
  match ins with
  | [] => Some []
  | x :: r =>
      match nth_error nodes (fst x), in_names nodes r with
      | Some nd, Some l => Some (in_print (n_name nd) (snd x) :: l)
      | _, _ => None
      end
  end.

Section Exec.
Variable H : string -> string.                   (* custom_hash *)
Variable cname : string -> string.               (* callable -> __name__ *)
Variable cp : lheap -> pobj -> lheap * pobj.     (* payload.copy() *)

(* f"{callable_id(payload.func)}{payload}{[input names]}{num_outputs}" with the list as it is NOW *)
Definition stored_preimage (f : string) (args : list val) (kw : list (string * val)) (innames : list string) (nout : string) : string :=
  f ++ cname f ++ rlist args ++ rdict kw ++ rnames innames ++ nout.

(* Node.__init__(payload, inputs, num_outputs, name) *)
Definition node_ctor (st : state) (src : nsrc) (ovr : option string) (ins : list (nat * option string)) (nout : string) : res state :=
  match (match src with
         | SPayload i => match nth_error (s_payloads st) i with
                         | Some p => Ok (cp (s_heap st) p)                (* payload = payload.copy() *)
                         | None => Err "IndexError"
                         end
         | SFunc f args kw => Ok (pnew (s_heap st) f args kw)             (* payload = Payload(payload) *)
         end) with
  | Err e => Err e
  | Ok (h, p) =>
      match in_names (s_nodes st) ins with
      | None => Err "IndexError"
      | Some innames =>
          let h' := place_from h (p_args p) 0 (List.length ins) in
          let pre := stored_preimage (p_func p) (deref h' (p_args p)) (p_kw p) innames nout in
          let base := base_name cname ovr (p_func p) in
          Ok (mkSt h' (s_payloads st)
                   (s_nodes st ++ [mkNd base pre (base ++ String ch_colon (H pre)) (p_func p) (p_args p) (p_kw p) ins nout]))
      end
  end.

Definition exec_with (st : state) (o : bop) : res state :=
  match o with
  | BPayload f args kw =>
      let '(h, p) := pnew (s_heap st) f args kw in Ok (mkSt h (s_payloads st ++ [p]) (s_nodes st))
  | BNode src ovr ins nout => node_ctor st src ovr ins nout
  end.

Fixpoint run_with (ops : list bop) (st : state) : res state :=
  match ops with
  | [] => Ok st
  | o :: r => bind (exec_with st o) (run_with r)
  end.
End Exec.

Definition exec (H cname : string -> string) := exec_with H cname pcopy.
Definition run (H cname : string -> string) := run_with H cname pcopy.

(* what is read off the state at any LATER time (lowering, serialisation, the next build) *)
Definition payload_view (h : lheap) (p : pobj) : string * list val * list (string * val) :=
  (p_func p, deref h (p_args p), p_kw p).
Definition node_view (h : lheap) (nd : nobj) : string * list val * list (string * val) :=
  (n_func nd, deref h (n_args nd), n_kw nd).

(* ------------------------------------------------------------------ what the program declares *)
(* no objects, no heap: Payload declarations in order, and per Node(...) the tree of Names.v *)
Definition decl := (string * list val * list (string * val))%type.
Record spec := mkSp { sp_decls : list decl; sp_trees : list fnode }.
Definition spec_init : spec := mkSp [] [].

Fixpoint in_trees (trees : list fnode) (ins : list (nat * option string)) : option (list (fnode * option string)) :=
  match ins with
  | [] => Some []
  | x :: r =>
      match nth_error trees (fst x), in_trees trees r with
      | Some t, Some l => Some ((t, snd x) :: l)
      | _, _ => None
      end
  end.

Definition spec_exec (sp : spec) (o : bop) : option spec :=
  match o with
  | BPayload f args kw => Some (mkSp (sp_decls sp ++ [(f, args, kw)]) (sp_trees sp))
  | BNode src ovr ins nout =>
      match (match src with SPayload i => nth_error (sp_decls sp) i | SFunc f a k => Some (f, a, k) end),
            in_trees (sp_trees sp) ins with
      | Some (f, a, k), Some its => Some (mkSp (sp_decls sp) (sp_trees sp ++ [FN ovr f a k its nout]))
      | _, _ => None
      end
  end.

Fixpoint spec_run (ops : list bop) (sp : spec) : option spec :=
  match ops with
  | [] => Some sp
  | o :: r => match spec_exec sp o with Some sp' => spec_run r sp' | None => None end
  end.

(* the payload tuple a declared node should hold: callable, declared arguments + one
   placeholder per input of its own that the declaration does not name, keywords *)
Definition declared_view (t : fnode) : string * list val * list (string * val) :=
  match t with FN _ f args kw ins _ => (f, full_args args (List.length ins), kw) end.
