(* Executable checker used by harness/c13.py: the model runs the same fluent program as
   the implementation; dimensions, coordinates, scalar coordinates and the expression
   tree of EVERY cell are compared with what the real Action.nodes holds (the observed
   graph is given as a node table, cells as indices into it). *)
From Coq Require Import List Arith NArith ZArith String Bool.
From EKW Require Import Fluent.XArr Fluent.Action.
Import ListNotations.
Open Scope string_scope.
Open Scope list_scope.

Inductive onode : Type :=
| OSrc (i : N)
| ONode (f : fn) (ins : list nat) (extra : list cv) (kw : kwargs).

Definition kw_eqb (a b : kwargs) : bool :=
  list_eqb (fun p q : string * cv => String.eqb (fst p) (fst q) && cv_eqb (snd p) (snd q)) a b.

Fixpoint matches (tbl : list onode) (e : expr) (id : nat) : bool :=
  match e, nth_error tbl id with
  | Src i, Some (OSrc j) => N.eqb i j
  | App f ins ex kw, Some (ONode g ids ex' kw') =>
      fn_eqb f g && list_eqb cv_eqb ex ex' && kw_eqb kw kw' &&
      (fix go (l : list expr) (is : list nat) : bool :=
         match l, is with
         | [], [] => true
         | x :: r, i :: s => matches tbl x i && go r s
         | _, _ => false
         end) ins ids
  | _, _ => false
  end.

Fixpoint all2 {A B} (f : A -> B -> bool) (l : list A) (m : list B) : bool :=
  match l, m with
  | [], [] => true
  | x :: r, y :: s => f x y && all2 f r s
  | _, _ => false
  end.

Definition odim := (string * list cv * bool)%type.

Definition dim_eqb (d : dimn) (o : odim) : bool :=
  let '(n, cs, ix) := o in
  String.eqb (dname d) n && list_eqb cv_eqb (dcoords d) cs && Bool.eqb (dindexed d) ix.

Definition scal_eqb (m o : list (string * cv)) : bool :=
  Nat.eqb (List.length m) (List.length o) &&
  forallb (fun p : string * cv => match lookup (fst p) m with Some v => cv_eqb v (snd p) | None => false end) o.

Definition observed := (list odim * list (string * cv) * list nat * list onode)%type.

Definition check_arr (a : xarr) (o : observed) : bool :=
  let '(ds, sc, ids, tbl) := o in
  all2 dim_eqb (xdims a) ds && scal_eqb (xscal a) sc && all2 (matches tbl) (cells a) ids.

Definition check_case (c : list instr * (observed + string)) : bool :=
  let '(p, exp) := c in
  match run [] p, exp with
  | Ok env, inl o => match rev env with a :: _ => check_arr a o | [] => false end
  | Err e, inr e' => String.eqb e e'
  | _, _ => false
  end.

(* a session: SEVERAL results of one program (several calls on the same objects) are compared,
   each with what the implementation holds for it after the whole program was built *)
Definition check_session (c : list instr * list (nat * observed)) : bool :=
  let '(p, exps) := c in
  match run [] p with
  | Ok env => forallb (fun io : nat * observed =>
                match nth_error env (fst io) with Some a => check_arr a (snd io) | None => false end) exps
  | Err _ => false
  end.

(* what the model says, for diagnosis from the harness *)
Definition model_error (p : list instr) : string :=
  match run [] p with Ok _ => "ok" | Err e => e end.
