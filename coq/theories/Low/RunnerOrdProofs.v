(* Proofs about Util/StrOrd.v: the byte-wise order is a strict total order, sort_by_key
   sorts (permutation + ordered) and leaves an increasing list alone, zero-padded decimal
   numerals of equal width are ordered like the numbers, for every width. *)
From Coq Require Import List String Ascii Arith Bool Lia Sorting.Permutation Sorting.Sorted.
From EKW Require Import Util.StrOrd.
Import ListNotations.
Open Scope list_scope.

Lemma nat_of_ascii_inj : forall a b, nat_of_ascii a = nat_of_ascii b -> a = b.
Proof.
  intros a b H. rewrite <- (ascii_nat_embedding a), <- (ascii_nat_embedding b), H. reflexivity.
Qed.

Lemma sltb_irrefl : forall a, sltb a a = false.
Proof.
  induction a as [|x a IH]; cbn [sltb]; [reflexivity|].
  rewrite Nat.ltb_irrefl. exact IH.
Qed.

Lemma sltb_trans : forall a b c, sltb a b = true -> sltb b c = true -> sltb a c = true.
Proof.
  induction a as [|x a IH]; intros [|y b] [|z c] Hab Hbc; cbn [sltb] in *; try discriminate; try reflexivity.
  destruct (nat_of_ascii x <? nat_of_ascii y) eqn:Exy.
  - apply Nat.ltb_lt in Exy.
    destruct (nat_of_ascii y <? nat_of_ascii z) eqn:Eyz.
    + apply Nat.ltb_lt in Eyz. assert (H : nat_of_ascii x <? nat_of_ascii z = true) by (apply Nat.ltb_lt; lia).
      rewrite H. reflexivity.
    + destruct (nat_of_ascii z <? nat_of_ascii y) eqn:Ezy; [discriminate|].
      apply Nat.ltb_ge in Eyz. apply Nat.ltb_ge in Ezy.
      assert (H : nat_of_ascii x <? nat_of_ascii z = true) by (apply Nat.ltb_lt; lia).
      rewrite H. reflexivity.
  - destruct (nat_of_ascii y <? nat_of_ascii x) eqn:Eyx; [discriminate|].
    apply Nat.ltb_ge in Exy. apply Nat.ltb_ge in Eyx.
    assert (Hxy : nat_of_ascii x = nat_of_ascii y) by lia. rewrite Hxy.
    destruct (nat_of_ascii y <? nat_of_ascii z) eqn:Eyz; [reflexivity|].
    destruct (nat_of_ascii z <? nat_of_ascii y) eqn:Ezy; [discriminate|].
    eapply IH; eassumption.
Qed.

Lemma sltb_asym : forall a b, sltb a b = true -> sltb b a = false.
Proof.
  intros a b H. destruct (sltb b a) eqn:E; [|reflexivity].
  pose proof (sltb_trans _ _ _ H E) as H1. rewrite sltb_irrefl in H1. discriminate.
Qed.

Lemma sltb_total : forall a b, sltb a b = false -> sltb b a = false -> a = b.
Proof.
  induction a as [|x a IH]; intros [|y b] Hab Hba; cbn [sltb] in *; try discriminate; try reflexivity.
  destruct (nat_of_ascii x <? nat_of_ascii y) eqn:Exy; [discriminate|].
  destruct (nat_of_ascii y <? nat_of_ascii x) eqn:Eyx; [discriminate|].
  apply Nat.ltb_ge in Exy. apply Nat.ltb_ge in Eyx.
  assert (Hxy : x = y) by (apply nat_of_ascii_inj; lia). subst y.
  f_equal. apply IH; assumption.
Qed.

Lemma sleb_refl : forall a, sleb a a = true.
Proof. intros a. unfold sleb. rewrite sltb_irrefl. reflexivity. Qed.

Lemma sleb_total : forall a b, sleb a b = true \/ sleb b a = true.
Proof.
  intros a b. unfold sleb. destruct (sltb b a) eqn:E; [right|left; reflexivity].
  rewrite (sltb_asym _ _ E). reflexivity.
Qed.

Lemma sleb_trans : forall a b c, sleb a b = true -> sleb b c = true -> sleb a c = true.
Proof.
  unfold sleb. intros a b c Hab Hbc.
  apply negb_true_iff in Hab. apply negb_true_iff in Hbc. apply negb_true_iff.
  destruct (sltb c a) eqn:Eca; [|reflexivity].
  destruct (sltb a b) eqn:Eab.
  - rewrite (sltb_trans _ _ _ Eca Eab) in Hbc. discriminate.
  - pose proof (sltb_total _ _ Eab Hab). subst b. rewrite Eca in Hbc. discriminate.
Qed.

Lemma sleb_antisym : forall a b, sleb a b = true -> sleb b a = true -> a = b.
Proof.
  unfold sleb. intros a b H1 H2. apply negb_true_iff in H1. apply negb_true_iff in H2.
  apply sltb_total; assumption.
Qed.

Lemma sltb_sleb : forall a b, sltb a b = true -> sleb a b = true.
Proof. intros a b H. unfold sleb. rewrite (sltb_asym _ _ H). reflexivity. Qed.

(* ------------------------------------------------------------------ the sort *)
Section Sort.
Context {A : Type}.
Notation kle := (fun x y : string * A => sleb (fst x) (fst y) = true).
Notation klt := (fun x y : string * A => sltb (fst x) (fst y) = true).

Lemma insert_perm : forall (kx : string * A) l, Permutation (insert_by_key kx l) (kx :: l).
Proof.
  intros kx l. induction l as [|ky r IH]; cbn; [apply Permutation_refl|].
  destruct (sleb (fst kx) (fst ky)); [apply Permutation_refl|].
  eapply Permutation_trans; [apply perm_skip; exact IH|apply perm_swap].
Qed.

Lemma sort_perm : forall l : list (string * A), Permutation (sort_by_key l) l.
Proof.
  induction l as [|x l IH]; cbn; [constructor|].
  eapply Permutation_trans; [apply insert_perm|apply perm_skip; exact IH].
Qed.

Lemma insert_hdrel : forall (a kx : string * A) l,
  HdRel kle a l -> kle a kx -> HdRel kle a (insert_by_key kx l).
Proof.
  intros a kx l H Ha. destruct l as [|ky r]; cbn; [constructor; exact Ha|].
  destruct (sleb (fst kx) (fst ky)); constructor; [exact Ha|].
  inversion H; assumption.
Qed.

Lemma insert_sorted : forall (kx : string * A) l, Sorted kle l -> Sorted kle (insert_by_key kx l).
Proof.
  intros kx l H. induction H as [|ky r Hs IH Hh]; cbn; [repeat constructor|].
  destruct (sleb (fst kx) (fst ky)) eqn:E.
  - constructor; [constructor; assumption|constructor; exact E].
  - constructor; [exact IH|]. apply insert_hdrel; [exact Hh|].
    destruct (sleb_total (fst ky) (fst kx)) as [H1|H1]; [exact H1|rewrite H1 in E; discriminate].
Qed.

Lemma sort_sorted : forall l : list (string * A), Sorted kle (sort_by_key l).
Proof. induction l as [|x l IH]; cbn; [constructor|apply insert_sorted; exact IH]. Qed.

(* an increasing list is left alone *)
Lemma sort_increasing : forall l : list (string * A), Sorted klt l -> sort_by_key l = l.
Proof.
  intros l H. induction H as [|x l Hs IH Hh]; [reflexivity|].
  cbn. change (fold_right insert_by_key [] l) with (sort_by_key l). rewrite IH.
  destruct l as [|y r]; [reflexivity|]. cbn. inversion Hh as [|? ? Hxy]; subst.
  rewrite (sltb_sleb _ _ Hxy). reflexivity.
Qed.

Lemma sort_length : forall l : list (string * A), List.length (sort_by_key l) = List.length l.
Proof. intros l. apply Permutation_length, sort_perm. Qed.

End Sort.

(* the keys of the sorted items are the sorted keys (sorted(d.keys()) vs sorted(d.items())) *)
Lemma insert_keys : forall {A B} (kx : string * A) (ky : string * B) l l',
  fst kx = fst ky -> map fst l = map fst l' ->
  map fst (insert_by_key kx l) = map fst (insert_by_key ky l').
Proof.
  intros A B kx ky l. induction l as [|a r IH]; intros [|b r'] Hk Hm; cbn in *; try discriminate.
  - rewrite Hk. reflexivity.
  - injection Hm as Hab Hr. rewrite Hk, Hab.
    destruct (sleb (fst ky) (fst b)); cbn; [rewrite Hk, Hab, Hr; reflexivity|].
    rewrite Hab. f_equal. apply IH; assumption.
Qed.

Lemma sort_keys_items : forall {A} (l : list (string * A)), map fst (sort_by_key l) = sort_keys (map fst l).
Proof.
  intros A l. unfold sort_keys. induction l as [|x l IH]; [reflexivity|].
  cbn. apply insert_keys; [reflexivity|].
  change (fold_right insert_by_key [] l) with (sort_by_key l). rewrite IH. reflexivity.
Qed.

(* ------------------------------------------------------------------ padded decimals *)
Lemma nat_of_digit : forall d, d < 10 -> nat_of_ascii (digit_char d) = 48 + d.
Proof. intros d H. unfold digit_char. apply nat_ascii_embedding. lia. Qed.

Lemma pow10_pos : forall w, 0 < 10 ^ w.
Proof. intros w. induction w as [|w IH]; cbn; lia. Qed.

Lemma pad_dec_lt : forall w i j, i < j -> j < 10 ^ w -> sltb (pad_dec w i) (pad_dec w j) = true.
Proof.
  induction w as [|w IH]; intros i j Hij Hj.
  - cbn in Hj. lia.
  - cbn [pad_dec sltb].
    pose proof (pow10_pos w) as HP. set (P := 10 ^ w) in *.
    assert (HjS : j < 10 * P) by (cbn in Hj; fold P in Hj; lia).
    assert (Hqj : j / P < 10) by (apply Nat.div_lt_upper_bound; lia).
    assert (Hqi : i / P <= j / P) by (apply Nat.div_le_mono; lia).
    rewrite (Nat.mod_small (j / P) 10) by lia.
    rewrite (Nat.mod_small (i / P) 10) by lia.
    rewrite !nat_of_digit by lia.
    destruct (48 + i / P <? 48 + j / P) eqn:E1; [reflexivity|].
    apply Nat.ltb_ge in E1.
    assert (Hq : i / P = j / P) by lia.
    assert (E2 : 48 + j / P <? 48 + i / P = false) by (apply Nat.ltb_ge; lia).
    rewrite E2. apply IH.
    + pose proof (Nat.div_mod i P ltac:(lia)) as Hi. pose proof (Nat.div_mod j P ltac:(lia)) as Hj'.
      rewrite Hq in Hi. lia.
    + apply Nat.mod_upper_bound. lia.
Qed.

Lemma width_fuel_ok : forall f m, m <= f -> m < 10 ^ width_fuel f m.
Proof.
  induction f as [|f IH]; intros m Hm.
  - cbn. lia.
  - cbn [width_fuel]. destruct (m <? 10) eqn:E.
    + apply Nat.ltb_lt in E. cbn. lia.
    + apply Nat.ltb_ge in E.
      assert (Hd : m / 10 <= f).
      { assert (m / 10 < m) by (apply Nat.div_lt; lia). lia. }
      specialize (IH _ Hd). cbn [Nat.pow].
      pose proof (Nat.div_mod m 10 ltac:(lia)) as Hdm.
      pose proof (Nat.mod_upper_bound m 10 ltac:(lia)). lia.
Qed.

Lemma dec_width_ok : forall m, m < 10 ^ dec_width m.
Proof. intros m. apply width_fuel_ok. lia. Qed.

(* increasing numbers below 10^w give increasing w-digit numerals *)
Lemma pad_seq_sorted : forall {A} (s : A) w n start,
  start + n <= 10 ^ w ->
  Sorted (fun x y : string * A => sltb (fst x) (fst y) = true)
         (map (fun k => (k, s)) (map (pad_dec w) (seq start n))).
Proof.
  intros A s w n. induction n as [|n IH]; intros start H; cbn; [constructor|].
  constructor; [apply IH; lia|].
  destruct n as [|n]; cbn; [constructor|]. constructor. cbn. apply pad_dec_lt; lia.
Qed.
