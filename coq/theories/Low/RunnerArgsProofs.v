(* Proofs about argument binding: for the task a node lowers to (Low/IntoProofs.vtask) and
   the positional sources its edges describe, runner.run calls the callable with exactly the
   declared arguments -- every placeholder of an input replaced by the upstream value, every
   other argument (None, strings that name no input, objects) untouched -- and the declared
   keyword arguments.  For every arity, argument order and number of placeholders. *)
From Coq Require Import List String Bool Arith Lia.
From EKW Require Import Graph.GStore Graph.Export Util.StrOrd Low.Into Low.Runner Low.IntoProofs.
Import ListNotations.
Open Scope string_scope.
Open Scope list_scope.

Section ArgsProofs.
Variable F : Type.
Variable D : Type.
Notation pval := (pval D).
Notation payload := (payload F D).
Notation task := (@task F D).
Notation vnode := (vnode payload).

(* ---------------------------------------------------------------- list updates *)
Definition upd (l : list pval) (us : list (nat * pval)) : list pval :=
  fold_left (fun a u => put a (fst u) (snd u)) us l.

(* the value the updates leave at position j *)
Definition sel (j : nat) (us : list (nat * pval)) (init : pval) : pval :=
  fold_left (fun acc u => if Nat.eqb j (fst u) then snd u else acc) us init.

Lemma nth_set_nth : forall (l : list pval) i v j d, i < List.length l ->
  nth j (set_nth l i v) d = if Nat.eqb j i then v else nth j l d.
Proof.
  induction l as [|x r IH]; intros i v j d H; cbn in H; [lia|].
  destruct i, j; cbn; try reflexivity. apply IH. lia.
Qed.

Lemma length_set_nth : forall (l : list pval) i v, List.length (set_nth l i v) = List.length l.
Proof. induction l as [|x r IH]; intros [|i] v; cbn; auto. Qed.

Lemma nth_ensure : forall (l : list pval) i j, nth j (ensure l i) PNone = nth j l PNone.
Proof.
  intros l i j. unfold ensure. destruct (Nat.lt_ge_cases j (List.length l)) as [H|H].
  - apply app_nth1. exact H.
  - rewrite app_nth2 by exact H. rewrite (nth_overflow l) by exact H. apply nth_repeat.
Qed.

Lemma length_ensure : forall (l : list pval) i, List.length (ensure l i) = Nat.max (List.length l) (S i).
Proof. intros l i. unfold ensure. rewrite app_length, repeat_length. lia. Qed.

Lemma nth_put : forall (l : list pval) i v j,
  nth j (put l i v) PNone = if Nat.eqb j i then v else nth j l PNone.
Proof.
  intros l i v j. unfold put. rewrite nth_set_nth by (rewrite length_ensure; lia).
  rewrite nth_ensure. reflexivity.
Qed.

Lemma length_put : forall (l : list pval) i v, List.length (put l i v) = Nat.max (List.length l) (S i).
Proof. intros l i v. unfold put. rewrite length_set_nth. apply length_ensure. Qed.

Lemma nth_upd : forall us (l : list pval) j, nth j (upd l us) PNone = sel j us (nth j l PNone).
Proof.
  induction us as [|u r IH]; intros l j; cbn; [reflexivity|].
  unfold upd in IH. rewrite IH, nth_put. reflexivity.
Qed.

Lemma length_upd : forall us (l : list pval),
  (forall u, In u us -> fst u < List.length l) -> List.length (upd l us) = List.length l.
Proof.
  induction us as [|u r IH]; intros l H; cbn; [reflexivity|].
  unfold upd in IH. rewrite IH.
  - rewrite length_put. specialize (H u (or_introl eq_refl)). lia.
  - intros u' Hin. rewrite length_put. specialize (H u' (or_intror Hin)). lia.
Qed.

Lemma sel_none : forall j us init, (forall u, In u us -> fst u <> j) -> sel j us init = init.
Proof.
  intros j us. induction us as [|u r IH]; intros init H; cbn; [reflexivity|].
  unfold sel in IH. destruct (Nat.eqb j (fst u)) eqn:E.
  - apply Nat.eqb_eq in E. exfalso. apply (H u); [left; reflexivity|congruence].
  - apply IH. intros u' Hin. apply H. right. exact Hin.
Qed.

Lemma sel_const : forall j us init x,
  (forall u, In u us -> fst u = j -> snd u = x) -> (exists u, In u us /\ fst u = j) ->
  sel j us init = x.
Proof.
  intros j us. induction us as [|u r IH] using rev_ind; intros init x Hall [u0 [Hin Hj]]; [destruct Hin|].
  unfold sel. rewrite fold_left_app. cbn. fold (sel j r init).
  destruct (Nat.eqb j (fst u)) eqn:E.
  - apply Nat.eqb_eq in E. apply Hall; [apply in_or_app; right; left; reflexivity|congruence].
  - apply in_app_or in Hin as [Hin|[<-|[]]].
    + apply IH; [|exists u0; tauto]. intros u' Hin' Hj'. apply Hall; [apply in_or_app; left; exact Hin'|exact Hj'].
    + apply Nat.eqb_neq in E. congruence.
Qed.

(* ---------------------------------------------------------------- static arguments *)
Lemma upd_enumerate : forall (l acc : list pval),
  upd acc (enumerate_from (List.length acc) l) = acc ++ l.
Proof.
  induction l as [|a r IH]; intros acc; cbn; [rewrite app_nil_r; reflexivity|].
  assert (Hput : put acc (List.length acc) a = acc ++ [a]).
  { unfold put, ensure. replace (S (List.length acc) - List.length acc) with 1 by lia. cbn.
    clear. induction acc as [|x acc IH]; cbn; [reflexivity|]. rewrite IH. reflexivity. }
  rewrite Hput. specialize (IH (acc ++ [a])). rewrite app_length in IH. cbn in IH.
  rewrite Nat.add_1_r in IH. unfold upd in *. rewrite IH, <- app_assoc. reflexivity.
Qed.

Lemma nset_enumerate : forall (l : list pval) i p v, i <= p -> p < i + List.length l ->
  nset p v (enumerate_from i l) = enumerate_from i (set_nth l (p - i) v).
Proof.
  induction l as [|a r IH]; intros i p v H1 H2; cbn in *; [lia|].
  destruct (Nat.eqb p i) eqn:E.
  - apply Nat.eqb_eq in E. subst. rewrite Nat.sub_diag. reflexivity.
  - apply Nat.eqb_neq in E. destruct (p - i) as [|k] eqn:Ek; [lia|]. cbn.
    f_equal. rewrite IH by lia. replace (p - S i) with k by lia. reflexivity.
Qed.

Lemma put_in_range : forall (l : list pval) i v, i < List.length l -> put l i v = set_nth l i v.
Proof.
  intros l i v H. unfold put, ensure. replace (S i - List.length l) with 0 by lia. cbn.
  rewrite app_nil_r. reflexivity.
Qed.

Lemma nsets_enumerate : forall ps (l : list pval), (forall p, In p ps -> p < List.length l) ->
  fold_left (fun d p => nset p PNone d) ps (enumerate_from 0 l) =
  enumerate_from 0 (upd l (map (fun p => (p, PNone)) ps)).
Proof.
  induction ps as [|p r IH]; intros l H; cbn; [reflexivity|].
  rewrite nset_enumerate by (try lia; cbn; apply H; left; reflexivity).
  rewrite Nat.sub_0_r. rewrite IH.
  - rewrite put_in_range by (apply H; left; reflexivity). reflexivity.
  - intros p' Hin. rewrite length_set_nth. apply H. right. exact Hin.
Qed.

(* ---------------------------------------------------------------- placeholders *)
Lemma positions_spec : forall (args : list pval) i s p,
  In p (positions_from i s args) <-> (i <= p /\ nth_error args (p - i) = Some (PStr s)).
Proof.
  induction args as [|a r IH]; intros i s p; cbn.
  - split; [tauto|]. intros [_ H]. destruct (p - i); discriminate.
  - assert (Hrest : In p (positions_from (S i) s r) <-> (i < p /\ nth_error r (p - S i) = Some (PStr s))).
    { rewrite IH. split; intros [H1 H2]; (split; [lia|exact H2]). }
    assert (Hstep : forall (P : Prop), (P <-> (i < p /\ nth_error r (p - S i) = Some (PStr s))) ->
                    a <> PStr s -> (P <-> (i <= p /\ nth_error (a :: r) (p - i) = Some (PStr s)))).
    { intros P HP Hne. rewrite HP. split.
      - intros [H1 H2]. split; [lia|]. destruct (p - i) as [|k] eqn:Ek; [lia|]. cbn.
        replace k with (p - S i) by lia. exact H2.
      - intros [H1 H2]. destruct (p - i) as [|k] eqn:Ek; cbn in H2.
        + injection H2 as H2. contradiction.
        + split; [lia|]. replace (p - S i) with k by lia. exact H2. }
    destruct a as [|s'|d]; try (apply Hstep; [exact Hrest|discriminate]).
    destruct (String.eqb s s') eqn:E.
    + apply String.eqb_eq in E. subst s'. cbn. rewrite Hrest. split.
      * intros [<-|[H1 H2]]; [rewrite Nat.sub_diag; split; [lia|reflexivity]|].
        split; [lia|]. destruct (p - i) as [|k] eqn:Ek; [lia|]. cbn. replace k with (p - S i) by lia. exact H2.
      * intros [H1 H2]. destruct (p - i) as [|k] eqn:Ek; [left; lia|right].
        cbn in H2. split; [lia|]. replace (p - S i) with k by lia. exact H2.
    + apply Hstep; [exact Hrest|]. intros H. injection H as <-. rewrite String.eqb_refl in E. discriminate.
Qed.

Lemma lookup_nodup : forall {A} (l : list (string * A)) k v,
  NoDup (map fst l) -> In (k, v) l -> lookup k l = Some v.
Proof.
  intros A l k v. induction l as [|[k' v'] r IH]; intros Hnd Hin; [destruct Hin|].
  cbn. inversion Hnd as [|? ? Hnot Hnd']; subst. destruct Hin as [E|Hin].
  - injection E as -> ->. rewrite String.eqb_refl. reflexivity.
  - destruct (String.eqb k k') eqn:E; [|apply IH; assumption].
    apply String.eqb_eq in E. subst. exfalso. apply Hnot. apply in_map_iff. exists (k', v). split; [reflexivity|exact Hin].
Qed.

Lemma lookup_in : forall {A} (l : list (string * A)) k v, lookup k l = Some v -> In (k, v) l.
Proof.
  intros A l k v. induction l as [|[k' v'] r IH]; cbn; [discriminate|].
  destruct (String.eqb k k') eqn:E; [|intros H; right; apply IH; exact H].
  apply String.eqb_eq in E. intros H. injection H as ->. subst. left. reflexivity.
Qed.

(* ---------------------------------------------------------------- the statement *)
(* (position, source) for every placeholder of every input, in the order of the edges *)
Definition ppairs (args : list pval) (ins : list (string * dsid)) : list (nat * dsid) :=
  flat_map (fun pi => map (fun p => (p, snd pi)) (positions_from 0 (fst pi) args)) ins.

(* what param_source gives for the node's edges *)
Definition vsrc (args : list pval) (ins : list (string * dsid)) : list (inkey * dsid) :=
  map (fun u => (KPos (fst u), snd u)) (ppairs args ins).

Definition mval (m : memory D) (d : dsid) : pval :=
  match provide m d with Some v => v | None => PNone end.

(* the declared arguments: a string that names an input stands for that input's value *)
Definition subst_arg (ins : list (string * dsid)) (m : memory D) (a : pval) : pval :=
  match a with
  | PStr s => match lookup s ins with Some d => mval m d | None => a end
  | _ => a
  end.
Definition spec_args (args : list pval) (ins : list (string * dsid)) (m : memory D) : list pval :=
  map (subst_arg ins m) args.

Lemma bind_inputs_pos : forall (l : list (nat * dsid)) m (args : list pval) kwargs,
  (forall u, In u l -> provide m (snd u) <> None) ->
  bind_inputs (map (fun u => (KPos (fst u), snd u)) l) m args kwargs =
    Ok (upd args (map (fun u => (fst u, mval m (snd u))) l), kwargs).
Proof.
  induction l as [|u r IH]; intros m args kwargs H; [reflexivity|].
  cbn [map bind_inputs fst snd].
  destruct (provide m (snd u)) as [v|] eqn:E; [|exfalso; apply (H u (or_introl eq_refl)); exact E].
  rewrite IH by (intros u' Hin; apply H; right; exact Hin).
  assert (Hv : mval m (snd u) = v) by (unfold mval; rewrite E; reflexivity).
  unfold upd. cbn [map fold_left fst snd]. rewrite Hv. reflexivity.
Qed.

Lemma ppairs_in : forall args ins p d,
  In (p, d) (ppairs args ins) <-> exists s, In (s, d) ins /\ nth_error args p = Some (PStr s).
Proof.
  intros args ins p d. unfold ppairs. rewrite in_flat_map. split.
  - intros ([s d'] & Hin & Hp). cbn in Hp. apply in_map_iff in Hp as (p' & E & Hp). injection E as -> ->.
    apply positions_spec in Hp as [_ Hp]. rewrite Nat.sub_0_r in Hp. exists s. split; assumption.
  - intros (s & Hin & Hp). exists (s, d). split; [exact Hin|]. cbn. apply in_map_iff. exists p. split; [reflexivity|].
    apply positions_spec. rewrite Nat.sub_0_r. split; [lia|exact Hp].
Qed.

Lemma input_positions_ppairs : forall args ins, input_positions D args ins = map fst (ppairs args ins).
Proof.
  intros args ins. unfold input_positions, ppairs. induction ins as [|pi r IH]; cbn; [reflexivity|].
  rewrite map_app, IH, map_map. cbn. rewrite map_id. reflexivity.
Qed.

Theorem bound_args_vtask : forall (v : vnode) f args kwargs m,
  NoDup (map fst (vins v)) ->
  (forall pi, In pi (vins v) -> provide m (snd pi) <> None) ->
  bound_args (vtask F D v f args kwargs) (vsrc args (vins v)) m =
    Ok (spec_args args (vins v) m, kwargs).
Proof.
  intros v f args kwargs m Hnd Hprov.
  remember (vins v) as ins eqn:Hins.
  assert (Hrange : forall u, In u (ppairs args ins) -> fst u < List.length args).
  { intros [p d] Hin. apply ppairs_in in Hin as (s & _ & Hp). cbn.
    apply nth_error_Some. rewrite Hp. discriminate. }
  unfold bound_args, static_args, vtask. cbn [t_sps t_skw].
  rewrite <- Hins. rewrite input_positions_ppairs.
  rewrite nsets_enumerate.
  2:{ intros p Hin. apply in_map_iff in Hin as (u & <- & Hin). apply Hrange. exact Hin. }
  change (fold_left (fun a kv => put a (fst kv) (snd kv)) ?sps []) with (upd [] sps).
  rewrite (upd_enumerate _ []). cbn [app].
  unfold vsrc. rewrite bind_inputs_pos.
  2:{ intros [p d] Hin. apply ppairs_in in Hin as (s & Hin & _). cbn. apply (Hprov (s, d)). exact Hin. }
  f_equal. f_equal.
  set (nones := map (fun p => (p, PNone)) (map fst (ppairs args ins))).
  set (us := map (fun u => (fst u, mval m (snd u))) (ppairs args ins)).
  assert (Hlen1 : List.length (upd args nones) = List.length args).
  { apply length_upd. intros u Hin. unfold nones in Hin. rewrite map_map in Hin.
    apply in_map_iff in Hin as (u' & <- & Hin). cbn. apply Hrange. exact Hin. }
  assert (Hlen2 : List.length (upd (upd args nones) us) = List.length args).
  { rewrite length_upd; [exact Hlen1|]. intros u Hin. unfold us in Hin.
    apply in_map_iff in Hin as (u' & <- & Hin). cbn. rewrite Hlen1. apply Hrange. exact Hin. }
  apply (nth_ext _ _ PNone PNone).
  - rewrite Hlen2. unfold spec_args. rewrite map_length. reflexivity.
  - intros j Hj. rewrite Hlen2 in Hj. rewrite !nth_upd.
    unfold spec_args.
    change (nth j (map (subst_arg ins m) args) PNone) with (nth j (map (subst_arg ins m) args) (subst_arg ins m PNone)).
    rewrite map_nth.
    destruct (nth_error args j) as [a|] eqn:Ea; [|apply nth_error_None in Ea; lia].
    rewrite (nth_error_nth _ _ _ Ea).
    (* is position j a placeholder of an input? *)
    destruct a as [|s|d]; unfold subst_arg.
    + rewrite !sel_none; [reflexivity| |].
      * intros u Hin Hu. unfold nones in Hin. rewrite map_map in Hin. apply in_map_iff in Hin as ([p d] & <- & Hin).
        cbn in Hu. subst p. apply ppairs_in in Hin as (s & _ & Hp). rewrite Ea in Hp. discriminate.
      * intros u Hin Hu. unfold us in Hin. apply in_map_iff in Hin as ([p d] & <- & Hin).
        cbn in Hu. subst p. apply ppairs_in in Hin as (s & _ & Hp). rewrite Ea in Hp. discriminate.
    + destruct (@lookup dsid s ins) as [d|] eqn:El; unfold dsid in El.
      * apply sel_const.
        -- intros u Hin Hu. unfold us in Hin. apply in_map_iff in Hin as ([p d'] & <- & Hin).
           cbn in Hu. subst p. cbn. apply ppairs_in in Hin as (s' & Hin & Hp). rewrite Ea in Hp. injection Hp as <-.
           rewrite (lookup_nodup _ _ _ Hnd Hin) in El. injection El as ->. reflexivity.
        -- exists (j, mval m d). split; [|reflexivity]. unfold us. apply in_map_iff. exists (j, d). split; [reflexivity|].
           apply ppairs_in. exists s. split; [apply lookup_in; exact El|exact Ea].
      * rewrite !sel_none; [reflexivity| |].
        -- intros u Hin Hu. unfold nones in Hin. rewrite map_map in Hin. apply in_map_iff in Hin as ([p d] & <- & Hin).
           cbn in Hu. subst p. apply ppairs_in in Hin as (s' & Hin & Hp). rewrite Ea in Hp. injection Hp as <-.
           rewrite (lookup_nodup _ _ _ Hnd Hin) in El. discriminate.
        -- intros u Hin Hu. unfold us in Hin. apply in_map_iff in Hin as ([p d] & <- & Hin).
           cbn in Hu. subst p. apply ppairs_in in Hin as (s' & Hin & Hp). rewrite Ea in Hp. injection Hp as <-.
           rewrite (lookup_nodup _ _ _ Hnd Hin) in El. discriminate.
    + rewrite !sel_none; [reflexivity| |].
      * intros u Hin Hu. unfold nones in Hin. rewrite map_map in Hin. apply in_map_iff in Hin as ([p d'] & <- & Hin).
        cbn in Hu. subst p. apply ppairs_in in Hin as (s & _ & Hp). rewrite Ea in Hp. discriminate.
      * intros u Hin Hu. unfold us in Hin. apply in_map_iff in Hin as ([p d'] & <- & Hin).
        cbn in Hu. subst p. apply ppairs_in in Hin as (s & _ & Hp). rewrite Ea in Hp. discriminate.
Qed.

(* every edge of a node: from the declared parent output of an input, into this node, at a
   position where args names that input; and every such placeholder has its edge *)
Lemma vedges_in : forall (v : vnode) f args kwargs e,
  vpay v = Some (PayTuple f args kwargs) ->
  (In e (vedges F D v) <->
   exists param p, In (param, e_src e) (vins v) /\ nth_error args p = Some (PStr param) /\
                   e = mkE (e_src e) (vname v) None (Some p)).
Proof.
  intros v f args kwargs e Hp. unfold vedges. rewrite Hp. rewrite in_flat_map. split.
  - intros ([param d] & Hin & He). unfold input_edges in He. cbn [fst snd] in He.
    apply in_map_iff in He as (p & <- & Hpos). apply positions_spec in Hpos as [_ Hpos].
    rewrite Nat.sub_0_r in Hpos. exists param, p. cbn. repeat split; assumption.
  - intros (param & p & Hin & Hn & He). exists (param, e_src e). split; [exact Hin|].
    unfold input_edges. cbn [fst snd]. apply in_map_iff. exists p. split; [symmetry; exact He|].
    apply positions_spec. rewrite Nat.sub_0_r. split; [lia|exact Hn].
Qed.

(* exactly one edge per input when every input is named exactly once *)
Lemma vedges_one_per_input : forall (v : vnode) f args kwargs,
  vpay v = Some (PayTuple f args kwargs) ->
  (forall pi, In pi (vins v) -> List.length (positions_from 0 (fst pi) args) = 1) ->
  List.length (vedges F D v) = List.length (vins v).
Proof.
  intros v f args kwargs Hp H. unfold vedges. rewrite Hp.
  revert H. generalize (vins v) as ins. induction ins as [|pi r IH]; intros H; cbn [flat_map List.length]; [reflexivity|].
  rewrite app_length. unfold input_edges at 1. rewrite map_length.
  unfold dsid in *. rewrite (H pi (or_introl eq_refl)).
  rewrite IH; [reflexivity|]. intros pi' Hin. apply H. right. exact Hin.
Qed.

End ArgsProofs.
