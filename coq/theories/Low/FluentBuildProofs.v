(* Proofs about Low/FluentBuild.v: building a node never writes to a list object that existed
   before (frame), so at the end of ANY caller program every node's payload tuple reads as
   the declaration of the Payload it was built from plus the placeholders of its own inputs,
   whatever other nodes were built from the same Payload object before or after; and the
   shape of fluent_args (declared arguments keep their positions, every input is named). *)
From Coq Require Import List String Bool Arith Lia.
From EKW Require Import Graph.GStore Low.Into Low.Runner Low.FluentBuild.
Import ListNotations.
Open Scope string_scope.
Open Scope list_scope.

Section Proofs.
Variable F : Type.
Variable D : Type.
Notation pval := (pval D).
Notation lheap := (lheap D).
Notation state := (state F D).
Notation op := (op F D).
Notation decl := (decl F D).
Notation nobj := (nobj F D).
Notation pobj := (pobj F D).

(* ------------------------------------------------------------------ fluent_args *)
Definition appended (args : list pval) (lo hi : nat) (a : pval) : Prop :=
  exists y, lo <= y < hi /\ a = PStr (input_name y) /\ existsb (arg_is D (input_name y)) args = false.

Lemma fluent_args_from_prefix :
  forall k x args, exists suf, fluent_args_from D x k args = args ++ suf /\ Forall (appended args x (x + k)) suf.
Proof.
  induction k as [|k IH]; intros x args.
  - exists []. split; [cbn; now rewrite app_nil_r|constructor].
  - cbn [fluent_args_from].
    destruct (existsb (arg_is D (input_name x)) args) eqn:E.
    + destruct (IH (S x) args) as [suf [Hs Hf]]. exists suf. split; [exact Hs|].
      eapply Forall_impl; [|exact Hf]. intros a [y [Hy [Ha Hn]]]. exists y. split; [lia|tauto].
    + destruct (IH (S x) (args ++ [PStr (input_name x)])) as [suf [Hs Hf]].
      exists (PStr (input_name x) :: suf). split; [rewrite Hs, <- app_assoc; reflexivity|].
      constructor.
      * exists x. split; [lia|tauto].
      * eapply Forall_impl; [|exact Hf]. intros a [y [Hy [Ha Hn]]]. exists y. split; [lia|]. split; [exact Ha|].
        rewrite existsb_app in Hn. apply orb_false_iff in Hn. tauto.
Qed.

Lemma fluent_args_from_keeps :
  forall k x args s, existsb (arg_is D s) args = true -> existsb (arg_is D s) (fluent_args_from D x k args) = true.
Proof.
  intros k x args s H. destruct (fluent_args_from_prefix k x args) as [suf [Hs _]].
  rewrite Hs, existsb_app, H. reflexivity.
Qed.

Lemma fluent_args_from_names :
  forall k x0 args x, x0 <= x < x0 + k ->
    existsb (arg_is D (input_name x)) (fluent_args_from D x0 k args) = true.
Proof.
  induction k as [|k IH]; intros x0 args x Hx; [lia|].
  cbn [fluent_args_from].
  destruct (Nat.eq_dec x x0) as [->|Hne].
  - apply fluent_args_from_keeps.
    destruct (existsb (arg_is D (input_name x0)) args) eqn:E; [exact E|].
    rewrite existsb_app. cbn. rewrite String.eqb_refl. apply orb_true_r.
  - apply IH. lia.
Qed.

(* the declared arguments keep their positions; what is appended are placeholders of inputs
   of this node that the declaration does not name *)
Lemma fluent_args_prefix :
  forall args n, exists suf, fluent_args args n = args ++ suf /\ Forall (appended args 0 n) suf.
Proof. intros args n. exact (fluent_args_from_prefix n 0 args). Qed.

(* every input is named by some argument *)
Lemma fluent_args_names :
  forall args n x, x < n -> existsb (arg_is D (input_name x)) (fluent_args args n) = true.
Proof. intros args n x Hx. apply fluent_args_from_names. lia. Qed.

Lemma named_has_position :
  forall (args : list pval) s i, existsb (arg_is D s) args = true -> positions_from i s args <> [].
Proof.
  induction args as [|a r IH]; intros s i H; [discriminate|].
  cbn in H. destruct a as [|s'|d]; cbn in *; try (apply IH; exact H).
  destruct (String.eqb s s'); [discriminate|]. apply IH. exact H.
Qed.

(* hence node2task finds a position for every input of a fluent node (no KeyError) *)
Lemma fluent_args_positions :
  forall (args : list pval) n x, x < n -> positions_from 0 (input_name x) (fluent_args args n) <> [].
Proof. intros args n x Hx. apply named_has_position, fluent_args_names, Hx. Qed.

(* ------------------------------------------------------------------ the heap *)
Definition ext (h h' : lheap) : Prop :=
  List.length h <= List.length h' /\ forall r, r < List.length h -> deref h' r = deref h r.

Lemma ext_refl h : ext h h.
Proof. split; [lia|reflexivity]. Qed.

Lemma ext_trans h1 h2 h3 : ext h1 h2 -> ext h2 h3 -> ext h1 h3.
Proof. intros [L1 E1] [L2 E2]. split; [lia|]. intros r Hr. rewrite E2 by lia. apply E1, Hr. Qed.

Lemma deref_alloc_old (h : lheap) l r : r < List.length h -> deref (h ++ [l]) r = deref h r.
Proof. intros Hr. unfold deref. apply app_nth1, Hr. Qed.

Lemma deref_alloc_new (h : lheap) l : deref (h ++ [l]) (List.length h) = l.
Proof. unfold deref. apply nth_middle. Qed.

Lemma upd_length : forall (h : lheap) r l, List.length (upd h r l) = List.length h.
Proof. induction h as [|x t IH]; intros [|r] l; cbn; try reflexivity. now rewrite IH. Qed.

Lemma deref_upd_same : forall (h : lheap) r l, r < List.length h -> deref (upd h r l) r = l.
Proof.
  induction h as [|x t IH]; intros [|r] l Hr; cbn in *; try lia; [reflexivity|].
  apply IH. lia.
Qed.

Lemma deref_upd_other : forall (h : lheap) r r' l, r' <> r -> deref (upd h r l) r' = deref h r'.
Proof.
  induction h as [|x t IH]; intros [|r] [|r'] l Hne; cbn; try reflexivity; try lia.
  apply IH. lia.
Qed.

Lemma place_from_spec :
  forall k x (h : lheap) r, r < List.length h ->
    List.length (place_from x k h r) = List.length h /\
    deref (place_from x k h r) r = fluent_args_from D x k (deref h r) /\
    forall r', r' <> r -> deref (place_from x k h r) r' = deref h r'.
Proof.
  induction k as [|k IH]; intros x h r Hr; [cbn; tauto|].
  cbn [place_from fluent_args_from].
  destruct (existsb (arg_is D (input_name x)) (deref h r)) eqn:E.
  - apply IH, Hr.
  - unfold append.
    set (h1 := upd h r (deref h r ++ [PStr (input_name x)])).
    assert (L1 : List.length h1 = List.length h) by apply upd_length.
    destruct (IH (S x) h1 r) as [L [S O]]; [lia|].
    split; [lia|]. split.
    + rewrite S. unfold h1. rewrite deref_upd_same by exact Hr. reflexivity.
    + intros r' Hne. rewrite O by exact Hne. unfold h1. apply deref_upd_other, Hne.
Qed.

(* allocate a list object and fill in the placeholders of nin inputs: nothing that existed is
   touched, the new object holds the arguments plus the missing placeholders *)
Lemma alloc_place (h : lheap) (a : list pval) nin :
  let h' := place_from 0 nin (h ++ [a]) (List.length h) in
  ext h h' /\ List.length h' = S (List.length h) /\ deref h' (List.length h) = fluent_args a nin.
Proof.
  intros h'.
  destruct (place_from_spec nin 0 (h ++ [a]) (List.length h)) as [L [S O]]; [rewrite app_length; cbn; lia|].
  fold h' in L, S, O. rewrite app_length in L. cbn in L.
  split; [split; [lia|]|split; [lia|]].
  - intros r Hr. rewrite O by lia. apply deref_alloc_old, Hr.
  - rewrite S, deref_alloc_new. reflexivity.
Qed.

(* ------------------------------------------------------------------ frame *)
Lemma node_ctor_frame (st st' : state) src nin nout :
  node_ctor pcopy st src nin nout = Ok st' ->
  ext (s_heap st) (s_heap st') /\ s_payloads st' = s_payloads st /\
  exists nd, s_nodes st' = s_nodes st ++ [nd].
Proof.
  unfold node_ctor. intros H.
  destruct src as [i|f a k].
  - destruct (nth_error (s_payloads st) i) as [p|]; [|discriminate].
    unfold pcopy, pnew, alloc in H. injection H as <-. cbn.
    split; [apply alloc_place|]. split; [reflexivity|eauto].
  - unfold pnew, alloc in H. injection H as <-. cbn.
    split; [apply alloc_place|]. split; [reflexivity|eauto].
Qed.

(* one step of the caller's program never changes a list object that existed before it, never
   drops or replaces a Payload object or a node *)
Lemma exec_frame (st st' : state) (o : op) :
  exec st o = Ok st' ->
  ext (s_heap st) (s_heap st') /\
  (exists ps, s_payloads st' = s_payloads st ++ ps) /\ (exists ns, s_nodes st' = s_nodes st ++ ns).
Proof.
  unfold exec. destruct o as [f a k|i nin nout|f a k nin nout|kk]; cbn [exec_with]; intros H.
  - unfold pnew, alloc in H. injection H as <-. cbn. split.
    + split; [rewrite app_length; lia|]. intros r Hr. apply deref_alloc_old, Hr.
    + split; [eauto|exists []; now rewrite app_nil_r].
  - apply node_ctor_frame in H. destruct H as [E [P [nd N]]]. split; [exact E|]. split; [exists []; now rewrite app_nil_r|eauto].
  - apply node_ctor_frame in H. destruct H as [E [P [nd N]]]. split; [exact E|]. split; [exists []; now rewrite app_nil_r|eauto].
  - destruct (nth_error (s_nodes st) kk) as [nd0|]; [|discriminate].
    apply node_ctor_frame in H. destruct H as [E [P [nd N]]]. split; [exact E|]. split; [exists []; now rewrite app_nil_r|eauto].
Qed.

(* ------------------------------------------------------------------ invariant *)
Definition node_ok (h : lheap) (ds : list decl) (nd : nobj) : Prop :=
  n_args nd < List.length h /\
  exists f a k, src_decl ds (n_src nd) = Some (f, a, k) /\
                n_func nd = f /\ n_kwargs nd = k /\ deref h (n_args nd) = fluent_args a (n_nin nd).

Record Inv (st : state) (ds : list decl) : Prop := {
  inv_payloads : map (payload_view (s_heap st)) (s_payloads st) = ds;
  inv_prefs : Forall (fun p : pobj => p_args p < List.length (s_heap st)) (s_payloads st);
  inv_nodes : Forall (node_ok (s_heap st) ds) (s_nodes st) }.

Lemma nth_error_app_some {A} (l l' : list A) i x : nth_error l i = Some x -> nth_error (l ++ l') i = Some x.
Proof. intros H. rewrite nth_error_app1; [exact H|]. apply nth_error_Some. congruence. Qed.

Lemma src_decl_app ds ds' s (d : decl) : src_decl ds s = Some d -> src_decl (ds ++ ds') s = Some d.
Proof. destruct s as [i|f a k]; cbn; [apply nth_error_app_some|tauto]. Qed.

Lemma node_ok_ext h h' ds ds' nd : ext h h' -> node_ok h ds nd -> node_ok h' (ds ++ ds') nd.
Proof.
  intros [L E] [Hr [f [a [k [Hs [Hf [Hk Ha]]]]]]]. split; [lia|].
  exists f, a, k. split; [apply src_decl_app, Hs|]. split; [exact Hf|]. split; [exact Hk|].
  rewrite E by exact Hr. exact Ha.
Qed.

Lemma payload_views_ext h h' (ps : list pobj) :
  ext h h' -> Forall (fun p : pobj => p_args p < List.length h) ps ->
  map (payload_view h') ps = map (payload_view h) ps /\
  Forall (fun p : pobj => p_args p < List.length h') ps.
Proof.
  intros [L E] Hf. split.
  - apply map_ext_in. intros p Hp. rewrite Forall_forall in Hf. unfold payload_view. rewrite E by (apply Hf, Hp). reflexivity.
  - eapply Forall_impl; [|exact Hf]. cbn. intros p Hp. lia.
Qed.

Lemma node_ctor_inv (st st' : state) ds src nin nout :
  Inv st ds -> node_ctor pcopy st src nin nout = Ok st' -> Inv st' ds.
Proof.
  intros [IP IR IN] H.
  assert (Hsrc : exists f a k, src_decl ds src = Some (f, a, k) /\
            st' = mkSt (place_from 0 nin (s_heap st ++ [a]) (List.length (s_heap st))) (s_payloads st)
                       (s_nodes st ++ [mkNd f (List.length (s_heap st)) k nin nout src])).
  { unfold node_ctor in H. destruct src as [i|f a k].
    - destruct (nth_error (s_payloads st) i) as [p|] eqn:Ep; [|discriminate].
      unfold pcopy, pnew, alloc in H. injection H as <-. cbn.
      exists (p_func p), (deref (s_heap st) (p_args p)), (p_kwargs p). split; [|reflexivity].
      rewrite <- IP. apply (map_nth_error (payload_view (s_heap st))) in Ep. exact Ep.
    - unfold pnew, alloc in H. injection H as <-. cbn. exists f, a, k. split; reflexivity. }
  destruct Hsrc as [f [a [k [Hs ->]]]].
  destruct (alloc_place (s_heap st) a nin) as [E [L Dn]].
  destruct (payload_views_ext _ _ _ E IR) as [PV PR].
  constructor; cbn [s_heap s_payloads s_nodes].
  - rewrite PV. exact IP.
  - exact PR.
  - apply Forall_app. split.
    + eapply Forall_impl; [|exact IN]. intros nd Hnd.
      rewrite <- (app_nil_r ds). eapply node_ok_ext; [exact E|exact Hnd].
    + constructor; [|constructor]. split; cbn; [lia|].
      exists f, a, k. repeat split; [exact Hs|exact Dn].
Qed.

Lemma decls_cons (o : op) r : decls (o :: r) = decls [o] ++ decls r.
Proof. unfold decls. cbn. rewrite app_nil_r. reflexivity. Qed.

Lemma exec_inv (st st' : state) ds (o : op) :
  Inv st ds -> exec st o = Ok st' -> Inv st' (ds ++ decls [o]).
Proof.
  intros I H. unfold exec in H.
  destruct o as [f a k|i nin nout|f a k nin nout|kk]; cbn [exec_with] in H.
  - destruct I as [IP IR IN]. unfold pnew, alloc in H. injection H as <-.
    assert (E : ext (s_heap st) (s_heap st ++ [a])).
    { split; [rewrite app_length; lia|]. intros r Hr. apply deref_alloc_old, Hr. }
    destruct (payload_views_ext _ _ _ E IR) as [PV PR].
    constructor; cbn [s_heap s_payloads s_nodes decls flat_map]; rewrite ?app_nil_r.
    + rewrite map_app, PV, IP. cbn. unfold payload_view at 1. cbn. rewrite deref_alloc_new. reflexivity.
    + apply Forall_app. split; [exact PR|]. constructor; [|constructor]. cbn. rewrite app_length. cbn. lia.
    + eapply Forall_impl; [|exact IN]. intros nd Hnd. eapply node_ok_ext; [exact E|exact Hnd].
  - cbn. rewrite app_nil_r. eapply node_ctor_inv; eassumption.
  - cbn. rewrite app_nil_r. eapply node_ctor_inv; eassumption.
  - cbn. rewrite app_nil_r. destruct (nth_error (s_nodes st) kk) as [nd0|]; [|discriminate].
    eapply node_ctor_inv; eassumption.
Qed.

Lemma run_inv : forall (ops : list op) (st st' : state) ds,
  Inv st ds -> run ops st = Ok st' -> Inv st' (ds ++ decls ops).
Proof.
  induction ops as [|o r IH]; intros st st' ds I H.
  - cbn in H. injection H as <-. cbn. rewrite app_nil_r. exact I.
  - unfold run in H. cbn [run_with] in H. fold (exec st o) in H.
    destruct (exec st o) as [st1|e] eqn:E1; [|discriminate]. cbn [bind] in H.
    rewrite decls_cons, app_assoc. eapply IH; [eapply exec_inv; eassumption|exact H].
Qed.

Lemma init_inv : Inv init [].
Proof. constructor; cbn; constructor. Qed.

(* At the end of ANY program of Payload(...), Node(...) and node.copy() calls: every Payload
   object the caller holds still reads as it was declared, and every node's payload tuple is
   (func, declared args of the Payload it was built from ++ the placeholders of ITS OWN inputs
   that the declaration does not name, declared kwargs) -- independent of which other nodes were
   built from the same Payload object, with how many inputs, before or after. *)
Theorem nodes_as_declared :
  forall (ops : list op) (st : state),
    run ops init = Ok st ->
    map (payload_view (s_heap st)) (s_payloads st) = decls ops /\
    forall nd, In nd (s_nodes st) ->
      exists f a k, src_decl (decls ops) (n_src nd) = Some (f, a, k) /\
        node_view (s_heap st) nd = ((f, fluent_args a (n_nin nd), k), n_nin nd, n_nout nd).
Proof.
  intros ops st H. destruct (run_inv ops init st [] init_inv H) as [IP _ IN]. cbn in IP, IN.
  split; [exact IP|]. intros nd Hnd. rewrite Forall_forall in IN.
  destruct (IN nd Hnd) as [_ [f [a [k [Hs [Hf [Hk Ha]]]]]]].
  exists f, a, k. split; [exact Hs|]. unfold node_view. rewrite Hf, Hk, Ha. reflexivity.
Qed.

(* the same, step by step: running more of the program changes no view taken earlier *)
Theorem run_frame :
  forall (ops : list op) (st st' : state),
    run ops st = Ok st' ->
    ext (s_heap st) (s_heap st') /\
    (exists ps, s_payloads st' = s_payloads st ++ ps) /\ (exists ns, s_nodes st' = s_nodes st ++ ns).
Proof.
  induction ops as [|o r IH]; intros st st' H.
  - cbn in H. injection H as <-. split; [apply ext_refl|]. split; exists []; now rewrite app_nil_r.
  - unfold run in H. cbn [run_with] in H. fold (exec st o) in H.
    destruct (exec st o) as [st1|e] eqn:E1; [|discriminate]. cbn [bind] in H.
    destruct (exec_frame _ _ _ E1) as [X1 [[ps1 P1] [ns1 N1]]].
    destruct (IH _ _ H) as [X2 [[ps2 P2] [ns2 N2]]].
    split; [eapply ext_trans; eassumption|].
    split; [exists (ps1 ++ ps2); rewrite P2, P1, app_assoc; reflexivity|exists (ns1 ++ ns2); rewrite N2, N1, app_assoc; reflexivity].
Qed.

End Proofs.
