(* Executable checker used by harness/c19.py: the model is run on the same task
   expressions and the same tree of derived builders as the real TaskBuilder / JobBuilder,
   and its results are compared with what the implementation returned.
   The Section variables of Builders.v are instantiated on the closed set of builtin
   classes the harness draws annotations and values from. *)
From Coq Require Import List String Bool Arith ZArith NArith.
From EKW Require Import Low.Builders.
Import ListNotations.
Open Scope string_scope.
Open Scope list_scope.

(* names that `eval` resolves inside builders.py, restricted to the classes the harness uses *)
Definition builtin_names : list string :=
  ["int"; "str"; "float"; "bool"; "bytes"; "list"; "dict"; "tuple"; "object"].

Definition c_evalty (s : string) : res string :=
  if mem s builtin_names then Ok s
  else if String.eqb s "" then Err "SyntaxError"      (* eval("") *)
  else Err "NameError".

(* the classes of the values the harness binds (harness/c19.py: VALUE_CLASSES) that have one of
   the names above as a proper base other than object; the harness compares this table with
   the real issubclass before every run *)
Definition class_bases : list (string * string) :=
  [("bool", "int"); ("MyInt", "int"); ("Lvl", "int"); ("MyStr", "str"); ("float64", "float");
   ("MyList", "list"); ("MyDict", "dict"); ("OrderedDict", "dict"); ("defaultdict", "dict");
   ("NT", "tuple")].

(* issubclass on those classes: reflexive, everything below object, the table *)
Definition c_issub (a b : string) : bool :=
  String.eqb a b || String.eqb b "object" || pair_mem a b class_bases.

(* isinstance(v, T) = issubclass(type(v), T) *)
Definition c_isinst (v : value) (t : string) : bool := c_issub (vty v) t.

Definition c_build := build string c_evalty c_isinst c_issub.

(* ------------------------------------------------------------------ task expressions *)
Inductive texpr :=
| TFromCallable (ps : list param) (ret : ann)
| TFromEntrypoint (input_schema : list (string * string)) (output_class : string)
| TRaw (t : task)
| TWithValues (e : texpr) (args : list value) (kwargs : list (string * value)).

Fixpoint eval_texpr (e : texpr) : res task :=
  match e with
  | TFromCallable ps ret => from_callable ps ret
  | TFromEntrypoint i o => Ok (from_entrypoint i o)
  | TRaw t => Ok t
  | TWithValues e' args kwargs => bind (eval_texpr e') (fun t => Ok (with_values t args kwargs))
  end.

(* ------------------------------------------------------------------ equalities *)
Definition okind_eqb (a b : okind) : bool :=
  match a, b with
  | ODataclass, ODataclass | OPydantic, OPydantic | OPlain, OPlain => true
  | _, _ => false
  end.

(* equality of whole values: class, kind and every part (sets and mappings are written in a
   canonical order by the harness) *)
Fixpoint value_eqb (a b : value) {struct a} : bool :=
  match a, b with
  | V c i, V d j => String.eqb c d && N.eqb i j
  | VSeq c xs, VSeq d ys =>
      String.eqb c d &&
      (fix go (xs ys : list value) {struct xs} : bool :=
         match xs, ys with
         | [], [] => true
         | x :: r, y :: s => value_eqb x y && go r s
         | _, _ => false
         end) xs ys
  | VMap c xs, VMap d ys =>
      String.eqb c d &&
      (fix go (xs ys : list (value * value)) {struct xs} : bool :=
         match xs, ys with
         | [], [] => true
         | (k, x) :: r, (l, y) :: s => value_eqb k l && value_eqb x y && go r s
         | _, _ => false
         end) xs ys
  | VObj k c xs, VObj l d ys =>
      okind_eqb k l && String.eqb c d &&
      (fix go (xs ys : list (string * value)) {struct xs} : bool :=
         match xs, ys with
         | [], [] => true
         | (f, x) :: r, (g, y) :: s => String.eqb f g && value_eqb x y && go r s
         | _, _ => false
         end) xs ys
  | _, _ => false
  end.

(* two dictionaries are equal as Python dicts: same size, same value under every key,
   no key twice (the observation is a real dict, the model's list must be one too) *)
Fixpoint nodup_keys {V} (d : list (string * V)) : bool :=
  match d with
  | [] => true
  | (k, _) :: r => match lookup k r with Some _ => false | None => nodup_keys r end
  end.

Definition dict_eqb {V} (veq : V -> V -> bool) (a b : list (string * V)) : bool :=
  Nat.eqb (List.length a) (List.length b) && nodup_keys a && nodup_keys b &&
  forallb (fun kv => match lookup (fst kv) b with Some v => veq (snd kv) v | None => false end) a.

Definition task_eqb (a b : task) : bool :=
  dict_eqb String.eqb (ischema (tdf a)) (ischema (tdf b)) &&
  dict_eqb String.eqb (oschema (tdf a)) (oschema (tdf b)) &&
  dict_eqb value_eqb (skw a) (skw b) &&
  dict_eqb value_eqb (sps a) (sps b).

Definition into_eqb (a b : into) : bool :=
  match a, b with
  | IntoKw x, IntoKw y => String.eqb x y
  | IntoPs x, IntoPs y => Z.eqb x y
  | _, _ => false
  end.

Definition edge_eqb (a b : edge) : bool :=
  String.eqb (esrc a) (esrc b) && String.eqb (eout a) (eout b) &&
  String.eqb (esink a) (esink b) && into_eqb (einto a) (einto b).

Fixpoint list_eqb {A} (eq : A -> A -> bool) (a b : list A) : bool :=
  match a, b with
  | [], [] => true
  | x :: r, y :: s => eq x y && list_eqb eq r s
  | _, _ => false
  end.

(* ------------------------------------------------------------------ observations *)
(* what the harness saw when it created a task / built a builder *)
Inductive tobs := TObsTask (t : task) | TObsRaised (exn : string).
Inductive bobs :=
| BObsJob (tasks : list (string * task)) (es : list edge)   (* Either.ok *)
| BObsProblems (n : nat)                                    (* Either.error with n messages *)
| BObsRaised (exn : string).

Definition check_tobs (e : texpr) (o : tobs) : bool :=
  match eval_texpr e, o with
  | Ok t, TObsTask t' => task_eqb t t'
  | Err x, TObsRaised y => String.eqb x y
  | _, _ => false
  end.

(* The persistent map iterates its nodes in hash order, so when several nodes make build()
   raise DIFFERENT exceptions the implementation is free in which one surfaces: every
   exception some node or edge raises on its own is accepted. *)
Definition err_name {A} (r : res A) : list string := match r with Err x => [x] | Ok _ => [] end.
Definition possible_raises (b : builder) : list string :=
  flat_map (fun nt => flat_map (fun kv => err_name (static_of string c_evalty c_isinst (fst nt) (snd nt) kv)) (skw (snd nt))) (nodes b) ++
  flat_map (fun e => err_name (edge_errors string c_evalty c_issub (nodes b) e)) (edges b).

Definition check_bobs (b : builder) (o : bobs) : bool :=
  match c_build b, o with
  | Ok (inr j), BObsJob ts es => dict_eqb task_eqb (jtasks j) ts && list_eqb edge_eqb (jedges j) es
  | Ok (inl ps), BObsProblems n => Nat.eqb (List.length ps) n && negb (Nat.eqb n 0)
  | Err x, BObsRaised y => String.eqb x y || mem y (possible_raises b)
  | _, _ => false
  end.

(* steps refer to tasks by index into the table of successfully created tasks *)
Inductive sop := SNode (n : string) (tix : nat) | SEdge (source sink : string) (i : into) (frum : string).

Fixpoint resolve (tasks : list (option task)) (steps : list (nat * sop)) : option (list (nat * op)) :=
  match steps with
  | [] => Some []
  | (p, SNode n ix) :: r =>
      match nth_error tasks ix, resolve tasks r with
      | Some (Some t), Some r' => Some ((p, OpNode n t) :: r')
      | _, _ => None
      end
  | (p, SEdge s k i f) :: r =>
      match resolve tasks r with Some r' => Some ((p, OpEdge s k i f) :: r') | None => None end
  end.

Fixpoint forall2b {A B} (f : A -> B -> bool) (a : list A) (b : list B) : bool :=
  match a, b with
  | [], [] => true
  | x :: r, y :: s => f x y && forall2b f r s
  | _, _ => false
  end.

(* a case: task expressions with what their construction gave, the tree, and what
   build() of every builder of the tree (root first) gave *)
Definition case := (list (texpr * tobs) * list (nat * sop) * list bobs)%type.

Definition check_case (c : case) : bool :=
  let '(texprs, steps, observed) := c in
  forallb (fun eo => check_tobs (fst eo) (snd eo)) texprs &&
  let tasks := map (fun eo => match eval_texpr (fst eo) with Ok t => Some t | Err _ => None end) texprs in
  match resolve tasks steps with
  | None => false
  | Some ops =>
      match run_tree [empty_builder] ops with
      | None => false
      | Some bs => forall2b check_bobs bs observed
      end
  end.
