(* Executable checker used by harness/c10.py for programs of fluent.Payload / fluent.Node /
   Node.copy calls (Low/FluentBuild.v): the model is run on the same program and its final
   views of every node and of every caller-held Payload are compared with what the real objects
   hold at the end of the program. *)
From Coq Require Import List String Bool Arith NArith.
From EKW Require Import Graph.GStore Low.Into Low.Runner Low.RunnerCheck Low.FluentBuild.
Import ListNotations.
Open Scope string_scope.
Open Scope list_scope.

Notation cop := (op N obj).

Definition kw_eqb (a b : list (string * cval)) : bool := odict_eqb pval_eqb a b.

(* observed node: callable, payload args, payload kwargs, input names, outputs *)
Definition nodeobs := (N * list cval * list (string * cval) * list string * list string)%type.
(* observed caller-held Payload at the end: callable, args, kwargs *)
Definition payobs := (N * list cval * list (string * cval))%type.

Definition node_matches (h : lheap obj) (nd : nobj N obj) (o : nodeobs) : bool :=
  let '(f, args, kwargs, ins, outs) := o in
  N.eqb (n_func nd) f && list_eqb' pval_eqb (deref h (n_args nd)) args && kw_eqb (n_kwargs nd) kwargs &&
  list_eqb' String.eqb (map input_name (seq 0 (n_nin nd))) ins &&
  list_eqb' String.eqb (fluent_outputs (n_nout nd)) outs.

Definition payload_matches (h : lheap obj) (p : pobj N obj) (o : payobs) : bool :=
  let '(f, args, kwargs) := o in
  N.eqb (p_func p) f && list_eqb' pval_eqb (deref h (p_args p)) args && kw_eqb (p_kwargs p) kwargs.

Fixpoint all2 {A B} (f : A -> B -> bool) (a : list A) (b : list B) : bool :=
  match a, b with
  | [], [] => true
  | x :: r, y :: s => f x y && all2 f r s
  | _, _ => false
  end.

Definition bcase := (list cop * list nodeobs * list payobs)%type.

Definition check_fbuild (c : bcase) : bool :=
  let '(ops, nodes, pays) := c in
  match run ops init with
  | Ok st => all2 (node_matches (s_heap st)) (s_nodes st) nodes &&
             all2 (payload_matches (s_heap st)) (s_payloads st) pays
  | Err _ => false
  end.
