(* What a TaskBuilder does with the values it ALREADY holds when with_values derives the next
   builder.

   src/cascade/low/builders.py derives the new TaskBuilder with pydantic's
   `self.model_copy(update={...})`: a shallow copy, every value object held so far is put into
   the new dictionaries as it is.  `rebuild conv` is the general shape of deriving a task from
   an existing one: every held value goes through `conv` first.  conv = identity is the shallow
   copy (`with_values_via_id` in BuilderValuesProofs.v); a round trip through a serialised form
   (model_dump + model_validate, json, a deep "normalising" copy) is some other conv.  The
   theorems say exactly when such a rebuild still carries the values given earlier.

   `flatten` is ONE concrete serialising conv, for examples (an instance with attributes
   becomes a plain dict of its flattened attributes, as python-mode dumps of dataclasses and
   pydantic models do); nothing is claimed about pydantic itself. *)
From Coq Require Import List String Bool NArith.
From EKW Require Import Low.Builders.
Import ListNotations.
Open Scope string_scope.
Open Scope list_scope.

Definition map_vals {K} (f : value -> value) (d : list (K * value)) : list (K * value) :=
  map (fun kv => (fst kv, f (snd kv))) d.

(* the task as a rebuild sees it *)
Definition rebuild (conv : value -> value) (t : task) : task :=
  T (tdf t) (map_vals conv (skw t)) (map_vals conv (sps t)).

Definition with_values_via (conv : value -> value) (t : task)
           (args : list value) (kwargs : list (string * value)) : task :=
  with_values (rebuild conv t) args kwargs.

(* a chain of with_values calls, each with its own positional and keyword values *)
Fixpoint with_values_chain (conv : value -> value) (t : task)
         (calls : list (list value * list (string * value))) : task :=
  match calls with
  | [] => t
  | (args, kwargs) :: r => with_values_chain conv (with_values_via conv t args kwargs) r
  end.

(* no instance with attributes anywhere inside *)
Fixpoint obj_free (v : value) : bool :=
  match v with
  | V _ _ => true
  | VSeq _ xs => forallb obj_free xs
  | VMap _ xs => forallb (fun kv => obj_free (fst kv) && obj_free (snd kv)) xs
  | VObj _ _ _ => false
  end.

Section Flatten.
  Variable key : string -> value.        (* the str value that names an attribute *)

  Fixpoint flatten (v : value) : value :=
    match v with
    | V c i => V c i
    | VSeq c xs => VSeq c (map flatten xs)
    | VMap c xs => VMap c (map (fun kv => (flatten (fst kv), flatten (snd kv))) xs)
    | VObj _ _ fs => VMap "dict" (map (fun fv => (key (fst fv), flatten (snd fv))) fs)
    end.
End Flatten.
