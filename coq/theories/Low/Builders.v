(* Executable model of src/cascade/low/builders.py (TaskBuilder, JobBuilder) at the
   fix-carrying commit of the C19 worktree.

   What is transcribed, line by line:
     TaskBuilder.from_callable   -> from_callable     (signature -> input schema, defaults, output schema)
     TaskBuilder.from_entrypoint -> from_entrypoint
     TaskBuilder.with_values     -> with_values       ({**old, **new} dictionary merges, str(position) keys)
     JobBuilder.with_node / with_edge / build         (persistent map / vector -> association list / list)
   Python dictionaries are insertion-ordered association lists (dset/dmerge); a Python
   `raise` is `Err <exception name>`.  `eval(t)`, `isinstance` and `issubclass` are Section
   variables (the model never looks inside a Python value or a Python class).  *)
From Coq Require Import List String Bool Arith ZArith DecimalString DecimalNat Decimal.
Import ListNotations.
Open Scope string_scope.
Open Scope list_scope.

Inductive res (A : Type) : Type := Ok (a : A) | Err (e : string).
Arguments Ok {A} a.
Arguments Err {A} e.

Definition bind {A B} (r : res A) (f : A -> res B) : res B :=
  match r with Ok a => f a | Err e => Err e end.

(* ------------------------------------------------------------------ dictionaries *)
Fixpoint lookup {V} (k : string) (d : list (string * V)) : option V :=
  match d with
  | [] => None
  | (k', v) :: r => if String.eqb k' k then Some v else lookup k r
  end.

(* d[k] = v : an existing key keeps its position, a new key goes last *)
Fixpoint dset {V} (k : string) (v : V) (d : list (string * V)) : list (string * V) :=
  match d with
  | [] => [(k, v)]
  | (k', v') :: r => if String.eqb k' k then (k, v) :: r else (k', v') :: dset k v r
  end.

(* {**a, **b} *)
Definition dmerge {V} (a b : list (string * V)) : list (string * V) :=
  fold_left (fun acc kv => dset (fst kv) (snd kv) acc) b a.

(* dict(pairs) / a dict comprehension *)
Definition dict_of {V} (l : list (string * V)) : list (string * V) := dmerge [] l.

Definition mem (s : string) (l : list string) : bool := existsb (String.eqb s) l.

(* ------------------------------------------------------------------ values, signatures, tasks *)
(* A Python value.  An atom is opaque (the name of its class and an identity: int, str, float,
   bytes, None, an enum member, a path, an array ...); a value with parts carries the name of
   its class and its parts: sequences (list, tuple, set, frozenset and their subclasses,
   named tuples), mappings (dict and its subclasses) and instances with attributes (okind says
   how the class was made).  The builders never look inside a value: only `vty` (the class,
   for isinstance) is used by the model; the structure is there so that "the job carries the
   value given" is equality of the whole value -- class and parts -- and not of a label. *)
Inductive okind := ODataclass | OPydantic | OPlain.

Inductive value :=
| V (cls : string) (vid : N)
| VSeq (cls : string) (items : list value)
| VMap (cls : string) (items : list (value * value))
| VObj (kind : okind) (cls : string) (fields : list (string * value)).

Definition vty (v : value) : string :=
  match v with V c _ | VSeq c _ | VMap c _ | VObj _ c _ => c end.

(* an annotation as inspect.signature reports it: Parameter.empty, a string, an object
   with a __name__ (a class, a generic alias such as list[int]), or an object without
   (None, as in `-> None`) *)
Inductive ann := AEmpty | AStr (s : string) | AType (n : string) | ANoName.

Inductive pkind := PosOnly | PosOrKw | VarPos | KwOnly | VarKw.

Record param := P { pname : string; pkd : pkind; pann : ann; pdef : option value }.

Record tdef := TD { ischema : list (string * string); oschema : list (string * string) }.
Record task := T { tdf : tdef; skw : list (string * value); sps : list (string * value) }.

Definition DEFAULT_OUTPUT := "0".

(* type2str: t if isinstance(t, str) else t.__name__ ; "_empty" -> "Any" *)
Definition type2str (a : ann) : res string :=
  match a with
  | AEmpty => Ok "Any"                       (* inspect._empty.__name__ = "_empty" *)
  | AStr s => Ok (if String.eqb s "_empty" then "Any" else s)
  | AType s => Ok (if String.eqb s "_empty" then "Any" else s)
  | ANoName => Err "AttributeError"
  end.

Definition kwable (k : pkind) : bool :=
  match k with KwOnly | PosOrKw => true | _ => false end.

Fixpoint schema_pairs (ps : list param) : res (list (string * string)) :=
  match ps with
  | [] => Ok []
  | p :: r =>
      if kwable (pkd p)
      then bind (type2str (pann p)) (fun t => bind (schema_pairs r) (fun s => Ok ((pname p, t) :: s)))
      else schema_pairs r
  end.

(* `p.default is not inspect.Parameter.empty` (fix4-C19: the test is by identity, the default
   value itself is never asked): a parameter has a default or it has none, whatever the value *)
Fixpoint default_pairs (ps : list param) : list (string * value) :=
  match ps with
  | [] => []
  | p :: r =>
      match kwable (pkd p), pdef p with
      | true, Some v => (pname p, v) :: default_pairs r
      | _, _ => default_pairs r
      end
  end.

Definition from_callable (ps : list param) (ret : ann) : res task :=
  bind (schema_pairs ps) (fun sp =>
  bind (type2str ret) (fun rt =>
  Ok (T (TD (dict_of sp) [(DEFAULT_OUTPUT, rt)]) (dict_of (default_pairs ps)) []))).

Definition from_entrypoint (input_schema : list (string * string)) (output_class : string) : task :=
  T (TD input_schema [(DEFAULT_OUTPUT, output_class)]) [] [].

(* str(i) for a position *)
Definition str_of_nat (n : nat) : string := NilZero.string_of_uint (Nat.to_uint n).

(* dict(enumerate(args)).items() with str keys *)
Definition enumerate_from {A} (start : nat) (l : list A) : list (string * A) :=
  combine (map str_of_nat (seq start (List.length l))) l.

(* with_values(self, /, *args, **kwargs): any keyword is a value for the task, `self` included;
   model_copy(update=...) is a shallow copy -- the values already held are handed on as they
   are (Low/BuilderValues.v states this as a rebuild with the identity conversion) *)
Definition with_values (t : task) (args : list value) (kwargs : list (string * value)) : task :=
  T (tdf t) (dmerge (skw t) kwargs) (dmerge (sps t) (dict_of (enumerate_from 0 args))).

(* ------------------------------------------------------------------ job builder *)
Inductive into := IntoKw (k : string) | IntoPs (z : Z).

(* Task2TaskEdge(source=DatasetId(esrc, eout), sink_task=esink, sink_input_kw / sink_input_ps) *)
Record edge := E { esrc : string; eout : string; esink : string; einto : into }.

Record builder := B { nodes : list (string * task); edges : list edge }.
Record job := J { jtasks : list (string * task); jedges : list edge }.

Definition empty_builder : builder := B [] [].
Definition with_node (b : builder) (n : string) (t : task) : builder := B (dset n t (nodes b)) (edges b).
Definition with_edge (b : builder) (source sink : string) (i : into) (frum : string) : builder :=
  B (nodes b) (edges b ++ [E source frum sink i]).

Inductive problem :=
| PUnknownKw (task k : string)                       (* static value for a name that is no parameter *)
| PStaticType (task k ty : string) (v : value)       (* static value of the wrong type *)
| PSrcTask (task out : string)
| PSrcOut (out : string)
| PSinkTask (task : string)
| PSinkParam (k : string)
| PIncompat (e : edge).

Definition skipped : list string :=
  ["latitude"; "longitude"; "latlonArea"; "Optional[marsParam]"; "marsParamList"; "grib"].

Definition legits : list (string * string) :=
  [("grib.earthkit", "grib.mir"); ("grib.mir", "grib.earthkit")].

Definition pair_mem (a b : string) (l : list (string * string)) : bool :=
  existsb (fun p => String.eqb (fst p) a && String.eqb (snd p) b) l.

(* `if not x` on an Optional[str]: None and "" are both falsy *)
Definition truthy (o : option string) : option string :=
  match o with Some s => if String.eqb s "" then None else Some s | None => None end.

Fixpoint concatM {A B} (f : A -> res (list B)) (l : list A) : res (list B) :=
  match l with
  | [] => Ok []
  | a :: r => bind (f a) (fun x => bind (concatM f r) (fun y => Ok (x ++ y)))
  end.

Section Build.
  (* the namespace `eval` sees and the two class tests, uninterpreted *)
  Variable PyT : Type.
  Variable evalty : string -> res PyT.            (* Err x: eval(t) raises x (NameError, SyntaxError) *)
  Variable isinst : value -> PyT -> bool.         (* isinstance(v, T) *)
  Variable issub : PyT -> PyT -> bool.            (* issubclass(T1, T2) *)

  (* _isinstance = lambda v, t: t == "Any" or t in skipped or isinstance(v, eval(t)) *)
  Definition isinstance_ (v : value) (t : string) : res bool :=
    if String.eqb t "Any" then Ok true
    else if mem t skipped then Ok true
    else bind (evalty t) (fun c => Ok (isinst v c)).

  (* _issubclass = lambda t1, t2: t2 == "Any" or t1 == "Any" or t1 == t2 or (t1, t2) in legits
                                  or issubclass(eval(t1), eval(t2)) *)
  Definition issubclass_ (t1 t2 : string) : res bool :=
    if String.eqb t2 "Any" then Ok true
    else if String.eqb t1 "Any" then Ok true
    else if String.eqb t1 t2 then Ok true
    else if pair_mem t1 t2 legits then Ok true
    else bind (evalty t1) (fun c1 => bind (evalty t2) (fun c2 => Ok (issub c1 c2))).

  (* unknown_kw_errors, for one node *)
  Definition unknown_kw_of (nt : string * task) : list problem :=
    flat_map (fun kv => match lookup (fst kv) (ischema (tdf (snd nt))) with
                        | None => [PUnknownKw (fst nt) (fst kv)]
                        | Some _ => []
                        end) (skw (snd nt)).

  (* static_kw_errors, for one static value of one node *)
  Definition static_of (nm : string) (t : task) (kv : string * value) : res (list problem) :=
    match lookup (fst kv) (ischema (tdf t)) with
    | None => Ok []
    | Some ty => bind (isinstance_ (snd kv) ty) (fun ok =>
                 Ok (if ok then [] else [PStaticType nm (fst kv) ty (snd kv)]))
    end.

  Definition static_errors_of (nt : string * task) : res (list problem) :=
    concatM (static_of (fst nt) (snd nt)) (skw (snd nt)).

  (* get_edge_errors *)
  Definition edge_errors (ns : list (string * task)) (e : edge) : res (list problem) :=
    let '(errs1, output_param) :=
      match lookup (esrc e) ns with
      | None => ([PSrcTask (esrc e) (eout e)], None)
      | Some st =>
          match truthy (lookup (eout e) (oschema (tdf st))) with
          | None => ([PSrcOut (eout e)], None)
          | Some ty => ([], Some ty)
          end
      end in
    match lookup (esink e) ns with
    | None => Ok (errs1 ++ [PSinkTask (esink e)])
    | Some kt =>
        match einto e with
        | IntoPs _ => Ok errs1
        | IntoKw k =>
            match truthy (lookup k (ischema (tdf kt))) with
            | None => Ok (errs1 ++ [PSinkParam k])
            | Some ity =>
                match output_param with
                | None => Ok errs1
                | Some oty => bind (issubclass_ oty ity) (fun ok =>
                              Ok (errs1 ++ (if ok then [] else [PIncompat e])))
                end
            end
        end
    end.

  (* JobBuilder.build: Ok (inr job) = Either.ok, Ok (inl problems) = Either.error, Err = raised *)
  Definition build (b : builder) : res (list problem + job) :=
    let unknown := flat_map unknown_kw_of (nodes b) in
    bind (concatM static_errors_of (nodes b)) (fun st =>
    bind (concatM (edge_errors (nodes b)) (edges b)) (fun ee =>
    match unknown ++ st ++ ee with
    | [] => Ok (inr (J (nodes b) (edges b)))
    | errs => Ok (inl errs)
    end)).
End Build.

(* ------------------------------------------------------------------ a tree of derived builders *)
Inductive op := OpNode (n : string) (t : task) | OpEdge (source sink : string) (i : into) (frum : string).

Definition apply_op (b : builder) (o : op) : builder :=
  match o with
  | OpNode n t => with_node b n t
  | OpEdge s k i f => with_edge b s k i f
  end.

(* every step derives a new builder from ANY earlier one; the result lists all builders *)
Fixpoint run_tree (bs : list builder) (steps : list (nat * op)) : option (list builder) :=
  match steps with
  | [] => Some bs
  | (p, o) :: r =>
      match nth_error bs p with
      | None => None
      | Some b => run_tree (bs ++ [apply_op b o]) r
      end
  end.
