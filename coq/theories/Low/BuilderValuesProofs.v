(* Proofs about values with parts and about rebuilding a task from the values it holds
   (Low/BuilderValues.v). *)
From Coq Require Import List String Bool Arith NArith Lia.
From EKW Require Import Low.Builders Low.BuildersProofs Low.BuildersCheck Low.BuilderValues.
Import ListNotations.
Open Scope string_scope.
Open Scope list_scope.

(* ------------------------------------------------------------------ induction over values with parts *)
Section ValueInd.
  Variable P : value -> Prop.
  Hypothesis HV : forall c i, P (V c i).
  Hypothesis HS : forall c xs, Forall P xs -> P (VSeq c xs).
  Hypothesis HM : forall c xs, Forall (fun kv => P (fst kv) /\ P (snd kv)) xs -> P (VMap c xs).
  Hypothesis HO : forall k c fs, Forall (fun fv => P (snd fv)) fs -> P (VObj k c fs).

  Fixpoint value_ind' (v : value) : P v :=
    match v with
    | V c i => HV c i
    | VSeq c xs =>
        HS c xs ((fix go (l : list value) : Forall P l :=
                    match l with
                    | [] => Forall_nil _
                    | x :: r => Forall_cons _ (value_ind' x) (go r)
                    end) xs)
    | VMap c xs =>
        HM c xs ((fix go (l : list (value * value)) : Forall (fun kv => P (fst kv) /\ P (snd kv)) l :=
                    match l with
                    | [] => Forall_nil _
                    | (k, x) :: r => Forall_cons (k, x) (conj (value_ind' k) (value_ind' x)) (go r)
                    end) xs)
    | VObj k c fs =>
        HO k c fs ((fix go (l : list (string * value)) : Forall (fun fv => P (snd fv)) l :=
                      match l with
                      | [] => Forall_nil _
                      | (f, x) :: r => Forall_cons (f, x) (value_ind' x) (go r)
                      end) fs)
    end.
End ValueInd.

(* ------------------------------------------------------------------ the harness's comparison is equality *)
Lemma okind_eqb_eq a b : okind_eqb a b = true <-> a = b.
Proof. destruct a, b; cbn; split; congruence. Qed.

Lemma value_eqb_eq : forall a b, value_eqb a b = true <-> a = b.
Proof.
  induction a as [c i|c xs IH|c xs IH|k c fs IH] using value_ind'; intros b; destruct b as [d j|d ys|d ys|l d gs];
    cbn [value_eqb]; try (split; [discriminate|congruence]).
  - rewrite andb_true_iff, String.eqb_eq, N.eqb_eq. split; [intros [-> ->]; reflexivity|intros E; injection E; auto].
  - rewrite andb_true_iff, String.eqb_eq.
    match goal with |- _ /\ ?g xs ys = true <-> _ => set (go := g) end.
    assert (Hgo : forall ys, go xs ys = true <-> xs = ys).
    { clear ys. induction IH as [|x r Hx _ IHr]; intros ys; destruct ys as [|y s]; cbn; try (split; [discriminate|congruence]).
      - split; reflexivity.
      - rewrite andb_true_iff, Hx, IHr. split; [intros [-> ->]; reflexivity|intros E; injection E; auto]. }
    rewrite Hgo. split; [intros [-> ->]; reflexivity|intros E; injection E; auto].
  - rewrite andb_true_iff, String.eqb_eq.
    match goal with |- _ /\ ?g xs ys = true <-> _ => set (go := g) end.
    assert (Hgo : forall ys, go xs ys = true <-> xs = ys).
    { clear ys. induction IH as [|[k x] r [Hk Hx] _ IHr]; intros ys; destruct ys as [|[l y] s]; cbn; try (split; [discriminate|congruence]).
      - split; reflexivity.
      - cbn in Hk, Hx. rewrite !andb_true_iff, Hk, Hx, IHr. split; [intros [[-> ->] ->]; reflexivity|intros E; injection E; auto]. }
    rewrite Hgo. split; [intros [-> ->]; reflexivity|intros E; injection E; auto].
  - rewrite !andb_true_iff, String.eqb_eq, okind_eqb_eq.
    match goal with |- _ /\ ?g fs gs = true <-> _ => set (go := g) end.
    assert (Hgo : forall gs, go fs gs = true <-> fs = gs).
    { clear gs. induction IH as [|[f x] r Hx _ IHr]; intros gs; destruct gs as [|[g y] s]; cbn; try (split; [discriminate|congruence]).
      - split; reflexivity.
      - cbn in Hx. rewrite !andb_true_iff, String.eqb_eq, Hx, IHr. split; [intros [[-> ->] ->]; reflexivity|intros E; injection E; auto]. }
    rewrite Hgo. split; [intros [[-> ->] ->]; reflexivity|intros E; injection E; auto].
Qed.

(* ------------------------------------------------------------------ dictionaries whose values are mapped *)
Lemma lookup_map_vals (f : value -> value) k d : lookup k (map_vals f d) = option_map f (lookup k d).
Proof.
  induction d as [|[k0 v0] r IH]; cbn; [reflexivity|].
  destruct (String.eqb k0 k); [reflexivity|exact IH].
Qed.

Lemma map_vals_id {K} (d : list (K * value)) : map_vals (fun v => v) d = d.
Proof. unfold map_vals. induction d as [|[k v] r IH]; cbn; [reflexivity|now rewrite IH]. Qed.

Lemma map_vals_keys {K} f (d : list (K * value)) : map fst (map_vals f d) = map fst d.
Proof. unfold map_vals. induction d as [|[k v] r IH]; cbn; [reflexivity|now rewrite IH]. Qed.

(* ------------------------------------------------------------------ rebuilds *)
(* the shallow copy (pydantic model_copy(update=...)) is the rebuild that leaves values alone *)
Lemma with_values_via_id t args kwargs : with_values_via (fun v => v) t args kwargs = with_values t args kwargs.
Proof. unfold with_values_via, rebuild. rewrite !map_vals_id. now destruct t. Qed.

Section Via.
  Variable conv : value -> value.
  Variables (t : task) (args : list value) (kwargs : list (string * value)).
  Let t' := with_values_via conv t args kwargs.

  Lemma via_definition : tdf t' = tdf t.
  Proof. reflexivity. Qed.

  (* the values given in THIS call are stored as given *)
  Lemma via_keyword : NoDup (map fst kwargs) -> forall k v, In (k, v) kwargs -> lookup k (skw t') = Some v.
  Proof. intros Hnd k v Hin. unfold t', with_values_via. now apply with_values_keyword. Qed.

  Lemma via_position : forall i v, nth_error args i = Some v -> lookup (str_of_nat i) (sps t') = Some v.
  Proof. intros i v Hn. unfold t', with_values_via. now apply with_values_position. Qed.

  (* the values given EARLIER come out converted *)
  Lemma via_other_keywords : forall k, ~ In k (map fst kwargs) -> lookup k (skw t') = option_map conv (lookup k (skw t)).
  Proof.
    intros k Hn. unfold t', with_values_via. rewrite with_values_other_keywords by exact Hn.
    unfold rebuild. cbn [skw]. apply lookup_map_vals.
  Qed.

  Lemma via_other_positions : forall s, (forall i, i < List.length args -> s <> str_of_nat i) ->
                                        lookup s (sps t') = option_map conv (lookup s (sps t)).
  Proof.
    intros s Hs. unfold t', with_values_via. rewrite with_values_other_positions by exact Hs.
    unfold rebuild. cbn [sps]. apply lookup_map_vals.
  Qed.

  (* a rebuild keeps the values given earlier exactly when conv leaves each of them alone *)
  Theorem via_carries_keywords_iff :
    (forall k, ~ In k (map fst kwargs) -> lookup k (skw t') = lookup k (skw t)) <->
    (forall k v, ~ In k (map fst kwargs) -> lookup k (skw t) = Some v -> conv v = v).
  Proof.
    split.
    - intros H k v Hn Hl. specialize (H k Hn). rewrite via_other_keywords, Hl in H by exact Hn. cbn in H. congruence.
    - intros H k Hn. rewrite via_other_keywords by exact Hn.
      destruct (lookup k (skw t)) as [v|] eqn:El; cbn; [|reflexivity]. now rewrite (H k v Hn El).
  Qed.

  Theorem via_carries_positions_iff :
    (forall s, (forall i, i < List.length args -> s <> str_of_nat i) -> lookup s (sps t') = lookup s (sps t)) <->
    (forall s v, (forall i, i < List.length args -> s <> str_of_nat i) -> lookup s (sps t) = Some v -> conv v = v).
  Proof.
    split.
    - intros H s v Hn Hl. specialize (H s Hn). rewrite via_other_positions, Hl in H by exact Hn. cbn in H. congruence.
    - intros H s Hn. rewrite via_other_positions by exact Hn.
      destruct (lookup s (sps t)) as [v|] eqn:El; cbn; [|reflexivity]. now rewrite (H s v Hn El).
  Qed.
End Via.

(* a chain of shallow-copy calls is the chain of with_values calls *)
Lemma chain_id t calls :
  with_values_chain (fun v => v) t calls = fold_left (fun t c => with_values t (fst c) (snd c)) calls t.
Proof.
  revert t. induction calls as [|[a k] r IH]; intros t; cbn; [reflexivity|].
  now rewrite with_values_via_id, IH.
Qed.

(* a keyword value given in one call of a chain of shallow copies is still there, unconverted,
   after any number of further calls that do not give that keyword again *)
Lemma chain_keeps_keyword t args kwargs k v calls :
  NoDup (map fst kwargs) -> In (k, v) kwargs ->
  Forall (fun c => ~ In k (map fst (snd c))) calls ->
  lookup k (skw (with_values_chain (fun v => v) (with_values t args kwargs) calls)) = Some v.
Proof.
  intros Hnd Hin Hcalls. rewrite chain_id.
  assert (H0 : lookup k (skw (with_values t args kwargs)) = Some v) by now apply with_values_keyword.
  revert H0. generalize (with_values t args kwargs) as u.
  induction Hcalls as [|[a kw] r Hc _ IH]; intros u Hu; cbn [fold_left fst snd]; [exact Hu|].
  apply IH. cbn in Hc. now rewrite with_values_other_keywords.
Qed.

Lemma chain_keeps_position t args kwargs i v calls :
  nth_error args i = Some v ->
  Forall (fun c => List.length (fst c) <= i) calls ->
  lookup (str_of_nat i) (sps (with_values_chain (fun v => v) (with_values t args kwargs) calls)) = Some v.
Proof.
  intros Hn Hcalls. rewrite chain_id.
  assert (H0 : lookup (str_of_nat i) (sps (with_values t args kwargs)) = Some v) by now apply with_values_position.
  revert H0. generalize (with_values t args kwargs) as u.
  induction Hcalls as [|[a kw] r Hc _ IH]; intros u Hu; cbn [fold_left fst snd]; [exact Hu|].
  apply IH. cbn in Hc. rewrite with_values_other_positions; [exact Hu|].
  intros j Hj E. apply str_of_nat_inj in E. lia.
Qed.

(* ------------------------------------------------------------------ the flattening conversion *)
Section FlattenProofs.
  Variable key : string -> value.

  Lemma map_id_Forall {A} (f : A -> A) l : Forall (fun x => f x = x) l -> map f l = l.
  Proof. induction 1 as [|x r Hx _ IH]; cbn; [reflexivity|now rewrite Hx, IH]. Qed.

  Lemma map_id_inv {A} (f : A -> A) l : map f l = l -> Forall (fun x => f x = x) l.
  Proof. induction l as [|x r IH]; cbn; intros E; [constructor|]. injection E as Ex Er. constructor; auto. Qed.

  (* flattening leaves a value alone exactly when there is no instance with attributes in it *)
  Theorem flatten_fixes_iff : forall v, flatten key v = v <-> obj_free v = true.
  Proof.
    induction v as [c i|c xs IH|c xs IH|k c fs IH] using value_ind'; cbn [flatten obj_free].
    - split; reflexivity.
    - rewrite forallb_forall. split.
      + intros E. injection E as E. apply map_id_inv in E. rewrite Forall_forall in IH, E.
        intros x Hx. apply IH; auto.
      + intros H. f_equal. apply map_id_Forall. rewrite Forall_forall in *. intros x Hx. apply IH; auto.
    - rewrite forallb_forall. split.
      + intros E. injection E as E. apply map_id_inv in E. rewrite Forall_forall in IH, E.
        intros [a b] Hx. specialize (E _ Hx). specialize (IH _ Hx). cbn in *. injection E as Ea Eb.
        apply andb_true_iff. split; [now apply IH|now apply IH].
      + intros H. f_equal. apply map_id_Forall. rewrite Forall_forall in *. intros [a b] Hx.
        specialize (H _ Hx). specialize (IH _ Hx). cbn in *. apply andb_true_iff in H. destruct H as [Ha Hb].
        f_equal; [now apply IH|now apply IH].
    - split; discriminate.
  Qed.
End FlattenProofs.
