(* Proofs about views.param_source on a lowered job: for every node of the graph, the entry
   of its task is exactly the (position, source) list of its placeholders, in edge order
   (RunnerArgsProofs.vsrc).  With bound_args_vtask this gives the arguments the callable
   receives for the whole pipeline graph2job -> param_source -> run. *)
From Coq Require Import List String Bool Arith Lia FinFun.
From EKW Require Import Graph.GStore Graph.Export Util.StrOrd Low.Into Low.Runner Low.IntoProofs Low.RunnerArgsProofs.
Import ListNotations.
Open Scope string_scope.
Open Scope list_scope.

Lemma filter_all : forall {A} (f : A -> bool) l, (forall x, In x l -> f x = true) -> filter f l = l.
Proof.
  intros A f l. induction l as [|a r IH]; intros H; cbn; [reflexivity|].
  rewrite (H a (or_introl eq_refl)). f_equal. apply IH. intros x Hx. apply H. right. exact Hx.
Qed.

Lemma filter_none : forall {A} (f : A -> bool) l, (forall x, In x l -> f x = false) -> filter f l = [].
Proof.
  intros A f l. induction l as [|a r IH]; intros H; cbn; [reflexivity|].
  rewrite (H a (or_introl eq_refl)). apply IH. intros x Hx. apply H. right. exact Hx.
Qed.

Lemma NoDup_app_intro : forall {A} (a b : list A),
  NoDup a -> NoDup b -> (forall x, In x a -> ~ In x b) -> NoDup (a ++ b).
Proof.
  intros A a b Ha. induction Ha as [|x a Hx Ha IH]; intros Hb Hd; cbn; [exact Hb|].
  constructor.
  - intros Hin. apply in_app_or in Hin as [Hin|Hin]; [contradiction|]. apply (Hd x); [left; reflexivity|exact Hin].
  - apply IH; [exact Hb|]. intros y Hy. apply Hd. right. exact Hy.
Qed.

Lemma inkey_eqb_eq : forall a b, inkey_eqb a b = true <-> a = b.
Proof.
  intros [p|k] [q|l]; cbn; split; intros H; try discriminate.
  - apply Nat.eqb_eq in H. congruence.
  - injection H as ->. apply Nat.eqb_refl.
  - apply String.eqb_eq in H. congruence.
  - injection H as ->. apply String.eqb_refl.
Qed.

Lemma kset_fresh : forall {A} k (v : A) l, ~ In k (map fst l) -> kset k v l = l ++ [(k, v)].
Proof.
  intros A k v l. induction l as [|[k' v'] r IH]; intros H; cbn; [reflexivity|].
  destruct (inkey_eqb k k') eqn:E.
  - apply inkey_eqb_eq in E. subst. exfalso. apply H. left. reflexivity.
  - rewrite IH; [reflexivity|]. intros Hin. apply H. right. exact Hin.
Qed.

(* ---------------------------------------------------------------- param_source on positional edges *)
Definition ekey (e : edge) : inkey := match e_ps e with Some p => KPos p | None => KPos 0 end.
Definition pos_edge (e : edge) : Prop := e_kw e = None /\ exists p, e_ps e = Some p.

Lemma psl_spec : forall edges rv, Forall pos_edge edges ->
  exists rv', param_source_loop edges rv = Ok rv' /\
    forall t, psrc_of rv' t =
      fold_left (fun d e => kset (ekey e) (e_src e) d)
                (filter (fun e => String.eqb (e_sink e) t) edges) (psrc_of rv t).
Proof.
  induction edges as [|e r IH]; intros rv H.
  - exists rv. split; [reflexivity|]. intros t. reflexivity.
  - inversion H as [|? ? [Hkw [p Hp]] Hr]; subst.
    cbn [param_source_loop]. unfold sink_input. rewrite Hkw, Hp. cbn [bind].
    match goal with |- exists rv', param_source_loop r ?X = _ /\ _ => destruct (IH X Hr) as (rv' & Hrv & Hall) end.
    exists rv'. split; [exact Hrv|]. intros t. rewrite Hall. cbn [filter].
    destruct (String.eqb (e_sink e) t) eqn:E.
    + apply String.eqb_eq in E. subst t. cbn [fold_left]. unfold psrc_of at 1.
      rewrite lookup_dict_set_same. unfold ekey. rewrite Hp. reflexivity.
    + unfold psrc_of at 1. rewrite lookup_dict_set_other; [reflexivity|].
      intros ->. rewrite String.eqb_refl in E. discriminate.
Qed.

Section SourceProofs.
Variable F : Type.
Variable D : Type.
Notation pval := (pval D).
Notation payload := (payload F D).
Notation vnode := (vnode payload).

Lemma vedges_sink : forall (v : vnode) e, In e (vedges F D v) -> e_sink e = vname v /\ pos_edge e.
Proof.
  intros v e H. unfold vedges in H. destruct (vpay v) as [[f args kwargs|]|]; try destruct H.
  apply in_flat_map in H as (pi & _ & H). unfold input_edges in H. apply in_map_iff in H as (p & <- & _).
  cbn. split; [reflexivity|]. split; [reflexivity|eexists; reflexivity].
Qed.

Lemma filter_vedges : forall (vs : list vnode) v, NoDup (map vname vs) -> In v vs ->
  filter (fun e => String.eqb (e_sink e) (vname v)) (flat_map (vedges F D) vs) = vedges F D v.
Proof.
  induction vs as [|a r IH]; intros v Hnd Hin; [destruct Hin|].
  cbn [flat_map]. rewrite filter_app. cbn in Hnd. inversion Hnd as [|? ? Hnot Hnd']; subst.
  destruct Hin as [<-|Hin].
  - rewrite filter_all, filter_none; [apply app_nil_r| |].
    + intros e He. apply in_flat_map in He as (v' & Hv' & He). apply vedges_sink in He as [He _]. rewrite He.
      destruct (String.eqb (vname v') (vname a)) eqn:E; [|reflexivity].
      apply String.eqb_eq in E. exfalso. apply Hnot. rewrite <- E. apply in_map. exact Hv'.
    + intros e He. apply vedges_sink in He as [He _]. rewrite He. apply String.eqb_refl.
  - rewrite filter_none, (IH v Hnd' Hin); [reflexivity|].
    intros e He. apply vedges_sink in He as [He _]. rewrite He.
    destruct (String.eqb (vname a) (vname v)) eqn:E; [|reflexivity].
    apply String.eqb_eq in E. exfalso. apply Hnot. rewrite E. apply in_map. exact Hin.
Qed.

Lemma vedges_ppairs : forall (v : vnode) f args kwargs,
  vpay v = Some (PayTuple f args kwargs) ->
  vedges F D v = map (fun u => mkE (snd u) (vname v) None (Some (fst u))) (ppairs D args (vins v)).
Proof.
  intros v f args kwargs Hp. unfold vedges, ppairs. rewrite Hp.
  generalize (vins v) as ins. induction ins as [|pi r IH]; [reflexivity|].
  cbn [flat_map]. rewrite map_app, IH. f_equal. unfold input_edges. rewrite map_map. reflexivity.
Qed.

Lemma positions_nodup : forall (args : list pval) i s, NoDup (positions_from i s args).
Proof.
  induction args as [|a r IH]; intros i s; cbn; [constructor|].
  destruct a as [|s'|d]; try apply IH.
  destruct (String.eqb s s'); [|apply IH].
  constructor; [|apply IH]. intros Hin. apply positions_spec in Hin as [Hle _]. lia.
Qed.

Lemma ppairs_positions_nodup : forall (args : list pval) (ins : list (string * dsid)),
  NoDup (map fst ins) -> NoDup (map fst (ppairs D args ins)).
Proof.
  intros args ins. induction ins as [|[s d] r IH]; intros Hnd; [constructor|].
  cbn in Hnd. inversion Hnd as [|? ? Hnot Hnd']; subst.
  unfold ppairs. cbn [flat_map fst snd]. rewrite map_app, map_map. cbn [fst]. rewrite map_id.
  apply NoDup_app_intro; [apply positions_nodup|apply IH; exact Hnd'|].
  intros p Hp Hin. apply positions_spec in Hp as [_ Hp]. rewrite Nat.sub_0_r in Hp.
  apply in_map_iff in Hin as ([p' d'] & E & Hin). cbn in E. subst p'.
  apply ppairs_in in Hin as (s' & Hin & Hp'). rewrite Hp in Hp'. injection Hp' as <-.
  apply Hnot. apply in_map_iff. exists (s, d'). split; [reflexivity|exact Hin].
Qed.

Lemma fold_kset_fresh : forall (l : list (nat * dsid)) (acc : list (inkey * dsid)),
  NoDup (map fst acc ++ map (fun u => KPos (fst u)) l) ->
  fold_left (fun d u => kset (KPos (fst u)) (snd u) d) l acc = acc ++ map (fun u => (KPos (fst u), snd u)) l.
Proof.
  induction l as [|u r IH]; intros acc H; cbn; [rewrite app_nil_r; reflexivity|].
  rewrite kset_fresh.
  - rewrite IH; [rewrite <- app_assoc; reflexivity|].
    rewrite map_app. cbn. rewrite <- app_assoc. exact H.
  - cbn in H. apply NoDup_remove_2 in H. intros Hin. apply H. apply in_or_app. left. exact Hin.
Qed.

(* the whole pipeline: the entry of param_source for a node's task is vsrc *)
Theorem param_source_of_node : forall (g : graph payload) vs j (v : vnode) f args kwargs,
  vnodes g = Ok vs -> graph2job g = Ok j -> In v vs ->
  vpay v = Some (PayTuple f args kwargs) -> NoDup (map fst (vins v)) ->
  exists ps, param_source (j_edges j) = Ok ps /\ psrc_of ps (vname v) = vsrc D args (vins v).
Proof.
  intros g vs j v f args kwargs Hv Hj Hin Hp Hnd.
  destruct (graph2job_shape F D g vs j Hv Hj) as (Hnames & _ & He & _).
  assert (Hpos : Forall pos_edge (j_edges j)).
  { rewrite He. apply Forall_forall. intros e H. apply in_flat_map in H as (v' & _ & H).
    apply vedges_sink in H as [_ H]. exact H. }
  destruct (psl_spec (j_edges j) [] Hpos) as (ps & Hps & Hall).
  exists ps. split; [exact Hps|]. rewrite Hall, He, (filter_vedges vs v Hnames Hin).
  rewrite (vedges_ppairs v f args kwargs Hp).
  assert (Hfold : forall (l : list (nat * dsid)) acc,
            fold_left (fun d e => kset (ekey e) (e_src e) d)
                      (map (fun u => mkE (snd u) (vname v) None (Some (fst u))) l) acc =
            fold_left (fun d u => kset (KPos (fst u)) (snd u) d) l acc).
  { induction l as [|u r IH]; intros acc; [reflexivity|]. cbn [map fold_left]. rewrite IH. reflexivity. }
  rewrite Hfold. unfold psrc_of. cbn [lookup]. rewrite fold_kset_fresh; [reflexivity|].
  cbn [map app]. rewrite <- (map_map fst KPos).
  apply FinFun.Injective_map_NoDup; [intros a b E; injection E as ->; reflexivity|].
  apply ppairs_positions_nodup. exact Hnd.
Qed.

(* graph2job -> param_source -> the argument binding of runner.run, for a node of any graph *)
Theorem call_args_pipeline : forall (g : graph payload) vs j (v : vnode) f args kwargs (m : memory D),
  vnodes g = Ok vs -> graph2job g = Ok j -> In v vs ->
  vpay v = Some (PayTuple f args kwargs) -> NoDup (map fst (vins v)) ->
  (forall pi, In pi (vins v) -> provide m (snd pi) <> None) ->
  exists ps t, param_source (j_edges j) = Ok ps /\ lookup (vname v) (j_tasks j) = Some t /\
    t_func t = f /\
    bound_args t (psrc_of ps (vname v)) m = Ok (spec_args D args (vins v) m, kwargs).
Proof.
  intros g vs j v f args kwargs m Hv Hj Hin Hp Hnd Hprov.
  destruct (param_source_of_node g vs j v f args kwargs Hv Hj Hin Hp Hnd) as (ps & Hps & Hsrc).
  destruct (graph2job_shape F D g vs j Hv Hj) as (_ & _ & _ & Htask).
  destruct (Htask v Hin) as (f' & args' & kwargs' & Hp' & Hl & _).
  rewrite Hp in Hp'. injection Hp' as <- <- <-.
  exists ps, (vtask F D v f args kwargs). repeat split; [exact Hps|exact Hl|].
  rewrite Hsrc. apply bound_args_vtask; assumption.
Qed.

End SourceProofs.
