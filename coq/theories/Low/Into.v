(* Model of src/cascade/low/into.py (node2task, graph2job) and of param_source in
   src/cascade/low/views.py, as of the worktree commit 40ef9de (an input named at several
   positions of args is bound at each of them).  Graphs are the id-addressed stores of
   Graph/GStore.v; `serialise(graph)` is the model of Graph/Export.v.
   Python values: None and str are distinguished because the code does (isinstance(e, str),
   padding with None); everything else is an opaque object of type D.
   Abstraction: the key str(i) of static_input_ps is represented by the number i
   (runner.py reads it back with int(idx_str)).
   No proofs in this file. *)
From Coq Require Import List String Bool Arith.
From EKW Require Import Graph.GStore Graph.Export.
Import ListNotations.
Open Scope string_scope.
Open Scope list_scope.

Section Into.
Variable F : Type.   (* callables *)
Variable D : Type.   (* opaque Python objects *)

Inductive pval := PNone | PStr (s : string) | PObj (d : D).

(* node.payload: the tuple (func, args, kwargs) or anything else *)
Inductive payload :=
| PayTuple (f : F) (args : list pval) (kwargs : list (string * pval))
| PayOther.

(* DatasetId(task, output) *)
Definition dsid := (string * string)%type.
Definition dsid_eqb (a b : dsid) : bool := String.eqb (fst a) (fst b) && String.eqb (snd a) (snd b).

(* Task2TaskEdge *)
Record edge := mkE {
  e_src : dsid;
  e_sink : string;
  e_kw : option string;
  e_ps : option nat }.

(* TaskInstance with its TaskDefinition flattened in *)
Record task := mkT {
  t_func : F;
  t_ischema : list (string * string);
  t_oschema : list (string * string);
  t_skw : list (string * pval);
  t_sps : list (nat * pval) }.

Record job := mkJ { j_tasks : list (string * task); j_edges : list edge }.

(* d[k] = v on an insertion-ordered dict with numeric keys *)
Fixpoint nset {A} (k : nat) (v : A) (l : list (nat * A)) : list (nat * A) :=
  match l with
  | [] => [(k, v)]
  | (k', v') :: r => if Nat.eqb k k' then (k, v) :: r else (k', v') :: nset k v r
  end.

(* for i, e in enumerate(args): static_input_ps[str(i)] = e *)
Fixpoint enumerate_from {A} (i : nat) (l : list A) : list (nat * A) :=
  match l with
  | [] => []
  | a :: r => (i, a) :: enumerate_from (S i) r
  end.

(* rev_lookup[s]: the positions at which args holds the string s, ascending *)
Fixpoint positions_from (i : nat) (s : string) (args : list pval) : list nat :=
  match args with
  | [] => []
  | PStr s' :: r => if String.eqb s s' then i :: positions_from (S i) s r else positions_from (S i) s r
  | _ :: r => positions_from (S i) s r
  end.

(* isinstance(other, str) ? DatasetId(other, DEFAULT_OUTPUT) : DatasetId(other[0], other[1]) *)
Definition ds_of (s : ssrc) : dsid :=
  match s with SBare p => (p, DEFAULT_OUTPUT) | SPair _ p o => (p, o) end.

(* the loop over node["inputs"].items() *)
Fixpoint inputs_loop (name : string) (args : list pval) (ins : list (string * ssrc))
         (sps : list (nat * pval)) (edges : list edge) : res (list (nat * pval) * list edge) :=
  match ins with
  | [] => Ok (sps, edges)
  | (param, other) :: r =>
      match positions_from 0 param args with
      | [] => Err "KeyError"                    (* rev_lookup[param] *)
      | ps => inputs_loop name args r
                (fold_left (fun d p => nset p PNone d) ps sps)
                (edges ++ map (fun p => mkE (ds_of other) name None (Some p)) ps)
      end
  end.

(* {e: "Any" for e in outputs} *)
Definition schema_of (outs : list string) : list (string * string) :=
  fold_left (fun d o => dict_set o "Any" d) outs [].

Definition node2task (name : string) (sn : snode payload) : res (task * list edge) :=
  match s_pay sn with
  | None => Err "KeyError"                      (* node["payload"]: Node.serialise omits a None payload *)
  | Some PayOther => Err "NotImplementedError"
  | Some (PayTuple f args kwargs) =>
      match s_ins sn, s_outs sn with
      | Some ins, Some outs =>
          bind (inputs_loop name args ins (enumerate_from 0 args) []) (fun se =>
          let outs' := match outs with [] => [DEFAULT_OUTPUT] | _ => outs end in
          Ok (mkT f (map (fun kv => (fst kv, "Any")) kwargs) (schema_of outs') kwargs (fst se), snd se))
      | _, _ => Err "KeyError"
      end
  end.

Fixpoint g2j_loop (ser : sgraph payload) (tasks : list (string * task)) (edges : list edge) : res job :=
  match ser with
  | [] => Ok (mkJ tasks edges)
  | (n, sn) :: r =>
      bind (node2task n sn) (fun te =>
      g2j_loop r (dict_set n (fst te) tasks) (edges ++ snd te))
  end.

Definition graph2job (g : graph payload) : res job :=
  bind (serialise payload (fun p => p) g) (fun ser => g2j_loop ser [] []).

(* ------------------------------------------------------------------ views.param_source *)
Inductive inkey := KPos (p : nat) | KKw (k : string).
Definition inkey_eqb (a b : inkey) : bool :=
  match a, b with
  | KPos p, KPos q => Nat.eqb p q
  | KKw k, KKw l => String.eqb k l
  | _, _ => false
  end.

Fixpoint kset {A} (k : inkey) (v : A) (l : list (inkey * A)) : list (inkey * A) :=
  match l with
  | [] => [(k, v)]
  | (k', v') :: r => if inkey_eqb k k' then (k, v) :: r else (k', v') :: kset k v r
  end.

Definition sink_input (e : edge) : res inkey :=
  match e_kw e, e_ps e with
  | Some k, None => Ok (KKw k)
  | None, Some p => Ok (KPos p)
  | _, _ => Err "TypeError"
  end.

Definition psrc := list (string * list (inkey * dsid)).

Fixpoint param_source_loop (edges : list edge) (rv : psrc) : res psrc :=
  match edges with
  | [] => Ok rv
  | e :: r =>
      bind (sink_input e) (fun k =>
      let cur := match lookup (e_sink e) rv with Some d => d | None => [] end in
      param_source_loop r (dict_set (e_sink e) (kset k (e_src e) cur) rv))
  end.

Definition param_source (edges : list edge) : res psrc := param_source_loop edges [].

(* rv[task] of the defaultdict *)
Definition psrc_of (rv : psrc) (t : string) : list (inkey * dsid) :=
  match lookup t rv with Some d => d | None => [] end.

End Into.

Arguments PNone {D}. Arguments PStr {D}. Arguments PObj {D}.
Arguments PayTuple {F D}. Arguments PayOther {F D}.
Arguments mkT {F D}. Arguments t_func {F D}. Arguments t_ischema {F D}. Arguments t_oschema {F D}.
Arguments t_skw {F D}. Arguments t_sps {F D}.
Arguments mkJ {F D}. Arguments j_tasks {F D}. Arguments j_edges {F D}.
Arguments positions_from {D}. Arguments inputs_loop {D}. Arguments node2task {F D}.
Arguments g2j_loop {F D}. Arguments graph2job {F D}.
