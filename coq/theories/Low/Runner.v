(* Model of src/cascade/executor/runner/runner.py `run` (as of commits bd210aa: the
   results are pulled with next() per declared output instead of zip, and 62ec2b5: a generator
   is iterated also when a single output is declared), of Memory.handle /
   Memory.provide as far as `run` uses them (src/cascade/executor/runner/memory.py),
   of is_last_output_of (src/cascade/controller/notify.py) and of the parts of
   fluent.Node.__init__ that name outputs and place input placeholders
   (src/earthkit/workflows/fluent.py, worktree commit 7328005: zero-padded output names).
   The object a callable returns carries its kind (generator object / generator-like / other
   iterator / iterable container / __getitem__ sequence / not iterable): run tells a generator
   from everything else, and nothing else.
   The callable is uninterpreted: `call f args kwargs` says what the Python call does.
   No proofs in this file. *)
From Coq Require Import List String Bool Arith.
From EKW Require Import Graph.GStore Graph.Export Util.StrOrd Low.Into.
Import ListNotations.
Open Scope string_scope.
Open Scope list_scope.

Section Runner.
Variable F : Type.
Variable D : Type.
Notation pval := (pval D).
Notation task := (@task F D).

(* what KIND of object the callable returned, as far as Python code can classify it without
   consuming it:
     KGenerator  a generator object (inspect.isgenerator: the result of calling a generator function)
     KGenLike    an instance of collections.abc.Generator that is not a generator object
                 (a class with send / throw / close / __next__ / __iter__)
     KIterator   any other iterator: __iter__ and __next__ (zip, map, enumerate, iter(...),
                 itertools.*, io.StringIO / io.BytesIO / an open file, csv.reader, a class with __next__)
     KIterable   __iter__ but no __next__ (tuple, list, dict, str, set, range, numpy array, a class
                 whose __iter__ is a generator function)
     KSequence   neither: iter() falls back on __getitem__ (old sequence protocol) *)
Inductive ikind := KGenerator | KGenLike | KIterator | KIterable | KSequence.

(* what iterating the returned object does: not iterable (iter(result) raises TypeError), or
   yields ys and then stops (fin = None) or raises (fin = Some exception) *)
Inductive iterab := NotIter | Iter (kd : ikind) (ys : list pval) (fin : option string).

(* inspect.isgenerator(result) *)
Definition is_generator (k : ikind) : bool := match k with KGenerator => true | _ => false end.

(* `streams` = the test by which run decides that the callable streams its outputs one by one
   although a single output is declared.  The code: inspect.isgenerator.  It is a parameter of
   the model so that other tests (every Iterator, every Iterable ...) are expressible and their
   consequences computable (Props/C10.v, C10_other_stream_tests_break_single_values).
   singleValue = outputsN == 1 and not streams(result), negated *)
Definition unpacks_with (streams : ikind -> bool) (n : nat) (it : iterab) : bool :=
  match it with
  | Iter k _ _ => if streams k then true else Nat.ltb 1 n
  | NotIter => Nat.ltb 1 n
  end.
Definition unpacks : nat -> iterab -> bool := unpacks_with is_generator.
(* the call func(args, kwargs): raises, or returns the object v *)
Inductive cres := CRaise (e : string) | CRet (v : pval) (it : iterab).

Variable call : F -> list pval -> list (string * pval) -> cres.

(* cascade.low.func.ensure followed by l[i] = v *)
Definition ensure (l : list pval) (i : nat) : list pval :=
  l ++ repeat PNone (S i - List.length l).
Fixpoint set_nth (l : list pval) (i : nat) (v : pval) : list pval :=
  match l, i with
  | [], _ => []
  | _ :: r, O => v :: r
  | x :: r, S i' => x :: set_nth r i' v
  end.
Definition put (l : list pval) (i : nat) (v : pval) : list pval := set_nth (ensure l i) i v.

(* for idx_str, arg in task.static_input_ps.items(): ensure(args, idx); args[idx] = arg *)
Definition static_args (t : task) : list pval :=
  fold_left (fun a kv => put a (fst kv) (snd kv)) (t_sps t) [].

(* Memory.local *)
Definition memory := list (dsid * pval).
Fixpoint provide (m : memory) (d : dsid) : option pval :=
  match m with
  | [] => None
  | (d', v) :: r => if dsid_eqb d d' then Some v else provide r d
  end.

(* the loop over executionContext.param_source[taskId].items() *)
Fixpoint bind_inputs (src : list (inkey * dsid)) (m : memory) (args : list pval)
         (kwargs : list (string * pval)) : res (list pval * list (string * pval)) :=
  match src with
  | [] => Ok (args, kwargs)
  | (k, d) :: r =>
      match provide m d with
      | None => Err "KeyError"          (* a dict-backed memory; the real one would ask shm *)
      | Some v =>
          match k with
          | KKw s => bind_inputs r m args (dict_set s v kwargs)
          | KPos p => bind_inputs r m (put args p v) kwargs
          end
      end
  end.

(* everything `run` does before the call: the arguments the callable will receive *)
Definition bound_args (t : task) (src : list (inkey * dsid)) (m : memory)
  : res (list pval * list (string * pval)) :=
  bind_inputs src m (static_args t) (t_skw t).

(* one memory.handle call: (DatasetId, value, isPublish) *)
Definition handled := (dsid * pval * bool)%type.

Definition in_publish (d : dsid) (publish : list dsid) : bool := existsb (dsid_eqb d) publish.

(* for outputKey, outputSchema in outputs: next(resultI) ...; then assert_iter_empty(resultI) *)
Fixpoint store_loop (tid : string) (publish : list dsid) (outs : list (string * string))
         (ys : list pval) (fin : option string) (acc : list handled) : list handled * res unit :=
  match outs with
  | [] =>
      match ys, fin with
      | _ :: _, _ => (acc, Err "ValueError")       (* function produced more results than ... *)
      | [], Some e => (acc, Err e)                 (* the generator raises instead of stopping *)
      | [], None => (acc, Ok tt)
      end
  | (k, _) :: r =>
      match ys, fin with
      | [], Some e => (acc, Err e)
      | [], None => (acc, Err "ValueError")        (* schema declared more outputs than ... *)
      | y :: ys', _ => store_loop tid publish r ys' fin (acc ++ [((tid, k), y, in_publish (tid, k) publish)])
      end
  end.

(* run(taskId, executionContext, memory): the handle calls made, and how it ended *)
Definition run_task_with (streams : ikind -> bool) (tid : string) (t : task) (src : list (inkey * dsid))
           (publish : list dsid) (m : memory) : list handled * res unit :=
  match bound_args t src m with
  | Err e => ([], Err e)
  | Ok (args, kwargs) =>
      match sort_by_key (t_oschema t) with
      | [] => ([], Err "ValueError")               (* no output key for task *)
      | (k, s) :: r =>
          match call (t_func t) args kwargs with
          | CRaise e => ([], Err e)
          | CRet v it =>
              if unpacks_with streams (List.length ((k, s) :: r)) it then
                match it with
                | NotIter => ([], Err "TypeError")  (* iter(result) *)
                | Iter _ ys fin => store_loop tid publish ((k, s) :: r) ys fin []
                end
              else ([((tid, k), v, in_publish (tid, k) publish)], Ok tt)
          end
      end
  end.

(* the code as it is: only a generator object is iterated for a single declared output *)
Definition run_task : string -> task -> list (inkey * dsid) -> list dsid -> memory -> list handled * res unit :=
  run_task_with is_generator.

(* self.local[outputId] = outputValue, in the order of the handle calls *)
Fixpoint mset (d : dsid) (v : pval) (m : memory) : memory :=
  match m with
  | [] => [(d, v)]
  | (d', v') :: r => if dsid_eqb d d' then (d, v) :: r else (d', v') :: mset d v r
  end.
Definition memory_after (m : memory) (hs : list handled) : memory :=
  fold_left (fun m h => mset (fst (fst h)) (snd (fst h)) m) hs m.

(* controller/notify.py: sorted(definition.output_schema.keys())[-1] == dataset.output *)
Definition is_last_output_of (d : dsid) (tasks : list (string * task)) : res bool :=
  match lookup (fst d) tasks with
  | None => Err "KeyError"
  | Some t =>
      match rev (sort_keys (map fst (t_oschema t))) with
      | [] => Err "IndexError"
      | l :: _ => Ok (String.eqb l (snd d))
      end
  end.

End Runner.

Arguments NotIter {D}. Arguments unpacks_with {D}. Arguments unpacks {D}. Arguments Iter {D}. Arguments CRaise {D}. Arguments CRet {D}.
Arguments ensure {D}. Arguments set_nth {D}. Arguments put {D}. Arguments static_args {F D}.
Arguments provide {D}. Arguments bind_inputs {D}. Arguments bound_args {F D}.
Arguments store_loop {D}. Arguments run_task_with {F D}. Arguments run_task {F D}. Arguments mset {D}. Arguments memory_after {D}.
Arguments is_last_output_of {F D}.

(* ------------------------------------------------------------------ fluent.Node.__init__ *)
(* str(x) *)
Definition str_dec (x : nat) : string := pad_dec (dec_width x) x.

(* Node.input_name(x) *)
Definition input_name (x : nat) : string := "input" ++ str_dec x.

(* outputs=None if num_outputs == 1 else [str(x).zfill(len(str(num_outputs - 1))) for x in range(num_outputs)] *)
Definition out_names (n : nat) : list string :=
  map (pad_dec (dec_width (n - 1))) (seq 0 n).
Definition fluent_outputs (n : nat) : list string :=
  if Nat.eqb n 1 then [DEFAULT_OUTPUT] else out_names n.

(* for x in range(len(inputs)): if input_name(x) not in payload.args: payload.args.append(input_name(x)) *)
Section FluentArgs.
Variable D : Type.
Definition arg_is (s : string) (a : pval D) : bool :=
  match a with PStr s' => String.eqb s s' | _ => false end.
Fixpoint fluent_args_from (x k : nat) (args : list (pval D)) : list (pval D) :=
  match k with
  | O => args
  | S k' => fluent_args_from (S x) k'
              (if existsb (arg_is (input_name x)) args then args else args ++ [PStr (input_name x)])
  end.
Definition fluent_args (args : list (pval D)) (ninputs : nat) : list (pval D) :=
  fluent_args_from 0 ninputs args.
End FluentArgs.
Arguments fluent_args {D}.
