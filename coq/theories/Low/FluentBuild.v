(* Model of how the fluent layer builds node payloads out of the Payload objects its caller
   holds (src/earthkit/workflows/fluent.py: Payload.__init__, Payload.copy, Payload.to_tuple,
   Node.__init__, Node.copy), WITH the aliasing of Python objects: the attribute `args` of a
   Payload is a reference to a list object, `payload.args.append(...)` in Node.__init__ writes
   to that list object in place, and the payload tuple of a node holds the very list object
   (to_tuple does not copy).  One caller-held Payload object is handed to many Node
   constructions (Action.map over an array of nodes, every batch and the final aggregation of
   a batched reduce, a user re-using a Payload for several actions), so what a node's callable
   finally receives depends on which list objects are shared.
   Heap: list objects only; they are allocated and appended to, never freed.  kwargs dicts are
   never written by the modelled code (node2task copies them) and are modelled as values.
   The copy function is a parameter of the executor so that a reference-sharing copy
   (copy.copy semantics) is expressible; `exec` / `run` instantiate the real one.
   No proofs in this file. *)
From Coq Require Import List String Bool Arith.
From EKW Require Import Graph.GStore Low.Into Low.Runner.
Import ListNotations.
Open Scope string_scope.
Open Scope list_scope.

Section FluentBuild.
Variable F : Type.   (* callables *)
Variable D : Type.   (* opaque Python objects *)
Notation pval := (pval D).

(* the list objects, addressed in allocation order *)
Definition lheap := list (list pval).
Definition lref := nat.

Definition deref (h : lheap) (r : lref) : list pval := nth r h [].
(* a new list object holding l *)
Definition alloc (h : lheap) (l : list pval) : lheap * lref := (h ++ [l], List.length h).
(* the list object r now holds l (in-place update) *)
Fixpoint upd (h : lheap) (r : lref) (l : list pval) : lheap :=
  match h, r with
  | [], _ => []
  | _ :: t, O => l :: t
  | x :: t, S r' => x :: upd t r' l
  end.
(* list.append *)
Definition append (h : lheap) (r : lref) (v : pval) : lheap := upd h r (deref h r ++ [v]).

(* a Payload object: func, args (a reference), kwargs *)
Record pobj := mkP { p_func : F; p_args : lref; p_kwargs : list (string * pval) }.

(* Payload.__init__(func, args, kwargs) for a plain callable: self.args = list(args);
   for a functools.partial: self.args = list(func.args), self.kwargs = func.keywords --
   in both cases a NEW list object with the given contents *)
Definition pnew (h : lheap) (f : F) (args : list pval) (kwargs : list (string * pval)) : lheap * pobj :=
  let '(h', r) := alloc h args in (h', mkP f r kwargs).

(* Payload.copy(): Payload(self.func, self.args, self.kwargs) -- through the constructor *)
Definition pcopy (h : lheap) (p : pobj) : lheap * pobj :=
  pnew h (p_func p) (deref h (p_args p)) (p_kwargs p).

(* what copy.copy(payload) would do: a new Payload object, the same list object *)
Definition pcopy_shallow (h : lheap) (p : pobj) : lheap * pobj := (h, p).

(* for x in range(len(inputs)):
       if self.input_name(x) not in payload.args: payload.args.append(self.input_name(x)) *)
Fixpoint place_from (x k : nat) (h : lheap) (r : lref) : lheap :=
  match k with
  | O => h
  | S k' => place_from (S x) k'
              (if existsb (arg_is D (input_name x)) (deref h r) then h else append h r (PStr (input_name x))) r
  end.

(* what a Node was constructed from (kept in Node._for_copy): a caller-held Payload object, or
   a callable / functools.partial that Node.__init__ wraps into a Payload of its own *)
Inductive nsrc := SPayload (i : nat) | SFunc (f : F) (args : list pval) (kwargs : list (string * pval)).

(* a fluent Node as far as lowering reads it: payload = (func, args list object, kwargs),
   inputs input0 .. input(nin-1), outputs fluent_outputs nout *)
Record nobj := mkNd {
  n_func : F;
  n_args : lref;
  n_kwargs : list (string * pval);
  n_nin : nat;
  n_nout : nat;
  n_src : nsrc }.

Record state := mkSt { s_heap : lheap; s_payloads : list pobj; s_nodes : list nobj }.
Definition init : state := mkSt [] [] [].

(* the program of the caller *)
Inductive op :=
| OPayload (f : F) (args : list pval) (kwargs : list (string * pval))   (* payloads.append(Payload(f, args, kwargs)) *)
| ONode (i : nat) (nin nout : nat)                                      (* nodes.append(Node(payloads[i], inputs, nout)) *)
| ONodeFunc (f : F) (args : list pval) (kwargs : list (string * pval)) (nin nout : nat)
                                                                        (* nodes.append(Node(f, inputs, nout)) *)
| OCopyNode (k : nat).                                                  (* nodes.append(nodes[k].copy()) *)

Section Exec.
Variable cp : lheap -> pobj -> lheap * pobj.     (* payload.copy() *)

(* Node.__init__(payload, inputs, num_outputs) *)
Definition node_ctor (st : state) (src : nsrc) (nin nout : nat) : res state :=
  match (match src with
         | SPayload i => match nth_error (s_payloads st) i with
                         | Some p => Ok (cp (s_heap st) p)          (* payload = payload.copy() *)
                         | None => Err "IndexError"
                         end
         | SFunc f args kwargs => Ok (pnew (s_heap st) f args kwargs)   (* payload = Payload(payload) *)
         end) with
  | Err e => Err e
  | Ok (h, p) =>
      let h' := place_from 0 nin h (p_args p) in
      Ok (mkSt h' (s_payloads st)
               (s_nodes st ++ [mkNd (p_func p) (p_args p) (p_kwargs p) nin nout src]))
  end.

Definition exec_with (st : state) (o : op) : res state :=
  match o with
  | OPayload f args kwargs =>
      let '(h, p) := pnew (s_heap st) f args kwargs in
      Ok (mkSt h (s_payloads st ++ [p]) (s_nodes st))
  | ONode i nin nout => node_ctor st (SPayload i) nin nout
  | ONodeFunc f args kwargs nin nout => node_ctor st (SFunc f args kwargs) nin nout
  | OCopyNode k =>
      match nth_error (s_nodes st) k with
      | Some nd => node_ctor st (n_src nd) (n_nin nd) (n_nout nd)   (* self.__class__( *self._for_copy) *)
      | None => Err "IndexError"
      end
  end.

Fixpoint run_with (ops : list op) (st : state) : res state :=
  match ops with
  | [] => Ok st
  | o :: r => bind (exec_with st o) (run_with r)
  end.
End Exec.

Definition exec := exec_with pcopy.
Definition run := run_with pcopy.

(* the declarations the program makes, in order: (func, args, kwargs) of every Payload(...) *)
Definition decl := (F * list pval * list (string * pval))%type.
Definition decls (ops : list op) : list decl :=
  flat_map (fun o => match o with OPayload f a k => [(f, a, k)] | _ => [] end) ops.
Definition src_decl (ds : list decl) (s : nsrc) : option decl :=
  match s with
  | SPayload i => nth_error ds i
  | SFunc f a k => Some (f, a, k)
  end.

(* what is read off the state at the END of the program (graph2job reads the payload tuples
   when the graph is lowered, after all nodes were built) *)
Definition payload_view (h : lheap) (p : pobj) : decl := (p_func p, deref h (p_args p), p_kwargs p).
Definition node_view (h : lheap) (nd : nobj) : decl * nat * nat :=
  ((n_func nd, deref h (n_args nd), n_kwargs nd), n_nin nd, n_nout nd).

End FluentBuild.

Arguments deref {D}. Arguments alloc {D}. Arguments upd {D}. Arguments append {D}.
Arguments mkP {F D}. Arguments p_func {F D}. Arguments p_args {F D}. Arguments p_kwargs {F D}.
Arguments pnew {F D}. Arguments pcopy {F D}. Arguments pcopy_shallow {F D}. Arguments place_from {D}.
Arguments SPayload {F D}. Arguments SFunc {F D}.
Arguments mkNd {F D}. Arguments n_func {F D}. Arguments n_args {F D}. Arguments n_kwargs {F D}.
Arguments n_nin {F D}. Arguments n_nout {F D}. Arguments n_src {F D}.
Arguments mkSt {F D}. Arguments s_heap {F D}. Arguments s_payloads {F D}. Arguments s_nodes {F D}.
Arguments init {F D}.
Arguments OPayload {F D}. Arguments ONode {F D}. Arguments ONodeFunc {F D}. Arguments OCopyNode {F D}.
Arguments node_ctor {F D}. Arguments exec_with {F D}. Arguments run_with {F D}.
Arguments exec {F D}. Arguments run {F D}.
Arguments decls {F D}. Arguments src_decl {F D}. Arguments payload_view {F D}. Arguments node_view {F D}.
