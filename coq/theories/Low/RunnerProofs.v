(* Proofs about Low/Runner.v: how the values a callable yields are bound to the declared
   outputs (for every number of outputs and every call behaviour), that a count mismatch
   always ends in an error, that the output the controller treats as "last" is the one the
   runner stores last, and that fluent's zero-padded names make key-sorted order the
   coordinate order for every number of outputs. *)
From Coq Require Import List String Ascii Arith Bool Lia Sorting.Permutation Sorting.Sorted.
From EKW Require Import Graph.GStore Graph.Export Util.StrOrd Low.Into Low.Runner Low.RunnerOrdProofs.
Import ListNotations.
Open Scope string_scope.
Open Scope list_scope.

Lemma combine_app' : forall {A B} (a a' : list A) (b b' : list B),
  List.length a = List.length b -> combine (a ++ a') (b ++ b') = combine a b ++ combine a' b'.
Proof.
  intros A B a. induction a as [|x a IH]; intros a' [|y b] b' H; cbn in *; try lia; [reflexivity|].
  f_equal. apply IH. lia.
Qed.

Section RunnerProofs.
Variable F : Type.
Variable D : Type.
Notation pval := (pval D).
Notation task := (@task F D).
Variable call : F -> list pval -> list (string * pval) -> cres D.

(* the handle calls for yields ys against the (sorted) outputs outs *)
Definition stores (tid : string) (publish : list dsid) (outs : list (string * string)) (ys : list pval)
  : list (handled D) :=
  map (fun oy => ((tid, fst (fst oy)), snd oy, in_publish (tid, fst (fst oy)) publish)) (combine outs ys).

Lemma store_loop_spec : forall tid publish outs (ys : list pval) fin acc,
  store_loop tid publish outs ys fin acc =
    (acc ++ stores tid publish outs ys,
     if Nat.eqb (List.length ys) (List.length outs)
     then match fin with None => Ok tt | Some e => Err e end
     else if Nat.ltb (List.length outs) (List.length ys) then Err "ValueError"
     else match fin with None => Err "ValueError" | Some e => Err e end).
Proof.
  intros tid publish outs. induction outs as [|[k s] r IH]; intros ys fin acc.
  - cbn [store_loop]. destruct ys as [|y ys'].
    + cbn. rewrite app_nil_r. destruct fin; reflexivity.
    + cbn. rewrite app_nil_r. reflexivity.
  - cbn [store_loop]. destruct ys as [|y ys'].
    + unfold stores. cbn. rewrite app_nil_r. destruct fin; reflexivity.
    + rewrite IH. unfold stores. cbn [combine map List.length fst snd].
      rewrite <- app_assoc. cbn [app]. f_equal.
Qed.

(* exactly as many results as outputs, the iterator stops: every result is stored, in order *)
Lemma store_loop_exact : forall tid publish outs (ys : list pval),
  List.length ys = List.length outs ->
  store_loop tid publish outs ys None [] = (stores tid publish outs ys, Ok tt).
Proof.
  intros tid publish outs ys H. rewrite store_loop_spec, H, Nat.eqb_refl. reflexivity.
Qed.

(* any other count, or an iterator that raises: an error, whatever was yielded *)
Lemma store_loop_mismatch : forall tid publish outs (ys : list pval) fin,
  List.length ys <> List.length outs \/ fin <> None ->
  exists e, snd (store_loop tid publish outs ys fin []) = Err e.
Proof.
  intros tid publish outs ys fin H. rewrite store_loop_spec. cbn [snd].
  destruct (Nat.eqb (List.length ys) (List.length outs)) eqn:E.
  - apply Nat.eqb_eq in E. destruct H as [H|H]; [contradiction|].
    destruct fin as [e|]; [eexists; reflexivity|contradiction].
  - destruct (Nat.ltb (List.length outs) (List.length ys)); [eexists; reflexivity|].
    destruct fin; eexists; reflexivity.
Qed.

Lemma store_loop_ok_iff : forall tid publish outs (ys : list pval) fin,
  snd (store_loop tid publish outs ys fin []) = Ok tt <->
  (List.length ys = List.length outs /\ fin = None).
Proof.
  intros tid publish outs ys fin. split.
  - intros H. destruct (Nat.eq_dec (List.length ys) (List.length outs)) as [E|E].
    + split; [exact E|]. destruct fin as [e|]; [|reflexivity].
      destruct (store_loop_mismatch tid publish outs ys (Some e)) as [x Hx]; [right; discriminate|].
      rewrite Hx in H. discriminate.
    + destruct (store_loop_mismatch tid publish outs ys fin) as [x Hx]; [left; exact E|].
      rewrite Hx in H. discriminate.
  - intros [E ->]. rewrite store_loop_exact by exact E. reflexivity.
Qed.

(* ------------------------------------------------------------------ run_task *)
(* a task with at least two declared outputs *)
Definition multi (t : task) : Prop := 2 <= List.length (t_oschema t).

(* the results are unpacked: at least two declared outputs, or at least one and the callable
   returned a generator *)
Definition unpacked (t : task) (it : iterab D) : Prop :=
  multi t \/ (t_oschema t <> [] /\ exists ys fin, it = Iter KGenerator ys fin).

Lemma run_task_unpacked : forall tid (t : task) src publish m args kwargs v it,
  bound_args t src m = Ok (args, kwargs) ->
  call (t_func t) args kwargs = CRet v it -> unpacked t it ->
  run_task call tid t src publish m =
    match it with
    | NotIter => ([], Err "TypeError")
    | Iter _ ys fin => store_loop tid publish (sort_by_key (t_oschema t)) ys fin []
    end.
Proof.
  intros tid t src publish m args kwargs v it Hb Hc Hu. unfold run_task, run_task_with. rewrite Hb.
  pose proof (sort_length (t_oschema t)) as Hlen.
  destruct (sort_by_key (t_oschema t)) as [|[k1 s1] r] eqn:Hs.
  - exfalso. destruct Hu as [Hm|[Hne _]]; [unfold multi in Hm; cbn in Hlen; lia|].
    destruct (t_oschema t); [contradiction|discriminate].
  - rewrite Hc.
    assert (Hun : unpacks_with is_generator (List.length ((k1, s1) :: r)) it = true).
    { destruct Hu as [Hm|[_ (ys & fin & ->)]]; [|reflexivity].
      unfold multi in Hm. rewrite <- Hlen in Hm. unfold unpacks_with.
      destruct it as [|[] ys fin]; try reflexivity; apply Nat.ltb_lt; exact Hm. }
    rewrite Hun. reflexivity.
Qed.

(* yield i is bound to the i-th output in key-sorted order -- for any number of outputs *)
Lemma run_task_binds_yields : forall tid (t : task) src publish m args kwargs v gn ys,
  bound_args t src m = Ok (args, kwargs) ->
  call (t_func t) args kwargs = CRet v (Iter gn ys None) -> unpacked t (Iter gn ys None) ->
  List.length ys = List.length (t_oschema t) ->
  run_task call tid t src publish m = (stores tid publish (sort_by_key (t_oschema t)) ys, Ok tt).
Proof.
  intros tid t src publish m args kwargs v gn ys Hb Hc Hu Hl.
  rewrite (run_task_unpacked _ _ _ _ _ _ _ _ _ Hb Hc Hu).
  apply store_loop_exact. rewrite sort_length. exact Hl.
Qed.

(* a count mismatch (or an iterator that raises) is a task failure *)
Lemma run_task_count_mismatch_fails : forall tid (t : task) src publish m args kwargs v gn ys fin,
  bound_args t src m = Ok (args, kwargs) ->
  call (t_func t) args kwargs = CRet v (Iter gn ys fin) -> unpacked t (Iter gn ys fin) ->
  List.length ys <> List.length (t_oschema t) \/ fin <> None ->
  exists e, snd (run_task call tid t src publish m) = Err e.
Proof.
  intros tid t src publish m args kwargs v gn ys fin Hb Hc Hu Hl.
  rewrite (run_task_unpacked _ _ _ _ _ _ _ _ _ Hb Hc Hu).
  apply store_loop_mismatch. rewrite sort_length. exact Hl.
Qed.

(* with at least two outputs, run returns normally exactly when the counts agree *)
Lemma run_task_multi_ok_iff : forall tid (t : task) src publish m args kwargs,
  multi t -> bound_args t src m = Ok (args, kwargs) ->
  (snd (run_task call tid t src publish m) = Ok tt <->
   exists v gn ys, call (t_func t) args kwargs = CRet v (Iter gn ys None) /\
                   List.length ys = List.length (t_oschema t)).
Proof.
  intros tid t src publish m args kwargs Hm Hb.
  destruct (call (t_func t) args kwargs) as [e|v it] eqn:Hc.
  - unfold run_task, run_task_with. rewrite Hb.
    destruct (sort_by_key (t_oschema t)) as [|[k s] r]; rewrite ?Hc; cbn [snd];
      (split; [discriminate|intros (v & gn & ys & H & _); discriminate]).
  - rewrite (run_task_unpacked _ _ _ _ _ _ _ _ _ Hb Hc (or_introl Hm)).
    destruct it as [|gn ys fin]; cbn [snd].
    + split; [discriminate|intros (v' & gn & ys & H & _); discriminate].
    + rewrite store_loop_ok_iff, sort_length. split.
      * intros [Hl ->]. exists v, gn, ys. split; [reflexivity|exact Hl].
      * intros (v' & gn' & ys' & H & Hl). injection H as _ _ <- <-. split; [exact Hl|reflexivity].
Qed.

(* a single declared output and anything but a generator: the returned object itself is
   stored, iterable or not *)
Lemma run_task_single : forall tid (t : task) src publish m args kwargs k s v it,
  t_oschema t = [(k, s)] -> bound_args t src m = Ok (args, kwargs) ->
  call (t_func t) args kwargs = CRet v it ->
  (forall ys fin, it <> Iter KGenerator ys fin) ->
  run_task call tid t src publish m = ([((tid, k), v, in_publish (tid, k) publish)], Ok tt).
Proof.
  intros tid t src publish m args kwargs k s v it Ho Hb Hc Hng.
  unfold run_task, run_task_with. rewrite Hb, Ho. cbn [sort_by_key fold_right insert_by_key]. rewrite Hc.
  destruct it as [|[] ys fin]; try reflexivity. exfalso. eapply Hng. reflexivity.
Qed.

(* ------------------------------------------------------------------ the value stored under an output *)
Lemma nth_error_stores : forall tid publish outs ys i k s y,
  nth_error outs i = Some (k, s) -> nth_error ys i = Some y ->
  nth_error (stores tid publish outs ys) i = Some ((tid, k), y, in_publish (tid, k) publish).
Proof.
  intros tid publish outs. unfold stores.
  induction outs as [|o r IH]; intros ys i k s y Ho Hy; destruct i; cbn in *; try discriminate;
    destruct ys as [|y0 ys']; cbn in *; try discriminate.
  - injection Ho as ->. injection Hy as ->. reflexivity.
  - eapply IH; eassumption.
Qed.

(* ------------------------------------------------------------------ last output *)
Lemma stores_keys : forall tid publish outs ys,
  List.length ys = List.length outs ->
  map (fun h : handled D => snd (fst (fst h))) (stores tid publish outs ys) = map fst outs.
Proof.
  intros tid publish outs. unfold stores. induction outs as [|o r IH]; intros [|y ys] H; cbn in *; try lia; [reflexivity|].
  f_equal. apply IH. lia.
Qed.

Lemma stores_tid : forall tid publish outs ys h,
  In h (stores tid publish outs ys) -> fst (fst (fst h)) = tid.
Proof.
  intros tid publish outs ys h H. unfold stores in H. apply in_map_iff in H as (x & <- & _). reflexivity.
Qed.

(* is_last_output_of on a task of the job, in terms of the sorted keys *)
Lemma is_last_spec : forall tid k (tasks : list (string * task)) t l,
  lookup tid tasks = Some t ->
  map fst (sort_by_key (t_oschema t)) = l ->
  l <> [] ->
  is_last_output_of (tid, k) tasks = Ok (String.eqb (last l "") k).
Proof.
  intros tid k tasks t l Ht Hl Hne. unfold is_last_output_of. cbn [fst snd]. rewrite Ht.
  rewrite <- sort_keys_items, Hl.
  destruct l as [|a r] using rev_ind; [contradiction|].
  rewrite rev_app_distr. cbn. rewrite last_last. reflexivity.
Qed.

(* In a run that returns normally the handle calls are made in key-sorted order, so the
   output for which is_last_output_of answers True is handled last, all others before it *)
Lemma last_handled_is_last_output : forall tid (t : task) (tasks : list (string * task)) src publish m hs,
  lookup tid tasks = Some t ->
  NoDup (map fst (t_oschema t)) ->
  run_task call tid t src publish m = (hs, Ok tt) ->
  exists hs' h, hs = hs' ++ [h] /\
    is_last_output_of (fst (fst h)) tasks = Ok true /\
    forall h', In h' hs' -> is_last_output_of (fst (fst h')) tasks = Ok false.
Proof.
  intros tid t tasks src publish m hs Ht Hnd Hrun.
  assert (Hnd' : NoDup (map fst (sort_by_key (t_oschema t)))).
  { eapply Permutation_NoDup; [|exact Hnd]. apply Permutation_map, Permutation_sym, sort_perm. }
  unfold run_task, run_task_with in Hrun.
  destruct (bound_args t src m) as [[args kwargs]|e] eqn:Hb; [|discriminate].
  destruct (sort_by_key (t_oschema t)) as [|[k1 s1] r] eqn:Hs; [discriminate|].
  assert (Hkeys : exists ys, List.length ys = List.length ((k1, s1) :: r) /\ hs = stores tid publish ((k1, s1) :: r) ys).
  { destruct (call (t_func t) args kwargs) as [e|v it]; [discriminate|].
    destruct (unpacks_with is_generator (List.length ((k1, s1) :: r)) it) eqn:Hun.
    - destruct it as [|gn ys fin]; [discriminate|].
      pose proof (store_loop_ok_iff tid publish ((k1, s1) :: r) ys fin) as Hiff.
      rewrite Hrun in Hiff. cbn [snd] in Hiff. destruct Hiff as [Hiff _]. destruct (Hiff eq_refl) as [Hl ->].
      rewrite store_loop_exact in Hrun by exact Hl. injection Hrun as <-. exists ys. split; [exact Hl|reflexivity].
    - assert (Hr : r = []).
      { destruct r as [|x r']; [reflexivity|]. exfalso. unfold unpacks_with in Hun. cbn [List.length] in Hun.
        destruct it as [|[] ys fin]; discriminate. }
      subst r. injection Hrun as <-. exists [v]. split; reflexivity. }
  destruct Hkeys as (ys & Hl & ->).
  set (outs := (k1, s1) :: r) in *.
  assert (Hne : map fst outs <> []) by (unfold outs; cbn; discriminate).
  (* split off the last output *)
  assert (Hsplit : exists o' ko so, outs = o' ++ [(ko, so)]).
  { destruct (exists_last (l := outs)) as (o' & [ko so] & E); [unfold outs; discriminate|]. eauto. }
  destruct Hsplit as (o' & ko & so & Eo).
  assert (Hys : exists ys' y, ys = ys' ++ [y]).
  { destruct (exists_last (l := ys)) as (ys' & y & E); [|eauto].
    intros ->. rewrite Eo, app_length in Hl. cbn in Hl. lia. }
  destruct Hys as (ys' & y & ->).
  assert (Hl' : List.length ys' = List.length o').
  { rewrite Eo, !app_length in Hl. cbn in Hl. lia. }
  exists (stores tid publish o' ys'), ((tid, ko), y, in_publish (tid, ko) publish).
  assert (Hlast : last (map fst outs) "" = ko).
  { rewrite Eo, map_app. cbn. apply last_last. }
  split; [|split].
  - rewrite Eo. unfold stores. rewrite combine_app' by (symmetry; exact Hl').
    rewrite map_app. reflexivity.
  - cbn [fst]. erewrite is_last_spec; [|exact Ht|exact (f_equal (map fst) Hs)|exact Hne].
    rewrite Hlast, String.eqb_refl. reflexivity.
  - intros h' Hin. pose proof (stores_tid _ _ _ _ _ Hin) as Htid.
    destruct h' as [[[t' k'] v'] p']. cbn in Htid. subst t'. cbn [fst].
    erewrite is_last_spec; [|exact Ht|exact (f_equal (map fst) Hs)|exact Hne].
    rewrite Hlast. destruct (String.eqb ko k') eqn:E; [|reflexivity].
    apply String.eqb_eq in E. subst k'. exfalso.
    assert (Hk : In ko (map fst o')).
    { rewrite <- (stores_keys tid publish o' ys' Hl'). apply in_map_iff.
      exists ((tid, ko), v', p'). split; [reflexivity|exact Hin]. }
    rewrite Eo, map_app in Hnd'. cbn in Hnd'.
    apply NoDup_remove_2 in Hnd'. rewrite app_nil_r in Hnd'. contradiction.
Qed.

End RunnerProofs.

(* ------------------------------------------------------------------ fluent output names *)
(* distinct keys: the schema dict is the list itself *)
Lemma dict_set_fresh : forall {A} k (v : A) l, ~ In k (map fst l) -> dict_set k v l = l ++ [(k, v)].
Proof.
  intros A k v l. induction l as [|[k' v'] r IH]; intros H; cbn; [reflexivity|].
  destruct (String.eqb k k') eqn:E.
  - apply String.eqb_eq in E. subst. exfalso. apply H. left. reflexivity.
  - rewrite IH; [reflexivity|]. intros Hin. apply H. right. exact Hin.
Qed.

Lemma schema_of_nodup_acc : forall outs acc,
  NoDup (map fst acc ++ outs) ->
  fold_left (fun d o => dict_set o "Any" d) outs acc = acc ++ map (fun o => (o, "Any")) outs.
Proof.
  induction outs as [|o r IH]; intros acc H; cbn; [rewrite app_nil_r; reflexivity|].
  rewrite dict_set_fresh.
  - rewrite IH; [rewrite <- app_assoc; reflexivity|].
    rewrite map_app. cbn. rewrite <- app_assoc. cbn.
    eapply Permutation_NoDup; [|exact H]. apply Permutation_app_head. reflexivity.
  - apply NoDup_remove_2 in H. intros Hin. apply H. apply in_or_app. left. exact Hin.
Qed.

Lemma schema_of_nodup : forall outs, NoDup outs -> schema_of outs = map (fun o => (o, "Any")) outs.
Proof. intros outs H. unfold schema_of. rewrite schema_of_nodup_acc; [reflexivity|exact H]. Qed.

Lemma sorted_lt_nodup : forall l : list string,
  Sorted (fun x y => sltb x y = true) l -> NoDup l.
Proof.
  intros l H. apply Sorted_StronglySorted in H.
  - induction H as [|x l Hs IH Hall]; constructor; [|exact IH].
    intros Hin. rewrite Forall_forall in Hall. specialize (Hall _ Hin). rewrite sltb_irrefl in Hall. discriminate.
  - intros a b c. apply sltb_trans.
Qed.

Lemma out_names_increasing : forall {A} (s : A) n,
  Sorted (fun x y : string * A => sltb (fst x) (fst y) = true) (map (fun k => (k, s)) (out_names n)).
Proof.
  intros A s n. unfold out_names. apply pad_seq_sorted. cbn.
  pose proof (dec_width_ok (n - 1)). lia.
Qed.

Lemma out_names_nodup : forall n, NoDup (out_names n).
Proof.
  intros n. apply sorted_lt_nodup.
  pose proof (out_names_increasing tt n) as H.
  remember (out_names n) as l. clear Heql. induction l as [|a l IH]; cbn in *; [constructor|].
  inversion H as [|? ? Hs Hh]; subst. constructor; [apply IH; exact Hs|].
  destruct l; cbn in *; constructor. inversion Hh; assumption.
Qed.

Lemma out_names_length : forall n, List.length (out_names n) = n.
Proof. intros n. unfold out_names. rewrite map_length, seq_length. reflexivity. Qed.

(* the output schema of a fluent node with n outputs, sorted by key, is the list of names
   in coordinate order -- for every n *)
Lemma fluent_sorted_schema : forall n,
  sort_by_key (schema_of (out_names n)) = map (fun o => (o, "Any")) (out_names n).
Proof.
  intros n. rewrite schema_of_nodup by apply out_names_nodup.
  apply sort_increasing, out_names_increasing.
Qed.

Lemma nth_out_names : forall n i, i < n -> nth_error (out_names n) i = Some (pad_dec (dec_width (n - 1)) i).
Proof.
  intros n i H. unfold out_names. rewrite nth_error_map.
  rewrite (nth_error_nth' (seq 0 n) 0) by (rewrite seq_length; exact H).
  rewrite seq_nth by exact H. reflexivity.
Qed.
