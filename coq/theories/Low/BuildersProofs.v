(* Proofs about the model of cascade/low/builders.py (Low/Builders.v): for ALL signatures,
   values, node / edge lists and all interpretations of eval / isinstance / issubclass. *)
From Coq Require Import List String Bool Arith ZArith Lia DecimalString DecimalNat Decimal.
From EKW Require Import Low.Builders.
Import ListNotations.
Open Scope string_scope.
Open Scope list_scope.

(* ------------------------------------------------------------------ dictionaries *)
Lemma lookup_dset_eq {V} k (v : V) d : lookup k (dset k v d) = Some v.
Proof.
  induction d as [|[k' v'] r IH]; cbn.
  - now rewrite String.eqb_refl.
  - destruct (String.eqb_spec k' k) as [->|Hne]; cbn.
    + now rewrite String.eqb_refl.
    + destruct (String.eqb_spec k' k); [contradiction|exact IH].
Qed.

Lemma lookup_dset_neq {V} k k' (v : V) d : k <> k' -> lookup k' (dset k v d) = lookup k' d.
Proof.
  intros Hne. induction d as [|[k0 v0] r IH]; cbn.
  - destruct (String.eqb_spec k k'); [contradiction|reflexivity].
  - destruct (String.eqb_spec k0 k) as [->|Hk]; cbn.
    + destruct (String.eqb_spec k k'); [contradiction|reflexivity].
    + destruct (String.eqb_spec k0 k'); [reflexivity|exact IH].
Qed.

Lemma lookup_app {V} k (a b : list (string * V)) :
  lookup k (a ++ b) = match lookup k a with Some v => Some v | None => lookup k b end.
Proof.
  induction a as [|[k0 v0] r IH]; cbn; [reflexivity|].
  destruct (String.eqb k0 k); [reflexivity|exact IH].
Qed.

Lemma lookup_In {V} k (v : V) d : lookup k d = Some v -> In (k, v) d.
Proof.
  induction d as [|[k0 v0] r IH]; cbn; [discriminate|].
  destruct (String.eqb_spec k0 k) as [->|Hne]; intros H.
  - injection H as ->. now left.
  - right. now apply IH.
Qed.

Lemma lookup_None {V} k (d : list (string * V)) : lookup k d = None <-> ~ In k (map fst d).
Proof.
  induction d as [|[k0 v0] r IH]; cbn; [tauto|].
  destruct (String.eqb_spec k0 k) as [->|Hne].
  - split; [discriminate|]. intros H. exfalso. apply H. now left.
  - rewrite IH. split; intros H; [intros [E|I]; [contradiction|now apply H] | intros I; apply H; now right].
Qed.

Lemma In_lookup {V} k (v : V) d : NoDup (map fst d) -> In (k, v) d -> lookup k d = Some v.
Proof.
  induction d as [|[k0 v0] r IH]; cbn; [tauto|].
  intros Hnd [E|I].
  - injection E as -> ->. now rewrite String.eqb_refl.
  - inversion Hnd as [|? ? Hnotin Hnd']; subst.
    destruct (String.eqb_spec k0 k) as [->|Hne].
    + exfalso. apply Hnotin. change k with (fst (k, v)). now apply in_map.
    + now apply IH.
Qed.

(* {**a, **b}: the last binding of k in b wins, otherwise a's *)
Lemma lookup_dmerge {V} k (b a : list (string * V)) :
  lookup k (dmerge a b) = match lookup k (List.rev b) with Some v => Some v | None => lookup k a end.
Proof.
  unfold dmerge. revert a. induction b as [|[k1 v1] r IH]; intros a; cbn [fold_left List.rev fst snd]; [reflexivity|].
  rewrite IH, lookup_app. destruct (lookup k (List.rev r)); [reflexivity|]. cbn.
  destruct (String.eqb_spec k1 k) as [->|Hne].
  - apply lookup_dset_eq.
  - now apply lookup_dset_neq.
Qed.

Lemma lookup_dmerge_in {V} k (v : V) a b :
  NoDup (map fst b) -> In (k, v) b -> lookup k (dmerge a b) = Some v.
Proof.
  intros Hnd Hin. rewrite lookup_dmerge.
  rewrite (In_lookup k v (List.rev b)); [reflexivity| |now apply -> in_rev].
  rewrite map_rev. now apply NoDup_rev.
Qed.

Lemma lookup_dmerge_notin {V} k (a b : list (string * V)) :
  ~ In k (map fst b) -> lookup k (dmerge a b) = lookup k a.
Proof.
  intros Hn. rewrite lookup_dmerge.
  replace (lookup k (List.rev b)) with (@None V); [reflexivity|].
  symmetry. apply lookup_None. rewrite map_rev, <- in_rev. exact Hn.
Qed.

Lemma dset_keys_NoDup {V} k (v : V) d : NoDup (map fst d) -> NoDup (map fst (dset k v d)).
Proof.
  induction d as [|[k0 v0] r IH]; cbn; intros Hnd.
  - constructor; [tauto|constructor].
  - inversion Hnd as [|? ? Hnotin Hnd']; subst.
    destruct (String.eqb_spec k0 k) as [->|Hne]; cbn.
    + now constructor.
    + constructor; [|now apply IH].
      intros Hin. apply Hnotin. apply lookup_None in Hnotin.
      destruct (lookup k0 (dset k v r)) eqn:El.
      * rewrite lookup_dset_neq in El by congruence. congruence.
      * apply lookup_None in El. contradiction.
Qed.

Lemma dmerge_keys_NoDup {V} (a b : list (string * V)) : NoDup (map fst a) -> NoDup (map fst (dmerge a b)).
Proof.
  unfold dmerge. revert a. induction b as [|[k v] r IH]; intros a Ha; cbn; [exact Ha|].
  apply IH. now apply dset_keys_NoDup.
Qed.

(* ------------------------------------------------------------------ str(position) *)
Lemma to_uint_not_nil n : Nat.to_uint n <> Nil.
Proof.
  intros H. pose proof (Unsigned.of_to n) as E. rewrite H in E. cbn in E. subst n. discriminate.
Qed.

Lemma str_of_nat_inj n m : str_of_nat n = str_of_nat m -> n = m.
Proof.
  unfold str_of_nat. intros H.
  apply (f_equal NilZero.uint_of_string) in H.
  rewrite !NilZero.usu in H by apply to_uint_not_nil.
  injection H as H. now apply Unsigned.to_uint_inj.
Qed.

Lemma enumerate_from_cons {A} st (a : A) r :
  enumerate_from st (a :: r) = (str_of_nat st, a) :: enumerate_from (S st) r.
Proof. reflexivity. Qed.

Lemma enumerate_from_In {A} (args : list A) st s v :
  In (s, v) (enumerate_from st args) <-> exists i, s = str_of_nat (st + i) /\ nth_error args i = Some v.
Proof.
  revert st. induction args as [|a r IH]; intros st.
  - cbn. split; [tauto|]. intros [i [_ H]]. destruct i; discriminate.
  - rewrite enumerate_from_cons. cbn [In]. rewrite IH. split.
    + intros [E|[i [Hs Hn]]].
      * injection E as <- <-. exists 0. now rewrite Nat.add_0_r.
      * exists (S i). split; [now rewrite Nat.add_succ_r|exact Hn].
    + intros [[|i] [Hs Hn]].
      * left. cbn in Hn. injection Hn as ->. now rewrite Nat.add_0_r in Hs; subst.
      * right. exists i. split; [now rewrite Nat.add_succ_r in Hs|exact Hn].
Qed.

Lemma enumerate_from_keys {A} (args : list A) st :
  map fst (enumerate_from st args) = map str_of_nat (seq st (List.length args)).
Proof.
  revert st. induction args as [|a r IH]; intros st; [reflexivity|].
  rewrite enumerate_from_cons. cbn. now rewrite IH.
Qed.

Lemma enumerate_from_NoDup {A} (args : list A) st : NoDup (map fst (enumerate_from st args)).
Proof.
  rewrite enumerate_from_keys. generalize (List.length args) as n. intros n. revert st.
  induction n as [|n IH]; intros st; cbn; constructor; [|apply IH].
  rewrite in_map_iff. intros [m [E Hin]]. apply str_of_nat_inj in E. subst m.
  apply in_seq in Hin. lia.
Qed.

Lemma lookup_dict_of {V} k (l : list (string * V)) :
  NoDup (map fst l) -> lookup k (dict_of l) = lookup k l.
Proof.
  intros Hnd. unfold dict_of. destruct (lookup k l) as [v|] eqn:El.
  - apply lookup_dmerge_in; [exact Hnd|now apply lookup_In].
  - rewrite lookup_dmerge_notin; [reflexivity|now apply lookup_None].
Qed.

(* ------------------------------------------------------------------ with_values *)
Section WithValues.
  Variables (t : task) (args : list value) (kwargs : list (string * value)).
  Let t' := with_values t args kwargs.

  Lemma with_values_definition : tdf t' = tdf t.
  Proof. reflexivity. Qed.

  Lemma with_values_position : forall i v, nth_error args i = Some v -> lookup (str_of_nat i) (sps t') = Some v.
  Proof.
    intros i v Hn. unfold t', with_values. cbn [sps].
    apply lookup_dmerge_in.
    - apply dmerge_keys_NoDup. constructor.
    - apply lookup_In. rewrite lookup_dict_of by apply enumerate_from_NoDup.
      apply In_lookup; [apply enumerate_from_NoDup|]. apply enumerate_from_In. now exists i.
  Qed.

  Lemma with_values_other_positions : forall s,
    (forall i, i < List.length args -> s <> str_of_nat i) -> lookup s (sps t') = lookup s (sps t).
  Proof.
    intros s Hs. unfold t', with_values. cbn [sps].
    apply lookup_dmerge_notin. intros Hin.
    apply lookup_None in Hin; [exact Hin|]. clear Hin.
    rewrite lookup_dict_of by apply enumerate_from_NoDup.
    apply lookup_None. rewrite enumerate_from_keys, in_map_iff. intros [i [E Hi]].
    apply in_seq in Hi. apply (Hs i); [lia|now symmetry].
  Qed.

  Lemma with_values_keyword : NoDup (map fst kwargs) ->
    forall k v, In (k, v) kwargs -> lookup k (skw t') = Some v.
  Proof. intros Hnd k v Hin. unfold t', with_values. cbn [skw]. now apply lookup_dmerge_in. Qed.

  Lemma with_values_other_keywords : forall k, ~ In k (map fst kwargs) -> lookup k (skw t') = lookup k (skw t).
  Proof. intros k Hn. unfold t', with_values. cbn [skw]. now apply lookup_dmerge_notin. Qed.

  Lemma with_values_dicts : NoDup (map fst (skw t)) -> NoDup (map fst (sps t)) ->
    NoDup (map fst (skw t')) /\ NoDup (map fst (sps t')).
  Proof. intros H1 H2. split; now apply dmerge_keys_NoDup. Qed.
End WithValues.

(* the whole statement in one piece *)
Theorem with_values_spec : forall t args kwargs,
  NoDup (map fst kwargs) ->
  let t' := with_values t args kwargs in
  tdf t' = tdf t /\
  (forall i v, nth_error args i = Some v -> lookup (str_of_nat i) (sps t') = Some v) /\
  (forall s, (forall i, i < List.length args -> s <> str_of_nat i) -> lookup s (sps t') = lookup s (sps t)) /\
  (forall k v, In (k, v) kwargs -> lookup k (skw t') = Some v) /\
  (forall k, ~ In k (map fst kwargs) -> lookup k (skw t') = lookup k (skw t)).
Proof.
  intros t args kwargs Hnd t'. repeat split.
  - apply with_values_position.
  - apply with_values_other_positions.
  - now apply with_values_keyword.
  - apply with_values_other_keywords.
Qed.

(* ------------------------------------------------------------------ from_callable *)
Lemma schema_pairs_spec ps : forall sp, schema_pairs ps = Ok sp ->
  forall n ty, In (n, ty) sp <-> exists p, In p ps /\ kwable (pkd p) = true /\ pname p = n /\ type2str (pann p) = Ok ty.
Proof.
  induction ps as [|p r IH]; cbn; intros sp H n ty.
  - injection H as <-. cbn. split; [tauto|]. intros [p [[] _]].
  - destruct (kwable (pkd p)) eqn:Ek.
    + destruct (type2str (pann p)) as [t|] eqn:Et; cbn in H; [|discriminate].
      destruct (schema_pairs r) as [s|] eqn:Es; cbn in H; [|discriminate].
      injection H as <-. cbn [In]. rewrite (IH s eq_refl). split.
      * intros [E|[q [Hq Hr]]]; [injection E as <- <-; exists p; auto|exists q; auto].
      * intros [q [[->|Hq] [Hk [Hn Ht]]]]; [left; congruence|right; exists q; auto].
    + rewrite (IH sp H). split.
      * intros [q [Hq Hr]]. exists q; auto.
      * intros [q [[->|Hq] [Hk Hr]]]; [congruence|exists q; auto].
Qed.

Lemma schema_pairs_keys ps : forall sp, schema_pairs ps = Ok sp ->
  map fst sp = map pname (filter (fun p => kwable (pkd p)) ps).
Proof.
  induction ps as [|p r IH]; cbn; intros sp H.
  - now injection H as <-.
  - destruct (kwable (pkd p)) eqn:Ek.
    + destruct (type2str (pann p)) as [t|]; cbn in H; [|discriminate].
      destruct (schema_pairs r) as [s|]; cbn in H; [|discriminate].
      injection H as <-. cbn. now rewrite (IH s eq_refl).
    + now apply IH.
Qed.

Lemma NoDup_filter_map {A B} (f : A -> B) (p : A -> bool) l : NoDup (map f l) -> NoDup (map f (filter p l)).
Proof.
  induction l as [|a r IH]; cbn; intros H; [constructor|].
  inversion H as [|? ? Hn Hr]; subst. destruct (p a); cbn; [constructor|]; auto.
  rewrite in_map_iff in *. intros [x [E Hx]]. apply Hn. exists x. split; [exact E|].
  now apply filter_In in Hx as [Hx _].
Qed.

(* the input schema holds exactly the parameters that can be passed by keyword, under
   their own names and declared types; nothing else is a parameter *)
Theorem from_callable_schema : forall ps ret t,
  NoDup (map pname ps) -> from_callable ps ret = Ok t ->
  (forall n ty, lookup n (ischema (tdf t)) = Some ty <->
     exists p, In p ps /\ kwable (pkd p) = true /\ pname p = n /\ type2str (pann p) = Ok ty) /\
  (exists rt, type2str ret = Ok rt /\ oschema (tdf t) = [(DEFAULT_OUTPUT, rt)]) /\
  sps t = [].
Proof.
  intros ps ret t Hnd H. unfold from_callable in H.
  destruct (schema_pairs ps) as [sp|] eqn:Es; cbn in H; [|discriminate].
  destruct (type2str ret) as [rt|] eqn:Er; cbn in H; [|discriminate].
  injection H as <-. cbn. split; [|split; [exists rt; auto|reflexivity]].
  intros n ty.
  assert (Hk : NoDup (map fst sp)).
  { rewrite (schema_pairs_keys _ _ Es). now apply NoDup_filter_map. }
  rewrite lookup_dict_of by exact Hk. rewrite <- (schema_pairs_spec _ _ Es). split.
  - apply lookup_In.
  - now apply In_lookup.
Qed.

(* ------------------------------------------------------------------ builder operations *)
Lemma with_node_lookup_same b n t : lookup n (nodes (with_node b n t)) = Some t.
Proof. apply lookup_dset_eq. Qed.

Lemma with_node_lookup_other b n t m : n <> m -> lookup m (nodes (with_node b n t)) = lookup m (nodes b).
Proof. intros H. now apply lookup_dset_neq. Qed.

Lemma with_node_edges b n t : edges (with_node b n t) = edges b.
Proof. reflexivity. Qed.

Lemma with_edge_nodes b s k i f : nodes (with_edge b s k i f) = nodes b.
Proof. reflexivity. Qed.

Lemma with_edge_edges b s k i f : edges (with_edge b s k i f) = edges b ++ [E s f k i].
Proof. reflexivity. Qed.

Definition sets_name (n : string) (o : op) : bool :=
  match o with OpNode m _ => String.eqb m n | OpEdge _ _ _ _ => false end.

(* a task put under a name stays there, untouched, until the name is set again *)
Lemma node_kept : forall ops b n t,
  lookup n (nodes b) = Some t -> forallb (fun o => negb (sets_name n o)) ops = true ->
  lookup n (nodes (fold_left apply_op ops b)) = Some t.
Proof.
  induction ops as [|o r IH]; intros b n t Hl Hf; cbn; [exact Hl|].
  cbn in Hf. apply andb_prop in Hf as [Ho Hr]. apply IH; [|exact Hr].
  destruct o as [m t0|s k i f]; cbn; [|exact Hl].
  cbn in Ho. destruct (String.eqb_spec m n) as [->|Hne]; [discriminate|].
  now rewrite lookup_dset_neq.
Qed.

Lemma edge_kept : forall ops b e, In e (edges b) -> In e (edges (fold_left apply_op ops b)).
Proof.
  induction ops as [|o r IH]; intros b e Hin; cbn; [exact Hin|].
  apply IH. destruct o; cbn; [exact Hin|]. apply in_or_app. now left.
Qed.

(* ------------------------------------------------------------------ concatM, flat_map *)
Lemma concatM_nil_iff {A B} (f : A -> res (list B)) l :
  concatM f l = Ok [] <-> forall a, In a l -> f a = Ok [].
Proof.
  induction l as [|a r IH]; cbn.
  - split; [intros _ ? []|reflexivity].
  - split.
    + intros H. destruct (f a) as [x|] eqn:Ef; cbn in H; [|discriminate].
      destruct (concatM f r) as [y|] eqn:Er; cbn in H; [|discriminate].
      injection H as H. apply app_eq_nil in H as [-> ->].
      intros a' [<-|Hin]; [exact Ef|]. now apply IH.
    + intros H. rewrite (H a (or_introl eq_refl)). cbn.
      replace (concatM f r) with (@Ok (list B) []); [reflexivity|].
      symmetry. apply IH. intros a' Hin. apply H. now right.
Qed.

Lemma concatM_total {A B} (f : A -> res (list B)) l :
  (forall a, In a l -> exists x, f a = Ok x) -> exists r, concatM f l = Ok r.
Proof.
  induction l as [|a r IH]; cbn; intros H; [now exists []|].
  destruct (H a (or_introl eq_refl)) as [x ->]. cbn.
  destruct IH as [y ->]; [intros a' Hin; apply H; now right|]. cbn. now exists (x ++ y).
Qed.

Lemma flat_map_nil_iff {A B} (f : A -> list B) l : flat_map f l = [] <-> forall a, In a l -> f a = [].
Proof.
  induction l as [|a r IH]; cbn.
  - split; [intros _ ? []|reflexivity].
  - split.
    + intros H. apply app_eq_nil in H as [Ha Hr]. intros a' [<-|Hin]; [exact Ha|]. now apply IH.
    + intros H. rewrite (H a (or_introl eq_refl)). cbn. apply IH. intros a' Hin. apply H. now right.
Qed.

Lemma pair_mem_In a b l : pair_mem a b l = true <-> In (a, b) l.
Proof.
  unfold pair_mem. rewrite existsb_exists. split.
  - intros [[x y] [Hin H]]. cbn in H. apply andb_prop in H as [H1 H2].
    apply String.eqb_eq in H1, H2. now subst.
  - intros Hin. exists (a, b). cbn. now rewrite !String.eqb_refl.
Qed.

Lemma mem_In s l : mem s l = true <-> In s l.
Proof.
  unfold mem. rewrite existsb_exists. split.
  - intros [x [Hin H]]. apply String.eqb_eq in H. now subst.
  - intros Hin. exists s. now rewrite String.eqb_refl.
Qed.

Lemma truthy_Some o s : truthy o = Some s <-> o = Some s /\ s <> "".
Proof.
  unfold truthy. destruct o as [x|]; [|split; [discriminate|intros [H _]; discriminate]].
  destruct (String.eqb_spec x "") as [->|Hne]; split.
  - discriminate.
  - intros [H Hn]. injection H as <-. contradiction.
  - intros H. injection H as <-. auto.
  - intros [H _]. exact H.
Qed.

(* ------------------------------------------------------------------ build *)
Section BuildProofs.
  Variable PyT : Type.
  Variable evalty : string -> res PyT.
  Variable isinst : value -> PyT -> bool.
  Variable issub : PyT -> PyT -> bool.

  Notation isinstance_ := (isinstance_ PyT evalty isinst).
  Notation issubclass_ := (issubclass_ PyT evalty issub).
  Notation static_of := (static_of PyT evalty isinst).
  Notation static_errors_of := (static_errors_of PyT evalty isinst).
  Notation edge_errors := (edge_errors PyT evalty issub).
  Notation build := (build PyT evalty isinst issub).

  (* declared types o (of an output) and i (of a parameter) are compatible *)
  Definition compatible (o i : string) : Prop :=
    i = "Any" \/ o = "Any" \/ o = i \/ In (o, i) legits \/
    exists c1 c2, evalty o = Ok c1 /\ evalty i = Ok c2 /\ issub c1 c2 = true.

  (* a static value fits the declared type of its parameter *)
  Definition fits (v : value) (ty : string) : Prop :=
    ty = "Any" \/ In ty skipped \/ exists c, evalty ty = Ok c /\ isinst v c = true.

  (* an edge starts at an existing output of an existing task and ends at an existing
     task and, for a keyword edge, at an existing parameter of compatible declared type *)
  Definition edge_wf (ns : list (string * task)) (e : edge) : Prop :=
    exists st oty, lookup (esrc e) ns = Some st /\ lookup (eout e) (oschema (tdf st)) = Some oty /\ oty <> "" /\
    exists kt, lookup (esink e) ns = Some kt /\
      match einto e with
      | IntoPs _ => True
      | IntoKw k => exists ity, lookup k (ischema (tdf kt)) = Some ity /\ ity <> "" /\ compatible oty ity
      end.

  Definition statics_wf (ns : list (string * task)) : Prop :=
    forall n t k v, In (n, t) ns -> In (k, v) (skw t) ->
      exists ty, lookup k (ischema (tdf t)) = Some ty /\ fits v ty.

  Lemma issubclass_true_iff o i : issubclass_ o i = Ok true <-> compatible o i.
  Proof.
    unfold Builders.issubclass_, compatible.
    destruct (String.eqb_spec i "Any") as [->|Hi]; [split; auto|].
    destruct (String.eqb_spec o "Any") as [->|Ho]; [split; auto|].
    destruct (String.eqb_spec o i) as [->|Hoi]; [split; auto|].
    destruct (pair_mem o i legits) eqn:Hl.
    { apply pair_mem_In in Hl. split; auto. }
    assert (Hnl : ~ In (o, i) legits) by (rewrite <- pair_mem_In; congruence).
    split.
    - intros H. destruct (evalty o) as [c1|]; cbn in H; [|discriminate].
      destruct (evalty i) as [c2|]; cbn in H; [|discriminate].
      injection H as H. do 4 right. now exists c1, c2.
    - intros [?|[?|[?|[?|[c1 [c2 [E1 [E2 Hs]]]]]]]]; try contradiction.
      rewrite E1. cbn. rewrite E2. cbn. now rewrite Hs.
  Qed.

  Lemma isinstance_true_iff v ty : isinstance_ v ty = Ok true <-> fits v ty.
  Proof.
    unfold Builders.isinstance_, fits.
    destruct (String.eqb_spec ty "Any") as [->|Hi]; [split; auto|].
    destruct (mem ty skipped) eqn:Hm.
    { apply mem_In in Hm. split; auto. }
    assert (Hnm : ~ In ty skipped) by (rewrite <- mem_In; congruence).
    split.
    - intros H. destruct (evalty ty) as [c|]; cbn in H; [|discriminate]. injection H as H. right. right. now exists c.
    - intros [?|[?|[c [E H]]]]; try contradiction. rewrite E. cbn. now rewrite H.
  Qed.

  Lemma edge_errors_nil_iff ns e : edge_errors ns e = Ok [] <-> edge_wf ns e.
  Proof.
    unfold Builders.edge_errors, edge_wf.
    destruct (lookup (esrc e) ns) as [st|] eqn:Es.
    2:{ split.
        - intros H. destruct (lookup (esink e) ns); [destruct (einto e)|];
            [destruct (truthy (lookup _ (ischema _)))| |]; try discriminate H.
        - intros [st [oty [H _]]]. discriminate. }
    destruct (truthy (lookup (eout e) (oschema (tdf st)))) as [oty|] eqn:Eo.
    2:{ split.
        - intros H. destruct (lookup (esink e) ns); [destruct (einto e)|];
            [destruct (truthy (lookup _ (ischema _)))| |]; try discriminate H.
        - intros [st' [oty [H1 [H2 [H3 _]]]]]. injection H1 as <-.
          assert (truthy (lookup (eout e) (oschema (tdf st))) = Some oty) by (apply truthy_Some; auto).
          congruence. }
    apply truthy_Some in Eo as [Eo Hon].
    destruct (lookup (esink e) ns) as [kt|] eqn:Ek.
    2:{ split; [discriminate|]. intros [st' [oty' [_ [_ [_ [kt [H _]]]]]]]. discriminate. }
    destruct (einto e) as [k|z] eqn:Ei.
    2:{ split; [|reflexivity]. intros _. exists st, oty. repeat split; auto. exists kt. auto. }
    destruct (truthy (lookup k (ischema (tdf kt)))) as [ity|] eqn:Eit.
    2:{ split; [discriminate|].
        intros [st' [oty' [_ [_ [_ [kt' [H1 [ity [H2 [H3 _]]]]]]]]]]. injection H1 as <-.
        assert (truthy (lookup k (ischema (tdf kt))) = Some ity) by (apply truthy_Some; auto).
        congruence. }
    apply truthy_Some in Eit as [Eit Hin].
    cbn [app]. split.
    - intros H. destruct (issubclass_ oty ity) as [[|]|] eqn:Esub; cbn in H; try discriminate.
      exists st, oty. repeat split; auto. exists kt. split; [reflexivity|].
      exists ity. repeat split; auto. now apply issubclass_true_iff.
    - intros [st' [oty' [H1 [H2 [_ [kt' [H3 [ity' [H4 [_ Hc]]]]]]]]]].
      injection H1 as <-. injection H3 as <-.
      assert (oty' = oty) by congruence. assert (ity' = ity) by congruence. subst.
      apply issubclass_true_iff in Hc. now rewrite Hc.
  Qed.

  Lemma static_nil_iff (nt : string * task) :
    (unknown_kw_of nt = [] /\ static_errors_of nt = Ok []) <->
    (forall k v, In (k, v) (skw (snd nt)) -> exists ty, lookup k (ischema (tdf (snd nt))) = Some ty /\ fits v ty).
  Proof.
    unfold unknown_kw_of, Builders.static_errors_of. rewrite flat_map_nil_iff, concatM_nil_iff. split.
    - intros [Hu Hs] k v Hin. specialize (Hu _ Hin). specialize (Hs _ Hin).
      unfold Builders.static_of in Hs. cbn [fst snd] in *.
      destruct (lookup k (ischema (tdf (snd nt)))) as [ty|]; [|discriminate].
      exists ty. split; [reflexivity|]. apply isinstance_true_iff.
      destruct (isinstance_ v ty) as [[|]|]; cbn in Hs; try discriminate; reflexivity.
    - intros H. split; intros [k v] Hin; destruct (H k v Hin) as [ty [El Hf]]; cbn [fst snd].
      + now rewrite El.
      + unfold Builders.static_of. cbn [fst snd]. rewrite El.
        apply isinstance_true_iff in Hf. now rewrite Hf.
  Qed.

  (* what build returns, in terms of the two lists of checks *)
  Lemma build_inv b r : build b = Ok r ->
    exists st ee, concatM static_errors_of (nodes b) = Ok st /\ concatM (edge_errors (nodes b)) (edges b) = Ok ee /\
      match flat_map unknown_kw_of (nodes b) ++ st ++ ee with
      | [] => r = inr (J (nodes b) (edges b))
      | errs => r = inl errs
      end.
  Proof.
    unfold Builders.build. intros H.
    destruct (concatM static_errors_of (nodes b)) as [st|]; cbn in H; [|discriminate].
    destruct (concatM (edge_errors (nodes b)) (edges b)) as [ee|]; cbn in H; [|discriminate].
    exists st, ee. repeat split.
    destruct (flat_map unknown_kw_of (nodes b) ++ st ++ ee); now injection H as <-.
  Qed.

  Lemma all_clear_iff b st ee :
    concatM static_errors_of (nodes b) = Ok st -> concatM (edge_errors (nodes b)) (edges b) = Ok ee ->
    (flat_map unknown_kw_of (nodes b) ++ st ++ ee = [] <->
     statics_wf (nodes b) /\ Forall (edge_wf (nodes b)) (edges b)).
  Proof.
    intros Hst Hee. split.
    - intros H. apply app_eq_nil in H as [Hu H]. apply app_eq_nil in H as [-> ->]. split.
      + intros n t k v Hn Hk.
        assert (Hnt : unknown_kw_of (n, t) = [] /\ static_errors_of (n, t) = Ok []).
        { split; [now apply (proj1 (flat_map_nil_iff _ _) Hu)|now apply (proj1 (concatM_nil_iff _ _) Hst)]. }
        exact (proj1 (static_nil_iff (n, t)) Hnt k v Hk).
      + apply Forall_forall. intros e He. apply edge_errors_nil_iff.
        now apply (proj1 (concatM_nil_iff _ _) Hee).
    - intros [Hs He].
      assert (Hn : forall nt, In nt (nodes b) -> unknown_kw_of nt = [] /\ static_errors_of nt = Ok []).
      { intros [n t] Hin. apply (proj2 (static_nil_iff (n, t))). intros k v Hk. exact (Hs n t k v Hin Hk). }
      assert (E1 : flat_map unknown_kw_of (nodes b) = []).
      { apply flat_map_nil_iff. intros nt Hin. now apply Hn. }
      assert (E2 : concatM static_errors_of (nodes b) = Ok []).
      { apply concatM_nil_iff. intros nt Hin. now apply Hn. }
      assert (E3 : concatM (edge_errors (nodes b)) (edges b) = Ok []).
      { apply concatM_nil_iff. intros e Hin. apply edge_errors_nil_iff.
        rewrite Forall_forall in He. now apply He. }
      rewrite E2 in Hst. rewrite E3 in Hee. injection Hst as <-. injection Hee as <-.
      now rewrite E1.
  Qed.

  (* 1. an accepted job is exactly what was given, and all of it is well formed *)
  Theorem build_ok_wellformed : forall b j,
    build b = Ok (inr j) ->
    jtasks j = nodes b /\ jedges j = edges b /\
    Forall (edge_wf (jtasks j)) (jedges j) /\ statics_wf (jtasks j).
  Proof.
    intros b j H. apply build_inv in H as [st [ee [Hst [Hee H]]]].
    destruct (flat_map unknown_kw_of (nodes b) ++ st ++ ee) eqn:E; [|discriminate].
    injection H as ->. cbn. apply (all_clear_iff b st ee Hst Hee) in E as [Hs He]. auto.
  Qed.

  (* 2. otherwise the problems are returned: the result is a job exactly when everything is
     well formed, and a returned problem list is never empty *)
  Theorem build_rejects_iff : forall b r,
    build b = Ok r ->
    ((exists j, r = inr j) <-> (statics_wf (nodes b) /\ Forall (edge_wf (nodes b)) (edges b))) /\
    (forall errs, r = inl errs -> errs <> []).
  Proof.
    intros b r H. apply build_inv in H as [st [ee [Hst [Hee H]]]].
    pose proof (all_clear_iff b st ee Hst Hee) as Hiff.
    destruct (flat_map unknown_kw_of (nodes b) ++ st ++ ee) as [|p ps] eqn:E; subst r.
    - split; [|discriminate]. split; [intros _; now apply Hiff|intros _; eauto].
    - split; [|intros errs H; injection H as <-; discriminate].
      split; [intros [j Hj]; discriminate|]. intros Hw. apply Hiff in Hw. discriminate.
  Qed.

  (* 3. build never raises when every declared type can be resolved *)
  Definition known (ty : string) : Prop := ty = "Any" \/ exists c, evalty ty = Ok c.
  Definition types_known (ns : list (string * task)) : Prop :=
    forall n t, In (n, t) ns ->
      (forall k ty, In (k, ty) (ischema (tdf t)) -> known ty) /\
      (forall k ty, In (k, ty) (oschema (tdf t)) -> known ty).

  Lemma isinstance_total v ty : known ty -> exists b, isinstance_ v ty = Ok b.
  Proof.
    intros [->|[c E]]; unfold Builders.isinstance_; [cbn; eauto|].
    destruct (String.eqb ty "Any"); [eauto|]. destruct (mem ty skipped); [eauto|].
    rewrite E. cbn. eauto.
  Qed.

  Lemma issubclass_total o i : known o -> known i -> exists b, issubclass_ o i = Ok b.
  Proof.
    intros Ho Hi. unfold Builders.issubclass_.
    destruct (String.eqb_spec i "Any"); [eauto|]. destruct (String.eqb_spec o "Any"); [eauto|].
    destruct (String.eqb o i); [eauto|]. destruct (pair_mem o i legits); [eauto|].
    destruct Ho as [?|[c1 E1]]; [contradiction|]. destruct Hi as [?|[c2 E2]]; [contradiction|].
    rewrite E1. cbn. rewrite E2. cbn. eauto.
  Qed.

  Theorem build_total : forall b, types_known (nodes b) -> exists r, build b = Ok r.
  Proof.
    intros b Hk. unfold Builders.build.
    destruct (concatM_total static_errors_of (nodes b)) as [st ->].
    { intros [n t] Hin. unfold Builders.static_errors_of. apply concatM_total. intros [k v] Hkv.
      unfold Builders.static_of. cbn [fst snd].
      destruct (lookup k (ischema (tdf t))) as [ty|] eqn:El; [|eauto].
      destruct (isinstance_total v ty) as [ok ->]; [|cbn; eauto].
      apply lookup_In in El. exact (proj1 (Hk n t Hin) k ty El). }
    cbn.
    destruct (concatM_total (edge_errors (nodes b)) (edges b)) as [ee ->].
    { intros e _. unfold Builders.edge_errors.
      destruct (lookup (esrc e) (nodes b)) as [st0|] eqn:Es.
      - destruct (truthy (lookup (eout e) (oschema (tdf st0)))) as [oty|] eqn:Eo.
        + apply truthy_Some in Eo as [Eo _].
          destruct (lookup (esink e) (nodes b)) as [kt|] eqn:Ek; [|eauto].
          destruct (einto e) as [k|z]; [|eauto].
          destruct (truthy (lookup k (ischema (tdf kt)))) as [ity|] eqn:Eit; [|eauto].
          apply truthy_Some in Eit as [Eit _].
          destruct (issubclass_total oty ity) as [ok ->]; [| |cbn; eauto].
          * apply lookup_In in Es, Eo. exact (proj2 (Hk _ _ Es) _ _ Eo).
          * apply lookup_In in Ek, Eit. exact (proj1 (Hk _ _ Ek) _ _ Eit).
        + destruct (lookup (esink e) (nodes b)); [|eauto]. destruct (einto e); [|eauto].
          destruct (truthy (lookup _ (ischema _))); eauto.
      - destruct (lookup (esink e) (nodes b)); [|eauto]. destruct (einto e); [|eauto].
        destruct (truthy (lookup _ (ischema _))); eauto. }
    cbn. destruct (flat_map unknown_kw_of (nodes b) ++ st ++ ee); eauto.
  Qed.

  (* 4. the job carries the task bound under a name by the last with_node for that name,
     and every edge added on the way *)
  Theorem job_carries_node : forall b n t ops j,
    forallb (fun o => negb (sets_name n o)) ops = true ->
    build (fold_left apply_op ops (with_node b n t)) = Ok (inr j) ->
    lookup n (jtasks j) = Some t.
  Proof.
    intros b n t ops j Hops H. apply build_ok_wellformed in H as [-> _].
    apply node_kept; [apply with_node_lookup_same|exact Hops].
  Qed.

  Theorem job_carries_edge : forall b s k i f ops j,
    build (fold_left apply_op ops (with_edge b s k i f)) = Ok (inr j) ->
    In (E s f k i) (jedges j).
  Proof.
    intros b s k i f ops j H. apply build_ok_wellformed in H as [_ [-> _]].
    apply edge_kept. rewrite with_edge_edges. apply in_or_app. right. now left.
  Qed.
End BuildProofs.

(* ------------------------------------------------------------------ the tree of derived builders *)
Lemma run_tree_keeps : forall steps bs bs', run_tree bs steps = Some bs' ->
  forall i, i < List.length bs -> nth_error bs' i = nth_error bs i.
Proof.
  induction steps as [|[p o] r IH]; cbn; intros bs bs' H i Hi.
  - now injection H as <-.
  - destruct (nth_error bs p) as [b|]; [|discriminate].
    rewrite (IH _ _ H i) by (rewrite app_length; lia).
    now apply nth_error_app1.
Qed.

(* deriving further builders (and building them) never changes a builder that already exists *)
Theorem tree_prefix_stable : forall s1 s2 bs bs',
  run_tree bs (s1 ++ s2) = Some bs' ->
  exists bs1, run_tree bs s1 = Some bs1 /\ forall i, i < List.length bs1 -> nth_error bs' i = nth_error bs1 i.
Proof.
  induction s1 as [|[p o] r IH]; cbn; intros s2 bs bs' H.
  - exists bs. split; [reflexivity|]. now apply run_tree_keeps with (steps := s2).
  - destruct (nth_error bs p) as [b|]; [|discriminate]. now apply IH with (s2 := s2).
Qed.
