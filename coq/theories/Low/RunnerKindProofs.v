(* Proofs about the one place where Low/Runner.v looks at the KIND of the object a callable
   returned: a single declared output and `streams result` (the code: inspect.isgenerator).
   - whatever is not a generator object is stored as it is, iterators included: it is not consumed,
     not replaced by its first element, and its length is nobody's business (run_task_single_kind);
   - the result of run under any other test `streams` (run_task_with), in closed form
     (run_task_with_single), hence
   - is_generator is the ONLY test under which run does what it does for all callables
     (stream_test_unique): a test that also answers True for some other kind of object turns a task
     returning such an object into a failure (no element / more than one element) or stores the
     element instead of the object (exactly one). *)
From Coq Require Import List String Arith Bool Lia.
From EKW Require Import Graph.GStore Graph.Export Util.StrOrd Low.Into Low.Runner Low.RunnerOrdProofs Low.RunnerProofs.
Import ListNotations.
Open Scope string_scope.
Open Scope list_scope.

Section RunnerKind.
Variable F : Type.
Variable D : Type.
Notation pval := (pval D).
Notation task := (@task F D).

Lemma is_generator_spec : forall k, is_generator k = true <-> k = KGenerator.
Proof. intros []; cbn; split; intros H; congruence. Qed.

(* a single declared output: the returned object of any kind but KGenerator -- whatever iterating
   it WOULD yield, however many values, stopping or raising -- is the one value handled *)
Lemma run_task_single_kind : forall (call : F -> list pval -> list (string * pval) -> cres D)
    tid (t : task) src publish m args kwargs k s v kd ys fin,
  t_oschema t = [(k, s)] -> bound_args t src m = Ok (args, kwargs) ->
  call (t_func t) args kwargs = CRet v (Iter kd ys fin) -> kd <> KGenerator ->
  run_task call tid t src publish m = ([((tid, k), v, in_publish (tid, k) publish)], Ok tt).
Proof.
  intros call tid t src publish m args kwargs k s v kd ys fin Ho Hb Hc Hk.
  eapply run_task_single; try eassumption. intros ys' fin' E. injection E as -> _ _. apply Hk. reflexivity.
Qed.

(* run under another test, single declared output *)
Lemma run_task_with_single : forall (call : F -> list pval -> list (string * pval) -> cres D) streams
    tid (t : task) src publish m args kwargs k s v it,
  t_oschema t = [(k, s)] -> bound_args t src m = Ok (args, kwargs) ->
  call (t_func t) args kwargs = CRet v it ->
  run_task_with call streams tid t src publish m =
    match it with
    | Iter kd ys fin => if streams kd then store_loop tid publish [(k, s)] ys fin []
                        else ([((tid, k), v, in_publish (tid, k) publish)], Ok tt)
    | NotIter => ([((tid, k), v, in_publish (tid, k) publish)], Ok tt)
    end.
Proof.
  intros call streams tid t src publish m args kwargs k s v it Ho Hb Hc.
  unfold run_task_with. rewrite Hb, Ho. cbn [sort_by_key fold_right insert_by_key]. rewrite Hc.
  destruct it as [|kd ys fin]; [reflexivity|]. unfold unpacks_with. cbn [List.length Nat.ltb Nat.leb].
  destruct (streams kd); reflexivity.
Qed.

(* what a test that answers True for the returned object does to a single-output task: the object is
   consumed; one element: the ELEMENT is stored in place of the object; none or several: task failure *)
Lemma run_task_with_single_streamed : forall (call : F -> list pval -> list (string * pval) -> cres D) streams
    tid (t : task) src publish m args kwargs k s v kd ys fin,
  t_oschema t = [(k, s)] -> bound_args t src m = Ok (args, kwargs) ->
  call (t_func t) args kwargs = CRet v (Iter kd ys fin) -> streams kd = true ->
  match ys, fin with
  | [y], None => run_task_with call streams tid t src publish m = ([((tid, k), y, in_publish (tid, k) publish)], Ok tt)
  | _, _ => exists e, snd (run_task_with call streams tid t src publish m) = Err e
  end.
Proof.
  intros call streams tid t src publish m args kwargs k s v kd ys fin Ho Hb Hc Hs.
  rewrite (run_task_with_single call streams _ _ _ _ _ _ _ _ _ _ _ Ho Hb Hc), Hs.
  destruct ys as [|y [|y' ys']]; destruct fin as [e|]; cbn; eauto.
Qed.

(* with two or more declared outputs the test plays no role *)
Lemma run_task_with_multi : forall (call : F -> list pval -> list (string * pval) -> cres D) streams
    tid (t : task) src publish m,
  multi F D t -> run_task_with call streams tid t src publish m = run_task call tid t src publish m.
Proof.
  intros call streams tid t src publish m Hm. unfold run_task, run_task_with.
  destruct (bound_args t src m) as [[args kwargs]|e]; [|reflexivity].
  pose proof (sort_length (t_oschema t)) as Hlen. unfold multi in Hm.
  destruct (sort_by_key (t_oschema t)) as [|[k1 s1] r]; [reflexivity|].
  destruct (call (t_func t) args kwargs) as [e|v it]; [reflexivity|].
  assert (Hlt : Nat.ltb 1 (List.length ((k1, s1) :: r)) = true) by (apply Nat.ltb_lt; lia).
  unfold unpacks_with. rewrite Hlt.
  destruct it as [|kd ys fin]; [reflexivity|]. destruct (streams kd), (is_generator kd); reflexivity.
Qed.

(* two tests that agree on the kind of the returned object give the same run *)
Lemma run_task_with_ext : forall (call : F -> list pval -> list (string * pval) -> cres D) s1 s2
    tid (t : task) src publish m,
  (forall kd, s1 kd = s2 kd) ->
  run_task_with call s1 tid t src publish m = run_task_with call s2 tid t src publish m.
Proof.
  intros call s1 s2 tid t src publish m H. unfold run_task_with.
  destruct (bound_args t src m) as [[args kwargs]|e]; [|reflexivity].
  destruct (sort_by_key (t_oschema t)) as [|[k1 ss1] r]; [reflexivity|].
  destruct (call (t_func t) args kwargs) as [e|v it]; [reflexivity|].
  destruct it as [|kd ys fin]; [reflexivity|]. unfold unpacks_with. rewrite H. reflexivity.
Qed.

(* is_generator is the only test: `streams` gives the runs of the code for ALL callables, tasks and
   memories if and only if it answers as inspect.isgenerator on every kind of object.
   (f0: some callable exists.) *)
Theorem stream_test_unique : forall (f0 : F) (streams : ikind -> bool),
  (forall (call : F -> list pval -> list (string * pval) -> cres D) tid (t : task) src publish m,
      run_task_with call streams tid t src publish m = run_task call tid t src publish m) <->
  (forall kd, streams kd = is_generator kd).
Proof.
  intros f0 streams. split.
  - intros H kd.
    set (call := fun (_ : F) (_ : list pval) (_ : list (string * pval)) => CRet (D := D) PNone (Iter kd [] None)).
    set (t := mkT f0 [] [("0", "Any")] [] [] : task).
    specialize (H call "t" t [] [] []).
    unfold run_task in H.
    rewrite (run_task_with_single call streams "t" t [] [] [] [] [] "0" "Any" PNone (Iter kd [] None)) in H by reflexivity.
    rewrite (run_task_with_single call is_generator "t" t [] [] [] [] [] "0" "Any" PNone (Iter kd [] None)) in H by reflexivity.
    destruct (streams kd), (is_generator kd); cbn in H; try reflexivity; discriminate.
  - intros H call tid t src publish m. apply run_task_with_ext. exact H.
Qed.

End RunnerKind.
