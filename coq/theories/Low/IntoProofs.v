(* Proofs about Low/Into.v: the shape of the lowered job (one task per node, one edge per
   placeholder of an input, from the declared parent output), for every graph. *)
From Coq Require Import List String Bool Arith Lia.
From EKW Require Import Graph.GStore Graph.Export Low.Into.
Import ListNotations.
Open Scope string_scope.
Open Scope list_scope.

Lemma smemb_false' : forall s l, smemb s l = false -> ~ In s l.
Proof.
  intros s l. unfold smemb. induction l as [|x r IH]; cbn; intros H; [tauto|].
  apply orb_false_iff in H as [H1 H2]. intros [E|Hin]; [|exact (IH H2 Hin)].
  subst. rewrite String.eqb_refl in H1. discriminate.
Qed.

Lemma lookup_dict_set_same : forall {A} k (v : A) l, lookup k (dict_set k v l) = Some v.
Proof.
  intros A k v l. induction l as [|[k' v'] r IH]; cbn; [rewrite String.eqb_refl; reflexivity|].
  destruct (String.eqb k k') eqn:E; cbn; [rewrite String.eqb_refl; reflexivity|].
  rewrite E. exact IH.
Qed.

Lemma lookup_dict_set_other : forall {A} k k' (v : A) l, k <> k' -> lookup k (dict_set k' v l) = lookup k l.
Proof.
  intros A k k' v l Hne. induction l as [|[k2 v2] r IH]; cbn.
  - destruct (String.eqb k k') eqn:E; [apply String.eqb_eq in E; contradiction|reflexivity].
  - destruct (String.eqb k' k2) eqn:E; cbn.
    + apply String.eqb_eq in E. subst k2.
      destruct (String.eqb k k') eqn:E2; [apply String.eqb_eq in E2; contradiction|reflexivity].
    + destruct (String.eqb k k2); [reflexivity|exact IH].
Qed.

Lemma dict_set_fresh' : forall {A} k (v : A) l, ~ In k (map fst l) -> dict_set k v l = l ++ [(k, v)].
Proof.
  intros A k v l. induction l as [|[k' v'] r IH]; intros H; cbn; [reflexivity|].
  destruct (String.eqb k k') eqn:E.
  - apply String.eqb_eq in E. subst. exfalso. apply H. left. reflexivity.
  - rewrite IH; [reflexivity|]. intros Hin. apply H. right. exact Hin.
Qed.

Lemma NoDup_snoc : forall {A} (l : list A) x, NoDup l -> ~ In x l -> NoDup (l ++ [x]).
Proof.
  intros A l x Hl Hx. induction Hl as [|y l Hy Hl IH]; cbn; [repeat constructor; tauto|].
  constructor.
  - intros Hin. apply in_app_or in Hin as [Hin|[E|[]]]; [contradiction|]. subst. apply Hx. left. reflexivity.
  - apply IH. intros Hin. apply Hx. right. exact Hin.
Qed.

Lemma lookup_app_old : forall {A} n (t : A) l x, lookup n l = Some t -> lookup n (l ++ x) = Some t.
Proof.
  intros A n t l x. induction l as [|[k v] r IH]; cbn; [discriminate|].
  destruct (String.eqb n k); [tauto|exact IH].
Qed.

Lemma lookup_app_fresh : forall {A} k (v : A) l, ~ In k (map fst l) -> lookup k (l ++ [(k, v)]) = Some v.
Proof.
  intros A k v l. induction l as [|[k' v'] r IH]; cbn; intros H; [rewrite String.eqb_refl; reflexivity|].
  destruct (String.eqb k k') eqn:E; [apply String.eqb_eq in E; subst; exfalso; apply H; left; reflexivity|].
  apply IH. intros Hin. apply H. right. exact Hin.
Qed.

Section IntoProofs.
Variable F : Type.
Variable D : Type.
Notation pval := (pval D).
Notation payload := (payload F D).
Notation task := (@task F D).
Notation job := (@job F D).
Notation vnode := (vnode payload).
Notation snode := (snode payload).

(* ---------------------------------------------------------------- serialise *)
Lemma ser_loop_spec : forall (vs : list vnode) data ser,
  ser_loop payload (fun p => p) vs data = Ok ser ->
  ser = data ++ map (fun v => (vname v, node_ser payload (fun p => p) v)) vs /\
  (NoDup (map fst data) -> NoDup (map fst ser)).
Proof.
  induction vs as [|v r IH]; intros data ser H; cbn in H.
  - injection H as <-. rewrite app_nil_r. split; [reflexivity|tauto].
  - destruct (smemb (vname v) (map fst data)) eqn:E; [discriminate|].
    apply IH in H as [-> Hnd]. split; [rewrite <- app_assoc; reflexivity|].
    intros Hd. apply Hnd. rewrite map_app. cbn.
    apply NoDup_snoc; [exact Hd|apply smemb_false'; exact E].
Qed.

Lemma ds_of_out_ser : forall p o, ds_of (out_ser p o) = (p, o).
Proof.
  intros p o. unfold out_ser, DEFAULT_OUTPUT. destruct (String.eqb o "0") eqn:E; cbn; [|reflexivity].
  apply String.eqb_eq in E. subst. reflexivity.
Qed.

(* ---------------------------------------------------------------- one node *)
(* the placeholders of one input: an edge per position at which args names it *)
Definition input_edges (name : string) (args : list pval) (pi : string * dsid) : list edge :=
  map (fun p => mkE (snd pi) name None (Some p)) (positions_from 0 (fst pi) args).

Definition input_positions (args : list pval) (ins : list (string * dsid)) : list nat :=
  flat_map (fun pi => positions_from 0 (fst pi) args) ins.

Definition sins (ins : list (string * ssrc)) : list (string * dsid) :=
  map (fun x => (fst x, ds_of (snd x))) ins.

Lemma inputs_loop_spec : forall name args ins sps edges sps' edges',
  inputs_loop name args ins sps edges = Ok (sps', edges') ->
  edges' = edges ++ flat_map (input_edges name args) (sins ins) /\
  sps' = fold_left (fun d p => nset p PNone d) (input_positions args (sins ins)) sps /\
  Forall (fun pi => positions_from 0 (fst pi) args <> []) ins.
Proof.
  intros name args ins. induction ins as [|[param other] r IH]; intros sps edges sps' edges' H; cbn in H.
  - injection H as <- <-. rewrite app_nil_r. repeat split. constructor.
  - destruct (positions_from 0 param args) as [|p ps] eqn:E; [discriminate|].
    apply IH in H as (-> & -> & Hall). repeat split.
    + cbn. unfold input_edges at 2. cbn [fst snd]. rewrite E, <- app_assoc. reflexivity.
    + unfold input_positions. cbn [sins map flat_map fst]. rewrite fold_left_app, E. reflexivity.
    + constructor; [cbn; rewrite E; discriminate|exact Hall].
Qed.

Lemma inputs_loop_total : forall name (args : list pval) ins sps edges,
  Forall (fun pi => positions_from 0 (fst pi) args <> []) ins ->
  exists r, inputs_loop name args ins sps edges = Ok r.
Proof.
  intros name args ins. induction ins as [|[param other] r IH]; intros sps edges H; cbn.
  - eexists; reflexivity.
  - inversion H as [|? ? H1 H2]; subst. cbn in H1.
    destruct (positions_from 0 param args) as [|p ps]; [contradiction|]. apply IH. exact H2.
Qed.

(* the task and the edges a node (as serialised from its view) lowers to *)
Definition outs_or_default (outs : list string) : list string :=
  match outs with [] => [DEFAULT_OUTPUT] | _ => outs end.

Definition vtask (v : vnode) (f : F) (args : list pval) (kwargs : list (string * pval)) : task :=
  mkT f (map (fun kv => (fst kv, "Any")) kwargs) (schema_of (outs_or_default (vouts v))) kwargs
      (fold_left (fun d p => nset p PNone d) (input_positions args (vins v)) (enumerate_from 0 args)).

Definition vedges (v : vnode) : list edge :=
  match vpay v with
  | Some (PayTuple f args kwargs) => flat_map (input_edges (vname v) args) (vins v)
  | _ => []
  end.

Lemma sins_node_ser : forall v : vnode,
  sins (map (fun x => (fst x, out_ser (fst (snd x)) (snd (snd x)))) (vins v)) = vins v.
Proof.
  intros v. unfold sins. rewrite map_map. rewrite <- (map_id (vins v)) at 2.
  apply map_ext. intros [i [p o]]. cbn. rewrite ds_of_out_ser. reflexivity.
Qed.

Lemma node2task_spec : forall (v : vnode) t es,
  node2task (vname v) (node_ser payload (fun p => p) v) = Ok (t, es) ->
  exists f args kwargs, vpay v = Some (PayTuple f args kwargs) /\
    t = vtask v f args kwargs /\ es = vedges v /\
    Forall (fun pi => positions_from 0 (fst pi) args <> []) (vins v).
Proof.
  intros v t es H. unfold node2task, node_ser in H. cbn [s_pay s_ins s_outs] in H.
  destruct (vpay v) as [[f args kwargs|]|] eqn:Ep; cbn in H; try discriminate.
  destruct (inputs_loop (vname v) args _ (enumerate_from 0 args) []) as [[sps es']|e] eqn:El; cbn in H; [|discriminate].
  injection H as <- <-. apply inputs_loop_spec in El as (-> & -> & Hall).
  rewrite sins_node_ser. exists f, args, kwargs. repeat split.
  - unfold vedges. rewrite Ep. reflexivity.
  - rewrite Forall_forall in *. intros [i [p o]] Hin.
    specialize (Hall (i, out_ser p o)). cbn in *. apply Hall.
    apply in_map_iff. exists (i, (p, o)). split; [reflexivity|exact Hin].
Qed.

(* ---------------------------------------------------------------- the whole graph *)
Lemma g2j_loop_spec : forall (vs : list vnode) tasks edges j,
  g2j_loop (map (fun v => (vname v, node_ser payload (fun p => p) v)) vs) tasks edges = Ok j ->
  NoDup (map fst tasks ++ map vname vs) ->
  map fst (j_tasks j) = map fst tasks ++ map vname vs /\
  j_edges j = edges ++ flat_map vedges vs /\
  (forall n t, lookup n tasks = Some t -> lookup n (j_tasks j) = Some t) /\
  (forall v, In v vs -> exists f args kwargs, vpay v = Some (PayTuple f args kwargs) /\
       lookup (vname v) (j_tasks j) = Some (vtask v f args kwargs) /\
       Forall (fun pi => positions_from 0 (fst pi) args <> []) (vins v)).
Proof.
  induction vs as [|v r IH]; intros tasks edges j H Hnd; cbn in H.
  - injection H as <-. cbn. rewrite !app_nil_r. repeat split; try tauto.
  - destruct (node2task (vname v) (node_ser payload (fun p => p) v)) as [[t es]|e] eqn:En; cbn in H; [|discriminate].
    apply node2task_spec in En as (f & args & kwargs & Ep & -> & -> & Hall).
    assert (Hfresh : ~ In (vname v) (map fst tasks)).
    { cbn in Hnd. apply NoDup_remove_2 in Hnd. intros Hin. apply Hnd. apply in_or_app. left. exact Hin. }
    rewrite (dict_set_fresh' _ _ _ Hfresh) in H.
    apply IH in H as (Hk & He & Hold & Hnew).
    + repeat split.
      * rewrite Hk, map_app. cbn. rewrite <- app_assoc. reflexivity.
      * rewrite He. cbn. rewrite <- app_assoc. reflexivity.
      * intros n t Hl. apply Hold. apply lookup_app_old. exact Hl.
      * intros v' [<-|Hin]; [|apply Hnew; exact Hin].
        exists f, args, kwargs. repeat split; [exact Ep| |exact Hall].
        apply Hold. apply lookup_app_fresh. exact Hfresh.
    + rewrite map_app. cbn. rewrite <- app_assoc. exact Hnd.
Qed.

(* graph2job as a whole: nodes are visited in the order of Graph.nodes(), names are unique
   (serialise asserts it), one task per node under the node's name, the edges of the nodes
   concatenated in that order *)
Theorem graph2job_shape : forall (g : graph payload) vs j,
  vnodes g = Ok vs -> graph2job g = Ok j ->
  NoDup (map vname vs) /\
  map fst (j_tasks j) = map vname vs /\
  j_edges j = flat_map vedges vs /\
  (forall v, In v vs -> exists f args kwargs, vpay v = Some (PayTuple f args kwargs) /\
       lookup (vname v) (j_tasks j) = Some (vtask v f args kwargs) /\
       Forall (fun pi => positions_from 0 (fst pi) args <> []) (vins v)).
Proof.
  intros g vs j Hv Hj. unfold graph2job, serialise in Hj. rewrite Hv in Hj. cbn [bind] in Hj.
  destruct (ser_loop payload (fun p => p) vs []) as [ser|e] eqn:Es; cbn [bind] in Hj; [|discriminate].
  apply ser_loop_spec in Es as [-> Hnd]. cbn [app] in *.
  assert (Hnd' : NoDup (map vname vs)).
  { specialize (Hnd (NoDup_nil _)). rewrite map_map in Hnd. exact Hnd. }
  apply g2j_loop_spec in Hj; [|exact Hnd'].
  destruct Hj as (Hk & He & _ & Hnew). repeat split; assumption.
Qed.

(* and it succeeds whenever every node carries a (func, args, kwargs) payload whose args name
   every input *)
Definition lowerable (v : vnode) : Prop :=
  exists f args kwargs, vpay v = Some (PayTuple f args kwargs) /\
    Forall (fun pi => positions_from 0 (fst pi) args <> []) (vins v).

End IntoProofs.
