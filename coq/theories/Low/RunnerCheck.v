(* Executable checker used by harness/c10.py.  The model (Low/Into.v, Low/Runner.v) is run
   on the same graphs / jobs, the same callable behaviours and the same run sequence as the
   real graph2job, param_source, RunnerContext.project + runner.run + Memory, and
   is_last_output_of; everything observed is compared.
   Callables are recorders: they return / yield tokens that say who produced them. *)
From Coq Require Import List String Bool Arith NArith.
From EKW Require Import Graph.GStore Graph.Export Util.StrOrd Low.Into Low.Runner.
Import ListNotations.
Open Scope string_scope.
Open Scope list_scope.

(* opaque objects: a literal of the harness pool, the object returned by callable f, the
   i-th object yielded by (iterating the object returned by) callable f *)
Inductive obj := OLit (n : N) | ORet (f : N) | OYield (f : N) (i : nat).
Definition obj_eqb (a b : obj) : bool :=
  match a, b with
  | OLit n, OLit m => N.eqb n m
  | ORet f, ORet g => N.eqb f g
  | OYield f i, OYield g j => N.eqb f g && Nat.eqb i j
  | _, _ => false
  end.

Notation cval := (pval obj).
Notation cpayload := (payload N obj).
Notation ctask := (@task N obj).
Notation cjob := (@job N obj).

Definition pval_eqb (a b : cval) : bool :=
  match a, b with
  | PNone, PNone => true
  | PStr s, PStr t => String.eqb s t
  | PObj x, PObj y => obj_eqb x y
  | _, _ => false
  end.

(* behaviour of a recorder callable *)
Inductive beh :=
| BRet                                   (* returns a token (not iterable) *)
| BRaise (e : string)                    (* raises *)
| BGen (k : nat) (fin : option string)   (* generator function: yields k tokens, then stops / raises *)
| BTuple (k : nat)                       (* returns a tuple of k tokens *)
| BGenLen                                (* parametrised generator: one token per positional argument *)
| BObj (kd : ikind) (k : nat) (fin : option string)
                                         (* returns an object of kind kd (a list, a dict, iter(list), map, islice,
                                            an instance of a class with __next__ ...) that holds k tokens; iterating
                                            it yields them and then stops / raises *)
| BObjL (kd : ikind) (ys : list (pval obj)) (fin : option string)
                                         (* returns an object of kind kd whose iteration yields the given values: a
                                            file-like object and its lines (str), a generator that yields None, '', 0,
                                            containers of the pool ... *)
| BVal (v : pval obj) (ys : option (list (pval obj))).
                                         (* returns the literal v (None, a str, a pool object); ys: what iterating
                                            v yields (None = not iterable; a str yields its characters) *)

Fixpoint nlookup {A} (k : N) (l : list (N * A)) : option A :=
  match l with
  | [] => None
  | (k', v) :: r => if N.eqb k k' then Some v else nlookup k r
  end.

Definition yields_of (f : N) (k : nat) : list cval := map (fun i => PObj (OYield f i)) (seq 0 k).

Definition c_call (behs : list (N * beh)) (f : N) (args : list cval) (kwargs : list (string * cval)) : cres obj :=
  match nlookup f behs with
  | None => CRaise "model:unknown-callable"
  | Some BRet => CRet (PObj (ORet f)) NotIter
  | Some (BRaise e) => CRaise e
  | Some (BGen k fin) => CRet (PObj (ORet f)) (Iter KGenerator (yields_of f k) fin)
  | Some (BTuple k) => CRet (PObj (ORet f)) (Iter KIterable (yields_of f k) None)
  | Some BGenLen => CRet (PObj (ORet f)) (Iter KGenerator (yields_of f (List.length args)) None)
  | Some (BObj kd k fin) => CRet (PObj (ORet f)) (Iter kd (yields_of f k) fin)
  | Some (BObjL kd ys fin) => CRet (PObj (ORet f)) (Iter kd ys fin)
  | Some (BVal v None) => CRet v NotIter
  | Some (BVal v (Some ys)) => CRet v (Iter KIterable ys None)
  end.

(* ------------------------------------------------------------------ equalities *)
Fixpoint list_eqb' {A} (eq : A -> A -> bool) (a b : list A) : bool :=
  match a, b with
  | [], [] => true
  | x :: r, y :: s => eq x y && list_eqb' eq r s
  | _, _ => false
  end.

Fixpoint nodup_keys {V} (d : list (string * V)) : bool :=
  match d with
  | [] => true
  | (k, _) :: r => match lookup k r with Some _ => false | None => nodup_keys r end
  end.

(* two Python dicts with string keys, compared as dicts AND in iteration order *)
Definition odict_eqb {V} (veq : V -> V -> bool) (a b : list (string * V)) : bool :=
  nodup_keys a && nodup_keys b &&
  list_eqb' (fun x y => String.eqb (fst x) (fst y) && veq (snd x) (snd y)) a b.

Definition opt_eqb {A} (eq : A -> A -> bool) (a b : option A) : bool :=
  match a, b with
  | None, None => true
  | Some x, Some y => eq x y
  | _, _ => false
  end.

Definition edge_eqb (a b : edge) : bool :=
  dsid_eqb (e_src a) (e_src b) && String.eqb (e_sink a) (e_sink b) &&
  opt_eqb String.eqb (e_kw a) (e_kw b) && opt_eqb Nat.eqb (e_ps a) (e_ps b).

Definition task_eqb (a b : ctask) : bool :=
  N.eqb (t_func a) (t_func b) &&
  odict_eqb String.eqb (t_ischema a) (t_ischema b) &&
  odict_eqb String.eqb (t_oschema a) (t_oschema b) &&
  odict_eqb pval_eqb (t_skw a) (t_skw b) &&
  list_eqb' (fun x y => Nat.eqb (fst x) (fst y) && pval_eqb (snd x) (snd y)) (t_sps a) (t_sps b).

Definition job_eqb (a b : cjob) : bool :=
  odict_eqb task_eqb (j_tasks a) (j_tasks b) && list_eqb' edge_eqb (j_edges a) (j_edges b).

Definition handled_eqb (a b : handled obj) : bool :=
  dsid_eqb (fst (fst a)) (fst (fst b)) && pval_eqb (snd (fst a)) (snd (fst b)) && Bool.eqb (snd a) (snd b).

(* ------------------------------------------------------------------ observations *)
Inductive lowobs := LowJob (j : cjob) | LowRaised (exn : string).

(* one runner.run: task, publish set, what the callable was seen to receive (None = it was
   not called), the Memory.handle calls, the exception that left run (None = returned) *)
Record runobs := mkRun {
  r_task : string;
  r_publish : list dsid;
  r_call : option (list cval * list (string * cval));
  r_handled : list (handled obj);
  r_exn : option string }.

(* is_last_output_of(DatasetId(task, output), job) as observed *)
Definition lastobs := (dsid * res bool)%type.

Definition res_bool_eqb (a b : res bool) : bool :=
  match a, b with
  | Ok x, Ok y => Bool.eqb x y
  | Err x, Err y => String.eqb x y
  | _, _ => false
  end.

Definition call_reached (behs : list (N * beh)) (t : ctask) (src : list (inkey * dsid)) (m : memory obj)
  : option (list cval * list (string * cval)) :=
  match bound_args t src m with
  | Ok ak => match sort_by_key (t_oschema t) with [] => None | _ => Some ak end
  | Err _ => None
  end.

Definition call_eqb (a b : option (list cval * list (string * cval))) : bool :=
  opt_eqb (fun x y => list_eqb' pval_eqb (fst x) (fst y) && odict_eqb pval_eqb (snd x) (snd y)) a b.

Fixpoint check_runs (behs : list (N * beh)) (j : cjob) (ps : psrc) (m : memory obj) (runs : list runobs) : bool :=
  match runs with
  | [] => true
  | r :: rest =>
      match lookup (r_task r) (j_tasks j) with
      | None => false                    (* the harness only runs tasks of the job *)
      | Some t =>
          let src := psrc_of ps (r_task r) in
          let '(hs, out) := run_task (c_call behs) (r_task r) t src (r_publish r) m in
          call_eqb (call_reached behs t src m) (r_call r) &&
          list_eqb' handled_eqb hs (r_handled r) &&
          (match out, r_exn r with
           | Ok _, None => true
           | Err e, Some e' => String.eqb e e'
           | _, _ => false
           end) &&
          check_runs behs j ps (memory_after m hs) rest
      end
  end.

Definition check_lasts (j : cjob) (ls : list lastobs) : bool :=
  forallb (fun l => res_bool_eqb (is_last_output_of (fst l) (j_tasks j)) (snd l)) ls.

(* param_source as observed: Ok (per task, the (input, source) items in order) | Err exn *)
Definition psobs := res psrc.
Definition psrc_eqb (a b : psrc) : bool :=
  odict_eqb (list_eqb' (fun x y => inkey_eqb (fst x) (fst y) && dsid_eqb (snd x) (snd y))) a b.

(* a job-level case: job, behaviours, observed param_source, runs, is_last observations *)
Definition jcase := (cjob * list (N * beh) * psobs * list runobs * list lastobs)%type.

Definition check_job (c : jcase) : bool :=
  let '(j, behs, pso, runs, lasts) := c in
  check_lasts j lasts &&
  match param_source (j_edges j), pso with
  | Ok ps, Ok ps' => psrc_eqb ps ps' && check_runs behs j ps [] runs
  | Err e, Err e' => String.eqb e e' && match runs with [] => true | _ => false end
  | _, _ => false
  end.

(* a graph-level case: graph, what graph2job gave, and (if it gave a job) the rest *)
Definition gcase := (graph cpayload * lowobs * list (N * beh) * psobs * list runobs * list lastobs)%type.

Definition check_graph (c : gcase) : bool :=
  let '(g, low, behs, pso, runs, lasts) := c in
  match graph2job g, low with
  | Ok j, LowJob j' => job_eqb j j' && check_job (j, behs, pso, runs, lasts)
  | Err e, LowRaised e' => String.eqb e e'
  | _, _ => false
  end.

(* fluent.Node(payload, inputs, num_outputs): args given, number of inputs, num_outputs
   against the node's observed payload args, input names and outputs *)
Definition fcase := (list cval * nat * nat * (list cval * list string * list string))%type.

Definition check_fluent (c : fcase) : bool :=
  let '(args, nin, nout, (oargs, oins, oouts)) := c in
  list_eqb' pval_eqb (fluent_args args nin) oargs &&
  list_eqb' String.eqb (map input_name (seq 0 nin)) oins &&
  list_eqb' String.eqb (fluent_outputs nout) oouts.
