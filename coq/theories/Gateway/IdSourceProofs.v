(* Proofs about the id source of the gateway (Gateway/IdSource.v). *)
From Coq Require Import List NArith ZArith String Bool Lia.
From EKW Require Import Gateway.Router Gateway.RouterProofs Gateway.IdSource.
Import ListNotations.
Open Scope string_scope.
Open Scope list_scope.

(* ------------------------------------------------------------------ the code as it is *)
Lemma handle_fe_p_rendered : forall render st rq,
  handle_fe_p (choose_rendered render) st rq = handle_fe st (render_rq render rq).
Proof. intros render st rq. destruct rq as [ds ok|ids|j d|]; reflexivity. Qed.

Lemma step_p_rendered : forall render st e,
  step_p (choose_rendered render) st e = step st (render_event render e).
Proof.
  intros render st e. destruct e as [rq|s r]; [|reflexivity].
  cbn [step_p step render_event]. rewrite handle_fe_p_rendered. reflexivity.
Qed.

(* the loop over draws, rendering inside the generator = Router.run on the rendered history *)
Theorem run_p_rendered : forall render evs st,
  run_p (choose_rendered render) st evs = run st (map (render_event render) evs).
Proof.
  intros render evs. induction evs as [|e evs IH]; intro st; [reflexivity|].
  cbn [run_p run map]. rewrite step_p_rendered.
  destruct (step st (render_event render e)) as [[st1 o]|k]; [|reflexivity].
  rewrite IH. reflexivity.
Qed.

Lemma rendered_sound : forall render, sound (choose_rendered render).
Proof.
  intros render st ds id H. unfold choose_rendered in H.
  exact (proj1 (next_uuid_fresh _ _ _ H)).
Qed.

(* ------------------------------------------------------------------ any chooser *)
Lemma spawn_p_shape : forall ch st ds ok st' r,
  spawn_job_p ch st ds ok = (st', r) ->
  (exists id, ch st ds = Ok id /\ st' = upd N.eqb id new_job st /\ r = (if ok then Ok id else Err "OSError")) \/
  (exists e, ch st ds = Err e /\ st' = st /\ r = Err e).
Proof.
  intros ch st ds ok st' r H. unfold spawn_job_p in H.
  destruct (ch st ds) as [id|e] eqn:E; inversion H; subst.
  - left. exists id. repeat split.
  - right. exists e. repeat split.
Qed.

Lemma step_p_nonsubmit : forall ch st e,
  match e with Fe (SubmitJobRequest _ _) => False | _ => True end ->
  step_p ch st e = step st e.
Proof.
  intros ch st e H. destruct e as [rq|s r]; [|reflexivity].
  destruct rq as [ds ok|ids|j d|]; [contradiction|reflexivity..].
Qed.

(* tracked jobs stay tracked, whatever the chooser does *)
Lemma step_p_mono : forall ch st e st1 o j,
  step_p ch st e = Ok (st1, o) -> jlookup j st <> None -> jlookup j st1 <> None.
Proof.
  intros ch st e st1 o j Hs Hj.
  destruct e as [rq|s r].
  - destruct rq as [ds ok|ids|j' d|].
    + cbn [step_p handle_fe_p] in Hs.
      destruct (spawn_job_p ch st ds ok) as [st' rr] eqn:Esp.
      assert (st' = st1) by (destruct rr; inversion Hs; reflexivity). subst st'.
      apply spawn_p_shape in Esp as [(id & _ & Hst & _)|(e & _ & Hst & _)]; subst st1; [|exact Hj].
      rewrite jlookup_upd. destruct (N.eqb j id); [discriminate|exact Hj].
    + rewrite step_p_nonsubmit in Hs by exact I. exact (step_mono _ _ _ _ j Hs Hj).
    + rewrite step_p_nonsubmit in Hs by exact I. exact (step_mono _ _ _ _ j Hs Hj).
    + rewrite step_p_nonsubmit in Hs by exact I. exact (step_mono _ _ _ _ j Hs Hj).
  - rewrite step_p_nonsubmit in Hs by exact I. exact (step_mono _ _ _ _ j Hs Hj).
Qed.

Lemma step_p_submitted_fresh : forall ch st e st1 id err,
  sound ch ->
  step_p ch st e = Ok (st1, Resp (SubmitJobResponse (Some id) err)) ->
  jlookup id st = None /\ jlookup id st1 <> None.
Proof.
  intros ch st e st1 id err Hsound Hs.
  destruct e as [rq|s r].
  - destruct rq as [ds ok|ids|j' d|].
    + cbn [step_p handle_fe_p] in Hs.
      destruct (spawn_job_p ch st ds ok) as [st' rr] eqn:Esp.
      destruct rr as [id'|e']; inversion Hs; subst.
      apply spawn_p_shape in Esp as [(id2 & Hch & Hst & Hr)|(e & _ & _ & Hr)]; [|discriminate].
      destruct ok; inversion Hr; subst. split; [exact (Hsound _ _ _ Hch)|].
      rewrite jlookup_upd, N.eqb_refl. discriminate.
    + rewrite step_p_nonsubmit in Hs by exact I. exact (step_submitted_fresh _ _ _ _ _ Hs).
    + rewrite step_p_nonsubmit in Hs by exact I. exact (step_submitted_fresh _ _ _ _ _ Hs).
    + rewrite step_p_nonsubmit in Hs by exact I. exact (step_submitted_fresh _ _ _ _ _ Hs).
  - rewrite step_p_nonsubmit in Hs by exact I. exact (step_submitted_fresh _ _ _ _ _ Hs).
Qed.

(* ids handed out are pairwise distinct and were untracked at the start: for EVERY sound
   chooser, i.e. whenever the value handed out is the value that was tested *)
Theorem run_p_submitted : forall ch, sound ch -> forall evs st outs fin,
  run_p ch st evs = (outs, fin) ->
  NoDup (submitted outs) /\ forall id, In id (submitted outs) -> jlookup id st = None.
Proof.
  intros ch Hsound. induction evs as [|e evs IH]; intros st outs fin Hr; cbn [run_p] in Hr.
  - inversion Hr; subst. cbn. split; [constructor|intros id []].
  - destruct (step_p ch st e) as [[st1 o]|k] eqn:Es.
    + destruct (run_p ch st1 evs) as [os fin'] eqn:Er. inversion Hr; subst; clear Hr.
      destruct (IH _ _ _ Er) as [Hnd Hfr].
      assert (Hback : forall id, In id (submitted os) -> jlookup id st = None).
      { intros id Hin. specialize (Hfr id Hin). destruct (jlookup id st) eqn:E; [|reflexivity].
        exfalso. apply (step_p_mono _ _ _ _ _ id Es); [rewrite E; discriminate|exact Hfr]. }
      unfold submitted. cbn [flat_map]. fold (submitted os).
      destruct o as [[[id|] err|ps err|rb err|]| |]; cbn [app]; try (split; [exact Hnd|exact Hback]).
      destruct (step_p_submitted_fresh _ _ _ _ _ _ Hsound Es) as [Hf1 Hf2]. split.
      * constructor; [|exact Hnd]. intro Hin. apply Hf2. exact (Hfr id Hin).
      * intros id' [Heq|Hin]; [subst id'; exact Hf1|exact (Hback id' Hin)].
    + inversion Hr; subst. cbn. split; [constructor|intros id []].
Qed.

(* whatever the rendering -- injective or not (a 12-digit prefix is not) -- as long as it is
   applied inside the generator that next_uuid draws from *)
Theorem ids_never_reused_any_rendering : forall render evs outs fin,
  run_p (choose_rendered render) [] evs = (outs, fin) -> NoDup (submitted outs).
Proof.
  intros render evs outs fin H.
  exact (proj1 (run_p_submitted _ (rendered_sound render) evs [] outs fin H)).
Qed.

(* post-processing that cannot merge two tested values keeps the chooser sound only in the
   trivial case; the statement that matters is the negative one below *)
Lemma post_id_sound : forall test, sound (choose_post test (fun c => c)).
Proof.
  intros test st ds id H. unfold choose_post in H.
  destruct (next_uuid st (map test ds)) as [c|e] eqn:E; cbn in H; [|discriminate].
  inversion H; subst. exact (proj1 (next_uuid_fresh _ _ _ E)).
Qed.

(* ------------------------------------------------------------------ the failing behaviour *)
(* next_uuid tests the full value, the 48-bit prefix is taken afterwards: the SAME draw is
   handed out twice, the second submission replaces the first job's record. *)
Definition ex_draw_a : N := 5 + 2 ^ 48 * 77.
Definition ex_draw_b : N := 5 + 2 ^ 48 * 99.      (* another uuid with the same 48 bits *)
Definition ex_reuse : list event := [
  Fe (SubmitJobRequest [ex_draw_a] true);
  Ctl 5%N (mkReport 5%N (Some "40.00") 1000 [((1, 2)%N, [7%N])]);
  Fe (JobProgressRequest [5%N]);
  Fe (SubmitJobRequest [ex_draw_a; ex_draw_b] true);
  Fe (JobProgressRequest []);
  Fe (ResultRetrievalRequest 5%N (1, 2)%N)
].

Theorem test_then_truncate_refuted :
  exists evs outs st,
    run_p (choose_post (fun d => d) trunc48) [] evs = (outs, Ok st) /\
    ~ NoDup (submitted outs) /\
    nth_error outs 2 = Some (Resp (JobProgressResponse [(5%N, "40.00")] None)) /\
    nth_error outs 4 = Some (Resp (JobProgressResponse [(5%N, "0.00")] None)) /\
    nth_error outs 5 = Some (Resp (ResultRetrievalResponse None (Some "KeyError"))).
Proof.
  exists ex_reuse. eexists _, _. split; [vm_compute; reflexivity|].
  split; [|repeat split; vm_compute; reflexivity].
  vm_compute. intro H. inversion H as [|x l Hn Hd]; subst. apply Hn. left. reflexivity.
Qed.

(* the same source, the same two draws, truncation inside the generator: a second draw is
   taken, both records survive *)
Example truncate_inside_generator_fine :
  exists outs st,
    run_p (choose_rendered trunc48) [] ex_reuse = (outs, Ok st) /\
    nth_error outs 3 = Some (Resp (SubmitJobResponse None (Some "RuntimeError"))) /\
    nth_error outs 4 = Some (Resp (JobProgressResponse [(5%N, "40.00")] None)).
Proof. eexists _, _. repeat split; vm_compute; reflexivity. Qed.
