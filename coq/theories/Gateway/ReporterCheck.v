(* Executable checker used by harness/c18.py: what the REAL Reporter put on the wire for a call, against the model
   (Gateway/Reporter.v).  The progress string of a send_progress call is taken from the wire (opaque in the model); the
   job id, the kind of report, the results and the timestamp (= the reading of the clock the Reporter took in the call)
   are compared. *)
From Coq Require Import List NArith ZArith String Bool.
From EKW Require Import Gateway.Router Gateway.RouterCheck Gateway.Reporter.
Import ListNotations.

Definition report_eqb (a b : report) : bool :=
  N.eqb (r_job a) (r_job b) && opt_eqb String.eqb (r_status a) (r_status b) && Z.eqb (r_ts a) (r_ts b) &&
  list_eqb (fun x y => ds_eqb (fst x) (fst y) && list_eqb N.eqb (snd x) (snd y)) (r_results a) (r_results b).

(* per call: the job the Reporter was made for, the clock reading, the call, the messages seen on the wire *)
Definition check_sends (c : list (jobid * Z * call * list report)) : bool :=
  forallb (fun x => let '(j, now, cl, wire) := x in list_eqb report_eqb (reporter j [(now, cl)]) wire) c.
