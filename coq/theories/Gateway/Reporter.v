(* Executable model of the controller's end of the report channel:
     src/cascade/controller/report.py  (Reporter.send_progress / send_result / shutdown)
   A call of a Reporter method puts ONE ControllerReport on the wire, stamped with the job id the
   Reporter was made for and a timestamp.  How the timestamp is obtained is a parameter
   (`stamp now` = what the report carries when the controller's clock reads `now` at the call),
   so that the code as it is (monotonic_ns() evaluated inside the call: the identity) can be compared
   with other ways (evaluated once, a coarser clock ...).  The progress string computed by
   send_progress ("{:.2%}"[:-1] of the finished fraction) is opaque here.
   No proofs in this file. *)
From Coq Require Import List NArith ZArith String Bool.
From EKW Require Import Gateway.Router.
Import ListNotations.
Open Scope string_scope.

Inductive call : Type :=
| SendProgress (p : string)
| SendResult (d : dsid) (b : bytes)
| SendShutdown.

Definition emit (j : jobid) (t : Z) (c : call) : report :=
  match c with
  | SendProgress p => mkReport j (Some p) t []
  | SendResult d b => mkReport j None t [(d, b)]
  | SendShutdown => mkReport j (Some JobProgressShutdown) t []
  end.

(* the calls a controller makes, each with the reading of its clock at the call -> the wire *)
Definition reporter_with (stamp : Z -> Z) (j : jobid) (calls : list (Z * call)) : list report :=
  map (fun tc => emit j (stamp (fst tc)) (snd tc)) calls.

(* the code as it is *)
Definition reporter : jobid -> list (Z * call) -> list report := reporter_with (fun now => now).

(* a Reporter whose timestamp was evaluated once (at import / construction time t0) *)
Definition reporter_frozen (t0 : Z) : jobid -> list (Z * call) -> list report := reporter_with (fun _ => t0).

(* the network: the k-th delivery hands over the message with that index (any order, repeats, omissions) *)
Definition deliveries (j : jobid) (wire : list report) (picks : list nat) : list event :=
  flat_map (fun k => match nth_error wire k with Some r => [Ctl j r] | None => [] end) picks.
