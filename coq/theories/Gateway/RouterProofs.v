(* Proofs about the gateway model (Gateway/Router.v).  All statements are over arbitrary
   histories (lists of events) -- induction, no size bound. *)
From Coq Require Import List NArith ZArith String Bool Lia.
From EKW Require Import Gateway.Router.
Import ListNotations.
Open Scope string_scope.
Open Scope list_scope.

(* ------------------------------------------------------------------ dict facts *)
Section DictFacts.
  Context {K V : Type} (eqb : K -> K -> bool).
  Hypothesis eqb_eq : forall a b, eqb a b = true <-> a = b.

  Lemma eqb_refl' : forall a, eqb a a = true.
  Proof. intro a. apply eqb_eq. reflexivity. Qed.

  Lemma eqb_neq : forall a b, a <> b -> eqb a b = false.
  Proof.
    intros a b Hn. destruct (eqb a b) eqn:E; [|reflexivity].
    apply eqb_eq in E. contradiction.
  Qed.

  Lemma lookup_upd_same : forall (k : K) (v : V) d, lookup eqb k (upd eqb k v d) = Some v.
  Proof.
    intros k v d. induction d as [|[k' v'] r IH]; cbn.
    - rewrite eqb_refl'. reflexivity.
    - destruct (eqb k k') eqn:E; cbn; rewrite E; [reflexivity|exact IH].
  Qed.

  Lemma lookup_upd_other : forall (k k' : K) (v : V) d,
    k <> k' -> lookup eqb k' (upd eqb k v d) = lookup eqb k' d.
  Proof.
    intros k k' v d Hn. induction d as [|[k0 v0] r IH]; cbn.
    - rewrite eqb_neq; [reflexivity|congruence].
    - destruct (eqb k k0) eqn:E; cbn.
      + apply eqb_eq in E. subst k0. rewrite eqb_neq; [|congruence].
        reflexivity.
      + destruct (eqb k' k0); [reflexivity|exact IH].
  Qed.

  Lemma in_upd : forall (k : K) (v : V) d k' v',
    In (k', v') (upd eqb k v d) -> (k' = k /\ v' = v) \/ In (k', v') d.
  Proof.
    intros k v d k' v'. induction d as [|[k0 v0] r IH]; cbn.
    - intros [H|[]]. inversion H. left. split; reflexivity.
    - destruct (eqb k k0) eqn:E; cbn.
      + apply eqb_eq in E. subst k0. intros [H|H].
        * inversion H. left. split; reflexivity.
        * right. right. exact H.
      + intros [H|H].
        * right. left. exact H.
        * destruct (IH H) as [H'|H']; [left; exact H'|right; right; exact H'].
  Qed.

  Lemma lookup_in_keys : forall (k : K) (d : list (K * V)),
    In k (map fst d) -> lookup eqb k d <> None.
  Proof.
    intros k d. induction d as [|[k0 v0] r IH]; cbn.
    - intros [].
    - intros [H|H].
      + subst k0. rewrite eqb_refl'. discriminate.
      + destruct (eqb k k0); [discriminate|exact (IH H)].
  Qed.

  Lemma lookup_some_in_keys : forall (k : K) (d : list (K * V)) v,
    lookup eqb k d = Some v -> In k (map fst d).
  Proof.
    intros k d v. induction d as [|[k0 v0] r IH]; cbn.
    - discriminate.
    - destruct (eqb k k0) eqn:E.
      + apply eqb_eq in E. intros _. left. symmetry. exact E.
      + intros H. right. exact (IH H).
  Qed.

  Lemma upd_keys : forall (k : K) (v : V) d k',
    In k' (map fst (upd eqb k v d)) <-> k' = k \/ In k' (map fst d).
  Proof.
    intros k v d k'. induction d as [|[k0 v0] r IH]; cbn.
    - intuition.
    - destruct (eqb k k0) eqn:E; cbn.
      + apply eqb_eq in E. subst k0. intuition.
      + rewrite IH. intuition.
  Qed.
End DictFacts.

Lemma Neqb_eq : forall a b : N, N.eqb a b = true <-> a = b.
Proof. exact N.eqb_eq. Qed.

Lemma ds_eqb_eq : forall a b : dsid, ds_eqb a b = true <-> a = b.
Proof.
  intros [a1 a2] [b1 b2]. unfold ds_eqb. cbn. rewrite andb_true_iff, !N.eqb_eq.
  split; [intros [H1 H2]; subst; reflexivity|intros H; inversion H; split; reflexivity].
Qed.

(* ------------------------------------------------------------------ jlookup after the state changes *)
Lemma jlookup_set_job : forall j i f st,
  jlookup j (set_job i f st) = if N.eqb j i then option_map f (jlookup j st) else jlookup j st.
Proof.
  intros j i f st. unfold jlookup. induction st as [|[k v] r IH]; cbn.
  - destruct (N.eqb j i); reflexivity.
  - destruct (N.eqb_spec i k) as [Hik|Hik]; cbn.
    + subst k. destruct (N.eqb_spec j i) as [Hji|Hji]; reflexivity.
    + destruct (N.eqb_spec j k) as [Hjk|Hjk].
      * subst k. destruct (N.eqb_spec j i) as [Hji|Hji]; [congruence|reflexivity].
      * exact IH.
Qed.

Lemma jlookup_upd : forall j i v st,
  jlookup j (upd N.eqb i v st) = if N.eqb j i then Some v else jlookup j st.
Proof.
  intros j i v st. unfold jlookup. destruct (N.eqb_spec j i) as [H|H].
  - subst. apply (lookup_upd_same N.eqb Neqb_eq).
  - apply (lookup_upd_other N.eqb Neqb_eq). congruence.
Qed.

(* what the three mutators do to the Job object *)
Definition mu_fun (p : option string) (ts : Z) (jb : job) : job :=
  match p with
  | None => jb
  | Some p =>
      if String.eqb p JobProgressShutdown then mkJob (progress jb) (last_seen jb) (results jb) false
      else if (last_seen jb >=? ts)%Z then jb
      else mkJob p ts (results jb) (registered jb)
  end.

Definition pr_fun (jb : job) (x : dsid * bytes) : job :=
  mkJob (progress jb) (last_seen jb) (upd ds_eqb (fst x) (snd x) (results jb)) (registered jb).

Definition hc_fun (r : report) (jb : job) : job :=
  fold_left pr_fun (r_results r) (mu_fun (r_status r) (r_ts r) jb).

Lemma option_map_id : forall A (o : option A), option_map (fun x => x) o = o.
Proof. intros A [a|]; reflexivity. Qed.

Lemma mu_lookup : forall st i p ts st',
  maybe_update st i p ts = Ok st' ->
  forall j, jlookup j st' = if N.eqb j i then option_map (mu_fun p ts) (jlookup j st) else jlookup j st.
Proof.
  intros st i p ts st' H j. unfold maybe_update in H. unfold mu_fun.
  destruct p as [p|].
  - destruct (jlookup i st) as [jb|] eqn:Ei; [|discriminate].
    destruct (String.eqb p JobProgressShutdown).
    + destruct (registered jb) eqn:Er; [|discriminate]. inversion H; subst st'; clear H.
      rewrite jlookup_set_job. reflexivity.
    + destruct (N.eqb_spec j i) as [Hji|Hji].
      * subst j. rewrite Ei. cbn [option_map].
        destruct (last_seen jb >=? ts)%Z eqn:Eg; inversion H; subst st'; clear H.
        -- exact Ei.
        -- rewrite jlookup_set_job, N.eqb_refl, Ei. reflexivity.
      * destruct (last_seen jb >=? ts)%Z; inversion H; subst st'; clear H.
        -- reflexivity.
        -- rewrite jlookup_set_job. apply N.eqb_neq in Hji. rewrite Hji. reflexivity.
  - inversion H; subst st'. destruct (N.eqb j i); [|reflexivity].
    symmetry. apply option_map_id.
Qed.

Lemma mu_tracked : forall st i p ts st',
  maybe_update st i p ts = Ok st' -> p <> None -> jlookup i st <> None.
Proof.
  intros st i p ts st' H Hp. unfold maybe_update in H. destruct p as [p|]; [|congruence].
  destruct (jlookup i st); [discriminate|discriminate].
Qed.

Lemma pr_lookup : forall st i d b st',
  put_result st i d b = Ok st' ->
  jlookup i st <> None /\
  forall j, jlookup j st' = if N.eqb j i then option_map (fun jb => pr_fun jb (d, b)) (jlookup j st) else jlookup j st.
Proof.
  intros st i d b st' H. unfold put_result in H.
  destruct (jlookup i st) as [jb|] eqn:Ei; [|discriminate]. inversion H; subst st'; clear H.
  split; [discriminate|]. intro j. rewrite jlookup_set_job. reflexivity.
Qed.

Lemma option_map_comp : forall A B C (f : A -> B) (g : B -> C) (o : option A),
  option_map g (option_map f o) = option_map (fun x => g (f x)) o.
Proof. intros A B C f g [a|]; reflexivity. Qed.

Lemma prs_lookup : forall rs st i st',
  put_results st i rs = Ok st' ->
  (rs <> [] -> jlookup i st <> None) /\
  forall j, jlookup j st' = if N.eqb j i then option_map (fun jb => fold_left pr_fun rs jb) (jlookup j st) else jlookup j st.
Proof.
  induction rs as [|[d b] rs IH]; intros st i st' H; cbn in H.
  - inversion H; subst st'. split; [congruence|]. intro j. cbn.
    destruct (N.eqb j i); [symmetry; apply option_map_id|reflexivity].
  - destruct (put_result st i d b) as [st1|e] eqn:E1; cbn in H; [|discriminate].
    apply pr_lookup in E1 as [Ht E1]. apply IH in H as [_ H].
    split; [intros _; exact Ht|]. intro j. rewrite H, E1.
    destruct (N.eqb j i); [|reflexivity]. rewrite option_map_comp. reflexivity.
Qed.

Lemma hc_lookup : forall st r st',
  handle_controller st r = Ok st' ->
  forall j, jlookup j st' = if N.eqb j (r_job r) then option_map (hc_fun r) (jlookup j st) else jlookup j st.
Proof.
  intros st r st' H j. unfold handle_controller in H.
  destruct (maybe_update st (r_job r) (r_status r) (r_ts r)) as [st1|e] eqn:E1; cbn in H; [|discriminate].
  apply prs_lookup in H as [_ H]. rewrite H, (mu_lookup _ _ _ _ _ E1).
  destruct (N.eqb j (r_job r)); [|reflexivity]. rewrite option_map_comp. reflexivity.
Qed.

Lemma hc_tracked : forall st r st',
  handle_controller st r = Ok st' -> r_status r <> None \/ r_results r <> [] -> jlookup (r_job r) st <> None.
Proof.
  intros st r st' H Hne. unfold handle_controller in H.
  destruct (maybe_update st (r_job r) (r_status r) (r_ts r)) as [st1|e] eqn:E1; cbn in H; [|discriminate].
  destruct Hne as [Hs|Hr].
  - exact (mu_tracked _ _ _ _ _ E1 Hs).
  - apply prs_lookup in H as [Ht _]. specialize (Ht Hr).
    rewrite (mu_lookup _ _ _ _ _ E1), N.eqb_refl in Ht.
    destruct (jlookup (r_job r) st); [discriminate|exact Ht].
Qed.

(* field by field *)
Lemma fold_pr_fields : forall rs jb,
  progress (fold_left pr_fun rs jb) = progress jb /\
  last_seen (fold_left pr_fun rs jb) = last_seen jb /\
  registered (fold_left pr_fun rs jb) = registered jb.
Proof.
  induction rs as [|x rs IH]; intro jb; cbn; [repeat split|].
  destruct (IH (pr_fun jb x)) as (H1 & H2 & H3). rewrite H1, H2, H3. repeat split.
Qed.

(* ------------------------------------------------------------------ next_uuid / spawn *)
Lemma next_uuid_fresh : forall cands st id, next_uuid st cands = Ok id -> jlookup id st = None /\ In id cands.
Proof.
  induction cands as [|c r IH]; intros st id H; cbn in H; [discriminate|].
  destruct (jlookup c st) eqn:E.
  - destruct (IH _ _ H) as [H1 H2]. split; [exact H1|right; exact H2].
  - inversion H; subst. split; [exact E|left; reflexivity].
Qed.

Definition new_job : job := mkJob JobProgressStarted (-1)%Z [] true.

Lemma spawn_lookup : forall st cands ok st' r,
  spawn_job st cands ok = (st', r) ->
  (exists id, next_uuid st cands = Ok id /\ jlookup id st = None /\
              st' = upd N.eqb id new_job st /\ r = (if ok then Ok id else Err "OSError")) \/
  (exists e, next_uuid st cands = Err e /\ st' = st /\ r = Err e).
Proof.
  intros st cands ok st' r H. unfold spawn_job in H.
  destruct (next_uuid st cands) as [id|e] eqn:E.
  - left. exists id. inversion H; subst. destruct (next_uuid_fresh _ _ _ E) as [Hf _].
    repeat split; try reflexivity. exact Hf.
  - right. exists e. inversion H; subst. repeat split.
Qed.

(* ------------------------------------------------------------------ queries do not change the state *)
Definition is_query (rq : request) : bool :=
  match rq with SubmitJobRequest _ _ => false | _ => true end.

Lemma query_state : forall st rq, is_query rq = true -> fst (handle_fe st rq) = st.
Proof.
  intros st rq H. destruct rq as [c ok|ids|j d|]; cbn in *; [discriminate| | |reflexivity].
  - destruct (progress_of st ids); reflexivity.
  - destruct (get_result st j d); reflexivity.
Qed.

(* ------------------------------------------------------------------ run: composition *)
Lemma run_app : forall a st b,
  run st (a ++ b) =
  match run st a with
  | (oa, Ok st1) => let '(ob, fin) := run st1 b in (oa ++ ob, fin)
  | (oa, Err k) => (oa, Err k)
  end.
Proof.
  induction a as [|e a IH]; intros st b; cbn.
  - destruct (run st b); reflexivity.
  - destruct (step st e) as [[st1 o]|k]; [|reflexivity].
    rewrite IH. destruct (run st1 a) as [oa [st2|k]].
    + destruct (run st2 b) as [ob fin]. reflexivity.
    + reflexivity.
Qed.

Lemma run_cons_ok : forall st e r outs st',
  run st (e :: r) = (outs, Ok st') ->
  exists st1 o os, step st e = Ok (st1, o) /\ run st1 r = (os, Ok st') /\ outs = o :: os.
Proof.
  intros st e r outs st' H. cbn in H. destruct (step st e) as [[st1 o]|k]; [|discriminate].
  destruct (run st1 r) as [os fin] eqn:E. inversion H; subst. exists st1, o, os. split; [reflexivity|split; [exact E|reflexivity]].
Qed.

(* the reports that handle_controller actually received: read from a registered socket *)
Fixpoint handled (evs : list event) (outs : list output) : list report :=
  match evs, outs with
  | Ctl _ r :: evs', Handled :: outs' => r :: handled evs' outs'
  | _ :: evs', _ :: outs' => handled evs' outs'
  | _, _ => []
  end.

Lemma step_output_shape : forall st e st1 o,
  step st e = Ok (st1, o) ->
  match e, o with
  | Fe rq, Resp rs => handle_fe st rq = (st1, rs)
  | Ctl s r, Handled => polled st s = true /\ handle_controller st r = Ok st1
  | Ctl s r, Dropped => polled st s = false /\ st1 = st
  | _, _ => False
  end.
Proof.
  intros st e st1 o H. destruct e as [rq|s r]; cbn in H.
  - destruct (handle_fe st rq) as [st' rs]. inversion H; subst. reflexivity.
  - destruct (polled st s) eqn:Ep.
    + destruct (handle_controller st r) as [st'|k]; cbn in H; [|discriminate].
      inversion H; subst. split; reflexivity.
    + inversion H; subst. split; reflexivity.
Qed.

(* ------------------------------------------------------------------ generic per-job invariant *)
(* A projection of the Job object that every handled report folds its own items into. *)
Section PerJob.
  Variables (X I : Type) (proj : job -> X) (items : report -> list I) (g : X -> I -> X).
  Hypothesis proj_hc : forall r jb, proj (hc_fun r jb) = fold_left g (items r) (proj jb).
  Hypothesis items_tracked : forall st r st',
    handle_controller st r = Ok st' -> items r <> [] -> jlookup (r_job r) st <> None.

  Definition items_for (j : jobid) (rs : list report) : list I :=
    flat_map (fun r => if N.eqb (r_job r) j then items r else []) rs.

  Definition PInv (j : jobid) (st : state) (L : list I) : Prop :=
    match jlookup j st with
    | Some jb => proj jb = fold_left g L (proj new_job)
    | None => L = []
    end.

  Lemma step_PInv : forall j st e st1 o L,
    step st e = Ok (st1, o) -> PInv j st L -> PInv j st1 (L ++ items_for j (handled [e] [o])).
  Proof.
    intros j st e st1 o L Hs HI. pose proof (step_output_shape _ _ _ _ Hs) as Hsh.
    destruct e as [rq|s r]; destruct o as [rs| |]; try contradiction; cbn [handled items_for flat_map].
    - (* frontend request *)
      rewrite app_nil_r. destruct rq as [cands ok|ids|j' d|].
      + cbn in Hsh. destruct (spawn_job st cands ok) as [st' res] eqn:Esp.
        assert (st' = st1) by (destruct res; inversion Hsh; reflexivity). subst st'.
        apply spawn_lookup in Esp as [(id & _ & Hfresh & Hst & _)|(e & _ & Hst & _)].
        * subst st1. unfold PInv in *. rewrite jlookup_upd.
          destruct (N.eqb_spec j id) as [Hj|Hj]; [|exact HI].
          subst j. rewrite Hfresh in HI. subst L. reflexivity.
        * subst st1. exact HI.
      + pose proof (query_state st (JobProgressRequest ids) eq_refl) as Hq. rewrite Hsh in Hq. cbn in Hq. subst st1. exact HI.
      + pose proof (query_state st (ResultRetrievalRequest j' d) eq_refl) as Hq. rewrite Hsh in Hq. cbn in Hq. subst st1. exact HI.
      + cbn in Hsh. inversion Hsh; subst. exact HI.
    - (* handled report *)
      destruct Hsh as [_ Hhc]. rewrite app_nil_r. unfold PInv in *.
      rewrite (hc_lookup _ _ _ Hhc j). rewrite (N.eqb_sym (r_job r) j).
      destruct (N.eqb_spec j (r_job r)) as [Hj|Hj].
      + subst j. destruct (jlookup (r_job r) st) as [jb|] eqn:El; cbn.
        * rewrite proj_hc, HI, fold_left_app. reflexivity.
        * subst L. cbn. destruct (items r) as [|x xs] eqn:Ei; [reflexivity|].
          exfalso. apply (items_tracked _ _ _ Hhc); [rewrite Ei; discriminate|exact El].
      + rewrite app_nil_r. exact HI.
    - (* dropped report *)
      destruct Hsh as [_ Hst]. subst st1. rewrite app_nil_r. exact HI.
  Qed.

  Lemma handled_cons : forall e o evs outs,
    handled (e :: evs) (o :: outs) = handled [e] [o] ++ handled evs outs.
  Proof.
    intros e o evs outs. destruct e as [rq|s r]; destruct o; reflexivity.
  Qed.

  Lemma items_for_app : forall j a b, items_for j (a ++ b) = items_for j a ++ items_for j b.
  Proof. intros j a b. unfold items_for. apply flat_map_app. Qed.

  Lemma run_PInv : forall j evs st outs st' L,
    run st evs = (outs, Ok st') -> PInv j st L -> PInv j st' (L ++ items_for j (handled evs outs)).
  Proof.
    intros j evs. induction evs as [|e evs IH]; intros st outs st' L Hr HI.
    - cbn in Hr. inversion Hr; subst. cbn. rewrite app_nil_r. exact HI.
    - apply run_cons_ok in Hr as (st1 & o & os & Hs & Hr & ->).
      rewrite handled_cons, items_for_app, app_assoc.
      apply (IH _ _ _ _ Hr). exact (step_PInv _ _ _ _ _ _ Hs HI).
  Qed.

  Theorem run_proj : forall j evs outs st jb,
    run [] evs = (outs, Ok st) -> jlookup j st = Some jb ->
    proj jb = fold_left g (items_for j (handled evs outs)) (proj new_job).
  Proof.
    intros j evs outs st jb Hr Hl.
    pose proof (run_PInv j evs [] outs st [] Hr eq_refl) as H. unfold PInv in H.
    rewrite Hl in H. exact H.
  Qed.

  Theorem run_untracked_no_items : forall j evs outs st,
    run [] evs = (outs, Ok st) -> jlookup j st = None -> items_for j (handled evs outs) = [].
  Proof.
    intros j evs outs st Hr Hl.
    pose proof (run_PInv j evs [] outs st [] Hr eq_refl) as H. unfold PInv in H.
    rewrite Hl in H. exact H.
  Qed.
End PerJob.

(* ------------------------------------------------------------------ instance 1: progress *)
(* a progress report = a report whose status is neither None nor "Shutdown" *)
Definition prog_of (r : report) : list (Z * string) :=
  match r_status r with
  | Some p => if String.eqb p JobProgressShutdown then [] else [(r_ts r, p)]
  | None => []
  end.

(* the guard of maybe_update, on the pair (last_seen, progress) *)
Definition accept (v : Z * string) (x : Z * string) : Z * string :=
  if (fst v >=? fst x)%Z then v else x.

Definition view (jb : job) : Z * string := (last_seen jb, progress jb).

Lemma view_hc : forall r jb, view (hc_fun r jb) = fold_left accept (prog_of r) (view jb).
Proof.
  intros r jb. unfold hc_fun, view.
  destruct (fold_pr_fields (r_results r) (mu_fun (r_status r) (r_ts r) jb)) as (H1 & H2 & _).
  rewrite H1, H2. unfold prog_of, mu_fun. destruct (r_status r) as [p|]; [|reflexivity].
  destruct (String.eqb p JobProgressShutdown); [reflexivity|].
  cbn [fold_left]. unfold accept. cbn [fst snd].
  destruct (last_seen jb >=? r_ts r)%Z; reflexivity.
Qed.

Lemma prog_tracked : forall st r st',
  handle_controller st r = Ok st' -> prog_of r <> [] -> jlookup (r_job r) st <> None.
Proof.
  intros st r st' H Hne. apply (hc_tracked _ _ _ H). left. unfold prog_of in Hne.
  destruct (r_status r); [discriminate|congruence].
Qed.

Definition progress_reports (j : jobid) (evs : list event) (outs : list output) : list (Z * string) :=
  items_for _ prog_of j (handled evs outs).

Definition started : Z * string := ((-1)%Z, JobProgressStarted).

(* the pair kept by folding the guard over a list of reports, characterised *)
Definition newest_of (L : list (Z * string)) (v0 v : Z * string) : Prop :=
  (v = v0 /\ forall x, In x L -> (fst x <= fst v0)%Z) \/
  (exists l1 l2, L = l1 ++ v :: l2 /\ (fst v0 < fst v)%Z /\
                 (forall x, In x l1 -> (fst x < fst v)%Z) /\
                 (forall x, In x l2 -> (fst x <= fst v)%Z)).

Lemma fold_accept_newest : forall L v0, newest_of L v0 (fold_left accept L v0).
Proof.
  induction L as [|x L IH]; intro v0; cbn [fold_left].
  - left. split; [reflexivity|intros x []].
  - unfold accept at 2. destruct (fst v0 >=? fst x)%Z eqn:E.
    + apply Z.geb_le in E. pose proof (IH v0) as H. remember (fold_left accept L v0) as v eqn:Ev. clear Ev.
      destruct H as [[Hv Hall]|(l1 & l2 & HL & Hlt & H1 & H2)].
      * left. split; [exact Hv|]. intros y [Hy|Hy]; [subst y; exact E|exact (Hall y Hy)].
      * right. exists (x :: l1), l2. split; [rewrite HL; reflexivity|]. split; [exact Hlt|]. split; [|exact H2].
        intros y [Hy|Hy]; [subst y; lia|exact (H1 y Hy)].
    + assert (Hlt0 : (fst v0 < fst x)%Z).
      { destruct (Z.geb_spec (fst v0) (fst x)); [discriminate|lia]. }
      pose proof (IH x) as H. remember (fold_left accept L x) as v eqn:Ev. clear Ev.
      destruct H as [[Hv Hall]|(l1 & l2 & HL & Hlt & H1 & H2)].
      * right. exists [], L. rewrite Hv. split; [reflexivity|]. split; [exact Hlt0|]. split; [intros y []|exact Hall].
      * right. exists (x :: l1), l2. split; [rewrite HL; reflexivity|]. split; [lia|]. split; [|exact H2].
        intros y [Hy|Hy]; [subst y; exact Hlt|exact (H1 y Hy)].
Qed.

(* the state of a tracked job after any history the gateway survived *)
Theorem progress_state_newest : forall j evs outs st jb,
  run [] evs = (outs, Ok st) -> jlookup j st = Some jb ->
  newest_of (progress_reports j evs outs) started (last_seen jb, progress jb).
Proof.
  intros j evs outs st jb Hr Hl.
  pose proof (run_proj _ _ view prog_of accept view_hc prog_tracked j evs outs st jb Hr Hl) as H.
  unfold view in H at 1. rewrite H. apply fold_accept_newest.
Qed.

(* progress_of: what a JobProgressResponse contains *)
Lemma progress_comprehension_sound : forall st ids acc ps,
  progress_comprehension st ids acc = Ok ps ->
  forall j p, In (j, p) ps -> In (j, p) acc \/ (In j ids /\ exists jb, jlookup j st = Some jb /\ progress jb = p).
Proof.
  intros st ids. induction ids as [|i ids IH]; intros acc ps H j p Hin; cbn in H.
  - inversion H; subst. left. exact Hin.
  - destruct (jlookup i st) as [jb|] eqn:Ei; [|discriminate].
    destruct (IH _ _ H j p Hin) as [Ha|(Hi & jb' & Hl & Hp)].
    + apply (in_upd N.eqb Neqb_eq) in Ha as [[Hj Hp]|Ha]; [|left; exact Ha].
      subst. right. split; [left; reflexivity|]. exists jb. split; [exact Ei|reflexivity].
    + right. split; [right; exact Hi|]. exists jb'. split; assumption.
Qed.

Lemma progress_comprehension_keys : forall st ids acc ps,
  progress_comprehension st ids acc = Ok ps ->
  forall j, In j (map fst ps) <-> In j ids \/ In j (map fst acc).
Proof.
  intros st ids. induction ids as [|i ids IH]; intros acc ps H j; cbn in H.
  - inversion H; subst. cbn. tauto.
  - destruct (jlookup i st) as [jb|] eqn:Ei; [|discriminate].
    rewrite (IH _ _ H j), (upd_keys N.eqb Neqb_eq). cbn. split; intros Hx; intuition (subst; auto).
Qed.

Lemma progress_comprehension_ok : forall st ids acc,
  (forall i, In i ids -> jlookup i st <> None) -> exists ps, progress_comprehension st ids acc = Ok ps.
Proof.
  intros st ids. induction ids as [|i ids IH]; intros acc Hall; cbn.
  - exists acc. reflexivity.
  - destruct (jlookup i st) as [jb|] eqn:Ei.
    + apply IH. intros k Hk. apply Hall. right. exact Hk.
    + exfalso. apply (Hall i); [left; reflexivity|exact Ei].
Qed.

Lemma progress_comprehension_err : forall st ids acc i,
  In i ids -> jlookup i st = None -> progress_comprehension st ids acc = Err "KeyError".
Proof.
  intros st ids. induction ids as [|k ids IH]; intros acc i Hin Hn; cbn; [destruct Hin|].
  destruct (jlookup k st) as [jb|] eqn:Ek.
  - destruct Hin as [Hk|Hin]; [subst; congruence|]. exact (IH _ _ Hin Hn).
  - reflexivity.
Qed.

(* the job ids a JobProgressRequest asks about: the empty list means every tracked job *)
Definition asked (st : state) (ids : list jobid) : list jobid :=
  match ids with [] => map fst st | _ => ids end.

Lemma progress_of_asked : forall st ids, progress_of st ids = progress_comprehension st (asked st ids) [].
Proof. intros st ids. unfold progress_of, asked. destruct ids; reflexivity. Qed.

Lemma tracked_keys : forall st i, In i (map fst st) -> jlookup i st <> None.
Proof. intros st i. apply (lookup_in_keys N.eqb Neqb_eq). Qed.

(* ------------------------------------------------------------------ instance 2: results *)
Definition uploads_of (d : dsid) (r : report) : list bytes :=
  map snd (filter (fun x => ds_eqb (fst x) d) (r_results r)).

Definition keep_last (_ : option bytes) (b : bytes) : option bytes := Some b.

Lemma mu_results : forall p ts jb, results (mu_fun p ts jb) = results jb.
Proof.
  intros p ts jb. unfold mu_fun. destruct p as [p|]; [|reflexivity].
  destruct (String.eqb p JobProgressShutdown); [reflexivity|].
  destruct (last_seen jb >=? ts)%Z; reflexivity.
Qed.

Lemma fold_pr_results : forall d rs jb,
  lookup ds_eqb d (results (fold_left pr_fun rs jb)) =
  fold_left keep_last (map snd (filter (fun x => ds_eqb (fst x) d) rs)) (lookup ds_eqb d (results jb)).
Proof.
  intros d rs. induction rs as [|[d' b] rs IH]; intro jb; cbn [fold_left filter map fst snd]; [reflexivity|].
  rewrite IH. unfold pr_fun. cbn [results fst snd].
  destruct (ds_eqb d' d) eqn:E.
  - apply ds_eqb_eq in E. subst d'. rewrite (lookup_upd_same ds_eqb ds_eqb_eq). reflexivity.
  - rewrite (lookup_upd_other ds_eqb ds_eqb_eq); [reflexivity|].
    intro Heq. subst d'. rewrite (proj2 (ds_eqb_eq d d) eq_refl) in E. discriminate.
Qed.

Lemma results_hc : forall d r jb,
  lookup ds_eqb d (results (hc_fun r jb)) = fold_left keep_last (uploads_of d r) (lookup ds_eqb d (results jb)).
Proof.
  intros d r jb. unfold hc_fun, uploads_of. rewrite fold_pr_results, mu_results. reflexivity.
Qed.

Lemma uploads_tracked : forall d st r st',
  handle_controller st r = Ok st' -> uploads_of d r <> [] -> jlookup (r_job r) st <> None.
Proof.
  intros d st r st' H Hne. apply (hc_tracked _ _ _ H). right. unfold uploads_of in Hne.
  destruct (r_results r); [exfalso; apply Hne; reflexivity|discriminate].
Qed.

(* every payload handle_controller received for (job j, dataset d), in arrival order *)
Definition uploads (j : jobid) (d : dsid) (evs : list event) (outs : list output) : list bytes :=
  items_for _ (uploads_of d) j (handled evs outs).

Lemma keep_last_spec : forall L o,
  fold_left keep_last L o = match rev L with [] => o | b :: _ => Some b end.
Proof.
  induction L as [|b L IH]; intro o; cbn [fold_left rev]; [reflexivity|].
  rewrite IH. destruct (rev L); reflexivity.
Qed.

Theorem results_state_last : forall j d evs outs st jb,
  run [] evs = (outs, Ok st) -> jlookup j st = Some jb ->
  lookup ds_eqb d (results jb) = match rev (uploads j d evs outs) with [] => None | b :: _ => Some b end.
Proof.
  intros j d evs outs st jb Hr Hl.
  pose proof (run_proj _ _ (fun jb => lookup ds_eqb d (results jb)) (uploads_of d) keep_last
                (results_hc d) (uploads_tracked d) j evs outs st jb Hr Hl) as H.
  cbn beta in H. rewrite H, keep_last_spec. reflexivity.
Qed.

Theorem results_untracked_none : forall j d evs outs st,
  run [] evs = (outs, Ok st) -> jlookup j st = None -> uploads j d evs outs = [].
Proof.
  intros j d evs outs st Hr Hl.
  exact (run_untracked_no_items _ _ (fun jb => lookup ds_eqb d (results jb)) (uploads_of d) keep_last
           (results_hc d) (uploads_tracked d) j evs outs st Hr Hl).
Qed.

(* ------------------------------------------------------------------ instance 3: the socket stays registered until the first shutdown report *)
Definition is_shutdown (r : report) : bool :=
  match r_status r with Some p => String.eqb p JobProgressShutdown | None => false end.

Definition shut_of (r : report) : list unit := if is_shutdown r then [tt] else [].

Definition unreg (_ : bool) (_ : unit) : bool := false.

Lemma registered_hc : forall r jb, registered (hc_fun r jb) = fold_left unreg (shut_of r) (registered jb).
Proof.
  intros r jb. unfold hc_fun.
  destruct (fold_pr_fields (r_results r) (mu_fun (r_status r) (r_ts r) jb)) as (_ & _ & H3). rewrite H3.
  unfold shut_of, is_shutdown, mu_fun. destruct (r_status r) as [p|]; [|reflexivity].
  destruct (String.eqb p JobProgressShutdown); [reflexivity|].
  destruct (last_seen jb >=? r_ts r)%Z; reflexivity.
Qed.

Lemma shut_tracked : forall st r st',
  handle_controller st r = Ok st' -> shut_of r <> [] -> jlookup (r_job r) st <> None.
Proof.
  intros st r st' H Hne. apply (hc_tracked _ _ _ H). left. unfold shut_of, is_shutdown in Hne.
  destruct (r_status r); [discriminate|exfalso; apply Hne; reflexivity].
Qed.

Definition shutdowns (j : jobid) (evs : list event) (outs : list output) : list unit :=
  items_for _ shut_of j (handled evs outs).

Theorem polled_until_shutdown : forall j evs outs st,
  run [] evs = (outs, Ok st) ->
  polled st j = true <-> (jlookup j st <> None /\ shutdowns j evs outs = []).
Proof.
  intros j evs outs st Hr. unfold polled. destruct (jlookup j st) as [jb|] eqn:El.
  - pose proof (run_proj _ _ registered shut_of unreg registered_hc shut_tracked j evs outs st jb Hr El) as H.
    rewrite H. fold (shutdowns j evs outs). destruct (shutdowns j evs outs) as [|u L]; cbn.
    + split; [intros _; split; [discriminate|reflexivity]|reflexivity].
    + assert (Hf : forall L b, fold_left unreg L b = match L with [] => b | _ => false end).
      { induction L0 as [|u0 L0 IH]; intro b; cbn; [reflexivity|]. rewrite IH. destruct L0; reflexivity. }
      rewrite Hf. split; [destruct L; discriminate|intros [_ Hn]; discriminate].
  - split; [discriminate|intros [Hn _]; congruence].
Qed.

(* ------------------------------------------------------------------ ids *)
Definition submitted (outs : list output) : list jobid :=
  flat_map (fun o => match o with Resp (SubmitJobResponse (Some id) _) => [id] | _ => [] end) outs.

Lemma step_mono : forall st e st1 o j,
  step st e = Ok (st1, o) -> jlookup j st <> None -> jlookup j st1 <> None.
Proof.
  intros st e st1 o j Hs Hj. pose proof (step_output_shape _ _ _ _ Hs) as Hsh.
  destruct e as [rq|s r]; destruct o as [rs| |]; try contradiction.
  - destruct rq as [cands ok|ids|j' d|].
    + cbn in Hsh. destruct (spawn_job st cands ok) as [st' res] eqn:Esp.
      assert (st' = st1) by (destruct res; inversion Hsh; reflexivity). subst st'.
      apply spawn_lookup in Esp as [(id & _ & _ & Hst & _)|(e & _ & Hst & _)]; subst st1; [|exact Hj].
      rewrite jlookup_upd. destruct (N.eqb j id); [discriminate|exact Hj].
    + pose proof (query_state st (JobProgressRequest ids) eq_refl) as Hq. rewrite Hsh in Hq. cbn in Hq. subst st1. exact Hj.
    + pose proof (query_state st (ResultRetrievalRequest j' d) eq_refl) as Hq. rewrite Hsh in Hq. cbn in Hq. subst st1. exact Hj.
    + cbn in Hsh. inversion Hsh; subst. exact Hj.
  - destruct Hsh as [_ Hhc]. rewrite (hc_lookup _ _ _ Hhc j).
    destruct (N.eqb j (r_job r)); [|exact Hj]. destruct (jlookup j st); [discriminate|congruence].
  - destruct Hsh as [_ Hst]. subst st1. exact Hj.
Qed.

Lemma step_submitted_fresh : forall st e st1 id err,
  step st e = Ok (st1, Resp (SubmitJobResponse (Some id) err)) -> jlookup id st = None /\ jlookup id st1 <> None.
Proof.
  intros st e st1 id err Hs. pose proof (step_output_shape _ _ _ _ Hs) as Hsh.
  destruct e as [rq|s r]; [|contradiction].
  destruct rq as [cands ok|ids|j' d|]; cbn in Hsh.
  - destruct (spawn_job st cands ok) as [st' res] eqn:Esp.
    destruct res as [id'|e']; inversion Hsh; subst.
    apply spawn_lookup in Esp as [(id2 & _ & Hfresh & Hst & Hr)|(e & _ & _ & Hr)]; [|discriminate].
    destruct ok; inversion Hr; subst. split; [exact Hfresh|].
    rewrite jlookup_upd, N.eqb_refl. discriminate.
  - destruct (progress_of st ids); inversion Hsh.
  - destruct (get_result st j' d); inversion Hsh.
  - inversion Hsh.
Qed.

Lemma run_submitted : forall evs st outs fin,
  run st evs = (outs, fin) ->
  NoDup (submitted outs) /\ forall id, In id (submitted outs) -> jlookup id st = None.
Proof.
  induction evs as [|e evs IH]; intros st outs fin Hr; cbn in Hr.
  - inversion Hr; subst. cbn. split; [constructor|intros id []].
  - destruct (step st e) as [[st1 o]|k] eqn:Es.
    + destruct (run st1 evs) as [os fin'] eqn:Er. inversion Hr; subst; clear Hr.
      destruct (IH _ _ _ Er) as [Hnd Hfr].
      assert (Hback : forall id, In id (submitted os) -> jlookup id st = None).
      { intros id Hin. specialize (Hfr id Hin). destruct (jlookup id st) eqn:E; [|reflexivity].
        exfalso. apply (step_mono _ _ _ _ id Es); [rewrite E; discriminate|exact Hfr]. }
      unfold submitted. cbn [flat_map]. fold (submitted os).
      destruct o as [[[id|] err|ps err|rb err|]| |]; cbn [app]; try (split; [exact Hnd|exact Hback]).
      destruct (step_submitted_fresh _ _ _ _ _ Es) as [Hf1 Hf2]. split.
      * constructor; [|exact Hnd]. intro Hin. apply Hf2. exact (Hfr id Hin).
      * intros id' [Heq|Hin]; [subst id'; exact Hf1|exact (Hback id' Hin)].
    + inversion Hr; subst. cbn. split; [constructor|intros id []].
Qed.

(* ------------------------------------------------------------------ the loop is never left *)
Definition own_socket (e : event) : Prop :=
  match e with Fe _ => True | Ctl s r => s = r_job r end.

Lemma put_results_ok : forall rs st j, jlookup j st <> None -> exists st', put_results st j rs = Ok st'.
Proof.
  induction rs as [|[d b] rs IH]; intros st j Hj; cbn.
  - exists st. reflexivity.
  - unfold put_result at 1. destruct (jlookup j st) as [jb|] eqn:El; [|congruence]. cbn [bind].
    apply IH. rewrite jlookup_set_job, N.eqb_refl, El. discriminate.
Qed.

Lemma step_own_ok : forall st e, own_socket e -> exists st1 o, step st e = Ok (st1, o).
Proof.
  intros st e Hown. destruct e as [rq|s r]; cbn.
  - destruct (handle_fe st rq) as [st' rs]. exists st', (Resp rs). reflexivity.
  - cbn in Hown. subst s. unfold polled. destruct (jlookup (r_job r) st) as [jb|] eqn:El.
    + destruct (registered jb) eqn:Er.
      * assert (Hmu : exists st1, maybe_update st (r_job r) (r_status r) (r_ts r) = Ok st1 /\ jlookup (r_job r) st1 <> None).
        { destruct (maybe_update st (r_job r) (r_status r) (r_ts r)) as [st1|k] eqn:Em.
          - exists st1. split; [reflexivity|]. rewrite (mu_lookup _ _ _ _ _ Em), N.eqb_refl, El. discriminate.
          - exfalso. unfold maybe_update in Em. destruct (r_status r) as [p|]; [|discriminate].
            rewrite El in Em. destruct (String.eqb p JobProgressShutdown).
            + rewrite Er in Em. discriminate.
            + destruct (last_seen jb >=? r_ts r)%Z; discriminate. }
        destruct Hmu as (st1 & Hm & Ht). unfold handle_controller. rewrite Hm. cbn [bind].
        destruct (put_results_ok (r_results r) st1 (r_job r) Ht) as [st2 H2]. rewrite H2. cbn [bind].
        exists st2, Handled. reflexivity.
      * exists st, Dropped. reflexivity.
    + exists st, Dropped. reflexivity.
Qed.

Theorem run_own_ok : forall evs st, Forall own_socket evs -> exists outs st', run st evs = (outs, Ok st') /\ List.length outs = List.length evs.
Proof.
  induction evs as [|e evs IH]; intros st Hall; cbn.
  - exists [], st. split; reflexivity.
  - inversion Hall as [|? ? He Hrest]; subst.
    destruct (step_own_ok st e He) as (st1 & o & Hs). rewrite Hs.
    destruct (IH st1 Hrest) as (os & st' & Hr & Hlen). rewrite Hr.
    exists (o :: os), st'. split; [reflexivity|cbn; rewrite Hlen; reflexivity].
Qed.

(* ------------------------------------------------------------------ a query is local: the rest of the history is served as without it *)
Theorem query_is_local : forall pre q post st opre st1 opost fin,
  is_query q = true ->
  run st pre = (opre, Ok st1) -> run st1 post = (opost, fin) ->
  run st (pre ++ post) = (opre ++ opost, fin) /\
  run st (pre ++ Fe q :: post) = (opre ++ Resp (snd (handle_fe st1 q)) :: opost, fin).
Proof.
  intros pre q post st opre st1 opost fin Hq Hpre Hpost. split.
  - rewrite run_app, Hpre, Hpost. reflexivity.
  - rewrite run_app, Hpre. cbn [run step].
    pose proof (query_state st1 q Hq) as Hst. destruct (handle_fe st1 q) as [st2 rs]. cbn in Hst. subst st2.
    rewrite Hpost. reflexivity.
Qed.

(* ------------------------------------------------------------------ response-level statements *)
Theorem progress_response_newest : forall pre opre st ids st' ps,
  run [] pre = (opre, Ok st) ->
  handle_fe st (JobProgressRequest ids) = (st', JobProgressResponse ps None) ->
  st' = st /\
  (forall j, In j (map fst ps) <-> In j (asked st ids)) /\
  forall j p, In (j, p) ps ->
    (p = JobProgressStarted /\ forall x, In x (progress_reports j pre opre) -> (fst x <= -1)%Z) \/
    (exists t l1 l2, progress_reports j pre opre = l1 ++ (t, p) :: l2 /\ (-1 < t)%Z /\
       (forall x, In x l1 -> (fst x < t)%Z) /\ (forall x, In x l2 -> (fst x <= t)%Z)).
Proof.
  intros pre opre st ids st' ps Hr Hfe. cbn in Hfe.
  destruct (progress_of st ids) as [ps'|e] eqn:Ep; inversion Hfe; subst; clear Hfe.
  split; [reflexivity|]. rewrite progress_of_asked in Ep. split.
  - intro j. rewrite (progress_comprehension_keys _ _ _ _ Ep j). cbn. tauto.
  - intros j p Hin.
    destruct (progress_comprehension_sound _ _ _ _ Ep j p Hin) as [[]|(_ & jb & Hl & Hp)].
    pose proof (progress_state_newest j pre opre st' jb Hr Hl) as Hn. rewrite Hp in Hn.
    destruct Hn as [[Hv Hall]|(l1 & l2 & HL & Hlt & H1 & H2)].
    + left. split; [unfold started in Hv; congruence|exact Hall].
    + right. exists (last_seen jb), l1, l2. repeat split; assumption.
Qed.

Theorem known_jobs_answered : forall st ids,
  (forall i, In i (asked st ids) -> jlookup i st <> None) ->
  exists ps, handle_fe st (JobProgressRequest ids) = (st, JobProgressResponse ps None).
Proof.
  intros st ids Hall. cbn. rewrite progress_of_asked.
  destruct (progress_comprehension_ok st (asked st ids) [] Hall) as [ps Hp]. rewrite Hp.
  exists ps. reflexivity.
Qed.

Theorem all_jobs_answered : forall st, exists ps, handle_fe st (JobProgressRequest []) = (st, JobProgressResponse ps None).
Proof. intro st. apply known_jobs_answered. cbn. apply tracked_keys. Qed.

Theorem unknown_job_progress_error : forall st ids j,
  In j ids -> jlookup j st = None ->
  handle_fe st (JobProgressRequest ids) = (st, JobProgressResponse [] (Some "KeyError")).
Proof.
  intros st ids j Hin Hn. cbn. rewrite progress_of_asked.
  assert (Ha : asked st ids = ids) by (destruct ids; [destruct Hin|reflexivity]). rewrite Ha.
  rewrite (progress_comprehension_err st ids [] j Hin Hn). reflexivity.
Qed.

Theorem unknown_result_error : forall st j d,
  (jlookup j st = None \/ exists jb, jlookup j st = Some jb /\ lookup ds_eqb d (results jb) = None) ->
  handle_fe st (ResultRetrievalRequest j d) = (st, ResultRetrievalResponse None (Some "KeyError")).
Proof.
  intros st j d [Hn|(jb & Hl & Hd)]; cbn; unfold get_result.
  - rewrite Hn. reflexivity.
  - rewrite Hl, Hd. reflexivity.
Qed.

Theorem result_response_exact : forall pre opre st j d,
  run [] pre = (opre, Ok st) ->
  handle_fe st (ResultRetrievalRequest j d) =
    (st, match rev (uploads j d pre opre) with
         | b :: _ => ResultRetrievalResponse (Some b) None
         | [] => ResultRetrievalResponse None (Some "KeyError")
         end).
Proof.
  intros pre opre st j d Hr. cbn. unfold get_result. destruct (jlookup j st) as [jb|] eqn:El.
  - rewrite (results_state_last j d pre opre st jb Hr El). destruct (rev (uploads j d pre opre)); reflexivity.
  - rewrite (results_untracked_none j d pre opre st Hr El). reflexivity.
Qed.

Theorem shutdown_keeps_progress : forall st r st',
  handle_controller st r = Ok st' -> is_shutdown r = true ->
  forall j, option_map progress (jlookup j st') = option_map progress (jlookup j st).
Proof.
  intros st r st' H Hs j. rewrite (hc_lookup _ _ _ H j). destruct (N.eqb j (r_job r)); [|reflexivity].
  destruct (jlookup j st) as [jb|]; [|reflexivity]. cbn [option_map]. f_equal.
  pose proof (view_hc r jb) as Hv. unfold prog_of in Hv. unfold is_shutdown in Hs.
  destruct (r_status r) as [p|]; [|discriminate]. rewrite Hs in Hv. cbn in Hv.
  unfold view in Hv. inversion Hv. reflexivity.
Qed.

Lemma submitted_app : forall a b, submitted (a ++ b) = submitted a ++ submitted b.
Proof. intros a b. unfold submitted. apply flat_map_app. Qed.

Theorem submit_response_fresh : forall pre opre st cands ok st' id err,
  run [] pre = (opre, Ok st) ->
  handle_fe st (SubmitJobRequest cands ok) = (st', SubmitJobResponse (Some id) err) ->
  jlookup id st = None /\ jlookup id st' <> None /\ ~ In id (submitted opre) /\ In id cands.
Proof.
  intros pre opre st cands ok st' id err Hr Hfe.
  assert (Hs : step st (Fe (SubmitJobRequest cands ok)) = Ok (st', Resp (SubmitJobResponse (Some id) err))).
  { cbn [step]. rewrite Hfe. reflexivity. }
  destruct (step_submitted_fresh _ _ _ _ _ Hs) as [H1 H2]. split; [exact H1|]. split; [exact H2|]. split.
  - pose proof (run_app pre [] [Fe (SubmitJobRequest cands ok)]) as Ha. rewrite Hr in Ha. cbn [run] in Ha.
    rewrite Hs in Ha. apply run_submitted in Ha as [Hnd _]. rewrite submitted_app in Hnd. cbn in Hnd.
    intro Hin. apply NoDup_remove_2 in Hnd. apply Hnd. rewrite app_nil_r. exact Hin.
  - cbn in Hfe. destruct (spawn_job st cands ok) as [st2 res] eqn:Esp.
    destruct res as [id'|e']; inversion Hfe; subst.
    apply spawn_lookup in Esp as [(id2 & Hn & _ & _ & Hres)|(e & _ & _ & Hres)]; [|discriminate].
    destruct ok; inversion Hres; subst. exact (proj2 (next_uuid_fresh _ _ _ Hn)).
Qed.
