(* Executable model of the cascade gateway:
     src/cascade/gateway/router.py  (Job, JobRouter: spawn_job, progress_of, get_result,
                                     maybe_update, put_result)
     src/cascade/gateway/server.py  (handle_fe, handle_controller, the dispatch of `serve`)
     src/cascade/low/func.py        (next_uuid)
   Job ids, task names and output names are numbers (the harness maps the strings
   injectively); progress values are strings, as in the code, because the code compares
   them with the literal "Shutdown"; timestamps are unbounded integers (Z); result
   payloads are byte lists.  Every Python `raise` is an `Err kind`.
   No proofs in this file. *)
From Coq Require Import List NArith ZArith String Bool.
Import ListNotations.
Open Scope string_scope.

Inductive res (A : Type) : Type := Ok (a : A) | Err (e : string).
Arguments Ok {A} a.
Arguments Err {A} e.

Definition bind {A B} (r : res A) (f : A -> res B) : res B :=
  match r with Ok a => f a | Err e => Err e end.

(* ------------------------------------------------------------------ Python dict *)
(* insertion-ordered association list; d[k] = v overwrites in place or appends *)
Section Dict.
  Context {K V : Type} (eqb : K -> K -> bool).

  Fixpoint lookup (k : K) (d : list (K * V)) : option V :=
    match d with
    | [] => None
    | (k', v) :: r => if eqb k k' then Some v else lookup k r
    end.

  Fixpoint upd (k : K) (v : V) (d : list (K * V)) : list (K * V) :=
    match d with
    | [] => [(k, v)]
    | (k', v') :: r => if eqb k k' then (k', v) :: r else (k', v') :: upd k v r
    end.
End Dict.

(* ------------------------------------------------------------------ data *)
Definition jobid := N.
Definition dsid := (N * N)%type.              (* DatasetId(task, output): frozen dataclass, eq/hash by fields *)
Definition bytes := list N.

Definition ds_eqb (a b : dsid) : bool := N.eqb (fst a) (fst b) && N.eqb (snd a) (snd b).

Definition JobProgressStarted : string := "0.00".
Definition JobProgressShutdown : string := "Shutdown".

(* router.Job; `registered` stands for "job.socket is registered in the poller" *)
Record job : Type := mkJob {
  progress : string;
  last_seen : Z;
  results : list (dsid * bytes);
  registered : bool
}.

(* JobRouter.jobs : dict[str, Job] *)
Definition state := list (jobid * job).

Definition jlookup (j : jobid) (st : state) : option job := lookup N.eqb j st.

(* in-place mutation of the Job object stored under key j *)
Fixpoint set_job (j : jobid) (f : job -> job) (st : state) : state :=
  match st with
  | [] => []
  | (k, v) :: r => if N.eqb j k then (k, f v) :: r else (k, v) :: set_job j f r
  end.

(* controller.report.ControllerReport *)
Record report : Type := mkReport {
  r_job : jobid;
  r_status : option string;
  r_ts : Z;
  r_results : list (dsid * bytes)
}.

(* ------------------------------------------------------------------ router.py *)
(* low.func.next_uuid(self.jobs.keys(), g): the generator g is a script of candidates
   (the harness scripts uuid.uuid4 the same way); an exhausted script raises *)
Fixpoint next_uuid (st : state) (cands : list jobid) : res jobid :=
  match cands with
  | [] => Err "RuntimeError"
  | c :: r => match jlookup c st with Some _ => next_uuid st r | None => Ok c end
  end.

(* JobRouter.spawn_job: the job is entered in the table and its socket registered
   BEFORE _spawn_subprocess runs, so a failing spawn leaves the entry behind *)
Definition spawn_job (st : state) (cands : list jobid) (spawn_ok : bool) : state * res jobid :=
  match next_uuid st cands with
  | Err e => (st, Err e)
  | Ok id =>
      let st' := upd N.eqb id (mkJob JobProgressStarted (-1)%Z [] true) st in
      (st', if spawn_ok then Ok id else Err "OSError")
  end.

(* the dict comprehension {job_id: self.jobs[job_id].progress for job_id in job_ids} *)
Fixpoint progress_comprehension (st : state) (ids : list jobid) (acc : list (jobid * string))
  : res (list (jobid * string)) :=
  match ids with
  | [] => Ok acc
  | i :: r => match jlookup i st with
              | None => Err "KeyError"
              | Some jb => progress_comprehension st r (upd N.eqb i (progress jb) acc)
              end
  end.

(* JobRouter.progress_of: an empty list means all jobs *)
Definition progress_of (st : state) (ids : list jobid) : res (list (jobid * string)) :=
  let ids' := match ids with [] => map fst st | _ => ids end in
  progress_comprehension st ids' [].

(* JobRouter.get_result *)
Definition get_result (st : state) (j : jobid) (d : dsid) : res bytes :=
  match jlookup j st with
  | None => Err "KeyError"
  | Some jb => match lookup ds_eqb d (results jb) with
               | None => Err "KeyError"
               | Some b => Ok b
               end
  end.

(* JobRouter.maybe_update (with the fix: last_seen is recorded).
   poller.unregister of a socket that is not registered raises KeyError (zmq.Poller). *)
Definition maybe_update (st : state) (j : jobid) (p : option string) (ts : Z) : res state :=
  match p with
  | None => Ok st
  | Some p =>
      match jlookup j st with
      | None => Err "KeyError"
      | Some jb =>
          if String.eqb p JobProgressShutdown then
            if registered jb
            then Ok (set_job j (fun x => mkJob (progress x) (last_seen x) (results x) false) st)
            else Err "KeyError"
          else if (last_seen jb >=? ts)%Z then Ok st
          else Ok (set_job j (fun x => mkJob p ts (results x) (registered x)) st)
      end
  end.

(* JobRouter.put_result *)
Definition put_result (st : state) (j : jobid) (d : dsid) (b : bytes) : res state :=
  match jlookup j st with
  | None => Err "KeyError"
  | Some _ => Ok (set_job j (fun x => mkJob (progress x) (last_seen x) (upd ds_eqb d b (results x)) (registered x)) st)
  end.

(* ------------------------------------------------------------------ server.py *)
Fixpoint put_results (st : state) (j : jobid) (rs : list (dsid * bytes)) : res state :=
  match rs with
  | [] => Ok st
  | (d, b) :: r => bind (put_result st j d b) (fun st' => put_results st' j r)
  end.

(* server.handle_controller: nothing is caught, an exception leaves the serve loop *)
Definition handle_controller (st : state) (r : report) : res state :=
  bind (maybe_update st (r_job r) (r_status r) (r_ts r)) (fun st' =>
  put_results st' (r_job r) (r_results r)).

(* gateway.api requests / responses.  SubmitJob carries what the harness scripts:
   the uuid candidates and whether _spawn_subprocess succeeds. *)
Inductive request : Type :=
| SubmitJobRequest (cands : list jobid) (spawn_ok : bool)
| JobProgressRequest (ids : list jobid)
| ResultRetrievalRequest (j : jobid) (d : dsid)
| ShutdownRequest.

(* error = Some kind : the exception class of the repr(e) carried by the response *)
Inductive response : Type :=
| SubmitJobResponse (job_id : option jobid) (error : option string)
| JobProgressResponse (progresses : list (jobid * string)) (error : option string)
| ResultRetrievalResponse (result : option bytes) (error : option string)
| ShutdownResponse.

(* server.handle_fe: every router call sits in its own try/except *)
Definition handle_fe (st : state) (rq : request) : state * response :=
  match rq with
  | SubmitJobRequest cands ok =>
      match spawn_job st cands ok with
      | (st', Ok id) => (st', SubmitJobResponse (Some id) None)
      | (st', Err e) => (st', SubmitJobResponse None (Some e))
      end
  | JobProgressRequest ids =>
      match progress_of st ids with
      | Ok ps => (st, JobProgressResponse ps None)
      | Err e => (st, JobProgressResponse [] (Some e))
      end
  | ResultRetrievalRequest j d =>
      match get_result st j d with
      | Ok b => (st, ResultRetrievalResponse (Some b) None)
      | Err e => (st, ResultRetrievalResponse None (Some e))
      end
  | ShutdownRequest => (st, ShutdownResponse)
  end.

(* ------------------------------------------------------------------ serve loop *)
(* One iteration of the dispatch in `serve`: a frontend request, or a controller report
   arriving on the PULL socket that was created for job `sock`.  A socket that is not
   (any more) registered in the poller is never read: the report is dropped. *)
Inductive event : Type :=
| Fe (rq : request)
| Ctl (sock : jobid) (r : report).

Inductive output : Type :=
| Resp (r : response)
| Handled
| Dropped.

Definition polled (st : state) (sock : jobid) : bool :=
  match jlookup sock st with Some jb => registered jb | None => false end.

Definition step (st : state) (ev : event) : res (state * output) :=
  match ev with
  | Fe rq => let '(st', r) := handle_fe st rq in Ok (st', Resp r)
  | Ctl sock r =>
      if polled st sock
      then bind (handle_controller st r) (fun st' => Ok (st', Handled))
      else Ok (st, Dropped)
  end.

(* the outputs produced until the history ends or an exception leaves the loop *)
Fixpoint run (st : state) (evs : list event) : list output * res state :=
  match evs with
  | [] => ([], Ok st)
  | e :: r => match step st e with
              | Err k => ([], Err k)
              | Ok (st', o) => let '(os, fin) := run st' r in (o :: os, fin)
              end
  end.
