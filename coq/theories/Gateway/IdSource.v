(* Where the gateway's job ids come from (round 5).
     src/cascade/gateway/router.py  JobRouter.spawn_job:
         job_id = next_uuid(self.jobs.keys(), lambda: str(uuid.uuid4()))
   Router.v lets the harness script the *ids* uuid4 yields.  That cannot express a whole
   family of behaviours: what the id source yields is a `draw` (the 128-bit value of a
   uuid.UUID object), the job id is a *rendering* of it (str(u), u.hex, a prefix of it ...)
   and the code is free to apply the membership test of next_uuid to one rendering and to
   hand out another.  Here the way spawn_job obtains its id is a parameter (`chooser`):

     choose_rendered render      the code as it is: the generator passed to next_uuid
                                 renders, so the test sees exactly the id handed out
     choose_post test post       next_uuid tests `test draw`, the value it returns is
                                 post-processed afterwards: the id handed out is
                                 `post (test draw)` and was never compared with the table

   and the serve loop is re-stated over a chooser (`run_p`).  For `choose_rendered` it is
   `Router.run` on the rendered history (IdSourceProofs.run_p_rendered), which is what the
   correspondence checker evaluates.  A reused id overwrites the dict entry in place
   (self.jobs[job_id] = Job(...)), as `upd` does.
   No proofs in this file. *)
From Coq Require Import List NArith ZArith String Bool.
From EKW Require Import Gateway.Router.
Import ListNotations.
Open Scope string_scope.

Notation draw := N (only parsing).

Definition chooser := state -> list draw -> res jobid.

Definition choose_rendered (render : draw -> jobid) : chooser :=
  fun st ds => next_uuid st (map render ds).

Definition choose_post (test : draw -> jobid) (post : jobid -> jobid) : chooser :=
  fun st ds => bind (next_uuid st (map test ds)) (fun c => Ok (post c)).

Section Policy.
  Variable ch : chooser.

  (* JobRouter.spawn_job with the id obtained by `ch` *)
  Definition spawn_job_p (st : state) (ds : list draw) (spawn_ok : bool) : state * res jobid :=
    match ch st ds with
    | Err e => (st, Err e)
    | Ok id =>
        let st' := upd N.eqb id (mkJob JobProgressStarted (-1)%Z [] true) st in
        (st', if spawn_ok then Ok id else Err "OSError")
    end.

  (* server.handle_fe; SubmitJobRequest now carries draws *)
  Definition handle_fe_p (st : state) (rq : request) : state * response :=
    match rq with
    | SubmitJobRequest ds ok =>
        match spawn_job_p st ds ok with
        | (st', Ok id) => (st', SubmitJobResponse (Some id) None)
        | (st', Err e) => (st', SubmitJobResponse None (Some e))
        end
    | _ => handle_fe st rq
    end.

  Definition step_p (st : state) (ev : event) : res (state * output) :=
    match ev with
    | Fe rq => let '(st', r) := handle_fe_p st rq in Ok (st', Resp r)
    | Ctl _ _ => step st ev
    end.

  Fixpoint run_p (st : state) (evs : list event) : list output * res state :=
    match evs with
    | [] => ([], Ok st)
    | e :: r => match step_p st e with
                | Err k => ([], Err k)
                | Ok (st', o) => let '(os, fin) := run_p st' r in (o :: os, fin)
                end
    end.
End Policy.

(* a chooser is sound when the id it hands out was absent from the table it was given *)
Definition sound (ch : chooser) : Prop :=
  forall st ds id, ch st ds = Ok id -> jlookup id st = None.

(* the rendered history: what Router.run is given by the correspondence checker *)
Definition render_rq (render : draw -> jobid) (rq : request) : request :=
  match rq with
  | SubmitJobRequest ds ok => SubmitJobRequest (map render ds) ok
  | _ => rq
  end.

Definition render_event (render : draw -> jobid) (e : event) : event :=
  match e with Fe rq => Fe (render_rq render rq) | Ctl _ _ => e end.

(* rendering given as a finite table (the harness observes it on the implementation);
   a draw without an entry is its own id (histories whose candidates are ids already) *)
Definition render_of (tbl : list (draw * jobid)) (d : draw) : jobid :=
  match lookup N.eqb d tbl with Some j => j | None => d end.

(* "12 hex digits": keep 48 bits of the value *)
Definition trunc48 (d : N) : N := N.modulo d (2 ^ 48).
