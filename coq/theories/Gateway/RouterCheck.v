(* Executable checker used by harness/c18.py: the model is run on the same history as the
   real JobRouter / handle_fe / handle_controller and the outputs are compared. *)
From Coq Require Import List NArith ZArith String Bool.
From EKW Require Import Gateway.Router Gateway.IdSource.
Import ListNotations.

Definition opt_eqb {A} (eqb : A -> A -> bool) (a b : option A) : bool :=
  match a, b with
  | Some x, Some y => eqb x y
  | None, None => true
  | _, _ => false
  end.

Fixpoint list_eqb {A} (eqb : A -> A -> bool) (a b : list A) : bool :=
  match a, b with
  | [], [] => true
  | x :: r, y :: s => eqb x y && list_eqb eqb r s
  | _, _ => false
  end.

(* a JSON object / Python dict: compared as a finite map, not as a sequence *)
Definition dict_eqb (a b : list (jobid * string)) : bool :=
  Nat.eqb (List.length a) (List.length b) &&
  forallb (fun kv => opt_eqb String.eqb (lookup N.eqb (fst kv) b) (Some (snd kv))) a &&
  forallb (fun kv => opt_eqb String.eqb (lookup N.eqb (fst kv) a) (Some (snd kv))) b.

Definition response_eqb (a b : response) : bool :=
  match a, b with
  | SubmitJobResponse i e, SubmitJobResponse i' e' => opt_eqb N.eqb i i' && opt_eqb String.eqb e e'
  | JobProgressResponse p e, JobProgressResponse p' e' => dict_eqb p p' && opt_eqb String.eqb e e'
  | ResultRetrievalResponse r e, ResultRetrievalResponse r' e' =>
      opt_eqb (list_eqb N.eqb) r r' && opt_eqb String.eqb e e'
  | ShutdownResponse, ShutdownResponse => true
  | _, _ => false
  end.

Definition output_eqb (a b : output) : bool :=
  match a, b with
  | Resp r, Resp r' => response_eqb r r'
  | Handled, Handled => true
  | Dropped, Dropped => true
  | _, _ => false
  end.

(* (history, outputs observed on the implementation, exception class that left the loop) *)
Definition check_case (c : list event * list output * option string) : bool :=
  let '(evs, outs, crash) := c in
  let '(mouts, fin) := run [] evs in
  list_eqb output_eqb mouts outs &&
  match fin, crash with
  | Ok _, None => true
  | Err k, Some k' => String.eqb k k'
  | _, _ => false
  end.

(* round 5: the history carries the DRAWS of the scripted id source (uuid values) and the
   rendering draw -> job id observed on the implementation (a finite table); the model renders
   inside the generator of next_uuid (IdSource.choose_rendered).  With an empty table a draw
   is its own id: the histories of check_case. *)
Definition check_case_r (c : list (N * jobid) * list event * list output * option string) : bool :=
  let '(tbl, evs, outs, crash) := c in
  let '(mouts, fin) := run_p (choose_rendered (render_of tbl)) [] evs in
  list_eqb output_eqb mouts outs &&
  match fin, crash with
  | Ok _, None => true
  | Err k, Some k' => String.eqb k k'
  | _, _ => false
  end.
