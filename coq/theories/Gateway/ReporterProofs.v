(* Proofs about the controller's Reporter (Gateway/Reporter.v) feeding the gateway model. *)
From Coq Require Import List NArith ZArith String Bool Lia.
From EKW Require Import Gateway.Router Gateway.RouterProofs Gateway.Reporter.
Import ListNotations.
Open Scope string_scope.
Open Scope list_scope.

(* every report of a Reporter names the Reporter's job *)
Lemma reporter_with_job : forall stamp j calls r, In r (reporter_with stamp j calls) -> r_job r = j.
Proof.
  intros stamp j calls r H. unfold reporter_with in H. apply in_map_iff in H.
  destruct H as ((t & c) & <- & _). destruct c; reflexivity.
Qed.

(* the progress item carried by a send_progress call of the code as it is: the clock reading at the call *)
Lemma reporter_progress_item : forall j now p,
  p <> JobProgressShutdown -> prog_of (emit j now (SendProgress p)) = [(now, p)].
Proof.
  intros j now p Hp. unfold prog_of, emit. cbn [r_status r_ts].
  destruct (String.eqb p JobProgressShutdown) eqn:E; [|reflexivity].
  apply String.eqb_eq in E. contradiction.
Qed.

Lemma reporter_other_calls_no_progress : forall j now d b,
  prog_of (emit j now (SendResult d b)) = [] /\ prog_of (emit j now SendShutdown) = [].
Proof. intros. split; reflexivity. Qed.

(* with a frozen stamp every progress item carries the same timestamp *)
Lemma frozen_items_same_stamp : forall t0 j calls r x,
  In r (reporter_frozen t0 j calls) -> In x (prog_of r) -> fst x = t0.
Proof.
  intros t0 j calls r x H Hx. unfold reporter_frozen, reporter_with in H. apply in_map_iff in H.
  destruct H as ((t & c) & <- & _). destruct c; cbn in Hx.
  - unfold prog_of in Hx. cbn in Hx. destruct (String.eqb p JobProgressShutdown); cbn in Hx; [contradiction|].
    destruct Hx as [<-|[]]. reflexivity.
  - contradiction.
  - contradiction.
Qed.

(* what the guard keeps, when at least one received progress report has a timestamp the clock can give *)
Lemma newest_of_is_max : forall D v,
  newest_of D started v -> D <> [] -> (forall x, In x D -> (-1 < fst x)%Z) ->
  In v D /\ forall x, In x D -> (fst x <= fst v)%Z.
Proof.
  intros D v [[_ Hall]|(l1 & l2 & HD & _ & H1 & H2)] Hne Hpos.
  - destruct D as [|x D]; [contradiction|]. exfalso.
    pose proof (Hall x (or_introl eq_refl)) as Ha. pose proof (Hpos x (or_introl eq_refl)) as Hb.
    unfold started in Ha. cbn [fst] in Ha. lia.
  - split.
    + rewrite HD. apply in_or_app. right. left. reflexivity.
    + intros x Hx. rewrite HD in Hx. apply in_app_or in Hx. destruct Hx as [Hx|[Hx|Hx]].
      * pose proof (H1 x Hx). lia.
      * subst x. lia.
      * exact (H2 x Hx).
Qed.

(* After any history the gateway survived, a job that received at least one progress report (timestamps as a
   clock gives them) shows a received report that no received report is newer than ... *)
Theorem shown_is_a_newest_received : forall j evs outs st jb,
  run [] evs = (outs, Ok st) -> jlookup j st = Some jb ->
  progress_reports j evs outs <> [] ->
  (forall x, In x (progress_reports j evs outs) -> (-1 < fst x)%Z) ->
  In (last_seen jb, progress jb) (progress_reports j evs outs) /\
  forall x, In x (progress_reports j evs outs) -> (fst x <= last_seen jb)%Z.
Proof.
  intros j evs outs st jb Hr Hl Hne Hpos.
  exact (newest_of_is_max _ _ (progress_state_newest j evs outs st jb Hr Hl) Hne Hpos).
Qed.

(* ... and when the controller's clock moved between its calls (distinct readings, as with the code as it is on a
   strictly increasing clock) it is THE report of the last call among the received ones: every other one is older *)
Theorem shown_is_the_last_sent : forall j evs outs st jb,
  run [] evs = (outs, Ok st) -> jlookup j st = Some jb ->
  progress_reports j evs outs <> [] ->
  (forall x, In x (progress_reports j evs outs) -> (-1 < fst x)%Z) ->
  (forall x y, In x (progress_reports j evs outs) -> In y (progress_reports j evs outs) -> fst x = fst y -> x = y) ->
  In (last_seen jb, progress jb) (progress_reports j evs outs) /\
  forall x, In x (progress_reports j evs outs) -> x <> (last_seen jb, progress jb) -> (fst x < last_seen jb)%Z.
Proof.
  intros j evs outs st jb Hr Hl Hne Hpos Hinj.
  destruct (shown_is_a_newest_received j evs outs st jb Hr Hl Hne Hpos) as [Hin Hmax].
  split; [exact Hin|]. intros x Hx Hneq. pose proof (Hmax x Hx) as Hle.
  destruct (Z.eq_dec (fst x) (last_seen jb)) as [E|E]; [|lia].
  exfalso. apply Hneq. apply (Hinj x (last_seen jb, progress jb) Hx Hin). exact E.
Qed.

(* concrete runs: one job (id 7), its controller calls send_progress three times, a result, the shutdown notice *)
Definition demo_calls : list (Z * call) :=
  [(1000%Z, SendProgress "25.00"); (2000%Z, SendProgress "50.00"); (2500%Z, SendResult (1%N, 2%N) [192%N; 255%N]);
   (3000%Z, SendProgress "100.00"); (4000%Z, SendShutdown)].

Definition demo (wire : list report) (picks : list nat) : list output :=
  fst (run [] (Fe (SubmitJobRequest [7%N] true) :: deliveries 7%N wire picks ++
               [Fe (JobProgressRequest [7%N]); Fe (ResultRetrievalRequest 7%N (1%N, 2%N))])).

Definition shows (p : string) (outs : list output) : bool :=
  match rev outs with
  | Resp (ResultRetrievalResponse (Some [192%N; 255%N]) None) :: Resp (JobProgressResponse [(7%N, q)] None) :: _ => String.eqb p q
  | _ => false
  end.

(* the code as it is: in order, newest first, with repeats -- always the last progress sent; only what was received counts *)
Example reporter_in_order : shows "100.00" (demo (reporter 7%N demo_calls) [0; 1; 2; 3; 4]%nat) = true.
Proof. vm_compute. reflexivity. Qed.
Example reporter_newest_first : shows "100.00" (demo (reporter 7%N demo_calls) [3; 2; 1; 0; 1; 4; 3]%nat) = true.
Proof. vm_compute. reflexivity. Qed.
Example reporter_partly_received : shows "50.00" (demo (reporter 7%N demo_calls) [1; 0; 2; 4; 3]%nat) = true.
Proof. vm_compute. reflexivity. Qed.

(* a stamp evaluated once: the gateway shows the FIRST progress report it received for ever, in order of sending too
   (results and the shutdown notice still go through) *)
Theorem frozen_stamp_refuted : exists t0 calls picks,
  shows "100.00" (demo (reporter 7%N calls) picks) = true /\
  shows "25.00" (demo (reporter_frozen t0 7%N calls) picks) = true.
Proof. exists 71433906942154%Z, demo_calls, [0; 1; 2; 3; 4]%nat. split; vm_compute; reflexivity. Qed.
