(* C06 -- acknowledged messaging delivers each message exactly once despite loss or dups.
   Model: Net/Frames.v (multipart framing), Net/Reliable.v (ReliableSender, Listener, the loop
   bodies of Bridge.recv_events and Executor.recv_loop, a network that drops / duplicates /
   delays / reorders packets).  A run is an arbitrary list of operations
     OSend a h k | ODeliver i | ODrop i | ODup i | OTick d | OLoop a
   from the initial state; `run c (init t0) ops = Ok w` says no loop body has raised so far. *)
From Coq Require Import List NArith ZArith String Bool.
From EKW Require Import Net.Frames Net.FramesProofs Net.Reliable Net.ReliableLemmas Net.ReliableProofs Net.ReliableMain.
From EKW Require Net.ReliableCheck.
Import ListNotations.
Open Scope list_scope.

(* ---------------------------------------------------------------- exactly once *)
Theorem C06_at_most_once : forall c, (1 <= c_max c)%Z -> forall t0 ops w, run c (init t0) ops = Ok w ->
  forall b ky, deliveries w b ky <= 1.
Proof. exact at_most_once. Qed.

Theorem C06_delivered_was_sent : forall c, (1 <= c_max c)%Z -> forall t0 ops w, run c (init t0) ops = Ok w ->
  forall b ok p, In (ok, p) (w_dlog w b) ->
  exists i sa h k, ok = Some (i, sa) /\ p = PMsg (MApp k) /\ In (sa, i, h, k) (w_sent w) /\ lookup h (c_hosts c sa) = Some b.
Proof. exact delivered_was_sent. Qed.

Theorem C06_exactly_once : forall c, (1 <= c_max c)%Z -> forall t0 ops w, run c (init t0) ops = Ok w ->
  forall sa i h k b, In (sa, i, h, k) (w_sent w) -> lookup h (c_hosts c sa) = Some b ->
  (forall b', b' <> b -> deliveries w b' (i, sa) = 0) /\
  ((deliveries w b (i, sa) = 1 /\ In (Some (i, sa), PMsg (MApp k)) (w_dlog w b)) \/
   (deliveries w b (i, sa) = 0 /\ exists r, In (i, r) (w_infl w sa) /\ (1 <= r_rem r)%Z /\
                                   r_host r = h /\ r_frames r = frames_send i sa (MApp k))).
Proof. exact exactly_once. Qed.

Theorem C06_ack_implies_delivered : forall c, (1 <= c_max c)%Z -> forall t0 ops w, run c (init t0) ops = Ok w ->
  forall sa i h k b, In (sa, i, h, k) (w_sent w) -> lookup h (c_hosts c sa) = Some b ->
  (forall r, ~ In (i, r) (w_infl w sa)) -> deliveries w b (i, sa) = 1.
Proof. exact ack_implies_delivered. Qed.

(* ---------------------------------------------------------------- no silent drop *)
Theorem C06_only_giveup_raises : forall c, (1 <= c_max c)%Z -> forall t0 ops w, run c (init t0) ops = Ok w ->
  forall o e, step c w o = Err e ->
  (e = "retried too many times"%string /\ exists a i r, o = OLoop a /\ c_retry c a = true /\ In (i, r) (w_infl w a) /\
        (r_at r < w_now w - c_grace c a)%Z /\ (r_rem r <= 1)%Z) \/
  (e = "KeyError"%string /\ exists a h k, o = OSend a h k /\ lookup h (c_hosts c a) = None) \/
  e = "bad-op"%string.
Proof. exact only_giveup_raises. Qed.

Theorem C06_retry_progress : forall c, (1 <= c_max c)%Z -> forall t0 ops w, run c (init t0) ops = Ok w ->
  forall a i r w',
  c_retry c a = true -> In (i, r) (w_infl w a) -> (r_at r < w_now w - c_grace c a)%Z ->
  loop_op c w a = Ok w' ->
  forall r', In (i, r') (w_infl w' a) ->
    r' = mkRec (r_host r) (r_frames r) (w_now w) (r_rem r - 1) /\
    exists dst news, lookup (r_host r) (c_hosts c a) = Some dst /\ In (dst, r_frames r) news /\
                     w_wire w' = w_wire w ++ news /\ w_net w' = w_net w ++ news.
Proof. exact retry_progress. Qed.

(* bounded retries: the budget starts at max_retries_per_message (send_budget), every resend takes
   one unit (C06_retry_progress), it never reaches 0 in a state without a raise (C06_exactly_once),
   and the loop iteration that finds an expired record on its last unit raises unless the Ack came *)
Theorem C06_giveup_bound : forall c, (1 <= c_max c)%Z -> forall t0 ops w, run c (init t0) ops = Ok w ->
  forall a i r w',
  c_retry c a = true -> In (i, r) (w_infl w a) -> (r_at r < w_now w - c_grace c a)%Z -> (r_rem r <= 1)%Z ->
  loop_op c w a = Ok w' -> forall r', ~ In (i, r') (w_infl w' a).
Proof. exact giveup_bound. Qed.

Theorem C06_send_budget : forall c w a h k w', send_op c w a h k = Ok w' ->
  In (w_idx w a, mkRec h (frames_send (w_idx w a) a (MApp k)) (w_now w) (c_max c)) (w_infl w' a) /\
  In (a, w_idx w a, h, k) (w_sent w') /\ w_idx w' a = (w_idx w a + 1)%N.
Proof. exact send_budget. Qed.

(* ---------------------------------------------------------------- framing *)
Theorem C06_malformed_rejected : forall data, (forall r, ~ legal data r) -> exists e, parse_full data = Err e.
Proof. exact malformed_rejected. Qed.

Theorem C06_accepted_iff_legal : forall data r, parse_full data = Ok r <-> legal data r.
Proof. exact parse_full_legal_iff. Qed.

Theorem C06_legal_meaning_unique : forall data r r', legal data r -> legal data r' -> r = r'.
Proof. exact legal_functional. Qed.

Theorem C06_framing_roundtrip : forall i a m h v,
  parse_full (frames_send i a m) = Ok (Some (i, a), PMsg m) /\
  parse_full (frames_send_data i a h v) = Ok (Some (i, a), PPayload h v) /\
  parse_full (frames_callback m) = Ok (None, PMsg m).
Proof. intros. split; [apply roundtrip_send | split; [apply roundtrip_send_data | apply roundtrip_callback]]. Qed.

(* ---------------------------------------------------------------- non-vacuity *)
(* controller = address 1 (hosts 0,1 -> executors 10, 11), executors know host 100 = controller;
   grace 800 ms; both loop bodies call maybe_retry (the fixed Executor.recv_loop) *)
Definition ex_eps (retry_exec : bool) : list ReliableCheck.epdesc :=
  [ReliableCheck.EP 1 [(0, 10); (1, 11)]%N 800000000 true false;
   ReliableCheck.EP 10 [(100, 1)]%N 800000000 retry_exec true;
   ReliableCheck.EP 11 [(100, 1)]%N 800000000 retry_exec true]%N.
Definition ex_cfg (mx : Z) : cfg := ReliableCheck.mk_cfg (ex_eps true) mx.

(* executor 10 sends message 7, its frame is lost, the retry is duplicated, both copies arrive,
   the first Ack is lost, the second arrives; meanwhile the controller's message 8 is in flight *)
Definition ex_ops : list op :=
  [OSend 10 100 7; ODrop 0; OTick 800000001; OLoop 10; ODup 0; ODeliver 0; ODeliver 0; OLoop 1; OLoop 1;
   ODrop 0; ODeliver 0; OSend 1 1 8; OLoop 10]%N.

Example C06_exactly_once_nonvacuous :
  exists w, run (ex_cfg 20) (init 0) ex_ops = Ok w /\ In (10, 0, 100, 7)%N (w_sent w) /\ In (1, 0, 1, 8)%N (w_sent w) /\
    deliveries w 1%N (0, 10)%N = 1 /\ w_infl w 10%N = [] /\            (* delivered once, acknowledged *)
    deliveries w 11%N (0, 1)%N = 0 /\ List.length (w_infl w 1%N) = 1 /\  (* not yet delivered, in flight *)
    List.length (w_wire w) = 5.                                        (* 2 sends, 1 retry, 2 acks *)
Proof. eexists. split; [vm_compute; reflexivity|]. vm_compute. repeat split; auto. Qed.

(* the give-up path: with a budget of 2 the second expired iteration raises *)
Example C06_only_giveup_raises_nonvacuous :
  exists w, run (ex_cfg 2) (init 0) [OSend 10 100 7; ODrop 0; OTick 800000001; OLoop 10; ODrop 0; OTick 800000001]%N = Ok w /\
            step (ex_cfg 2) w (OLoop 10%N) = Err "retried too many times"%string.
Proof. eexists. split; [vm_compute; reflexivity|]. vm_compute. reflexivity. Qed.

(* last unit of budget, expired, but the Ack arrives in the same iteration: no raise, record gone *)
Example C06_giveup_bound_nonvacuous :
  exists w r w', run (ex_cfg 2) (init 0) [OSend 10 100 7; ODeliver 0; OLoop 1; OTick 800000001; OLoop 10; ODrop 1; ODeliver 0; OTick 800000001]%N = Ok w /\
    In (0%N, r) (w_infl w 10%N) /\ (r_at r < w_now w - c_grace (ex_cfg 2) 10%N)%Z /\ r_rem r = 1%Z /\
    loop_op (ex_cfg 2) w 10%N = Ok w' /\ w_infl w' 10%N = [].
Proof.
  eexists. eexists. eexists. split; [vm_compute; reflexivity|]. split; [left; reflexivity|].
  split; [vm_compute; reflexivity|]. split; [reflexivity|]. split; vm_compute; reflexivity.
Qed.

Example C06_send_budget_nonvacuous :
  exists w', send_op (ex_cfg 20) (init 0) 10%N 100%N 7%N = Ok w' /\ List.length (w_net w') = 1.
Proof. eexists. split; vm_compute; reflexivity. Qed.

Example C06_retry_progress_nonvacuous :
  exists w r w', run (ex_cfg 20) (init 0) [OSend 10 100 7; ODrop 0; OTick 800000001]%N = Ok w /\
    In (0%N, r) (w_infl w 10%N) /\ (r_at r < w_now w - c_grace (ex_cfg 20) 10%N)%Z /\ loop_op (ex_cfg 20) w 10%N = Ok w' /\
    exists r', In (0%N, r') (w_infl w' 10%N) /\ r_rem r' = 19%Z /\ List.length (w_net w') = 1.
Proof.
  eexists. eexists. eexists. split; [vm_compute; reflexivity|]. split; [left; reflexivity|].
  split; [vm_compute; reflexivity|]. split; [vm_compute; reflexivity|]. eexists. split; [left; reflexivity|]. vm_compute. auto.
Qed.

(* why `c_retry c a = true` is needed: the Executor.recv_loop of the repository before the fix
   (no maybe_retry call) never resends and never raises -- the lost message is dropped silently *)
Example C06_retry_progress_without_retry_call_refuted :
  let c := ReliableCheck.mk_cfg (ex_eps false) 20 in
  exists w, run c (init 0) ([OSend 10 100 7; ODrop 0] ++ List.concat (List.repeat [OTick 800000001; OLoop 10] 30))%N = Ok w /\
    deliveries w 1%N (0, 10)%N = 0 /\ w_net w = [] /\ List.length (w_wire w) = 1 /\
    exists r, w_infl w 10%N = [(0%N, r)] /\ r_rem r = 20%Z.
Proof. eexists. split; [vm_compute; reflexivity|]. vm_compute. repeat split; auto. eexists. split; reflexivity. Qed.

Example C06_framing_nonvacuous :
  (forall r, ~ legal [FSyn 3 1; FSyn 4 1; FMsg (MApp 5)]%N r) /\ parse_full [FSyn 3 1; FSyn 4 1; FMsg (MApp 5)]%N = Err "double-syn"%string /\
  (forall r, ~ legal [FSyn 3 1]%N r) /\ legal [FSyn 3 1; FHdr 2; FJunk 9]%N (Some (3, 1), PPayload 2 (FJunk 9))%N.
Proof.
  split; [intros r H; inversion H|]. split; [reflexivity|]. split; [intros r H; inversion H | constructor].
Qed.

Print Assumptions C06_at_most_once.
Print Assumptions C06_delivered_was_sent.
Print Assumptions C06_exactly_once.
Print Assumptions C06_ack_implies_delivered.
Print Assumptions C06_only_giveup_raises.
Print Assumptions C06_retry_progress.
Print Assumptions C06_giveup_bound.
Print Assumptions C06_send_budget.
Print Assumptions C06_malformed_rejected.
Print Assumptions C06_accepted_iff_legal.
Print Assumptions C06_legal_meaning_unique.
Print Assumptions C06_framing_roundtrip.
