(* C10 -- lowering a graph to a job and running a task preserves what each node computes.
   Model: Low/Into.v (cascade.low.into.node2task / graph2job, views.param_source),
   Low/Runner.v (executor.runner.runner.run with Memory.handle / provide,
   controller.notify.is_last_output_of, the output names and placeholders of fluent.Node),
   Graph/GStore.v + Graph/Export.v (Graph.nodes, serialise), Util/StrOrd.v (byte-wise sort),
   Low/FluentBuild.v (fluent Payload / Node construction over a heap of shared list objects).
   The model is of the fix-carrying worktree (bd210aa exhaustion check, 40ef9de repeated
   placeholder, 7328005 zero-padded fluent output names, 62ec2b5 single-output generators).
   Every theorem holds for ALL callables F, opaque objects D and call behaviours
   `call : F -> args -> kwargs -> raises | returns v (not iterable | an object of kind generator /
   generator-like / iterator / iterable / sequence that yields ys then stops/raises)`,
   all graphs, arities, argument orders and numbers of outputs. *)
From Coq Require Import List String Bool Arith NArith Lia.
From EKW Require Import Graph.GStore Graph.Export Util.StrOrd Low.Into Low.Runner
  Low.RunnerOrdProofs Low.RunnerProofs Low.IntoProofs Low.RunnerArgsProofs Low.IntoSourceProofs
  Low.FluentBuild Low.FluentBuildProofs Low.RunnerKindProofs.
From EKW Require Low.RunnerCheck Low.FluentBuildCheck.   (* the checkers the harness evaluates: built (and kept fresh) with this file *)
Import ListNotations.
Open Scope string_scope.
Open Scope list_scope.

(* (1) Lowering yields one task per node, under the node's name and in traversal order, and
   the edges of the nodes one after the other; each node's task carries its callable, its
   keyword arguments, its declared outputs ("0" if none) and its positional arguments with
   None at the placeholders (vtask); every input is named by some argument. *)
Theorem C10_lowering_shape :
  forall F D (g : graph (payload F D)) vs j,
    vnodes g = Ok vs -> graph2job g = Ok j ->
    NoDup (map vname vs) /\
    map fst (j_tasks j) = map vname vs /\
    j_edges j = flat_map (vedges F D) vs /\
    (forall v, In v vs -> exists f args kwargs, vpay v = Some (PayTuple f args kwargs) /\
         lookup (vname v) (j_tasks j) = Some (vtask F D v f args kwargs) /\
         Forall (fun pi => positions_from 0 (fst pi) args <> []) (vins v)).
Proof. exact graph2job_shape. Qed.

(* (2) The edges of a node are exactly: for every input and every position at which args
   names it, an edge from the declared parent output into this node at that position ... *)
Theorem C10_edge_per_placeholder :
  forall F D (v : vnode (payload F D)) f args kwargs e,
    vpay v = Some (PayTuple f args kwargs) ->
    (In e (vedges F D v) <->
     exists param p, In (param, e_src e) (vins v) /\ nth_error args p = Some (PStr param) /\
                     e = mkE (e_src e) (vname v) None (Some p)).
Proof. exact vedges_in. Qed.

(* ... hence one edge per input when every input is named once. *)
Theorem C10_one_edge_per_input :
  forall F D (v : vnode (payload F D)) f args kwargs,
    vpay v = Some (PayTuple f args kwargs) ->
    (forall pi, In pi (vins v) -> List.length (positions_from 0 (fst pi) args) = 1) ->
    List.length (vedges F D v) = List.length (vins v).
Proof. exact vedges_one_per_input. Qed.

(* (3) For every node of every graph: after graph2job and param_source, when the node's task
   runs with the values of its inputs' parent outputs in memory, the callable of the node
   receives exactly the declared arguments: every argument that names an input is replaced by
   the value stored for that input's parent output, every other argument (None, other strings,
   objects) is passed as is, in the declared positions, with the declared keyword arguments. *)
Theorem C10_call_args_correct :
  forall F D (g : graph (payload F D)) vs j (v : vnode (payload F D)) f args kwargs (m : memory D),
    vnodes g = Ok vs -> graph2job g = Ok j -> In v vs ->
    vpay v = Some (PayTuple f args kwargs) -> NoDup (map fst (vins v)) ->
    (forall pi, In pi (vins v) -> provide m (snd pi) <> None) ->
    exists ps t, param_source (j_edges j) = Ok ps /\ lookup (vname v) (j_tasks j) = Some t /\
      t_func t = f /\
      bound_args t (psrc_of ps (vname v)) m = Ok (spec_args D args (vins v) m, kwargs).
Proof. exact call_args_pipeline. Qed.

(* (3') the two halves of (3): param_source gives a node's task exactly the (position, source)
   list of its placeholders, and with that list the lowered task binds the declared arguments *)
Theorem C10_param_source_of_node :
  forall F D (g : graph (payload F D)) vs j (v : vnode (payload F D)) f args kwargs,
    vnodes g = Ok vs -> graph2job g = Ok j -> In v vs ->
    vpay v = Some (PayTuple f args kwargs) -> NoDup (map fst (vins v)) ->
    exists ps, param_source (j_edges j) = Ok ps /\ psrc_of ps (vname v) = vsrc D args (vins v).
Proof. exact param_source_of_node. Qed.

Theorem C10_call_args_of_lowered_task :
  forall F D (v : vnode (payload F D)) f args kwargs (m : memory D),
    NoDup (map fst (vins v)) ->
    (forall pi, In pi (vins v) -> provide m (snd pi) <> None) ->
    bound_args (vtask F D v f args kwargs) (vsrc D args (vins v)) m =
      Ok (spec_args D args (vins v) m, kwargs).
Proof. exact bound_args_vtask. Qed.

(* (4) A task whose results are unpacked (n >= 2 declared outputs, or n >= 1 and the callable
   returned a generator) and whose callable yields exactly n values: run returns normally and
   the i-th yielded value is handed to Memory.handle under the i-th output in key-sorted
   order (the documented contract), as the i-th handle call. *)
Theorem C10_yield_binding :
  forall F D (call : F -> list (pval D) -> list (string * pval D) -> cres D)
         tid (t : @task F D) src publish m args kwargs v gn ys,
    bound_args t src m = Ok (args, kwargs) ->
    call (t_func t) args kwargs = CRet v (Iter gn ys None) -> unpacked F D t (Iter gn ys None) ->
    List.length ys = List.length (t_oschema t) ->
    exists hs, run_task call tid t src publish m = (hs, Ok tt) /\
      List.length hs = List.length ys /\
      forall i k s y, nth_error (sort_by_key (t_oschema t)) i = Some (k, s) -> nth_error ys i = Some y ->
        nth_error hs i = Some ((tid, k), y, in_publish (tid, k) publish).
Proof.
  intros F D call tid t src publish m args kwargs v gn ys Hb Hc Hu Hl.
  eexists. split; [exact (run_task_binds_yields F D call _ _ _ _ _ _ _ _ _ _ Hb Hc Hu Hl)|]. split.
  - unfold stores. rewrite map_length, combine_length, sort_length, Hl. apply Nat.min_id.
  - intros i k s y. apply nth_error_stores.
Qed.

(* (5) Fluent: a node created with num_outputs = n >= 1 (yields of n coordinates) has the
   outputs fluent_outputs n; coordinate i is Output(node, fluent_outputs n [i]); the i-th value
   the generator yields is stored under exactly that output -- for every n, in particular
   n > 10 and n = 1 (for n >= 2 any iterable is unpacked, for n = 1 a generator is). *)
Theorem C10_fluent_yield_binding :
  forall F D (call : F -> list (pval D) -> list (string * pval D) -> cres D)
         n tid (t : @task F D) src publish m args kwargs v gn ys,
    1 <= n -> (n = 1 -> gn = KGenerator) -> t_oschema t = schema_of (fluent_outputs n) ->
    bound_args t src m = Ok (args, kwargs) ->
    call (t_func t) args kwargs = CRet v (Iter gn ys None) ->
    List.length ys = n ->
    exists hs, run_task call tid t src publish m = (hs, Ok tt) /\
      forall i y, nth_error ys i = Some y ->
        exists o, nth_error (fluent_outputs n) i = Some o /\
                  nth_error hs i = Some ((tid, o), y, in_publish (tid, o) publish).
Proof.
  intros F D call n tid t src publish m args kwargs v gn ys Hn Hg Ho Hb Hc Hl.
  assert (Hf : fluent_outputs n = out_names n).
  { unfold fluent_outputs. destruct (Nat.eqb n 1) eqn:E; [apply Nat.eqb_eq in E; rewrite E; reflexivity|reflexivity]. }
  assert (Hlen : List.length (t_oschema t) = n).
  { rewrite Ho, Hf, schema_of_nodup by apply out_names_nodup. rewrite map_length. apply out_names_length. }
  assert (Hu : unpacked F D t (Iter gn ys None)).
  { destruct (Nat.eq_dec n 1) as [E|E].
    - right. split; [intros H0; rewrite H0 in Hlen; cbn in Hlen; lia|]. rewrite (Hg E). eauto.
    - left. unfold multi. rewrite Hlen. lia. }
  eexists. split; [apply (run_task_binds_yields F D call _ _ _ _ _ _ _ _ _ _ Hb Hc Hu); rewrite Hlen; exact Hl|].
  intros i y Hy.
  assert (Hi : i < n) by (rewrite <- Hl; apply nth_error_Some; rewrite Hy; discriminate).
  exists (pad_dec (dec_width (n - 1)) i). rewrite Hf. split; [apply nth_out_names; exact Hi|].
  eapply nth_error_stores; [|exact Hy].
  rewrite Ho, Hf, fluent_sorted_schema, nth_error_map, (nth_out_names n i Hi). reflexivity.
Qed.

(* (6) A count mismatch -- fewer or more yields than declared outputs, by any amount, or an
   iterator that raises -- makes run end in an error, never in a normal return ... *)
Theorem C10_count_mismatch_fails :
  forall F D (call : F -> list (pval D) -> list (string * pval D) -> cres D)
         tid (t : @task F D) src publish m args kwargs v gn ys fin,
    bound_args t src m = Ok (args, kwargs) ->
    call (t_func t) args kwargs = CRet v (Iter gn ys fin) -> unpacked F D t (Iter gn ys fin) ->
    List.length ys <> List.length (t_oschema t) \/ fin <> None ->
    exists e, snd (run_task call tid t src publish m) = Err e.
Proof. exact run_task_count_mismatch_fails. Qed.

(* ... and run returns normally exactly when the callable returned an iterable that yields as
   many values as there are declared outputs and then stops. *)
Theorem C10_run_ok_iff_counts_agree :
  forall F D (call : F -> list (pval D) -> list (string * pval D) -> cres D)
         tid (t : @task F D) src publish m args kwargs,
    multi F D t -> bound_args t src m = Ok (args, kwargs) ->
    (snd (run_task call tid t src publish m) = Ok tt <->
     exists v gn ys, call (t_func t) args kwargs = CRet v (Iter gn ys None) /\
                     List.length ys = List.length (t_oschema t)).
Proof. exact run_task_multi_ok_iff. Qed.

(* (7) Completion is inferred by the controller from the key-sorted last output: in a run that
   returns normally that output is handled last and every other output before it. *)
Theorem C10_last_output_consistent :
  forall F D (call : F -> list (pval D) -> list (string * pval D) -> cres D)
         tid (t : @task F D) (tasks : list (string * @task F D)) src publish m hs,
    lookup tid tasks = Some t -> NoDup (map fst (t_oschema t)) ->
    run_task call tid t src publish m = (hs, Ok tt) ->
    exists hs' h, hs = hs' ++ [h] /\
      is_last_output_of (fst (fst h)) tasks = Ok true /\
      forall h', In h' hs' -> is_last_output_of (fst (fst h')) tasks = Ok false.
Proof. exact last_handled_is_last_output. Qed.

(* (8) A single declared output and a callable that returns anything but a generator (a
   plain value, a tuple, a list): the returned object itself is that output's value. *)
Theorem C10_single_output_value :
  forall F D (call : F -> list (pval D) -> list (string * pval D) -> cres D)
         tid (t : @task F D) src publish m args kwargs k s v it,
    t_oschema t = [(k, s)] -> bound_args t src m = Ok (args, kwargs) ->
    call (t_func t) args kwargs = CRet v it -> (forall ys fin, it <> Iter KGenerator ys fin) ->
    run_task call tid t src publish m = ([((tid, k), v, in_publish (tid, k) publish)], Ok tt).
Proof. exact run_task_single. Qed.

(* (8') ... in particular an ITERATOR that is not a generator object (zip, map, enumerate, iter(...),
   itertools.*, io.StringIO / BytesIO / an open file, csv.reader, an instance of a class with __next__,
   an instance of collections.abc.Generator), an iterable container, a __getitem__ sequence: the object
   is handed to Memory.handle untouched, whatever iterating it would have yielded (no element, one,
   many, an exception) -- it is not consumed and not replaced by its first element. *)
Theorem C10_single_output_iterator_is_the_value :
  forall F D (call : F -> list (pval D) -> list (string * pval D) -> cres D)
         tid (t : @task F D) src publish m args kwargs k s v kd ys fin,
    t_oschema t = [(k, s)] -> bound_args t src m = Ok (args, kwargs) ->
    call (t_func t) args kwargs = CRet v (Iter kd ys fin) -> kd <> KGenerator ->
    run_task call tid t src publish m = ([((tid, k), v, in_publish (tid, k) publish)], Ok tt).
Proof. exact run_task_single_kind. Qed.

(* (8'') The test `is it a generator object` is the only one that gives this behaviour: run with
   another test `streams` in its place (run_task_with; run_task = run_task_with is_generator) equals
   run for all callables, tasks and memories iff streams answers as inspect.isgenerator on every
   kind of object. *)
Theorem C10_stream_test_unique :
  forall F D (f0 : F) (streams : ikind -> bool),
    (forall (call : F -> list (pval D) -> list (string * pval D) -> cres D) tid (t : @task F D) src publish m,
        run_task_with call streams tid t src publish m = run_task call tid t src publish m) <->
    (forall kd, streams kd = is_generator kd).
Proof. exact stream_test_unique. Qed.

(* ... and what goes wrong under a test that answers True for the kind of the returned object: the
   object is consumed; with exactly one element that ELEMENT is stored in place of the object, with
   none or several (or an iterator that raises) the task fails *)
Theorem C10_other_stream_tests_break_single_values :
  forall F D (call : F -> list (pval D) -> list (string * pval D) -> cres D) streams
         tid (t : @task F D) src publish m args kwargs k s v kd ys fin,
    t_oschema t = [(k, s)] -> bound_args t src m = Ok (args, kwargs) ->
    call (t_func t) args kwargs = CRet v (Iter kd ys fin) -> streams kd = true ->
    match ys, fin with
    | [y], None => run_task_with call streams tid t src publish m = ([((tid, k), y, in_publish (tid, k) publish)], Ok tt)
    | _, _ => exists e, snd (run_task_with call streams tid t src publish m) = Err e
    end.
Proof. exact run_task_with_single_streamed. Qed.

(* with two or more declared outputs the test plays no role: any iterable is unpacked *)
Theorem C10_stream_test_irrelevant_for_multi :
  forall F D (call : F -> list (pval D) -> list (string * pval D) -> cres D) streams
         tid (t : @task F D) src publish m,
    multi F D t -> run_task_with call streams tid t src publish m = run_task call tid t src publish m.
Proof. exact run_task_with_multi. Qed.

(* (9) Fluent: what a node declares is what its author declared.  For ANY program of
   Payload(...), Node(payload or callable, inputs, num_outputs) and node.copy() calls -- one
   Payload object handed to any number of nodes with any numbers of inputs in any order, as
   Action.map, a batched reduce and a user re-using a Payload do -- at the end every Payload
   the caller holds still reads as declared, and every node's payload tuple is (func, the
   declared args ++ the placeholders of ITS OWN inputs the declaration does not name, kwargs).
   The list objects are modelled with their aliasing (Payload.args is a reference, append is in
   place, to_tuple shares the list). *)
Theorem C10_fluent_nodes_as_declared :
  forall F D (ops : list (op F D)) (st : state F D),
    run ops init = Ok st ->
    map (payload_view (s_heap st)) (s_payloads st) = decls ops /\
    forall nd, In nd (s_nodes st) ->
      exists f a k, src_decl (decls ops) (n_src nd) = Some (f, a, k) /\
        node_view (s_heap st) nd = ((f, fluent_args a (n_nin nd), k), n_nin nd, n_nout nd).
Proof. exact nodes_as_declared. Qed.

(* (9') frame: running more of the program never changes a list object, a Payload or a node
   that existed before *)
Theorem C10_fluent_build_frame :
  forall F D (ops : list (op F D)) (st st' : state F D),
    run ops st = Ok st' ->
    ext D (s_heap st) (s_heap st') /\
    (exists ps, s_payloads st' = s_payloads st ++ ps) /\ (exists ns, s_nodes st' = s_nodes st ++ ns).
Proof. exact run_frame. Qed.

(* (10) the arguments of a fluent node with n inputs: the declared arguments keep their
   positions, only placeholders of this node's inputs that the declaration does not name are
   appended, and every input is named at some position (so lowering finds an edge for it) *)
Theorem C10_fluent_args_shape :
  forall D (args : list (pval D)) n,
    (exists suf, fluent_args args n = args ++ suf /\ Forall (appended D args 0 n) suf) /\
    (forall x, x < n -> positions_from 0 (input_name x) (fluent_args args n) <> []).
Proof. intros D args n. split; [apply fluent_args_prefix|intros x Hx; apply fluent_args_positions, Hx]. Qed.

(* ------------------------------------------------------------------ non-vacuity *)
Import EKW.Low.RunnerCheck.

(* a 12-output generator source `s` consumed twice (outputs "00" and "11") by `c`, whose
   args name input x twice, carry a None, a string naming no input and an object *)
Definition ex_graph : graph cpayload :=
  mkGraph [mkNode "s" (fluent_outputs 12) (Some (PayTuple 0%N [] [])) [];
           mkNode "c" ["0"] (Some (PayTuple 1%N [PStr "x"; PNone; PStr "y"; PStr "x"; PStr "q"; PObj (OLit 3)]
                                            [("k", PObj (OLit 1))]))
                  [("x", (0, "00")); ("y", (0, "11"))]] [1].
Definition ex_behs : list (N * beh) := [(0%N, BGen 12 None); (1%N, BRet)].

Example C10_lowering_shape_nonvacuous :
  exists vs j, vnodes ex_graph = Ok vs /\ graph2job ex_graph = Ok j /\
    map fst (j_tasks j) = ["c"; "s"] /\ List.length (j_edges j) = 3.
Proof. eexists. eexists. split; [vm_compute; reflexivity|split; [vm_compute; reflexivity|split; reflexivity]]. Qed.

Definition ex_c : vnode cpayload :=
  mkV "c" ["0"] (Some (PayTuple 1%N [PStr "x"; PNone; PStr "y"; PStr "x"; PStr "q"; PObj (OLit 3)] [("k", PObj (OLit 1))]))
      [("x", ("s", "00")); ("y", ("s", "11"))].

Example C10_edge_per_placeholder_nonvacuous :
  In (mkE ("s", "00") "c" None (Some 3)) (vedges N obj ex_c) /\ List.length (vedges N obj ex_c) = 3.
Proof. split; [vm_compute; tauto|reflexivity]. Qed.

Example C10_one_edge_per_input_nonvacuous :
  let v := mkV "d" ["0"] (Some (PayTuple 2%N [PObj (OLit 0); PStr "y"; PStr "x"] [])) [("x", ("s", "00")); ("y", ("s", "11"))] : vnode cpayload in
  (forall pi, In pi (vins v) -> List.length (positions_from 0 (fst pi) [PObj (OLit 0); PStr "y"; PStr "x"]) = 1) /\
  List.length (vedges N obj v) = 2.
Proof. split; [intros pi [<-|[<-|[]]]; reflexivity|reflexivity]. Qed.

Definition ex_mem : memory obj := [(("s", "00"), PObj (OYield 0 0)); (("s", "11"), PObj (OYield 0 11))].

Example C10_call_args_of_lowered_task_nonvacuous :
  NoDup (map fst (vins ex_c)) /\ (forall pi, In pi (vins ex_c) -> provide ex_mem (snd pi) <> None) /\
  spec_args obj [PStr "x"; PNone; PStr "y"; PStr "x"; PStr "q"; PObj (OLit 3)] (vins ex_c) ex_mem =
    [PObj (OYield 0 0); PNone; PObj (OYield 0 11); PObj (OYield 0 0); PStr "q"; PObj (OLit 3)].
Proof.
  split; [repeat constructor; cbn; intuition discriminate|].
  split; [intros pi [<-|[<-|[]]]; vm_compute; discriminate|reflexivity].
Qed.

Definition ex_s : ctask := mkT 0%N [] (schema_of (fluent_outputs 12)) [] [].

Example C10_yield_binding_nonvacuous :
  unpacked N obj ex_s (Iter KGenerator (yields_of 0 12) None) /\ bound_args ex_s [] [] = Ok ([], []) /\
  c_call ex_behs 0%N [] [] = CRet (PObj (ORet 0)) (Iter KGenerator (yields_of 0 12) None) /\
  List.length (yields_of 0 12) = List.length (t_oschema ex_s) /\
  nth_error (fst (run_task (c_call ex_behs) "s" ex_s [] [("s", "10")] [])) 10 = Some (("s", "10"), PObj (OYield 0 10), true).
Proof. split; [left; unfold multi; vm_compute; lia|]. repeat split; vm_compute; reflexivity. Qed.

(* the whole pipeline on ex_graph: node c receives yields 0 and 11 of s at positions 0, 2, 3 *)
Example C10_call_args_correct_nonvacuous :
  exists vs j ps t, vnodes ex_graph = Ok vs /\ graph2job ex_graph = Ok j /\ In ex_c vs /\
    param_source (j_edges j) = Ok ps /\ lookup "c" (j_tasks j) = Some t /\
    bound_args t (psrc_of ps "c") ex_mem =
      Ok ([PObj (OYield 0 0); PNone; PObj (OYield 0 11); PObj (OYield 0 0); PStr "q"; PObj (OLit 3)], [("k", PObj (OLit 1))]).
Proof.
  do 4 eexists. split; [vm_compute; reflexivity|]. split; [vm_compute; reflexivity|].
  split; [left; reflexivity|]. split; [vm_compute; reflexivity|]. split; vm_compute; reflexivity.
Qed.

Example C10_param_source_of_node_nonvacuous :
  vsrc obj [PStr "x"; PNone; PStr "y"; PStr "x"; PStr "q"; PObj (OLit 3)] (vins ex_c) =
    [(KPos 0, ("s", "00")); (KPos 3, ("s", "00")); (KPos 2, ("s", "11"))].
Proof. reflexivity. Qed.

(* one coordinate: the single default output receives the value the generator yields *)
Definition ex_one : ctask := mkT 0%N [] (schema_of (fluent_outputs 1)) [] [].
Example C10_fluent_yield_binding_one_coordinate :
  fluent_outputs 1 = ["0"] /\
  run_task (c_call [(0%N, BGen 1 None)]) "s" ex_one [] [] [] = ([(("s", "0"), PObj (OYield 0 0), false)], Ok tt) /\
  snd (run_task (c_call [(0%N, BGen 2 None)]) "s" ex_one [] [] []) = Err "ValueError" /\
  run_task (c_call [(0%N, BTuple 2)]) "s" ex_one [] [] [] = ([(("s", "0"), PObj (ORet 0), false)], Ok tt).
Proof. repeat split; vm_compute; reflexivity. Qed.

Example C10_single_output_value_nonvacuous :
  t_oschema ex_one = [("0", "Any")] /\ c_call [(0%N, BTuple 2)] 0%N [] [] = CRet (PObj (ORet 0)) (Iter KIterable (yields_of 0 2) None).
Proof. split; vm_compute; reflexivity. Qed.

Example C10_fluent_yield_binding_nonvacuous :
  1 <= 12 /\ t_oschema ex_s = schema_of (fluent_outputs 12) /\ nth_error (fluent_outputs 12) 2 = Some "02" /\
  nth_error (fst (run_task (c_call ex_behs) "s" ex_s [] [] [])) 2 = Some (("s", "02"), PObj (OYield 0 2), false).
Proof. repeat split; vm_compute; try reflexivity; lia. Qed.

(* one value too few: the defect the unfixed runner let through *)
Example C10_count_mismatch_fails_nonvacuous :
  c_call [(0%N, BGen 11 None)] 0%N [] [] = CRet (PObj (ORet 0)) (Iter KGenerator (yields_of 0 11) None) /\
  List.length (yields_of 0 11) <> List.length (t_oschema ex_s) /\
  snd (run_task (c_call [(0%N, BGen 11 None)]) "s" ex_s [] [] []) = Err "ValueError".
Proof. repeat split; vm_compute; try reflexivity; discriminate. Qed.

Example C10_run_ok_iff_counts_agree_nonvacuous :
  snd (run_task (c_call ex_behs) "s" ex_s [] [] []) = Ok tt /\
  snd (run_task (c_call [(0%N, BGen 13 None)]) "s" ex_s [] [] []) = Err "ValueError" /\
  snd (run_task (c_call [(0%N, BGen 12 (Some "KeyError"))]) "s" ex_s [] [] []) = Err "KeyError".
Proof. repeat split; vm_compute; reflexivity. Qed.

Example C10_last_output_consistent_nonvacuous :
  lookup "s" [("s", ex_s)] = Some ex_s /\
  snd (run_task (c_call ex_behs) "s" ex_s [] [] []) = Ok tt /\
  is_last_output_of ("s", "11") [("s", ex_s)] = Ok true /\ is_last_output_of ("s", "09") [("s", ex_s)] = Ok false.
Proof. repeat split; vm_compute; reflexivity. Qed.

(* a single-output task whose callable returns an iterator over two tokens (a zip, a two-line file),
   over one token (a one-line StringIO), over none, a generator-like object, a list, a str value,
   None: the object / value itself is stored.  Under `every iterator streams` (isinstance(result,
   Iterator)) the two-token iterator is a task failure and the one-token iterator is silently
   replaced by its element; containers and values are untouched; under `every iterable streams`
   those break too. *)
Definition streams_iterators (k : ikind) : bool :=
  match k with KGenerator | KGenLike | KIterator => true | _ => false end.
Definition streams_iterables (k : ikind) : bool :=
  match k with KSequence => false | _ => true end.

Example C10_single_output_iterator_is_the_value_nonvacuous :
  let run1 b := run_task (c_call [(0%N, b)]) "s" ex_one [] [] [] in
  let stored := ([(("s", "0"), PObj (ORet 0), false)], Ok tt) in
  run1 (BObj KIterator 2 None) = stored /\ run1 (BObj KIterator 1 None) = stored /\
  run1 (BObj KIterator 0 None) = stored /\ run1 (BObj KIterator 1 (Some "OSError")) = stored /\
  run1 (BObj KGenLike 1 None) = stored /\ run1 (BObj KIterable 1 None) = stored /\
  run1 (BObj KSequence 1 None) = stored /\ run1 (BObjL KIterator [PStr "header"] None) = stored /\
  run1 (BVal PNone None) = ([(("s", "0"), PNone, false)], Ok tt) /\
  run1 (BVal (PStr "a") (Some [PStr "a"])) = ([(("s", "0"), PStr "a", false)], Ok tt) /\
  run1 (BObj KGenerator 1 None) = ([(("s", "0"), PObj (OYield 0 0), false)], Ok tt).
Proof. repeat split; vm_compute; reflexivity. Qed.

Example C10_other_stream_tests_break_single_values_nonvacuous :
  let runw s b := run_task_with (c_call [(0%N, b)]) s "s" ex_one [] [] [] in
  snd (runw streams_iterators (BObj KIterator 2 None)) = Err "ValueError" /\
  runw streams_iterators (BObjL KIterator [PStr "header"] None) = ([(("s", "0"), PStr "header", false)], Ok tt) /\
  snd (runw streams_iterators (BObj KGenLike 0 None)) = Err "ValueError" /\
  runw streams_iterators (BObj KIterable 1 None) = ([(("s", "0"), PObj (ORet 0), false)], Ok tt) /\
  runw streams_iterables (BObj KIterable 1 None) = ([(("s", "0"), PObj (OYield 0 0), false)], Ok tt) /\
  runw streams_iterables (BVal (PStr "a") (Some [PStr "a"])) = ([(("s", "0"), PStr "a", false)], Ok tt) /\
  snd (runw streams_iterables (BVal (PStr "ab") (Some [PStr "a"; PStr "b"]))) = Err "ValueError" /\
  runw (fun _ => false) (BObj KGenerator 1 None) = ([(("s", "0"), PObj (ORet 0), false)], Ok tt).
Proof. repeat split; vm_compute; reflexivity. Qed.

Example C10_stream_test_unique_nonvacuous :
  streams_iterators KIterator <> is_generator KIterator /\ (forall kd, is_generator kd = is_generator kd) /\
  run_task_with (c_call [(0%N, BObj KIterator 2 None)]) is_generator "s" ex_one [] [] [] =
    run_task (c_call [(0%N, BObj KIterator 2 None)]) "s" ex_one [] [] [].
Proof. split; [discriminate|split; reflexivity]. Qed.

Example C10_stream_test_irrelevant_for_multi_nonvacuous :
  multi N obj ex_s /\
  run_task_with (c_call [(0%N, BObj KIterator 12 None)]) streams_iterators "s" ex_s [] [] [] =
    run_task (c_call [(0%N, BObj KIterator 12 None)]) "s" ex_s [] [] [] /\
  snd (run_task (c_call [(0%N, BObj KIterator 12 None)]) "s" ex_s [] [] []) = Ok tt /\
  snd (run_task (c_call [(0%N, BObj KSequence 11 None)]) "s" ex_s [] [] []) = Err "ValueError".
Proof. split; [unfold multi; vm_compute; lia|]. repeat split; vm_compute; reflexivity. Qed.

(* one Payload object (args [7; "input1"]) used for a node with 3 inputs, then 1 input, then 2
   inputs, then the first node copied; a second Payload built with the same arguments *)
Definition ex_prog : list (op N obj) :=
  [OPayload 0%N [PObj (OLit 7); PStr "input1"] [("k", PNone)]; ONode 0 3 1; ONode 0 1 1;
   OPayload 1%N [PObj (OLit 7); PStr "input1"] []; ONode 0 2 12; OCopyNode 0; ONodeFunc 2%N [] [] 2 1].

Example C10_fluent_nodes_as_declared_nonvacuous :
  exists st, run ex_prog init = Ok st /\
    map (fun nd => deref (s_heap st) (n_args nd)) (s_nodes st) =
      [[PObj (OLit 7); PStr "input1"; PStr "input0"; PStr "input2"];
       [PObj (OLit 7); PStr "input1"; PStr "input0"];
       [PObj (OLit 7); PStr "input1"; PStr "input0"];
       [PObj (OLit 7); PStr "input1"; PStr "input0"; PStr "input2"];
       [PStr "input0"; PStr "input1"]] /\
    map (payload_view (s_heap st)) (s_payloads st) =
      [(0%N, [PObj (OLit 7); PStr "input1"], [("k", PNone)]); (1%N, [PObj (OLit 7); PStr "input1"], [])].
Proof. eexists. split; [vm_compute; reflexivity|split; vm_compute; reflexivity]. Qed.

(* the model can tell: were Payload.copy a reference-sharing copy, the placeholders of the 3-input
   node would show up in the 1-input and 2-input nodes and in the caller's Payload *)
Example C10_fluent_sharing_copy_would_leak :
  exists st, run_with pcopy_shallow ex_prog init = Ok st /\
    map (fun nd => deref (s_heap st) (n_args nd)) (firstn 3 (s_nodes st)) =
      [[PObj (OLit 7); PStr "input1"; PStr "input0"; PStr "input2"];
       [PObj (OLit 7); PStr "input1"; PStr "input0"; PStr "input2"];
       [PObj (OLit 7); PStr "input1"; PStr "input0"; PStr "input2"]] /\
    nth_error (map (payload_view (s_heap st)) (s_payloads st)) 0 =
      Some (0%N, [PObj (OLit 7); PStr "input1"; PStr "input0"; PStr "input2"], [("k", PNone)]).
Proof. eexists. split; [vm_compute; reflexivity|split; vm_compute; reflexivity]. Qed.

Example C10_fluent_build_frame_nonvacuous :
  exists st st', run (firstn 2 ex_prog) init = Ok st /\ run (skipn 2 ex_prog) st = Ok st' /\
    List.length (s_heap st) = 2 /\ List.length (s_heap st') = 7 /\ deref (s_heap st') 0 = [PObj (OLit 7); PStr "input1"].
Proof. eexists. eexists. split; [vm_compute; reflexivity|split; [vm_compute; reflexivity|repeat split]]. Qed.

Example C10_fluent_args_shape_nonvacuous :
  fluent_args [PStr "input2"; PObj (OLit 1); PStr "input0"] 12 =
    [PStr "input2"; PObj (OLit 1); PStr "input0"] ++ map (fun x => PStr (input_name x)) [1; 3; 4; 5; 6; 7; 8; 9; 10; 11] /\
  positions_from 0 (input_name 11) (fluent_args [PStr "input2"; PObj (OLit 1); PStr "input0"] 12) = [12].
Proof. split; vm_compute; reflexivity. Qed.

Print Assumptions C10_lowering_shape.
Print Assumptions C10_edge_per_placeholder.
Print Assumptions C10_one_edge_per_input.
Print Assumptions C10_call_args_correct.
Print Assumptions C10_param_source_of_node.
Print Assumptions C10_call_args_of_lowered_task.
Print Assumptions C10_yield_binding.
Print Assumptions C10_fluent_yield_binding.
Print Assumptions C10_count_mismatch_fails.
Print Assumptions C10_run_ok_iff_counts_agree.
Print Assumptions C10_last_output_consistent.
Print Assumptions C10_single_output_value.
Print Assumptions C10_single_output_iterator_is_the_value.
Print Assumptions C10_stream_test_unique.
Print Assumptions C10_other_stream_tests_break_single_values.
Print Assumptions C10_stream_test_irrelevant_for_multi.
Print Assumptions C10_fluent_nodes_as_declared.
Print Assumptions C10_fluent_build_frame.
Print Assumptions C10_fluent_args_shape.
