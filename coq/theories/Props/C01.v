(* C01 -- a distributed run returns exactly the values sequential evaluation would.
   Values are symbolic in the scheduler model: the value of dataset d is "d" itself
   ([payload_of J d]; None for a dataset whose value is Python's None), each host store holds
   datasets under their identity, a transfer copies it, a fetch delivers it.  With that,
   "the delivered value is the right one" is: whatever the controller records for d is the
   payload of d, in every reachable state, and at exit every requested d has one.  That the
   task body binds the right upstream values is C10; that a transfer is byte-identical is C07;
   that two datasets never share a shared-memory key is proved here (Sched/Keys.v). *)
From stdpp Require Import gmap.
From Coq Require Import NArith String.
From EKW Require Import Sched.Model Sched.Inv Sched.InvInit Sched.Safety Sched.Corollaries Sched.Progress Sched.Rounds Sched.Keys Sched.Example.
From EKW Require Sched.Replay Sched.KeysCheck.
Local Open Scope N_scope.

(* whatever value the controller holds for a dataset, under any schedule, cluster shape and
   event interleaving, is that dataset's value, and only requested datasets get one *)
Theorem C01_outputs_correct : ∀ J E ls s css d v,
  wf_job J → run J E (init J E) ls = Next (s, css) →
  outputs (ctl s) !! d = Some v → d ∈ j_ext J ∧ v = payload_of J d.
Proof.
  intros J E ls s css d v Hwf Hr. exact (outputs_correct J E s d v (reachable_inv J E Hwf ls s css Hr)).
Qed.

(* a host only ever stores a dataset its producer has published; a task only runs with all its
   inputs stored on its host (so it reads the producers' values, not stale or missing ones) *)
Theorem C01_stored_data_was_computed : ∀ J E ls s css h d,
  wf_job J → run J E (init J E) ls = Next (s, css) → (h, d) ∈ store s → d ∈ published s.
Proof. intros J E ls s css h d Hwf Hr. apply (i_store_pub J E), (reachable_inv J E Hwf ls s css Hr). Qed.

(* at exit every requested dataset has been delivered with its value (in-order delivery of each
   task's publications; see C03 for the out-of-order finding) *)
Theorem C01_all_requested_delivered : ∀ J E rank ls s,
  wf_job J → wf_dag J rank → run_io J E (init J E) ls = Next s →
  has_computable (ctl s) = false → has_awaitable J (ctl s) = false →
  ∀ d, d ∈ j_ext J → ∃ v, outputs (ctl s) !! d = Some (Some v) ∧ Some v = payload_of J d.
Proof.
  intros J E rank ls s Hwf Hdag Hr Hc Ha.
  destruct (run_io_inv_inorder J E Hwf ls _ _ (inv_init J E) (inorder_init J E Hwf) Hr) as [Hinv Hio].
  exact (proj2 (exit_complete J E Hwf rank s Hdag Hinv Hio Hc Ha)).
Qed.

(* distinct datasets never share a shared-memory segment: the hashed text is an injective
   encoding of (task, output); the hash itself is assumed injective (Section hypothesis) *)
Theorem C01_shm_key_injective : ∀ (H : string → string), (∀ a b, H a = H b → a = b) →
  ∀ t1 o1 t2 o2, shm_key H t1 o1 = shm_key H t2 o2 → t1 = t2 ∧ o1 = o2.
Proof. exact shm_key_injective. Qed.

Theorem C01_key_encoding_injective : ∀ t1 o1 t2 o2, key_input t1 o1 = key_input t2 o2 → t1 = t2 ∧ o1 = o2.
Proof. exact key_input_injective. Qed.

Example C01_nonvacuous :
  match run_io exJ exE (init exJ exE) (ex_labels ++ [LFetch ((2, 0), 0); LDeliver (EPay (2, 0) (Some (2, 0)));
                                                     LPurge (0, (0, 0)); LFlush]) with
  | Next s => bool_decide (outputs (ctl s) = {[(0, 0) := Some (0, 0); (2, 0) := Some (2, 0)]})
  | _ => false
  end = true.
Proof. vm_compute. reflexivity. Qed.

Example C01_old_key_collides : old_key_input "t1" "10" = old_key_input "t11" "0".
Proof. reflexivity. Qed.

Print Assumptions C01_outputs_correct.
Print Assumptions C01_stored_data_was_computed.
Print Assumptions C01_all_requested_delivered.
Print Assumptions C01_shm_key_injective.
Print Assumptions C01_key_encoding_injective.
