(* C12 -- serialising a graph and reading it back gives an equal graph
   (dict, JSON, Cascade file), for every graph with unique node names, whether or not
   its terminal nodes have outputs.

   Model: Graph/GStore.v (Node, Output, Graph.nodes), Graph/Export.v (serialise,
   deserialise, to_json/from_json, Graph.__eq__, Cascade.serialise/from_serialised) as of
   the repository commits 6965c06 and a846c94.  Proofs: Graph/ExportProofs.v, ExportTopo.v.

   Hypotheses of the theorems, in words:
     static_order sound/complete : graphlib returns a topological order of exactly the
                     names that occur whenever one exists (else CycleError);
     wf g          : inputs point to existing outputs of earlier-created nodes (acyclic),
                     input names of a node are distinct (a dict), sinks exist;
     unique_names g: the names of graph.nodes() are distinct;
     kw_ok g       : no input is called self/name/outputs/payload, i.e. every input can be
                     given to Node(...) as a keyword (see the _refuted theorem);
     payload_through f g : every payload p satisfies  not (f p != p);  f = pser for the
                     dict and file paths (payload.serialise() or the payload itself),
                     f = jp after pser for JSON (payloads JSON represents faithfully).
   No bound on the number of nodes, outputs or inputs; outputs, inputs and node names in
   any order (nothing is assumed sorted).
   Sessions (Graph/ExportSession.v): one Cascade object is written any number of times and
   its graph replaced (`+=`) in between; in_domain = wf /\ kw_ok /\ unique_names /\
   payload_through pser, required of the graphs the object has when it is written. *)
From Coq Require Import List String Bool Arith ZArith Lia.
From EKW Require Import Graph.GStore Graph.Export Graph.ExportProofs Graph.ExportCheck Graph.ExportTopo.
From EKW Require Import Graph.ExportSession Graph.ExportSessionProofs Graph.ExportSessionCheck.
Import ListNotations.
Open Scope string_scope.
Open Scope list_scope.

(* deserialise(serialise(g)) == g *)
Theorem C12_roundtrip_partial :
  forall (P : Type) (peqb : P -> P -> bool) (pser : P -> P) (static_order : deps_t -> res (list string)),
  (forall deps order, static_order deps = Ok order -> topo_okb deps order = true) ->
  (forall deps, (exists o, topo_okb deps o = true) -> exists order, static_order deps = Ok order) ->
  forall g : graph P, wf P g -> kw_ok P g -> unique_names P g -> payload_through P peqb pser g ->
  exists d g', serialise P pser g = Ok d /\ deserialise P static_order d = Ok g' /\
               graph_eq P peqb g' g = Ok true.
Proof. exact roundtrip_dict. Qed.

(* from_json(to_json(g)) == g, for payloads that JSON represents faithfully *)
Theorem C12_roundtrip_json_partial :
  forall (P : Type) (peqb : P -> P -> bool) (pser jp : P -> P) (static_order : deps_t -> res (list string)),
  (forall deps order, static_order deps = Ok order -> topo_okb deps order = true) ->
  (forall deps, (exists o, topo_okb deps o = true) -> exists order, static_order deps = Ok order) ->
  forall (J : Type) (dumps : sgraph P -> J) (loads : J -> res (sgraph P)),
  (forall d, loads (dumps d) = Ok (jsonify P jp d)) ->
  forall g : graph P, wf P g -> kw_ok P g -> unique_names P g ->
  payload_through P peqb (fun p => jp (pser p)) g ->
  exists j g', to_json P pser J dumps g = Ok j /\ from_json P static_order J loads j = Ok g' /\
               graph_eq P peqb g' g = Ok true.
Proof. exact roundtrip_json. Qed.

(* Cascade.from_serialised(file written by Cascade(g).serialise)._graph == g *)
Theorem C12_roundtrip_file_partial :
  forall (P : Type) (peqb : P -> P -> bool) (pser : P -> P) (static_order : deps_t -> res (list string)),
  (forall deps order, static_order deps = Ok order -> topo_okb deps order = true) ->
  (forall deps, (exists o, topo_okb deps o = true) -> exists order, static_order deps = Ok order) ->
  forall (F : Type) (dill_dump : sgraph P -> F) (dill_load : F -> res (sgraph P)),
  (forall d, dill_load (dill_dump d) = Ok d) ->
  forall g : graph P, wf P g -> kw_ok P g -> unique_names P g -> payload_through P peqb pser g ->
  exists file g', cascade_serialise P pser F dill_dump g = Ok file /\
                  cascade_from_serialised P static_order F dill_load file = Ok g' /\
                  graph_eq P peqb g' g = Ok true.
Proof. exact roundtrip_file. Qed.

(* One Cascade object over time: after ANY sequence of writes and replacements of its graph
   (`c += other`), the content a file name holds at the end is the one of the LAST write to
   that name and reads back equal to the graph the object had at that moment -- not to a
   graph it had at an earlier write.  The object ends with the graph it was given last. *)
Theorem C12_session_file_partial :
  forall (P : Type) (peqb : P -> P -> bool) (pser : P -> P) (static_order : deps_t -> res (list string)),
  (forall deps order, static_order deps = Ok order -> topo_okb deps order = true) ->
  (forall deps, (exists o, topo_okb deps o = true) -> exists order, static_order deps = Ok order) ->
  forall (F : Type) (dill_dump : sgraph P -> F) (dill_load : F -> res (sgraph P)),
  (forall d, dill_load (dill_dump d) = Ok d) ->
  forall (g0 : graph P) (files : list (string * F)) (ops1 : list (cop P)) (file : string) (ops2 : list (cop P)),
  Forall (in_domain P peqb pser) (written P g0 (ops1 ++ CWrite file :: ops2)) ->
  writes P file ops2 = false ->
  exists st' content,
    crun P pser F dill_dump (cnew P F g0 files) (ops1 ++ CWrite file :: ops2) = Ok st' /\
    c_graph st' = cur P g0 (ops1 ++ CWrite file :: ops2) /\
    lookup file (c_files st') = Some content /\
    reads_back P peqb static_order F dill_load content (cur P g0 ops1).
Proof. exact session_file. Qed.

(* ... and a session leaves the files it does not write alone *)
Theorem C12_session_other_files :
  forall (P : Type) (pser : P -> P) (F : Type) (dill_dump : sgraph P -> F)
         (g0 : graph P) (files : list (string * F)) (ops : list (cop P)) (st' : @cstate P F) (file : string),
  crun P pser F dill_dump (cnew P F g0 files) ops = Ok st' -> writes P file ops = false ->
  lookup file (c_files st') = lookup file files.
Proof. exact session_other_files. Qed.

(* Graph.nodes() never runs out of the model's fuel, never meets a dangling index, and
   returns each node once, the sinks included, closed under "is an input of" *)
Theorem C12_nodes_total :
  forall (P : Type) (g : graph P),
  valid_heap P (heap g) -> Forall (fun s => s < List.length (heap g)) (sinks g) ->
  exists ns, nodes g = Ok ns /\ consistent P (heap g) ns /\ NoDup (map fst ns) /\
             incl (sinks g) (map fst ns) /\ pclosed P (heap g) (map fst ns) [].
Proof. exact nodes_ok. Qed.

(* ------------------------------------------------------------------ concrete instances *)
Ltac idx i H :=
  do 7 (try (destruct i as [|i]; [simpl in H; try discriminate H; try (injection H as <-) | ]));
  try (simpl in H; destruct i; discriminate H).

Ltac prove_wf :=
  constructor;
  [ intros i nd H; idx i H; simpl; intros p Hp; intuition lia
  | repeat constructor; simpl; lia
  | intros i nd H; idx i H; simpl; intros x Hx;
    repeat (destruct Hx as [<- | Hx]; [eexists; split; [reflexivity | simpl; tauto] | ]); contradiction
  | intros i nd H; idx i H; simpl; repeat constructor; simpl; intuition discriminate ].

Ltac prove_unique :=
  intros ns H; vm_compute in H; injection H as <-; simpl; repeat constructor; simpl; intuition discriminate.

(* a graph with a multi-output node, inputs called "data" and "node_factory", payloads,
   one terminal node without outputs and one terminal node WITH an output *)
Definition g_ex : graph pv := mkGraph
  [ mkNode "reader" ["0"] (Some (PInt 1)) [];
    mkNode "split" ["a"; "b"] (Some (PSeq false [PInt 1; PStr "x"])) [("data", (0, "0"))];
    mkNode "proc.1" ["0"] None [("x", (1, "a")); ("node_factory", (1, "b"))];
    mkNode "writer" [] (Some (PStr "w")) [("input", (2, "0"))];
    mkNode "tail" ["0"] None [("y", (1, "b")); ("z", (0, "0"))] ]
  [3; 4].

Example C12_nonvacuous :
  (forall deps order, kahn deps = Ok order -> topo_okb deps order = true) /\
  (forall deps, (exists o, topo_okb deps o = true) -> exists order, kahn deps = Ok order) /\
  wf pv g_ex /\ kw_ok pv g_ex /\ unique_names pv g_ex /\
  payload_through pv pv_eqb pv_ser g_ex /\
  payload_through pv pv_eqb (fun p => pv_json (pv_ser p)) g_ex /\
  (exists ns, nodes g_ex = Ok ns /\ List.length ns = 5) /\
  roundtrip_with kahn true g_ex = Ok true.
Proof.
  split; [exact kahn_sound|]. split; [exact kahn_complete|].
  split; [unfold g_ex; prove_wf|].
  split; [intros i nd H; unfold g_ex in H; idx i H; simpl; intros k Hk; intuition (subst; discriminate)|].
  split; [unfold g_ex; prove_unique|].
  split; [intros i nd p H Hp; unfold g_ex in H; idx i H; simpl in Hp; try discriminate Hp; injection Hp as <-; reflexivity|].
  split; [intros i nd p H Hp; unfold g_ex in H; idx i H; simpl in Hp; try discriminate Hp; injection Hp as <-; reflexivity|].
  split; [eexists; split; [vm_compute; reflexivity | reflexivity]|].
  vm_compute. reflexivity.
Qed.

(* outputs, inputs and names in no particular order: thirteen numbered outputs
   ("output10" sorts before "output2"), named outputs that are not sorted, a duplicate *)
Definition g_unsorted : graph pv := mkGraph
  [ mkNode "stats" ["mean"; "std"; "count"; "mean"] (Some (PStr "s")) [];
    mkNode "wide" ["output0"; "output1"; "output2"; "output3"; "output4"; "output5"; "output6";
                   "output7"; "output8"; "output9"; "output10"; "output11"; "output12"] None
           [("z", (0, "std")); ("a", (0, "count"))];
    mkNode "node10" ["0"] None [("input2", (1, "output10")); ("input10", (1, "output2")); ("b", (0, "mean"))];
    mkNode "node2" ["y"; "x"] (Some (PInt 2)) [("k", (2, "0"))] ]
  [3; 1].

Ltac prove_domain g :=
  split; [unfold g; prove_wf|];
  split; [intros i nd H; unfold g in H; idx i H; simpl; intros k Hk; intuition (subst; discriminate)|];
  split; [unfold g; prove_unique|];
  intros i nd p H Hp; unfold g in H; idx i H; simpl in Hp; try discriminate Hp; injection Hp as <-; reflexivity.

Lemma g_ex_domain : in_domain pv pv_eqb pv_ser g_ex.
Proof. prove_domain g_ex. Qed.
Lemma g_unsorted_domain : in_domain pv pv_eqb pv_ser g_unsorted.
Proof. prove_domain g_unsorted. Qed.

Example C12_unsorted_nonvacuous :
  in_domain pv pv_eqb pv_ser g_unsorted /\
  payload_through pv pv_eqb (fun p => pv_json (pv_ser p)) g_unsorted /\
  roundtrip_with kahn true g_unsorted = Ok true /\
  (* the serialised form keeps the declared order of the outputs *)
  (exists d sn, serialise pv pv_ser g_unsorted = Ok d /\ lookup "stats" d = Some sn /\
                s_outs sn = Some ["mean"; "std"; "count"; "mean"]) /\
  (* and == does see a permutation of the outputs: sorting them is not an equal graph *)
  graph_eq pv pv_eqb
    (mkGraph [mkNode "stats" ["count"; "mean"; "mean"; "std"] (Some (PStr "s")) []] [0])
    (mkGraph [mkNode "stats" ["mean"; "std"; "count"; "mean"] (Some (PStr "s")) []] [0]) = Ok false.
Proof.
  split; [exact g_unsorted_domain|].
  split; [intros i nd p H Hp; unfold g_unsorted in H; idx i H; simpl in Hp; try discriminate Hp; injection Hp as <-; reflexivity|].
  split; [vm_compute; reflexivity|].
  split; [eexists; eexists; split; [vm_compute; reflexivity | split; [vm_compute; reflexivity | reflexivity]]|].
  vm_compute. reflexivity.
Qed.

(* a session: write, grow, write another name, grow, overwrite the first name *)
Definition ops_ex : list (cop pv) :=
  [CWrite "a.dill"; CSet g_unsorted; CWrite "b.dill"; CSet g_ex; CWrite "a.dill"; CSet g_unsorted].

Example C12_session_nonvacuous :
  Forall (in_domain pv pv_eqb pv_ser) (written pv g_ex ops_ex) /\
  List.length (written pv g_ex ops_ex) = 3 /\
  writes pv "b.dill" [CSet g_ex; CWrite "a.dill"; CSet g_unsorted] = false /\
  session_reads_back g_ex ops_ex [("a.dill", g_ex); ("b.dill", g_unsorted)] = Ok true /\
  (* a file does not read back equal to a graph the object had at another time *)
  session_reads_back g_ex ops_ex [("b.dill", g_ex)] = Ok false.
Proof.
  split; [simpl; apply Forall_cons; [exact g_ex_domain|]; apply Forall_cons; [exact g_unsorted_domain|];
          apply Forall_cons; [exact g_ex_domain | apply Forall_nil]|].
  split; [reflexivity|]. split; [reflexivity|]. split; vm_compute; reflexivity.
Qed.

(* the JSON hypothesis is needed: a tuple payload comes back as a list and == says False *)
Example C12_json_unfaithful_payload :
  let g := mkGraph [mkNode "n" ["0"] (Some (PSeq true [PInt 1])) []] [0] in
  bind (to_json pv pv_ser (sgraph pv) (fun d => d) g) (fun j =>
  bind (from_json pv kahn (sgraph pv) (fun d => Ok (jsonify pv pv_json d)) j) (fun g' =>
  graph_eq pv pv_eqb g' g)) = Ok false.
Proof. vm_compute. reflexivity. Qed.

(* The side condition kw_ok cannot be dropped: a node that got an input called "payload"
   by assignment to node.inputs serialises, but deserialise raises TypeError
   (default_node_factory(name, outputs, payload, **inputs) binds `payload` twice). *)
Definition g_reserved : graph pv := mkGraph
  [ mkNode "a" ["0"] None []; mkNode "b" [] None [("payload", (0, "0"))] ] [1].

Theorem C12_roundtrip_any_input_name_refuted :
  exists g : graph pv, wf pv g /\ unique_names pv g /\ payload_through pv pv_eqb pv_ser g /\
                       roundtrip_with kahn true g = Err "TypeError".
Proof.
  exists g_reserved. split; [unfold g_reserved; prove_wf|].
  split; [unfold g_reserved; prove_unique|].
  split; [intros i nd p H Hp; unfold g_reserved in H; idx i H; simpl in Hp; discriminate Hp|].
  vm_compute. reflexivity.
Qed.

(* The sink rule before commit 6965c06 (a sink is a node without outputs) loses every
   terminal node that has an output: the one-node graph comes back empty. *)
Definition g_single : graph pv := mkGraph [mkNode "a" ["0"] None []] [0].

Theorem C12_sink_rule_before_fix_refuted :
  exists g : graph pv, wf pv g /\ kw_ok pv g /\ unique_names pv g /\ payload_through pv pv_eqb pv_ser g /\
                       roundtrip_with kahn false g = Ok false /\ roundtrip_with kahn true g = Ok true.
Proof.
  exists g_single. split; [unfold g_single; prove_wf|].
  split; [intros i nd H; unfold g_single in H; idx i H; simpl; intros k []|].
  split; [unfold g_single; prove_unique|].
  split; [intros i nd p H Hp; unfold g_single in H; idx i H; simpl in Hp; discriminate Hp|].
  split; vm_compute; reflexivity.
Qed.

Print Assumptions C12_roundtrip_partial.
Print Assumptions C12_roundtrip_json_partial.
Print Assumptions C12_roundtrip_file_partial.
Print Assumptions C12_session_file_partial.
Print Assumptions C12_session_other_files.
Print Assumptions C12_nodes_total.
Print Assumptions C12_roundtrip_any_input_name_refuted.
Print Assumptions C12_sink_rule_before_fix_refuted.
