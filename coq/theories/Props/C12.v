From Coq Require Import List String Bool Arith ZArith.
From EKW Require Import Graph.GStore Graph.Export Graph.ExportCheck.
Import ListNotations.
Open Scope string_scope.

Example C12_smoke : roundtrip_with kahn true (mkGraph [mkNode "a" ["0"] None []] [0]) = Ok true.
Proof. vm_compute. reflexivity. Qed.
