(* C07 -- a transfer stores the dataset once, byte-identical, and announces it once.
   Model: Net/DataServer.v (DataServer.recv_loop / maybe_clean / send_payload / store_payload, the
   Listener's Syn => Ack + de-duplication, the conflict rule of the shm store, a network that loses,
   duplicates and reorders frames, a clock).  `reachable content s` reads: s is the state after ANY
   finite sequence of atomic actions (controller commands and purges to any host in any order, network
   delivery / loss / duplication of any frame, clock ticks, and on any endpoint: a clean pass, a frame
   read by the Listener, a message processed by the loop, the retry scan, a retry decision, a pool
   job finishing) in which every worker publication of dataset d carries content(d).  One iteration
   of the real recv_loop is such a sequence (C07_iterations_are_action_sequences), so every theorem
   covers every trace of loop iterations, with every thread timing.
   A pool job (send_payload / store_payload), and with it the one multipart message a send job emits, is
   ATOMIC in that model.  What this rests on is stated and proved separately on a frame-level model of the
   PUSH socket (Net/Multipart.v, theorems (6) below): a message is assembled per socket, so as long as the
   frames of two messages do not interleave on one socket -- comms.send_data / callback open a socket per
   call -- every interleaving of the frame sends of the two pool threads puts exactly the whole messages on
   the wire; on a socket shared by two concurrent sends it does not (C07_shared_socket_interleaving_refuted).
   The interleavings themselves are exercised on the implementation (harness/c07.py steps two pool jobs
   frame by frame) and the log of all frame sends of every trace is checked against (6) inside Coq.
   Likewise the model's shared-memory store is looked at and changed in ONE step per call (allocate with the conflict
   rule, get, purge), while the real cascade.shm.client talks to a single-threaded server over datagrams and the
   server may answer as late as it likes.  Net/ShmRpc.v is the datagram-level model this rests on, theorems (7):
   a client that sends its request once and waits for the answer has it applied exactly once and is handed the
   answer of that application, so `conflict` means that ANOTHER call made the entry; a client that gives up waiting
   and asks again does not (C07_resending_client_refuted).  The implementation's real client runs against a fake
   datagram socket and a slow fake server in harness/c07.py, and the log of all datagram events of every trace is
   checked against (7) inside Coq.
   `content d` = (bytes, deser_fun) that the producing worker serialised for dataset d. *)
From Coq Require Import List NArith ZArith String Bool.
From EKW Require Import Net.DataServer Net.DataServerProofs Net.Multipart Net.MultipartProofs Net.ShmRpc Net.ShmRpcProofs.
From EKW Require Net.DataServerCheck Net.MultipartCheck Net.ShmRpcCheck.   (* not used here: keeps the correspondence checkers' .vo in step with the model *)
Import ListNotations.
Open Scope list_scope.

(* (1) whatever a host's shared-memory store holds under dataset d is exactly the source's bytes and
   decoding function (the store is a map: at most one copy per dataset) ... *)
Theorem C07_stored_bytes_equal : forall content s h d v, reachable content s ->
  lookup N.eq_dec d (h_store (hosts s h)) = Some v -> v = content d.
Proof. exact stored_bytes_equal. Qed.

(* ... the same for every payload in flight (whose Syn is the transfer's idx and the source's address) ... *)
Theorem C07_inflight_bytes_equal : forall content s a si sa p, reachable content s ->
  In (a, FData si sa p) (net s) -> (p_val p, p_deser p) = content (p_ds p) /\ si = p_idx p /\ sa = p_from p.
Proof. exact inflight_bytes_equal. Qed.

(* ... and for every payload a Listener hands over, in particular the controller's (endpoint 0): a fetch
   delivers the same bytes *)
Theorem C07_fetch_bytes_equal : forall content s h p, reachable content s ->
  In (MPay p) (h_inbox (hosts s h)) -> (p_val p, p_deser p) = content (p_ds p).
Proof. exact delivered_bytes_equal. Qed.

(* (2) over its whole life a data server announces a dataset at most once, whatever is lost, duplicated,
   retried or transferred redundantly ... *)
Theorem C07_announce_at_most_once : forall content s h, reachable content s -> NoDup (pub_ds (h_out (hosts s h))).
Proof. exact announce_at_most_once. Qed.

(* ... and what it announced it holds, with the source's bytes, until the dataset is purged there *)
Theorem C07_announced_is_stored : forall content s h d, reachable content s -> In d (pub_ds (h_out (hosts s h))) ->
  lookup N.eq_dec d (h_store (hosts s h)) = Some (content d) \/ In d (h_invalid (hosts s h)).
Proof. exact announced_is_stored_or_purged. Qed.

(* (3) a purge is applied only when no job of the host's pool (send = read of the dataset, store) is
   still running -- every unfinished job is known to the loop, so the wait cannot miss one -- and it
   removes the dataset ... *)
Theorem C07_purge_waits_for_jobs : forall content s h d q s', reachable content s ->
  h_inbox (hosts s h) = MPurge d :: q -> step s (AHost h HProcess) = Ok s' ->
  (forall j, In j (h_pool (hosts s h)) -> j_done j <> None) /\
  lookup N.eq_dec d (h_store (hosts s' h)) = None /\ In d (h_invalid (hosts s' h)).
Proof. exact purge_waits_for_jobs. Qed.

Theorem C07_pending_jobs_tracked : forall content s h k j, reachable content s ->
  nth_error (h_pool (hosts s h)) k = Some j -> j_done j = None ->
  lookup key_eq_dec (j_key j) (h_futs (hosts s h)) = Some k.
Proof. exact pending_jobs_tracked. Qed.

(* ... for good: once purged on a host, the dataset is never in that host's store again, whatever
   arrives later ... *)
Theorem C07_no_resurrection : forall content s h d, reachable content s -> In d (h_invalid (hosts s h)) ->
  lookup N.eq_dec d (h_store (hosts s h)) = None.
Proof. exact no_resurrection. Qed.

(* ... because a payload for a purged dataset is dropped by the loop: no job, no store, no announcement *)
Theorem C07_late_payload_discarded : forall s h p q s',
  h_inbox (hosts s h) = MPay p :: q -> In (p_ds p) (h_invalid (hosts s h)) -> step s (AHost h HProcess) = Ok s' ->
  h_pool (hosts s' h) = h_pool (hosts s h) /\ h_store (hosts s' h) = h_store (hosts s h) /\ h_out (hosts s' h) = h_out (hosts s h).
Proof. exact late_payload_discarded. Qed.

(* (4) traces made of whole iterations of recv_loop (what the implementation executes, and what the
   harness replays) are action sequences, so (1)-(3) hold after every such trace *)
Theorem C07_iterations_are_action_sequences : forall content ops s,
  run_ops init ops = Ok s -> Forall (op_ok content) ops -> reachable content s.
Proof. intros content ops s H F. exact (run_ops_run content ops init s H F). Qed.

(* (5) progress, step by step (partial: the end-to-end "the target eventually holds the dataset" needs a
   fairness assumption on network and thread pool and is checked on the implementation by the harness
   after a loss-free drain; proved here are the steps it is made of).
   An unconfirmed transfer is selected once its grace period has passed; unless it was confirmed or the
   dataset purged meanwhile a new send job is submitted, otherwise it is forgotten; the send job puts
   the source's current bytes and deser_fun on the wire under Syn (idx, source); the Listener confirms
   every copy and hands over the first only; the store job stores those bytes and announces them with
   the transfer's idx, or, the dataset being there already, changes and announces nothing. *)
Theorem C07_progress_steps_partial :
  (forall t h e c at_, h_crashed h = None -> In (e, (c, at_)) (h_await h) -> (0 < at_)%Z -> (at_ < t - resend_grace_ns)%Z ->
     exists h', retry_scan t h = Ok h' /\ In e (h_rq h') /\ h_await h' = h_await h /\ h_futs h' = h_futs h /\
                h_acks h' = h_acks h /\ h_invalid h' = h_invalid h /\ h_pool h' = h_pool h /\ h_crashed h' = None) /\
  (forall h e q c t, h_crashed h = None -> h_rq h = e :: q -> lookup N.eq_dec e (h_await h) = Some (c, t) ->
     has_key (JCmd c) (h_futs h) = false -> mem N.eq_dec (c_idx c) (h_acks h) = false -> mem N.eq_dec (c_ds c) (h_invalid h) = false ->
     exists h', retry_one h = Ok h' /\ nth_error (h_pool h') (List.length (h_pool h)) = Some (mkJob (JCmd c) None) /\
                h_crashed h' = None /\ h_store h' = h_store h) /\
  (forall h e q c t, h_crashed h = None -> h_rq h = e :: q -> lookup N.eq_dec e (h_await h) = Some (c, t) ->
     has_key (JCmd c) (h_futs h) = false ->
     (mem N.eq_dec (c_idx c) (h_acks h) = true \/ mem N.eq_dec (c_ds c) (h_invalid h) = true) ->
     exists h', retry_one h = Ok h' /\ h_pool h' = h_pool h /\ lookup N.eq_dec e (h_await h') = None) /\
  (forall me t k h c b z, nth_error (h_pool h) k = Some (mkJob (JCmd c) None) -> c_src c = me -> c_tgt c <> me ->
     lookup N.eq_dec (c_ds c) (h_store h) = Some (b, z) ->
     exists h', run_job me t k h = Ok (h', [(c_daddr c, FData (c_idx c) me (mkPay me (c_idx c) (c_ds c) z b))]) /\
                h_store h' = h_store h /\ h_out h' = h_out h) /\
  (forall h si sa p q, h_sockq h = FData si sa p :: q ->
     exists h', listen h = Ok (h', [(sa, FAck si)]) /\
       h_inbox h' = (if mem syn_eq_dec (si, sa) (h_lacked h) then h_inbox h else h_inbox h ++ [MPay p]) /\
       In (si, sa) (h_lacked h')) /\
  (forall me t k h p, nth_error (h_pool h) k = Some (mkJob (JPay p) None) -> lookup N.eq_dec (p_ds p) (h_store h) = None ->
     exists h', run_job me t k h = Ok (h', []) /\ lookup N.eq_dec (p_ds p) (h_store h') = Some (p_val p, p_deser p) /\
                h_out h' = h_out h ++ [EPublished (p_ds p) (p_idx p)]) /\
  (forall me t k h p x, nth_error (h_pool h) k = Some (mkJob (JPay p) None) -> lookup N.eq_dec (p_ds p) (h_store h) = Some x ->
     exists h', run_job me t k h = Ok (h', []) /\ h_store h' = h_store h /\ h_out h' = h_out h).
Proof.
  exact (conj retry_scan_selects (conj retry_one_resubmits (conj retry_one_stops (conj send_job_sends_source_bytes
        (conj listener_confirms_every_copy (conj store_job_stores store_job_redundant)))))).
Qed.

(* (6) the atomicity of a send, frame by frame.  `log` is any sequence of socket.send(frame, SNDMORE?) calls, i.e. any
   interleaving of what the loop and the two pool threads of all hosts send.  If the sends made on socket s are, in
   this order, the frames of the messages msgs, then s puts exactly these messages on the wire: each whole, once, in
   this order, whatever happens on the other sockets meanwhile ... *)
Theorem C07_uninterleaved_sends_are_atomic : forall s log msgs,
  filter (on s) log = List.concat (map (frames s) msgs) ->
  filter (from s) (snd (wrun w0 log)) = map (whole s) msgs /\ fst (wrun w0 log) s = [].
Proof. exact uninterleaved_socket_sends_whole_messages. Qed.

(* ... so if that holds of every socket, every message on the wire is made of the frames of one sender ... *)
Theorem C07_uninterleaved_wire_ok : forall log,
  (forall s, exists msgs, filter (on s) log = List.concat (map (frames s) msgs)) -> wire_ok log = true.
Proof. exact uninterleaved_wire_ok. Qed.

(* ... in particular when every message is sent on a socket of its own, as comms.send_data and callback do *)
Theorem C07_private_sockets_wire_ok : forall log,
  (forall s, filter (on s) log = [] \/ exists m, filter (on s) log = frames s m) -> wire_ok log = true.
Proof. exact private_sockets_wire_ok. Qed.

(* The side condition is needed: two send jobs that use ONE socket at the same time ([Syn; header; value] each, the
   second starting after the first one's Syn) put [Syn1; Syn2; header1; header2; value1] and [value2] on the wire --
   neither payload arrives.  (Refutation of "a send is atomic" without the side condition; the harness reports such a
   message on the wire of the implementation as payload-frames-interleaved.) *)
Theorem C07_shared_socket_interleaving_refuted :
  filter (fun f => N.eqb (fs_tag f) 1) garbling_log = frames 7 (1%N, 2%nat) /\
  filter (fun f => N.eqb (fs_tag f) 2) garbling_log = frames 7 (2%N, 2%nat) /\
  snd (wrun w0 garbling_log) = [(7%N, [1; 2; 1; 2; 1]%N); (7%N, [2]%N)] /\
  wire_ok garbling_log = false.
Proof. exact shared_socket_garbles. Qed.

(* (7) the atomicity of a call to the shm server, datagram by datagram.  `log` is any sequence of datagram events between
   the clients of one host (its two pool threads, the loop, workers) and its shm server: a socket sends a request, the
   server -- one thread, as slow as it likes -- takes the oldest request and answers it, a recv returns a datagram or
   gives up, a socket is closed; nothing is lost or duplicated.  `ss_bad` is raised by a socket that does not keep to
   "send one request, wait for one answer": a second request while one is unanswered, a recv that gives up, a close
   with a request outstanding.  As long as no socket does that, what the server applied for a socket is exactly what
   that socket's client completed -- same requests, same answers, same order -- plus at most the one request it is
   still waiting for (then applied at most once, its answer waiting in the socket): every call is applied once, and
   its caller gets the answer of that application ... *)
Theorem C07_shm_call_applied_exactly_once : forall log st, srun ss0 log = Ok st -> ss_bad st = false ->
  forall s, exists pend, hon s (ss_hist st) = hon s (ss_calls st) ++ pend /\
    match ss_out st s with
    | None => pend = []
    | Some r => pend = [] \/ exists p, pend = [(s, r, p)] /\ ss_rx st s = [p]
    end.
Proof. exact disciplined_client_exactly_once. Qed.

(* ... and an allocate is answered `conflict` only when an earlier application of an allocate made the entry (and was
   answered with the segment): by (7a) the call of somebody else, who writes and closes it -- what store_payload
   assumes when it treats the conflict as "dataset already present" *)
Theorem C07_conflict_means_made_by_another_request : forall log st, srun ss0 log = Ok st ->
  forall h1 h2 s k l z, ss_hist st = h1 ++ (s, RAlloc k l z, PConflict) :: h2 ->
    exists s' l' z', In (s', RAlloc k l' z', PShm k) h1.
Proof. exact conflict_means_made_by_another_request. Qed.

(* The discipline is needed: a client that waits only so long for the answer and then asks again, with a server that
   is slower than that (nothing lost), has its ONE allocate applied twice; it is told `conflict` about the entry its own
   first request made, the segment was handed to nobody, the entry stays `created` whatever is asked later: the
   dataset never arrives, is never announced, and every later get waits.  (Refutation of "an shm call is atomic"
   without the discipline; the harness reports such a log of the implementation as a disagreement and the transfer as
   transfer-not-completed.) *)
Theorem C07_resending_client_refuted :
  let k := 7%N in
  (exists st, srun ss0 (resend_log k) = Ok st) /\ disciplined (resend_log k) = false /\
  ss_hist (final k) = [(1%N, RAlloc k 3 0, PShm k); (2%N, RAlloc k 3 0, PConflict)] /\
  ss_calls (final k) = [(2%N, RAlloc k 3 0, PConflict)] /\
  lookup N.eq_dec k (ss_tab (final k)) = Some (mkE false 3 0 [] false) /\
  (forall n seg, handle (ss_tab (final k)) n seg (RGet k) = (ss_tab (final k), n, PWait)) /\
  (forall n seg l z, handle (ss_tab (final k)) n seg (RAlloc k l z) = (ss_tab (final k), n, PConflict)).
Proof. exact resending_client_refuted. Qed.

(* ------------------------------------------------------------------ non-vacuity *)
(* host 1 holds dataset 0; the controller commands two transfers 1 -> 2 of it (idx 7 and, redundantly, 8);
   the first payload is duplicated and one copy lost; host 2 stores and announces it; the second payload is
   still in flight when host 2 is told to purge the dataset; it arrives afterwards *)
Definition ex_content (d : N) : bytes * N := if N.eqb d 0 then ([0; 255; 16]%N, 0%N) else ([170]%N, 1%N).
Definition c7 : cmd := mkCmd 1 2 2 0 7.
Definition c8 : cmd := mkCmd 1 2 2 0 8.
Definition pay7 : payload := mkPay 1 7 0 0 [0; 255; 16]%N.
Definition pay8 : payload := mkPay 1 8 0 0 [0; 255; 16]%N.

Definition ex_transfer : list action := [
  AHost 1 (HPublish 0 [0; 255; 16]%N 0);
  ACommand c7 0; ADeliver 1 (FCmd 0 0 c7);
  AHost 1 HClean; AHost 1 HListen; AHost 1 HProcess; AHost 1 (HRunJob 0);
  ADup 2 (FData 7 1 pay7); ADrop 2 (FData 7 1 pay7); ADeliver 2 (FData 7 1 pay7);
  AHost 2 HClean; AHost 2 HListen; AHost 2 HProcess; AHost 2 (HRunJob 0)
].
Definition ex_second : list action := [
  ACommand c8 1; ADeliver 1 (FCmd 1 0 c8);
  AHost 1 HClean; AHost 1 HListen; AHost 1 HProcess; AHost 1 (HRunJob 1);
  APurge 2 0; ADeliver 2 (FPurge 0); AHost 2 HClean; AHost 2 HListen
].
Definition ex_after_purge : list action := [
  AHost 2 HProcess; ADeliver 2 (FData 8 1 pay8); AHost 2 HListen
].

Definition ex_state (acts : list action) : state := match run init acts with Ok s => s | Err _ => init end.

Lemma ex_reachable : forall acts, (exists s, run init acts = Ok s) -> Forall (action_ok ex_content) acts ->
  reachable ex_content (ex_state acts).
Proof.
  intros acts [s R] F. exists acts. split; auto. unfold ex_state. rewrite R. reflexivity.
Qed.

Ltac ex_reach := apply ex_reachable; [eexists; vm_compute; reflexivity | repeat constructor].

Example C07_stored_bytes_equal_nonvacuous :
  let s := ex_state ex_transfer in
  reachable ex_content s /\ lookup N.eq_dec 0%N (h_store (hosts s 2%N)) = Some (ex_content 0%N) /\
  pub_ds (h_out (hosts s 2%N)) = [0%N] /\
  In (2%N, FData 8 1 pay8) (net (ex_state (ex_transfer ++ ex_second))).
Proof. split; [ex_reach|]. vm_compute. repeat split; try reflexivity. repeat (try (left; reflexivity); right). Qed.

Example C07_purge_waits_for_jobs_nonvacuous :
  let s := ex_state (ex_transfer ++ ex_second) in
  reachable ex_content s /\ h_inbox (hosts s 2%N) = [MPurge 0%N] /\ List.length (h_pool (hosts s 2%N)) = 1 /\
  exists s', step s (AHost 2%N HProcess) = Ok s'.
Proof. split; [ex_reach|]. split; [vm_compute; reflexivity|]. split; [vm_compute; reflexivity|]. eexists. vm_compute. reflexivity. Qed.

Example C07_no_resurrection_nonvacuous :
  let s := ex_state (ex_transfer ++ ex_second ++ ex_after_purge) in
  reachable ex_content s /\ In 0%N (h_invalid (hosts s 2%N)) /\
  h_inbox (hosts s 2%N) = [MPay pay8] /\ pub_ds (h_out (hosts s 2%N)) = [0%N] /\
  exists s', step s (AHost 2%N HProcess) = Ok s'.
Proof.
  split; [ex_reach|]. split; [vm_compute; auto|]. split; [vm_compute; reflexivity|]. split; [vm_compute; reflexivity|].
  eexists. vm_compute. reflexivity.
Qed.

(* a fetch: the controller (endpoint 0) is handed the payload *)
Definition cf : cmd := mkCmd 1 0 0 0 9.
Definition ex_fetch : list op := [
  OA (AHost 1 (HPublish 0 [0; 255; 16]%N 0)); OA (ACommand cf 0); OA (ADeliver 1 (FCmd 0 0 cf));
  OIter 1 []; OA (AHost 1 (HRunJob 0)); OA (ADup 0 (FData 9 1 (mkPay 1 9 0 0 [0; 255; 16]%N)));
  OA (ADeliver 0 (FData 9 1 (mkPay 1 9 0 0 [0; 255; 16]%N))); OA (ADeliver 0 (FData 9 1 (mkPay 1 9 0 0 [0; 255; 16]%N)));
  ORecv 0; ORecv 0
].
Example C07_fetch_bytes_equal_nonvacuous :
  (exists s, run_ops init ex_fetch = Ok s) /\ Forall (op_ok ex_content) ex_fetch /\
  h_inbox (hosts (match run_ops init ex_fetch with Ok s => s | Err _ => init end) 0%N) = [MPay (mkPay 1 9 0 0 [0; 255; 16]%N)].
Proof. split; [eexists; vm_compute; reflexivity|]. split; [repeat constructor|]. vm_compute. reflexivity. Qed.

(* the retry steps: 5 s after the send with no confirmation the scan selects idx 7 and a second send job appears *)
Example C07_progress_steps_nonvacuous :
  net (match run_ops init [OA (AHost 1 (HPublish 0 [0; 255; 16]%N 0)); OA (ACommand c7 0); OA (ADeliver 1 (FCmd 0 0 c7));
                           OIter 1 []; OA (AHost 1 (HRunJob 0)); OA (ADrop 2 (FData 7 1 pay7)); OIter 1 [];
                           OA (ATick 5000000000); OIter 1 []; OA (AHost 1 (HRunJob 1))]
       with Ok s => s | Err _ => init end) = [(0%N, FAck 0); (2%N, FData 7 1 pay7)].
Proof. vm_compute. reflexivity. Qed.

(* the same for the FIRST transfer a controller commands (Bridge.transmit_idx_counter starts at 0), whose payload is
   lost twice: it is sent a third time; and the payload of the next one (idx 1), lost after idx 0 was long
   confirmed, is re-sent too *)
Definition c0 : cmd := mkCmd 1 2 2 0 0.
Definition c1 : cmd := mkCmd 1 2 2 1 1.
Definition pay0 : payload := mkPay 1 0 0 0 [0; 255; 16]%N.
Definition pay1 : payload := mkPay 1 1 1 1 [170]%N.
Example C07_progress_steps_idx0_nonvacuous :
  net (match run_ops init [OA (AHost 1 (HPublish 0 [0; 255; 16]%N 0)); OA (ACommand c0 0); OA (ADeliver 1 (FCmd 0 0 c0));
                           OIter 1 []; OA (AHost 1 (HRunJob 0)); OA (ADrop 2 (FData 0 1 pay0)); OIter 1 [];
                           OA (ATick 5000000000); OIter 1 []; OA (AHost 1 (HRunJob 1)); OA (ADrop 2 (FData 0 1 pay0));
                           OA (ATick 5000000000); OIter 1 []; OA (AHost 1 (HRunJob 2))]
       with Ok s => s | Err _ => init end) = [(0%N, FAck 0); (2%N, FData 0 1 pay0)] /\
  net (match run_ops init [OA (AHost 1 (HPublish 0 [0; 255; 16]%N 0)); OA (AHost 1 (HPublish 1 [170]%N 1));
                           OA (ACommand c0 0); OA (ADeliver 1 (FCmd 0 0 c0)); OIter 1 []; OA (AHost 1 (HRunJob 0));
                           OA (ADeliver 2 (FData 0 1 pay0)); OIter 2 []; OA (AHost 2 (HRunJob 0)); OA (ADeliver 1 (FAck 0)); OIter 1 [];
                           OA (ATick 5000000000); OIter 1 [];
                           OA (ACommand c1 1); OA (ADeliver 1 (FCmd 1 0 c1)); OIter 1 []; OA (AHost 1 (HRunJob 1));
                           OA (ADrop 2 (FData 1 1 pay1)); OA (ATick 5000000000); OIter 1 []; OA (AHost 1 (HRunJob 2))]
       with Ok s => s | Err _ => init end) = [(0%N, FAck 0); (0%N, FAck 1); (2%N, FData 1 1 pay1)].
Proof. vm_compute. split; reflexivity. Qed.

(* two messages of three frames from two senders, interleaved frame by frame, each on its own socket: both arrive whole *)
Example C07_private_sockets_wire_ok_nonvacuous :
  (forall s, filter (on s) private_log = [] \/ exists m, filter (on s) private_log = frames s m) /\
  snd (wrun w0 private_log) = [whole 7 (1%N, 2%nat); whole 8 (2%N, 2%nat)].
Proof. exact private_log_whole. Qed.

(* two store jobs for dataset 5 (the same transfer commanded twice) and a worker publishing dataset 6 talk to a slow shm
   server at the same time: the first store's allocate is answered only after the second one's has arrived too; the second
   is told `conflict`; the first writes, closes and -- later -- a send job gets the dataset: every socket keeps to the
   discipline, every call was applied once *)
Definition ex_rpc : list lev := [
  LSend 1 (RAlloc 5 3 0); LSend 2 (RAlloc 5 3 0); LSend 3 (RAlloc 6 1 1);
  LHandle false (PShm 5); LHandle false PConflict; LRecv 2 PConflict; LClose 2; LRecv 1 (PShm 5); LClose 1;
  LHandle false (PShm 6); LSend 4 (RClose 5 0); LRecv 3 (PShm 6); LHandle false POk; LRecv 4 POk; LClose 4; LClose 3;
  LSend 5 (RGet 5); LHandle false (PGot 5 1 3 0); LRecv 5 (PGot 5 1 3 0); LSend 5 (RClose 5 1)
].
Example C07_shm_call_applied_exactly_once_nonvacuous :
  let st := match srun ss0 ex_rpc with Ok st => st | Err _ => ss0 end in
  (exists st', srun ss0 ex_rpc = Ok st') /\ ss_bad st = false /\
  hon 2 (ss_hist st) = [(2%N, RAlloc 5 3 0, PConflict)] /\ hon 2 (ss_calls st) = [(2%N, RAlloc 5 3 0, PConflict)] /\
  hon 5 (ss_hist st) = [(5%N, RGet 5, PGot 5 1 3 0)] /\ ss_out st 5%N = Some (RClose 5 1) /\
  ss_hist st = [(1%N, RAlloc 5 3 0, PShm 5)] ++ (2%N, RAlloc 5 3 0, PConflict) ::
               [(3%N, RAlloc 6 1 1, PShm 6); (4%N, RClose 5 0, POk); (5%N, RGet 5, PGot 5 1 3 0)].
Proof. split; [eexists; vm_compute; reflexivity|]. vm_compute. repeat split; reflexivity. Qed.

Print Assumptions C07_stored_bytes_equal.
Print Assumptions C07_inflight_bytes_equal.
Print Assumptions C07_fetch_bytes_equal.
Print Assumptions C07_announce_at_most_once.
Print Assumptions C07_announced_is_stored.
Print Assumptions C07_purge_waits_for_jobs.
Print Assumptions C07_pending_jobs_tracked.
Print Assumptions C07_no_resurrection.
Print Assumptions C07_late_payload_discarded.
Print Assumptions C07_iterations_are_action_sequences.
Print Assumptions C07_progress_steps_partial.
Print Assumptions C07_uninterleaved_sends_are_atomic.
Print Assumptions C07_uninterleaved_wire_ok.
Print Assumptions C07_private_sockets_wire_ok.
Print Assumptions C07_shared_socket_interleaving_refuted.
Print Assumptions C07_shm_call_applied_exactly_once.
Print Assumptions C07_conflict_means_made_by_another_request.
Print Assumptions C07_resending_client_refuted.
