(* C04 -- data is never purged, transferred or fetched while missing or still needed.
   Same model and invariant as C02 (Sched/Model.v, Sched/Inv*.v); statements hold in every
   state reachable by ANY label sequence, i.e. any schedule and any event interleaving. *)
From stdpp Require Import gmap.
From Coq Require Import NArith String.
From EKW Require Import Sched.Model Sched.Inv Sched.Safety Sched.Corollaries Sched.Example.
From EKW Require Sched.Replay.
Local Open Scope N_scope.

(* a purge command, from the moment it is issued until it is applied: every consumer of the
   dataset has completed; if it was requested its value has reached the caller; no commanded
   transfer or fetch of it is unanswered anywhere; no waiting, running or future task needs it *)
Theorem C04_purge_sound : ∀ J E ls s css h d,
  wf_job J → run J E (init J E) ls = Next (s, css) → (h, d) ∈ purges s →
  (∀ t, is_task J t → d ∈ ins J t → t ∈ completed (ctl s) ∧ t ∈ finished s) ∧
  (d ∈ j_ext J → ∃ v, outputs (ctl s) !! d = Some (Some v)) ∧
  (∀ src tgt, (d, src, tgt) ∉ xfers s) ∧ (∀ src, (d, src) ∉ fetches s) ∧
  (∀ w t, wq s !! w = Some t → d ∉ ins J t) ∧
  (∀ t, t ∈ computable (ctl s) → d ∉ ins J t) ∧
  (∀ t X, tracker (ctl s) !! t = Some X → d ∉ ins J t).
Proof.
  intros J E ls s css h d Hwf Hr. apply (purge_sound J E Hwf), (reachable_inv J E Hwf ls s css Hr).
Qed.

(* an unanswered transfer: its source holds the dataset and is not being told to drop it *)
Theorem C04_transfer_source_holds : ∀ J E ls s css d src tgt,
  wf_job J → run J E (init J E) ls = Next (s, css) → (d, src, tgt) ∈ xfers s →
  (src, d) ∈ store s ∧ (src, d) ∉ purges s.
Proof.
  intros J E ls s css d src tgt Hwf Hr. apply (transfer_source_holds J E), (reachable_inv J E Hwf ls s css Hr).
Qed.

(* an unanswered fetch likewise *)
Theorem C04_fetch_source_holds : ∀ J E ls s css d src,
  wf_job J → run J E (init J E) ls = Next (s, css) → (d, src) ∈ fetches s →
  (src, d) ∈ store s ∧ (src, d) ∉ purges s.
Proof.
  intros J E ls s css d src Hwf Hr. apply (fetch_source_holds J E Hwf), (reachable_inv J E Hwf ls s css Hr).
Qed.

(* hence no transfer or fetch ever finds its source empty, whatever the order of completions *)
Theorem C04_never_fails : ∀ J E ls, wf_job J → ∀ e, run J E (init J E) ls ≠ Fail e.
Proof. intros J E ls Hwf. exact (proj2 (never_crash_never_fail J E Hwf ls)). Qed.

(* non-vacuity: the example run ends with a purge in flight, after a transfer and a fetch *)
Example C04_nonvacuous :
  wf_job exJ ∧
  match run exJ exE (init exJ exE) ex_labels with
  | Next (s, _) => bool_decide ((0, (0, 0)) ∈ purges s) && bool_decide ((1, (1, 1)) ∈ purges s)
                   && bool_decide (fetches s = [((2, 0), 0)]) && bool_decide ((0, (2, 0)) ∈ store s)
  | _ => false
  end = true.
Proof. split; [apply wf_job_dec_sound; vm_compute; reflexivity|vm_compute; reflexivity]. Qed.

Print Assumptions C04_purge_sound.
Print Assumptions C04_transfer_source_holds.
Print Assumptions C04_fetch_source_holds.
Print Assumptions C04_never_fails.
