(* C02 -- every task is dispatched exactly once, to a free suitable worker, after its inputs
   exist.  Model: Sched/Model.v (controller x asynchronous cluster, any enabled schedule, any
   event order); invariant and its preservation: Sched/Inv*.v; worker loop: Sched/Worker.v.
   "run J E (init J E) ls = Next (s, css)" reads: the label sequence ls (assignments chosen by
   the heuristic, flushes, cluster completions, event deliveries in ANY order) was possible
   and led to state s.  "At least once" is C03's completion theorem. *)
From stdpp Require Import gmap.
From Coq Require Import NArith String.
From EKW Require Import Sched.Model Sched.Inv Sched.Safety Sched.Corollaries Sched.Worker Sched.Example.
From EKW Require Sched.Replay Sched.WorkerCheck.
Local Open Scope N_scope.

(* no task is ever sent for execution twice *)
Theorem C02_dispatch_at_most_once : ∀ J E ls s css,
  wf_job J → run J E (init J E) ls = Next (s, css) → NoDup (dispatched s).*2.
Proof. intros J E ls s css Hwf Hr. apply (dispatch_once J E), (reachable_inv J E Hwf ls s css Hr). Qed.

(* whenever the controller dispatches t to w: w exists, is idle, holds nothing, satisfies the GPU
   requirement; t was never dispatched before; the commands are exactly one transmit per missing
   input followed by the task; every transmit names a source that holds the dataset and is not
   about to drop it; and every input of t has been produced and is on the host or on its way *)
Theorem C02_dispatch_ok : ∀ J E ls s css w t srcs s' cs,
  wf_job J → run J E (init J E) ls = Next (s, css) → exec J E s (LAssign w t srcs) = Next (s', cs) →
  ∃ h, e_host E !! w = Some h ∧ w ∈ idle (ctl s) ∧ wq s !! w = None ∧ ong (ctl s) w = ∅ ∧
       (t ∈ j_gpu J → w ∈ e_gpu E) ∧ t ∉ (dispatched s).*2 ∧ is_task J t ∧
       dispatched s' = dispatched s ++ [(w, t)] ∧
       cs = ((λ p : ds * host, CTransmit p.1 p.2 h) <$> map_to_list srcs) ++ [CTask w t] ∧
       (∀ d src, srcs !! d = Some src → d ∈ ins J t ∧ (src, d) ∈ store s ∧ (src, d) ∉ purges s) ∧
       (∀ d, d ∈ ins J t → d ∈ published s' ∧ ((h, d) ∈ store s' ∨ ∃ src, (d, src, h) ∈ xfers s') ∧ (h, d) ∉ purges s').
Proof.
  intros J E ls s css w t srcs s' cs Hwf Hr Hex.
  exact (dispatch_ok J E Hwf s w t srcs s' cs (reachable_inv J E Hwf ls s css Hr) Hex).
Qed.

(* as long as a worker holds a task, each input is produced, present or in transit, never being dropped *)
Theorem C02_held_task_inputs : ∀ J E ls s css w t h d,
  wf_job J → run J E (init J E) ls = Next (s, css) →
  wq s !! w = Some t → e_host E !! w = Some h → d ∈ ins J t →
  d ∈ published s ∧ ((h, d) ∈ store s ∨ ∃ src, (d, src, h) ∈ xfers s) ∧ (h, d) ∉ purges s.
Proof.
  intros J E ls s css w t h d Hwf Hr. apply (held_task_inputs J E Hwf), (reachable_inv J E Hwf ls s css Hr).
Qed.

(* every publication step of the task body (a generator task publishes its outputs one by one) runs
   only with every input in the host's shared memory *)
Theorem C02_start_needs_inputs : ∀ J E s w i s' cs,
  exec J E s (LPublish w i) = Next (s', cs) →
  ∃ t h, wq s !! w = Some t ∧ e_host E !! w = Some h ∧ ∀ d, d ∈ ins J t → (h, d) ∈ store s.
Proof. exact start_needs_inputs. Qed.

(* ... which is what the worker's receive loop enforces, for every interleaving of task
   sequences, publication notices and purges it may see *)
Theorem C02_worker_starts_after_arrival : ∀ req ms s,
  wrun req w_init ms = WOk s → Forall (λ p, req p.1 ⊆ p.2) (w_log s).
Proof. exact worker_starts_after_arrival. Qed.

(* a worker is never handed a second sequence while it holds one: neither the cluster-level
   failure nor any controller exception is reachable *)
Theorem C02_no_double_enqueue_no_crash : ∀ J E ls, wf_job J →
  (∀ e, run J E (init J E) ls ≠ Crash e) ∧ (∀ e, run J E (init J E) ls ≠ Fail e).
Proof. intros J E ls Hwf. exact (never_crash_never_fail J E Hwf ls). Qed.

(* non-vacuity: a three-task, two-host, GPU-constrained run with a transfer, a fetch and a purge *)
Example C02_nonvacuous :
  wf_job exJ ∧
  match run exJ exE (init exJ exE) ex_labels with
  | Next (s, _) => bool_decide ((dispatched s).*2 = [0; 1; 2]) && bool_decide (finished s = {[0; 1; 2]})
  | _ => false
  end = true.
Proof. split; [apply wf_job_dec_sound; vm_compute; reflexivity|vm_compute; reflexivity]. Qed.

Example C02_worker_nonvacuous :
  ∃ s, wrun (λ _, {[(0, 0); (1, 1)]}) w_init [WPub (0, 0); WSeq 2; WPurge (5, 5); WPub (1, 1)] = WOk s ∧
       (w_log s).*1 = [2].
Proof. eexists. split; [vm_compute; reflexivity|]. vm_compute. reflexivity. Qed.

Print Assumptions C02_dispatch_at_most_once.
Print Assumptions C02_dispatch_ok.
Print Assumptions C02_held_task_inputs.
Print Assumptions C02_start_needs_inputs.
Print Assumptions C02_worker_starts_after_arrival.
Print Assumptions C02_no_double_enqueue_no_crash.
