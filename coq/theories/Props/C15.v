(* C15 -- placeholder while the proofs are being written *)
From Coq Require Import List String Bool.
From EKW Require Import Backends.Tensor Backends.Ops.
From EKWgen Require Import Batchable.
Import ListNotations.
Open Scope string_scope.

Definition marked : list string := map (fun x => fst (fst (fst x))) (filter (fun x => snd (fst x)) backend_facade).
Theorem C15_marked_table : marked = ["max"; "min"; "sum"; "prod"; "concat"].
Proof. vm_compute. reflexivity. Qed.
Print Assumptions C15_marked_table.
