(* C15 -- array back-ends agree with NumPy; functions marked `batchable` really are batchable.

   Second sentence of the property = the theorems below.  The marker table (class Backend,
   decorator @batchable) and the dispatch tables of ArrayAPIBackend / XArrayBackend are
   REGENERATED from src/earthkit/workflows/backends/*.py on every run (EKWgen.Batchable); marking a
   function that is not batchable, or un-marking one, or re-routing a marked method to
   another NumPy function makes C15_generated_tables_ok fail.
   First sentence ("= the value NumPy gives"): Backends/Ops.v `apply` is the exact reference; it is
   tied to numpy and to both back-ends by the value correspondence of harness/c15.py, no theorem. *)
From Coq Require Import List NArith ZArith QArith Qcanon String Bool Permutation.
From EKW Require Import Backends.Tensor Backends.Ops Backends.OpsProofs.
From EKWgen Require Import Batchable.
Import ListNotations.
Open Scope string_scope.

Definition backends : list (list (string * impl)) := [arrayapi_table; xarray_table].

(* every marked method resolves, on both back-ends, to a function known (and proved) to be batchable *)
Definition generated_tables_ok : bool := marked_ok backend_facade backends.

Theorem C15_generated_tables_ok : generated_tables_ok = true.
Proof. vm_compute. reflexivity. Qed.

(* Every function the library marks as batchable satisfies, on both back-ends, for every axis keyword,
   every number >= 2 of batches, every batch size >= 1 (a singleton batch is passed through, as
   reduce() does), every valid tensor of every shape and value:
       f (g b1, ..., g bk)  =  f (b1 ++ ... ++ bk)       (same value, or both fail).
   Hence no function that violates the law is marked. *)
Theorem C15_marked_are_batchable : forall meth tbl,
  In meth (marked_of backend_facade) -> In tbl backends ->
  exists m, resolve backend_facade tbl meth = Some m /\ forall axis, batch_law (denote m axis).
Proof. exact (marked_ok_sound backend_facade backends C15_generated_tables_ok). Qed.

(* the law is not trivially true: mean, std, var and stack violate it (so marking any of them
   makes C15_generated_tables_ok fail -- `var` WAS marked in the repository, see the fix commit) *)
Theorem C15_mean_std_var_stack_not_batchable : forall m,
  known_not_batchable m = true -> ~ (forall axis, batch_law (denote m axis)).
Proof. exact known_not_batchable_sound. Qed.

(* "every partition": for the commutative reductions the batches may be ANY partition of the
   arguments, in any order *)
Theorem C15_reductions_any_partition : forall f axis args (batches : list (list tensor)),
  existsb (String.eqb f) ["sum"; "prod"; "min"; "max"] = true ->
  Permutation (List.concat batches) args ->
  (2 <= List.length batches)%nat -> Forall (fun b => b <> []) batches -> Forall (Forall valid) batches ->
  let F := fun ts => reduce_op f ts axis in
  res_eqv (bind (mapM (batch_apply F) batches) F) (F args).
Proof. exact reduce_any_partition. Qed.

(* the mechanism the property is anchored in: a reduction of more than one argument is the
   reduction of the new leading axis of the stacked arguments, whatever axis keyword is given *)
Theorem C15_multi_is_stack_then_reduce : forall name o x y r axis,
  redop_of name = Some o ->
  reduce_op name (x :: y :: r) axis = bind (stack_op (x :: y :: r) 0%Z) (reduce_axis o 0).
Proof.
  intros name o x y r axis H. unfold reduce_op. rewrite H. unfold multi, stack0, stack_op.
  destruct (common_shape (x :: y :: r)); reflexivity.
Qed.

(* ---- non-vacuity: concrete, non-trivial instances of every hypothesis ---- *)
Example C15_nonvacuous_marked :
  (exists meth, In meth (marked_of backend_facade)) /\
  resolve backend_facade xarray_table "concat" = Some MConcat /\
  resolve backend_facade arrayapi_table "min" = Some (MReduce "min").
Proof. split; [eexists; left; reflexivity|]. vm_compute. tauto. Qed.

(* the unmarked multi-argument methods of the current source are exactly the non-batchable ones *)
Example C15_nonvacuous_unmarked :
  resolve backend_facade arrayapi_table "var" = Some (MReduce "var") /\
  resolve backend_facade xarray_table "stack" = Some MStack /\
  known_not_batchable (MReduce "var") = true /\ known_not_batchable MStack = true /\
  known_not_batchable (MReduce "mean") = true /\ known_not_batchable (MReduce "std") = true.
Proof. vm_compute. tauto. Qed.

(* a partition of four valid 2-vectors into two batches: the hypotheses of batch_law hold and both
   sides are defined and equal for sum and for concat along axis -1 *)
Example C15_nonvacuous_law :
  (2 <= List.length witness)%nat /\ Forall (fun b => b <> []) witness /\ Forall (Forall valid) witness /\
  (exists v, denote (MReduce "sum") 0%Z (List.concat witness) = Ok v /\
             bind (mapM (batch_apply (denote (MReduce "sum") 0%Z)) witness) (denote (MReduce "sum") 0%Z) = Ok v) /\
  (exists v, denote MConcat (-1)%Z (List.concat witness) = Ok v /\ shape v = [8%nat]).
Proof.
  destruct witness_ok as (H1 & H2 & H3). repeat split; try assumption.
  - eexists. split; vm_compute; reflexivity.
  - eexists. split; vm_compute; reflexivity.
Qed.

Example C15_nonvacuous_partition :
  Permutation (List.concat [[v2 1 2]; [v2 3 4; v2 5 6]]) [v2 5 6; v2 1 2; v2 3 4].
Proof. cbn. apply Permutation_sym. apply (Permutation_cons_app [v2 1 2; v2 3 4] [] (v2 5 6)). cbn. apply Permutation_refl. Qed.

Example C15_nonvacuous_multi : redop_of "var" <> None /\ redop_of "max" <> None.
Proof. split; discriminate. Qed.

Print Assumptions C15_generated_tables_ok.
Print Assumptions C15_marked_are_batchable.
Print Assumptions C15_mean_std_var_stack_not_batchable.
Print Assumptions C15_reductions_any_partition.
Print Assumptions C15_multi_is_stack_then_reduce.
