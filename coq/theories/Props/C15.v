(* C15 -- array back-ends agree with NumPy; functions marked `batchable` really are batchable.

   Second sentence of the property = the theorems below.  The marker table (class Backend,
   decorator @batchable) and the dispatch tables of ArrayAPIBackend / XArrayBackend are
   REGENERATED from src/earthkit/workflows/backends/*.py on every run (EKWgen.Batchable); marking a
   function that is not batchable, or un-marking one, or re-routing a marked method to
   another NumPy function makes C15_generated_tables_ok fail.
   First sentence ("= the value NumPy gives"): Backends/Ops.v `apply` is the exact reference; it is
   tied to numpy and to both back-ends by the value correspondence of harness/c15.py, no theorem.
   What IS proved about it concerns the element types (Backends/Dtype.v): whenever several arrays meet,
   the result's element type is NumPy's common type of ALL the arguments -- independent of their order,
   wide enough for every argument -- and converting to it changes no value, so that on such data the
   typed reference coincides with the exact one; a back-end that takes the type from its first
   argument is observably different (truncates, wraps, collapses to 0/1, depends on the order).
   xarray objects (Backends/Named.v): arguments are matched by dimension NAME.  Proved: a multi-argument reduction
   combines, at every named position, the values the arguments have at that named position, whatever order each
   argument stores its dimensions in; re-storing an argument (transpose) changes nothing; only when all arguments
   store the same dimensions in the same ORDER is that the positional stacking of the raw data -- equal sizes are not
   enough (square: same shape, other values; not square: no array). *)
From Coq Require Import List NArith ZArith QArith Qcanon String Bool Permutation.
From EKW Require Import Backends.Tensor Backends.Ops Backends.OpsProofs.
From EKW Require Import Backends.Dtype Backends.DtypeProofs Backends.OpsCheck Backends.DtypeCheck.
From EKW Require Import Backends.Named Backends.NamedProofs Backends.NamedCheck.
From EKW Require Import Backends.Slice Backends.SliceProofs.
From EKWgen Require Import Batchable.
Import ListNotations.
Open Scope string_scope.

Definition backends : list (list (string * impl)) := [arrayapi_table; xarray_table].

(* every marked method resolves, on both back-ends, to a function known (and proved) to be batchable *)
Definition generated_tables_ok : bool := marked_ok backend_facade backends.

Theorem C15_generated_tables_ok : generated_tables_ok = true.
Proof. vm_compute. reflexivity. Qed.

(* Every function the library marks as batchable satisfies, on both back-ends, for every axis keyword,
   every number >= 2 of batches, every batch size >= 1 (a singleton batch is passed through, as
   reduce() does), every valid tensor of every shape and value:
       f (g b1, ..., g bk)  =  f (b1 ++ ... ++ bk)       (same value, or both fail).
   Hence no function that violates the law is marked. *)
Theorem C15_marked_are_batchable : forall meth tbl,
  In meth (marked_of backend_facade) -> In tbl backends ->
  exists m, resolve backend_facade tbl meth = Some m /\ forall axis, batch_law (denote m axis).
Proof. exact (marked_ok_sound backend_facade backends C15_generated_tables_ok). Qed.

(* the law is not trivially true: mean, std, var and stack violate it (so marking any of them
   makes C15_generated_tables_ok fail -- `var` WAS marked in the repository, see the fix commit) *)
Theorem C15_mean_std_var_stack_not_batchable : forall m,
  known_not_batchable m = true -> ~ (forall axis, batch_law (denote m axis)).
Proof. exact known_not_batchable_sound. Qed.

(* "every partition": for the commutative reductions the batches may be ANY partition of the
   arguments, in any order *)
Theorem C15_reductions_any_partition : forall f axis args (batches : list (list tensor)),
  existsb (String.eqb f) ["sum"; "prod"; "min"; "max"] = true ->
  Permutation (List.concat batches) args ->
  (2 <= List.length batches)%nat -> Forall (fun b => b <> []) batches -> Forall (Forall valid) batches ->
  let F := fun ts => reduce_op f ts axis in
  res_eqv (bind (mapM (batch_apply F) batches) F) (F args).
Proof. exact reduce_any_partition. Qed.

(* the mechanism the property is anchored in: a reduction of more than one argument is the
   reduction of the new leading axis of the stacked arguments, whatever axis keyword is given *)
Theorem C15_multi_is_stack_then_reduce : forall name o x y r axis,
  redop_of name = Some o ->
  reduce_op name (x :: y :: r) axis = bind (stack_op (x :: y :: r) 0%Z) (reduce_axis o 0).
Proof.
  intros name o x y r axis H. unfold reduce_op. rewrite H. unfold multi, stack0, stack_op.
  destruct (common_shape (x :: y :: r)); reflexivity.
Qed.

(* ---- element types: "the value NumPy gives" has NumPy's element type, whatever the order of the arguments ---- *)
(* the common element type of the arguments of stack / concat / a multi-argument reduction / a binary
   operation does not depend on the order in which they are passed (so never on "the first one") *)
Theorem C15_common_dtype_order_independent : forall ds ds',
  Permutation ds ds' -> promote_list ds = promote_list ds'.
Proof. exact promote_list_perm. Qed.

Theorem C15_result_dtype_order_independent : forall c ds ds',
  Permutation ds ds' -> result_dtype c ds = result_dtype c ds'.
Proof. intros c ds ds' H. apply result_dtype_perm; [exact H|reflexivity]. Qed.

(* One place in the library finds the common type differently: ArrayAPIBackend's multi-argument
   reductions go through xp.asarray([a, b, ...]), which promotes pairwise from the left.  That type
   is still wide enough for every argument, but it DOES depend on the order and is not always
   np.result_type (NumPy disagrees with itself: int16, uint16, float32 -> float64 by asarray,
   float32 by np.stack and in any other order); XArrayBackend returns the order-independent type. *)
Theorem C15_asarray_dtype_holds_every_argument : forall ds D d,
  promote_seq ds = Some D -> In d ds -> converts d D = true.
Proof. exact promote_seq_upper. Qed.

Theorem C15_asarray_dtype_order_dependent :
  exists ds ds', Permutation ds ds' /\ promote_seq ds <> promote_seq ds' /\ promote_seq ds <> promote_list ds.
Proof. exact promote_seq_order_dependent. Qed.

(* it holds the values of every argument: each argument's type widens to it without loss, the one
   exception NumPy makes being 64-bit integers sent to float64 *)
Theorem C15_common_dtype_holds_every_argument : forall ds D d,
  promote_list ds = Some D -> In d ds -> widens d D = true \/ (is64int d = true /\ D = DF64).
Proof.
  intros ds D d HD Hd. pose proof (promote_list_upper ds D d HD Hd) as H. unfold converts in H.
  apply orb_true_iff in H as [H|H]; [left; exact H|right].
  apply andb_true_iff in H as [H1 H2]. split; [exact H1|]. destruct D; try discriminate. reflexivity.
Qed.

(* widening changes no value: every value of d is a value of D and the conversion is the identity on it *)
Theorem C15_widening_preserves_values : forall d D q,
  widens d D = true -> repr d q = true -> repr D q = true /\ cast D q = q.
Proof. intros d D q HW HR. split; [eapply widens_repr|eapply widens_cast_id]; eassumption. Qed.

(* hence, on arguments of any mixture of element types that widen to the common one, the typed
   reference (convert, then operate) is the exact reference of Backends/Ops.v with the result type attached *)
Theorem C15_typed_reference_is_exact : forall seq c ds D,
  common_of seq ds = Some D ->
  Forall2 (fun d t => all_repr d t = true) ds (call_inputs c) ->
  Forall (fun d => widens d D = true) ds ->
  apply_with (common_of seq) c ds = bind (apply c) (fun t => Ok (op_dtype c D, t)).
Proof. intros seq. exact (apply_with_exact (common_of seq)). Qed.

(* the element type of the first argument is NOT it: there are calls on which a back-end that
   preallocates with args[0].dtype returns other values and another type than the reference, and
   its result type changes when the arguments are reordered *)
Theorem C15_first_argument_dtype_refuted :
  (exists c ds r r', apply_t c ds = Ok r /\ apply_first c ds = Ok r' /\ snd r <> snd r' /\ fst r <> fst r') /\
  (exists ds ds', Permutation ds ds' /\ promote_list ds = promote_list ds' /\
     option_map fst (match apply_first (CStack [t1 1; t1 2] 0%Z) ds with Ok x => Some x | Err _ => None end)
     <> option_map fst (match apply_first (CStack [t1 2; t1 1] 0%Z) ds' with Ok x => Some x | Err _ => None end)).
Proof.
  split.
  - destruct first_dtype_wraps as [H1 H2]. do 4 eexists. split; [exact H1|]. split; [exact H2|].
    split; vm_compute; discriminate.
  - destruct first_dtype_order_dependent as (ds & ds' & HP & HN). exists ds, ds'.
    split; [exact HP|]. split; [apply promote_list_perm; exact HP|exact HN].
Qed.

(* ---- xarray: "the same data" is the data at the same NAMED position, not at the same storage position ---- *)
(* XArrayBackend's multi-argument reductions (sum, prod, min, max, mean, std, var): the result has the dimensions of
   the first argument and, at every named position e, the reduction of the values of ALL arguments at e *)
Theorem C15_xarray_multi_by_name : forall o a rest r,
  xr_multi o (a :: rest) = Ok r ->
  ndims r = ndims a /\
  forall e : list (string * nat), in_range (shape (nten a)) (map (pos_of e) (ndims a)) ->
    nget r e = rf o (map (fun x => nget x e) (a :: rest)).
Proof. exact xr_multi_by_name. Qed.

(* a DataArray stored in another dimension order (.transpose / .T) is the same data ... *)
Theorem C15_xarray_transpose_same_values : forall names a a' (e : list (string * nat)),
  ntranspose names a = Ok a' ->
  in_range (shape (nten a')) (map (pos_of e) names) ->
  ndims a' = names /\ nget a' e = nget a e.
Proof. exact ntranspose_same_values. Qed.

(* ... so the result does not depend on how the arguments store their data *)
Theorem C15_xarray_storage_order_irrelevant : forall o a rest rest' r r',
  xr_multi o (a :: rest) = Ok r -> xr_multi o (a :: rest') = Ok r' ->
  forall e : list (string * nat), in_range (shape (nten a)) (map (pos_of e) (ndims a)) ->
  Forall2 (fun x x' => nget x e = nget x' e) rest rest' ->
  nget r e = nget r' e.
Proof. exact xr_multi_storage_order_irrelevant. Qed.

(* putting the raw data of the arguments on the new axis is the same thing exactly when every argument stores the
   same dimensions in the same ORDER ... *)
Theorem C15_xarray_same_order_is_positional : forall o a rest r,
  Forall (fun x => ndims x = ndims a /\ shape (nten x) = shape (nten a) /\ valid (nten x)) (a :: rest) ->
  xr_multi o (a :: rest) = Ok r -> xr_multi_positional o (a :: rest) = Ok r.
Proof. exact xr_same_order_is_positional. Qed.

(* ... equal SIZES (a.sizes == b.sizes, a comparison of mappings) are not enough *)
Theorem C15_xarray_positional_refuted :
  same_sizes sq_a sq_b = true /\ same_sizes ns_a ns_b = true /\
  values_of (xr_multi o_sum [sq_a; sq_b]) = Some (["x"; "y"], [2; 2]%nat, map qz' [11; 22; 33; 44]%Z) /\
  values_of (xr_multi_positional o_sum [sq_a; sq_b]) = Some (["x"; "y"], [2; 2]%nat, map qz' [11; 32; 23; 44]%Z) /\
  values_of (xr_multi o_sum [ns_a; ns_b]) = Some (["x"; "y"], [2; 3]%nat, map qz' [11; 22; 33; 44; 55; 66]%Z) /\
  values_of (xr_multi_positional o_sum [ns_a; ns_b]) = None.
Proof. exact positional_refuted. Qed.

(* ---- take: the positions asked for are answered one by one, in the order given, repeats kept ---- *)
(* take with a list of positions: the result has as many elements along the axis as positions were asked for, and its
   j-th is the argument's l[j]-th (negative positions count from the end).  This determines the result: no
   rearrangement of the list (sorting it, dropping repeats, reading it as the range first..last) is allowed. *)
Theorem C15_take_list_shape : forall t l axis r a,
  take_op t (inr l) axis = Ok r -> norm_index (List.length (shape t)) axis = Some a ->
  shape r = set_nth a (List.length l) (shape t).
Proof. exact take_list_shape. Qed.

Theorem C15_take_list_pointwise : forall t l axis r j,
  take_op t (inr l) axis = Ok r -> (j < List.length l)%nat ->
  take_op r (inl (Z.of_nat j)) axis = take_op t (inl (nth j l 0%Z)) axis.
Proof. exact take_list_pointwise. Qed.

(* XArrayBackend.take with the dimension given by name *)
Theorem C15_xarray_take_list_pointwise : forall a l d r j,
  xr_apply (XTake a (inr l) (inl d)) = Ok r -> (j < List.length l)%nat ->
  ndims r = ndims a /\
  xr_apply (XTake r (inl (Z.of_nat j)) (inl d)) = xr_apply (XTake a (inl (nth j l 0%Z)) (inl d)).
Proof. exact xr_take_list_pointwise. Qed.

(* a list that IS an ascending run of consecutive positions inside the axis selects what the slice first:last+1
   selects (a view instead of a copy: the one rearrangement a back-end may make) ... *)
Theorem C15_take_run_is_slice : forall t axis a lo len,
  valid t -> norm_index (List.length (shape t)) axis = Some a -> (lo + len <= nth a (shape t) 0%nat)%nat ->
  take_op t (inr (run lo len)) axis = slice_op t lo (lo + len) axis.
Proof. exact take_run_is_slice. Qed.

(* ... so take with that shortcut behind the exact guard is take, for every index argument, values and errors alike *)
Theorem C15_take_slice_shortcut_sound : forall t idx axis, valid t ->
  take_fast is_run_within t idx axis = take_op t idx axis.
Proof. exact take_fast_sound. Qed.

(* behind a guard that looks at the first position, the last and the length only (every run passes it), it is not:
   a permuted run and a run with a repeated position come back ascending and distinct *)
Theorem C15_take_slice_shortcut_by_ends_refuted :
  (forall l, is_run l = true -> ends_like_run l = true) /\
  valid v5 /\
  Forall (fun l : list Z =>
            ends_like_run l = true /\ is_run l = false /\
            exists r r', take_op v5 (inr l) 0%Z = Ok r /\ take_fast (fun _ => ends_like_run) v5 (inr l) 0%Z = Ok r' /\
                         shape r = shape r' /\ r <> r')
         [[0; 2; 1; 3]; [1; 1; 3]; [0; 0; 2]; [1; 3; 2; 4]]%Z.
Proof. split; [exact is_run_ends_like_run|exact take_fast_ends_refuted]. Qed.

(* nor behind a guard that does not look at the size of the axis: a slice clamps where take raises IndexError *)
Theorem C15_take_slice_shortcut_unbounded_refuted :
  is_run [3; 4; 5]%Z = true /\ take_op v5 (inr [3; 4; 5]%Z) 0%Z = Err "IndexError" /\
  exists r, take_fast (fun _ => is_run) v5 (inr [3; 4; 5]%Z) 0%Z = Ok r /\ shape r = [2%nat].
Proof. exact take_fast_unbounded_refuted. Qed.

(* ---- non-vacuity: concrete, non-trivial instances of every hypothesis ---- *)
(* take: a run inside the axis, answered by take and by the slice alike; the pointwise law on a list with a negative and
   a repeated position *)
Example C15_nonvacuous_take :
  valid v5 /\ norm_index (List.length (shape v5)) (-1)%Z = Some 0%nat /\ (1 + 3 <= nth 0 (shape v5) 0)%nat /\
  is_run_within 5 (run 1 3) = true /\
  (exists r, take_op v5 (inr (run 1 3)) (-1)%Z = Ok r /\ slice_op v5 1 4 (-1)%Z = Ok r /\ shape r = [3%nat]) /\
  (exists r, take_op v5 (inr [4; -5; 4]%Z) 0%Z = Ok r /\
             take_op r (inl 1%Z) 0%Z = take_op v5 (inl (-5)%Z) 0%Z /\ take_op r (inl 1%Z) 0%Z = Ok (T [] (Leaf (Q2Qc (inject_Z 10))))).
Proof. exact slice_nonvacuous. Qed.

Example C15_nonvacuous_xarray_take :
  exists r, xr_apply (XTake ns_b (inr [2; 0; 2]%Z) (inl "y")) = Ok r /\ ndims r = ndims ns_b /\
            xr_apply (XTake r (inl 1%Z) (inl "y")) = xr_apply (XTake ns_b (inl 0%Z) (inl "y")).
Proof. eexists. split; [vm_compute; reflexivity|]. split; vm_compute; reflexivity. Qed.

(* named arrays: a transposed copy with an environment in range; a defined reduction of differently stored
   arguments; arguments in the same order; the checker accepts the by-name result and refuses the positional one *)
Example C15_nonvacuous_named :
  (exists b', ntranspose ["x"; "y"] sq_b = Ok b' /\ ndims b' = ["x"; "y"] /\
              in_range (shape (nten b')) (map (pos_of [("x", 1%nat); ("y", 0%nat)]) ["x"; "y"]) /\
              nget b' [("x", 1%nat); ("y", 0%nat)] = qz' 30 /\ nget sq_b [("x", 1%nat); ("y", 0%nat)] = qz' 30) /\
  (exists r, xr_multi o_sum [sq_a; sq_b] = Ok r /\
             in_range (shape (nten sq_a)) (map (pos_of [("x", 1%nat); ("y", 0%nat)]) (ndims sq_a)) /\
             nget r [("x", 1%nat); ("y", 0%nat)] = qz' 33) /\
  Forall (fun x => ndims x = ndims sq_a /\ shape (nten x) = shape (nten sq_a) /\ valid (nten x)) [sq_a; sq_a].
Proof. exact named_nonvacuous. Qed.

Example C15_nonvacuous_named_checker :
  check_xcase (XReduce "sum" [sq_a; sq_b] None, ["x"; "y"], true, OInt [2; 2]%nat [11; 22; 33; 44]%Z, (0, 1)%Z, (0, 1)%Z) = true /\
  check_xcase (XReduce "sum" [sq_a; sq_b] None, ["x"; "y"], true, OInt [2; 2]%nat [11; 32; 23; 44]%Z, (0, 1)%Z, (0, 1)%Z) = false /\
  check_xcase (XReduce "max" [sq_b; sq_a] None, ["y"; "x"], true, OInt [2; 2]%nat [10; 30; 20; 40]%Z, (0, 1)%Z, (0, 1)%Z) = true /\
  check_xcase (XConcat [ns_a; ns_b] "y", ["x"; "y"], true, OInt [2; 6]%nat [1; 2; 3; 10; 20; 30; 4; 5; 6; 40; 50; 60]%Z, (0, 1)%Z, (0, 1)%Z) = true /\
  check_xcase (XTake ns_b (inl 1%Z) (inr (-1)%Z), ["y"], true, OInt [3]%nat [40; 50; 60]%Z, (0, 1)%Z, (0, 1)%Z) = true.
Proof. vm_compute. repeat split; reflexivity. Qed.

(* element types: the common type of a list is not the left fold of the pairwise one (so it is stated on
   lists); a lossless mixture; values in and out of a type; a wrapped and a truncated conversion;
   an instance of every hypothesis of C15_typed_reference_is_exact with a defined, typed result *)
Example C15_nonvacuous_dtypes :
  promote_list [DI16; DU16; DF32] = Some DF32 /\ promote (promote DI16 DU16) DF32 = DF64 /\
  promote_list [DI8; DU64] = Some DF64 /\ lossless [DI8; DI32; DF64] = true /\ lossless [DI64; DF32] = false /\
  widens DI16 DF32 = true /\ widens DI32 DF32 = false /\
  repr DF32 (Q2Qc (5 # 2)) = true /\ repr DI8 (qint 300) = false /\ repr DF32 (qint 16777217) = false /\
  cast DI8 (qint 300) = qint 44 /\ cast DI32 (Q2Qc (-7 # 2)) = qint (-3) /\ cast DBool (qint 5) = qint 1.
Proof. vm_compute. repeat split; reflexivity. Qed.

Example C15_nonvacuous_typed :
  let c := CStack [t1 1; th 5 2] 0%Z in
  common_of false [DI8; DF64] = Some DF64 /\ common_of true [DI8; DF64] = Some DF64 /\
  Forall2 (fun d t => all_repr d t = true) [DI8; DF64] (call_inputs c) /\
  Forall (fun d => widens d DF64 = true) [DI8; DF64] /\
  (exists t, apply_t c [DI8; DF64] = Ok (DF64, t) /\ shape t = [2%nat; 1%nat]) /\
  typed_result_is (CReduce "sum" [t1 100; t1 100; t1 100] None) [DI8; DI8; DI8] DI64 [1%nat] [300%Z] = true /\
  check_dtype_only (CBin "divide" (t1 1) (t1 2), [DI16; DF32], DF32, false) = true /\
  check_dtype_only (CReduce "min" [] None, [DI16; DU16; DF32], DF64, true) = true /\
  check_dtype_only (CReduce "min" [] None, [DI16; DU16; DF32], DF32, false) = true.
Proof.
  cbv zeta. split; [reflexivity|]. split; [reflexivity|]. split; [repeat constructor|]. split; [repeat constructor|].
  split; [eexists; split; vm_compute; reflexivity|]. repeat split; vm_compute; reflexivity.
Qed.

Example C15_nonvacuous_marked :
  (exists meth, In meth (marked_of backend_facade)) /\
  resolve backend_facade xarray_table "concat" = Some MConcat /\
  resolve backend_facade arrayapi_table "min" = Some (MReduce "min").
Proof. split; [eexists; left; reflexivity|]. vm_compute. tauto. Qed.

(* the unmarked multi-argument methods of the current source are exactly the non-batchable ones *)
Example C15_nonvacuous_unmarked :
  resolve backend_facade arrayapi_table "var" = Some (MReduce "var") /\
  resolve backend_facade xarray_table "stack" = Some MStack /\
  known_not_batchable (MReduce "var") = true /\ known_not_batchable MStack = true /\
  known_not_batchable (MReduce "mean") = true /\ known_not_batchable (MReduce "std") = true.
Proof. vm_compute. tauto. Qed.

(* a partition of four valid 2-vectors into two batches: the hypotheses of batch_law hold and both
   sides are defined and equal for sum and for concat along axis -1 *)
Example C15_nonvacuous_law :
  (2 <= List.length witness)%nat /\ Forall (fun b => b <> []) witness /\ Forall (Forall valid) witness /\
  (exists v, denote (MReduce "sum") 0%Z (List.concat witness) = Ok v /\
             bind (mapM (batch_apply (denote (MReduce "sum") 0%Z)) witness) (denote (MReduce "sum") 0%Z) = Ok v) /\
  (exists v, denote MConcat (-1)%Z (List.concat witness) = Ok v /\ shape v = [8%nat]).
Proof.
  destruct witness_ok as (H1 & H2 & H3). repeat split; try assumption.
  - eexists. split; vm_compute; reflexivity.
  - eexists. split; vm_compute; reflexivity.
Qed.

Example C15_nonvacuous_partition :
  Permutation (List.concat [[v2 1 2]; [v2 3 4; v2 5 6]]) [v2 5 6; v2 1 2; v2 3 4].
Proof. cbn. apply Permutation_sym. apply (Permutation_cons_app [v2 1 2; v2 3 4] [] (v2 5 6)). cbn. apply Permutation_refl. Qed.

Example C15_nonvacuous_multi : redop_of "var" <> None /\ redop_of "max" <> None.
Proof. split; discriminate. Qed.

Print Assumptions C15_generated_tables_ok.
Print Assumptions C15_marked_are_batchable.
Print Assumptions C15_mean_std_var_stack_not_batchable.
Print Assumptions C15_reductions_any_partition.
Print Assumptions C15_multi_is_stack_then_reduce.
Print Assumptions C15_common_dtype_order_independent.
Print Assumptions C15_result_dtype_order_independent.
Print Assumptions C15_common_dtype_holds_every_argument.
Print Assumptions C15_asarray_dtype_holds_every_argument.
Print Assumptions C15_asarray_dtype_order_dependent.
Print Assumptions C15_widening_preserves_values.
Print Assumptions C15_typed_reference_is_exact.
Print Assumptions C15_first_argument_dtype_refuted.
Print Assumptions C15_xarray_multi_by_name.
Print Assumptions C15_xarray_transpose_same_values.
Print Assumptions C15_xarray_storage_order_irrelevant.
Print Assumptions C15_xarray_same_order_is_positional.
Print Assumptions C15_xarray_positional_refuted.
Print Assumptions C15_take_list_shape.
Print Assumptions C15_take_list_pointwise.
Print Assumptions C15_xarray_take_list_pointwise.
Print Assumptions C15_take_run_is_slice.
Print Assumptions C15_take_slice_shortcut_sound.
Print Assumptions C15_take_slice_shortcut_by_ends_refuted.
Print Assumptions C15_take_slice_shortcut_unbounded_refuted.
