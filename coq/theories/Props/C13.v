(* C13 -- fluent programs denote the arrays NumPy would compute, batched or not.

   Model: Fluent/XArr.v (array of nodes: ordered dimensions with coordinates, scalar
   coordinates, the cell -- an expression tree Src i | App f inputs statics kwargs -- at
   every multi-index) and Fluent/Action.v (Action.map / reduce with the batching loop /
   mean / std / stack / concatenate / flatten / expand / select / iselect / broadcast /
   join / arithmetic / transform, with the `fix:` commits of branch verif-C13).
   `ev V src ap e` is the value a node computes for ANY interpretation `ap` of the
   callables (payload.func applied to the input values, statics, kwargs).  "= NumPy" for
   the backends' functions themselves is C15's subject and is checked here per run by the
   NumPy oracle of harness/c13.py; what is proved is the wiring: which cells feed which
   node in which order, the result's dimensions and coordinates, and that a batch size
   changes the graph but neither the values nor the dimensions. *)
From Coq Require Import List NArith ZArith String Bool Field QArith Qcanon.
From EKW Require Import Fluent.XArr Fluent.Action Fluent.Batch Fluent.ActionProofs.
From EKW Require Fluent.ActionCheck.   (* keeps the correspondence checker's .vo in step with the model *)
Import ListNotations.
Close Scope Qc_scope.
Close Scope Q_scope.
Open Scope string_scope.
Open Scope list_scope.

(* (1) reduce without keep_dim: the named (or first) dimension disappears, the others keep
   their order and coordinates, scalar coordinates are propagated, and the cell at every
   remaining multi-index t applies the payload to the cells along the reduced dimension
   at t, IN COORDINATE ORDER. *)
Theorem C13_reduce_cells : forall f kw d a r,
  a_reduce f kw d 0 false a = Ok r ->
  exists d' k, default_dim d a = Ok d' /\ find_dim d' (xdims a) = Some k /\
    xdims r = map reindexed (remove_at k (xdims a)) /\ xscal r = xscal a /\
    forall t, xat r t = App f (map (fun x => xat a (insert_at k x t)) (seq 0 (size_at k a))) [] kw.
Proof. exact reduce_spec_drop. Qed.

(* (1') with keep_dim the dimension stays at its original axis with ONE coordinate (the
   first-last label) and the cells are the same *)
Theorem C13_reduce_cells_keep_dim : forall f kw d a r,
  a_reduce f kw d 0 true a = Ok r ->
  exists d' k, default_dim d a = Ok d' /\ find_dim d' (xdims a) = Some k /\
    xdims r = insert_at k {| dname := d'; dcoords := [kept_label (nth k (xdims a) dflt_dim)]; dindexed := true |}
                        (map reindexed (remove_at k (xdims a))) /\
    xscal r = xscal a /\
    forall t, xat r t = App f (map (fun x => xat a (insert_at k x (remove_at k t))) (seq 0 (size_at k a))) [] kw.
Proof. exact reduce_spec_keep. Qed.

(* (2) ANY batch size: whenever the reduction with batch size bs is built, the unbatched one is
   built too, has the same dimensions, coordinates and scalar coordinates, and every cell
   evaluates to the same value -- for every interpretation of the callables under which
   the reduction obeys the batch law (what `batchable` promises; C15 proves it for the
   marked backend functions).  With or without keep_dim, any array rank and size. *)
Theorem C13_batching_never_changes_values :
  forall (V : Type) (src : N -> V) (ap : fn -> list V -> list cv -> kwargs -> V) f kw,
  batch_law V (gf V ap f kw) ->
  forall d bs keep a r,
    a_reduce f kw d bs keep a = Ok r ->
    exists r0, a_reduce f kw d 0 keep a = Ok r0 /\
      xdims r = xdims r0 /\ xscal r = xscal r0 /\
      forall t, ev V src ap (xat r t) = ev V src ap (xat r0 t).
Proof. exact reduce_batching_invariant. Qed.

(* (2') conversely a batch size never breaks a reduction that works unbatched (batchable
   function, indexed dimensions, distinct labels on the reduced dimension); in particular
   the batching loop terminates: its fuel never runs out *)
Theorem C13_batching_never_fails : forall f kw d bs keep a r0,
  a_reduce f kw d 0 keep a = Ok r0 ->
  fbatch f = true -> forallb dindexed (xdims a) = true ->
  (forall d' k, default_dim d a = Ok d' -> find_dim d' (xdims a) = Some k ->
                nodupb (dcoords (nth k (xdims a) dflt_dim)) = true) ->
  exists r, a_reduce f kw d bs keep a = Ok r.
Proof. exact (reduce_batched_defined unit (fun _ => tt) (fun _ _ _ _ => tt)). Qed.

Theorem C13_batch_loop_terminates : forall f kw bs, 2 <= bs -> forall fuel level name k a,
  size_at k a <= fuel -> exists r, batch_loop fuel f kw bs level name k a = Ok r.
Proof. exact batch_loop_fuel. Qed.

(* (3) mean with any batch size (rewritten as batched sum, then divide by the size) has the
   dimensions and the values of the unbatched mean, over any field *)
Theorem C13_mean_batched_eq :
  forall (K : Type) k0 k1 kadd kmul ksub kopp kdiv kinv,
  field_theory k0 k1 kadd kmul ksub kopp kdiv kinv (@eq K) ->
  forall other srcK d bs keep bkw a r,
    a_mean d bs keep bkw a = Ok r ->
    exists r0, a_mean d 0 keep bkw a = Ok r0 /\
      xdims r = xdims r0 /\ xscal r = xscal r0 /\
      forall t, ev K srcK (apK K k0 k1 kadd kopp kdiv other) (xat r t) =
                ev K srcK (apK K k0 k1 kadd kopp kdiv other) (xat r0 t).
Proof.
  intros K k0 k1 kadd kmul ksub kopp kdiv kinv Kth other srcK.
  exact (mean_batching_invariant K k0 k1 kadd kmul ksub kopp kdiv kinv Kth other srcK).
Qed.

(* (4) std with a batch size computes sqrt(sum x^2 / n - (sum x / n)^2) (see Action.a_std and
   the cell trees compared on every run); over a field this IS the variance
   sum (x - mu)^2 / n.  PARTIAL: the algebraic identity is proved for all lists; the
   cell-level composition through power/sum/divide/subtract is tied by correspondence only. *)
Theorem C13_std_batched_eq_partial :
  forall (K : Type) k0 k1 kadd kmul ksub kopp kdiv kinv,
  field_theory k0 k1 kadd kmul ksub kopp kdiv kinv (@eq K) ->
  forall l : list K,
    of_nat K k0 k1 kadd (List.length l) <> k0 ->
    let n := of_nat K k0 k1 kadd (List.length l) in
    let mu := kdiv (ksum K k0 kadd l) n in
    kdiv (ksum K k0 kadd (map (fun x => sq K kmul (ksub x mu)) l)) n =
    ksub (kdiv (ksum K k0 kadd (map (sq K kmul) l)) n) (sq K kmul (kdiv (ksum K k0 kadd l) n)).
Proof.
  intros K k0 k1 kadd kmul ksub kopp kdiv kinv Kth.
  exact (variance_identity K k0 k1 kadd kmul ksub kopp kdiv kinv Kth).
Qed.

(* (5) the law assumed in (2) is what sum satisfies (n-ary sum over a field) *)
Theorem C13_sum_obeys_batch_law :
  forall (K : Type) k0 k1 kadd kmul ksub kopp kdiv kinv,
  field_theory k0 k1 kadd kmul ksub kopp kdiv kinv (@eq K) ->
  forall other kw, batch_law K (gf K (apK K k0 k1 kadd kopp kdiv other) f_sum kw).
Proof.
  intros K k0 k1 kadd kmul ksub kopp kdiv kinv Kth other kw.
  exact (sum_law_sem K k0 k1 kadd kmul ksub kopp kdiv kinv Kth other kw).
Qed.

(* (6) structural operations: what each cell is *)
Theorem C13_map_cells : forall f ex kw a t,
  xdims (a_map f ex kw a) = xdims a /\ xscal (a_map f ex kw a) = xscal a /\
  xat (a_map f ex kw a) t = App f [xat a t] ex kw.
Proof. exact map_spec. Qed.

Theorem C13_broadcast_cells : forall excl a b r,
  a_broadcast excl a b = Ok r ->
  xdims r = bcast_dims a b excl /\ xscal r = xscal a /\
  forall t, xat r t = App f_trivial
    [xat a (map (fun d => match find_dim (dname d) (bcast_dims a b excl) with
                          | Some k => nth k t 0 | None => 0 end) (xdims a))] [] [].
Proof. exact broadcast_spec. Qed.

Theorem C13_select_label_cells : forall name c drop a r,
  x_sel1 name (SOne c) drop a = Ok r ->
  exists k p, find_dim name (xdims a) = Some k /\
    index_of c (dcoords (nth k (xdims a) dflt_dim)) = Some p /\
    xdims r = remove_at k (xdims a) /\
    forall t, xat r t = xat a (insert_at k p t).
Proof. exact select_one_spec. Qed.

(* ------------------------------------------------------------------ non-vacuity *)
Definition exA : xarr :=
  a_source [("x", [CZ 10; CZ 11; CZ 12; CZ 13; CZ 14]); ("y", [CS "a"; CS "b"])] 0.

Definition is_ok {A} (r : res A) : bool := match r with Ok _ => true | Err _ => false end.

(* reduce over x (size 5) of a 5x2 array, unbatched, with and without keep_dim *)
Example C13_reduce_cells_nonvacuous :
  is_ok (a_reduce f_sum [] "x" 0 false exA) = true /\ is_ok (a_reduce f_sum [] "" 0 true exA) = true.
Proof. vm_compute. split; reflexivity. Qed.

(* batch sizes 2 and 3 on size 5 (two rounds resp. one round with a singleton batch), keep_dim *)
Example C13_batching_nonvacuous :
  is_ok (a_reduce f_sum [] "x" 2 true exA) = true /\ is_ok (a_reduce f_sum [] "x" 3 false exA) = true /\
  (* the batched graph really differs: the cell is a sum of sums *)
  match a_reduce f_sum [] "x" 2 false exA with
  | Ok r => match xat r [0] with App _ ins _ _ => List.length ins | Src _ => 0 end
  | Err _ => 0 end = 2.
Proof. vm_compute. repeat split; reflexivity. Qed.

(* the batch law and the field hypotheses are satisfiable: the rationals (Qc, Leibniz equality) *)
Example C13_batch_law_nonvacuous :
  forall other kw, batch_law Qc (gf Qc (apK Qc 0%Qc 1%Qc Qcplus Qcopp Qcdiv other) f_sum kw).
Proof. exact (C13_sum_obeys_batch_law Qc 0%Qc 1%Qc Qcplus Qcmult Qcminus Qcopp Qcdiv Qcinv Qcft). Qed.

Example C13_batching_never_fails_nonvacuous :
  fbatch f_sum = true /\ forallb dindexed (xdims exA) = true /\
  nodupb (dcoords (nth 0 (xdims exA) dflt_dim)) = true /\ is_ok (a_reduce f_sum [] "x" 0 false exA) = true.
Proof. vm_compute. repeat split; reflexivity. Qed.

Example C13_mean_std_nonvacuous :
  is_ok (a_mean "x" 2 true [] exA) = true /\ is_ok (a_std "x" 2 true [] exA) = true /\
  of_nat Qc 0%Qc 1%Qc Qcplus (List.length [1%Qc; 1%Qc; 1%Qc]) <> 0%Qc.
Proof. split; [vm_compute; reflexivity|]. split; [vm_compute; reflexivity|]. intros H. vm_compute in H. discriminate H. Qed.

Example C13_structural_nonvacuous :
  is_ok (a_broadcast [] (a_source [("y", [CS "a"; CS "b"])] 100) exA) = true /\
  is_ok (x_sel1 "x" (SOne (CZ 12)) false exA) = true.
Proof. vm_compute. split; reflexivity. Qed.

Print Assumptions C13_reduce_cells.
Print Assumptions C13_reduce_cells_keep_dim.
Print Assumptions C13_batching_never_changes_values.
Print Assumptions C13_batching_never_fails.
Print Assumptions C13_batch_loop_terminates.
Print Assumptions C13_mean_batched_eq.
Print Assumptions C13_std_batched_eq_partial.
Print Assumptions C13_sum_obeys_batch_law.
Print Assumptions C13_map_cells.
Print Assumptions C13_broadcast_cells.
Print Assumptions C13_select_label_cells.
Print Assumptions C13_batch_law_nonvacuous.
