(* C13 -- fluent programs denote the arrays NumPy would compute, batched or not.

   Model: Fluent/XArr.v (array of nodes: ordered dimensions with coordinates, scalar
   coordinates, the cell -- an expression tree Src i | App f inputs statics kwargs -- at
   every multi-index) and Fluent/Action.v (Action.map / reduce with the batching loop /
   mean / std / stack / concatenate / flatten / expand / select / iselect / broadcast /
   join / arithmetic / transform, with the `fix:` commits of branch verif-C13).
   `ev V src ap e` is the value a node computes for ANY interpretation `ap` of the
   callables (payload.func applied to the input values, statics, kwargs).  "= NumPy" for
   the backends' functions themselves is C15's subject and is checked here per run by the
   NumPy oracle of harness/c13.py; what is proved is the wiring: which cells feed which
   node in which order, the result's dimensions and coordinates, and that a batch size
   changes the graph but neither the values nor the dimensions.
   For the callables the fluent layer itself puts into nodes (take, stack, concat, the named
   reductions, arithmetic, trivial) Fluent/ActionSem.v gives `ap` a meaning on exact arrays
   (the reference semantics of Backends/Ops.v); (14)-(16) are about the VALUES under it -- which
   element expand takes for an internal dimension counted from the front or from the back, and
   that stack undoes expand -- and the correspondence run compares these values with the
   evaluation of the real graph.  (17): a call does not depend on other calls of the session.
   (18)-(21): ELEMENT TYPES.  Fluent/ActionSemT.v gives every value its NumPy dtype (Backends/Dtype.v):
   sum / prod accumulate booleans and narrow integers in the 64-bit integer, a + b stays in the type
   of its operands, results are stored with wrap-around.  Proved: batching integer sums / products
   changes neither value nor element type, wrap-around included; the result type is the accumulator
   type whatever mixture of sources and batch results is reduced; a reduction that folds its inputs
   pairwise with the element-wise ufunc is ANOTHER function on booleans and narrow integers.  The
   typed model is compared with the evaluation of the real graph, dtype and value of every cell,
   on every run (stream semt). *)
From Coq Require Import List NArith ZArith String Bool Field QArith Qcanon.
From EKW Require Import Fluent.XArr Fluent.Action Fluent.Batch Fluent.ActionProofs Fluent.ActionSpecs
  Fluent.ActionStd Fluent.ActionTransform Fluent.ActionSem Fluent.ActionSemProofs Fluent.ActionSemT Fluent.ActionSemTProofs.
From EKW Require Fluent.ActionCheck.   (* keeps the correspondence checker's .vo in step with the model *)
From EKW Require Import Fluent.ActionSemCheck.
Import ListNotations.
Close Scope Qc_scope.
Close Scope Q_scope.
Open Scope string_scope.
Open Scope list_scope.

(* (1) reduce without keep_dim: the named (or first) dimension disappears, the others keep
   their order and coordinates, scalar coordinates are propagated, and the cell at every
   remaining multi-index t applies the payload to the cells along the reduced dimension
   at t, IN COORDINATE ORDER. *)
Theorem C13_reduce_cells : forall f kw d a r,
  a_reduce f kw d 0 false a = Ok r ->
  exists d' k, default_dim d a = Ok d' /\ find_dim d' (xdims a) = Some k /\
    xdims r = map reindexed (remove_at k (xdims a)) /\ xscal r = xscal a /\
    forall t, xat r t = App f (map (fun x => xat a (insert_at k x t)) (seq 0 (size_at k a))) [] kw.
Proof. exact reduce_spec_drop. Qed.

(* (1') with keep_dim the dimension stays at its original axis with ONE coordinate (the
   first-last label) and the cells are the same *)
Theorem C13_reduce_cells_keep_dim : forall f kw d a r,
  a_reduce f kw d 0 true a = Ok r ->
  exists d' k, default_dim d a = Ok d' /\ find_dim d' (xdims a) = Some k /\
    xdims r = insert_at k {| dname := d'; dcoords := [kept_label (nth k (xdims a) dflt_dim)]; dindexed := true |}
                        (map reindexed (remove_at k (xdims a))) /\
    xscal r = xscal a /\
    forall t, xat r t = App f (map (fun x => xat a (insert_at k x (remove_at k t))) (seq 0 (size_at k a))) [] kw.
Proof. exact reduce_spec_keep. Qed.

(* (2) ANY batch size: whenever the reduction with batch size bs is built, the unbatched one is
   built too, has the same dimensions, coordinates and scalar coordinates, and every cell
   evaluates to the same value -- for every interpretation of the callables under which
   the reduction obeys the batch law (what `batchable` promises; C15 proves it for the
   marked backend functions).  With or without keep_dim, any array rank and size. *)
Theorem C13_batching_never_changes_values :
  forall (V : Type) (src : N -> V) (ap : fn -> list V -> list cv -> kwargs -> V) f kw,
  batch_law V (gf V ap f kw) ->
  forall d bs keep a r,
    a_reduce f kw d bs keep a = Ok r ->
    exists r0, a_reduce f kw d 0 keep a = Ok r0 /\
      xdims r = xdims r0 /\ xscal r = xscal r0 /\
      forall t, ev V src ap (xat r t) = ev V src ap (xat r0 t).
Proof. exact reduce_batching_invariant. Qed.

(* (2') conversely a batch size never breaks a reduction that works unbatched (batchable
   function, indexed dimensions, distinct labels on the reduced dimension); in particular
   the batching loop terminates: its fuel never runs out *)
Theorem C13_batching_never_fails : forall f kw d bs keep a r0,
  a_reduce f kw d 0 keep a = Ok r0 ->
  fbatch f = true -> forallb dindexed (xdims a) = true ->
  (forall d' k, default_dim d a = Ok d' -> find_dim d' (xdims a) = Some k ->
                nodupb (dcoords (nth k (xdims a) dflt_dim)) = true) ->
  exists r, a_reduce f kw d bs keep a = Ok r.
Proof. exact (reduce_batched_defined unit (fun _ => tt) (fun _ _ _ _ => tt)). Qed.

Theorem C13_batch_loop_terminates : forall f kw bs, 2 <= bs -> forall fuel level name k a,
  size_at k a <= fuel -> exists r, batch_loop fuel f kw bs level name k a = Ok r.
Proof. exact batch_loop_fuel. Qed.

(* (3) mean with any batch size (rewritten as batched sum, then divide by the size) has the
   dimensions and the values of the unbatched mean, over any field *)
Theorem C13_mean_batched_eq :
  forall (K : Type) k0 k1 kadd kmul ksub kopp kdiv kinv,
  field_theory k0 k1 kadd kmul ksub kopp kdiv kinv (@eq K) ->
  forall ksqrt other srcK d bs keep bkw a r,
    a_mean d bs keep bkw a = Ok r ->
    exists r0, a_mean d 0 keep bkw a = Ok r0 /\
      xdims r = xdims r0 /\ xscal r = xscal r0 /\
      forall t, ev K srcK (apK K k0 k1 kadd kmul ksub kopp kdiv ksqrt other) (xat r t) =
                ev K srcK (apK K k0 k1 kadd kmul ksub kopp kdiv ksqrt other) (xat r0 t).
Proof.
  intros K k0 k1 kadd kmul ksub kopp kdiv kinv Kth ksqrt other srcK.
  exact (mean_batching_invariant K k0 k1 kadd kmul ksub kopp kdiv kinv Kth ksqrt other srcK).
Qed.

(* (4) std with any batch size -- (power(2).sum(batched).divide(n) - mean(batched).power(2)).power(0.5),
   through the real join/reduce of the two-action subtraction -- has the dimensions and the
   cell values of the unbatched std, over any field in which the counts are invertible, with
   an uninterpreted square root.  The array must not already use the helper name
   "**datatype**" that two-action arithmetic joins on. *)
Theorem C13_std_batched_eq :
  forall (K : Type) k0 k1 kadd kmul ksub kopp kdiv kinv,
  field_theory k0 k1 kadd kmul ksub kopp kdiv kinv (@eq K) ->
  forall ksqrt other srcK,
  (forall n, (0 < n)%nat -> of_nat K k0 k1 kadd n <> k0) ->
  forall d bs keep bkw a r,
    fresh DT a ->
    a_std d bs keep bkw a = Ok r ->
    exists r0, a_std d 0 keep bkw a = Ok r0 /\
      xdims r = xdims r0 /\ xscal r = xscal r0 /\
      forall t, ev K srcK (apK K k0 k1 kadd kmul ksub kopp kdiv ksqrt other) (xat r t) =
                ev K srcK (apK K k0 k1 kadd kmul ksub kopp kdiv ksqrt other) (xat r0 t).
Proof.
  intros K k0 k1 kadd kmul ksub kopp kdiv kinv Kth ksqrt other srcK Hc.
  exact (std_batching_invariant K k0 k1 kadd kmul ksub kopp kdiv kinv Kth ksqrt other srcK Hc).
Qed.

(* (4') the algebra used by (4): the variance identity, for all lists over a field *)
Theorem C13_variance_identity :
  forall (K : Type) k0 k1 kadd kmul ksub kopp kdiv kinv,
  field_theory k0 k1 kadd kmul ksub kopp kdiv kinv (@eq K) ->
  forall l : list K,
    of_nat K k0 k1 kadd (List.length l) <> k0 ->
    let n := of_nat K k0 k1 kadd (List.length l) in
    let mu := kdiv (ksum K k0 kadd l) n in
    kdiv (ksum K k0 kadd (map (fun x => sq K kmul (ksub x mu)) l)) n =
    ksub (kdiv (ksum K k0 kadd (map (sq K kmul) l)) n) (sq K kmul (kdiv (ksum K k0 kadd l) n)).
Proof.
  intros K k0 k1 kadd kmul ksub kopp kdiv kinv Kth.
  exact (variance_identity K k0 k1 kadd kmul ksub kopp kdiv kinv Kth).
Qed.

(* (5) the law assumed in (2) is what sum satisfies (n-ary sum over a field) *)
Theorem C13_sum_obeys_batch_law :
  forall (K : Type) k0 k1 kadd kmul ksub kopp kdiv kinv,
  field_theory k0 k1 kadd kmul ksub kopp kdiv kinv (@eq K) ->
  forall ksqrt other kw, batch_law K (gf K (apK K k0 k1 kadd kmul ksub kopp kdiv ksqrt other) f_sum kw).
Proof.
  intros K k0 k1 kadd kmul ksub kopp kdiv kinv Kth ksqrt other kw.
  exact (sum_law_sem K k0 k1 kadd kmul ksub kopp kdiv kinv Kth ksqrt other kw).
Qed.

(* (6) structural operations: what each cell is *)
Theorem C13_map_cells : forall f ex kw a t,
  xdims (a_map f ex kw a) = xdims a /\ xscal (a_map f ex kw a) = xscal a /\
  xat (a_map f ex kw a) t = App f [xat a t] ex kw.
Proof. exact map_spec. Qed.

Theorem C13_broadcast_cells : forall excl a b r,
  a_broadcast excl a b = Ok r ->
  xdims r = bcast_dims a b excl /\ xscal r = xscal a /\
  forall t, xat r t = App f_trivial
    [xat a (map (fun d => match find_dim (dname d) (bcast_dims a b excl) with
                          | Some k => nth k t 0 | None => 0 end) (xdims a))] [] [].
Proof. exact broadcast_spec. Qed.

Theorem C13_select_label_cells : forall name c drop a r,
  x_sel1 name (SOne c) drop a = Ok r ->
  exists k p, find_dim name (xdims a) = Some k /\
    index_of c (dcoords (nth k (xdims a) dflt_dim)) = Some p /\
    xdims r = remove_at k (xdims a) /\
    forall t, xat r t = xat a (insert_at k p t).
Proof. exact select_one_spec. Qed.

(* (7) join.  Along a NEW dimension: it comes first, has size 2 (unindexed, or with the two
   given coordinates), the other dimensions must agree exactly, and position 0 / 1 holds the
   cells of the first / second operand.  Along an EXISTING dimension: coordinates appended,
   cells of the first operand first. *)
Theorem C13_join_new_dim_cells : forall name given a b r,
  fresh name a -> fresh name b -> x_concat name given a b = Ok r ->
  exists nd, xdims r = nd :: xdims a /\ dname nd = name /\
    match given with
    | None => dcoords nd = zrange 2 /\ dindexed nd = false
    | Some cs => dcoords nd = cs /\ dindexed nd = true /\ List.length cs = 2%nat
    end /\
    dims_compat (xdims a) (xdims b) = Ok tt /\
    merge_scal (xscal a) (xscal b) = Ok (xscal r) /\
    forall t, xat r (0%nat :: t) = xat a t /\ xat r (1%nat :: t) = xat b t.
Proof. exact concat_new_spec. Qed.

Theorem C13_join_existing_dim_cells : forall name a b k r,
  find_dim name (xdims a) = Some k -> find_dim name (xdims b) = Some k ->
  x_concat name None a b = Ok r ->
  let da := nth k (xdims a) dflt_dim in let db := nth k (xdims b) dflt_dim in
  xdims r = replace_at k {| dname := name;
                            dcoords := if dindexed da then dcoords da ++ dcoords db
                                       else zrange (List.length (dcoords da ++ dcoords db));
                            dindexed := dindexed da |} (xdims a) /\
  dims_compat (remove_at k (xdims a)) (remove_at k (xdims b)) = Ok tt /\
  merge_scal (xscal a) (xscal b) = Ok (xscal r) /\
  forall idx, xat r idx = if Nat.ltb (nth k idx 0%nat) (size_at k a) then xat a idx
                          else xat b (replace_at k (nth k idx 0%nat - size_at k a)%nat idx).
Proof. exact concat_existing_spec. Qed.

Theorem C13_join_is_concat : forall name given matchc a b r,
  a_join name given matchc a b = Ok r ->
  exists b', (if matchc then match_coords a b else Ok b) = Ok b' /\ xat b' = xat b /\
             x_concat name given a b' = Ok r.
Proof. exact join_spec. Qed.

(* (8) arithmetic between two actions: same dimensions (all indexed afterwards), and the cell
   at t applies the operation to (cell of self at t, cell of other at t) IN THAT ORDER *)
Theorem C13_binary_cells : forall f kw x y r,
  fresh DT x -> fresh DT y -> a_bin f kw x y = Ok r ->
  xdims r = map reindexed (xdims x) /\
  (exists y', match_coords x y = Ok y' /\ merge_scal (xscal x) (xscal y') = Ok (xscal r)) /\
  forall t, xat r t = App f [xat x t; xat y t] [] kw.
Proof. exact bin_spec. Qed.

(* (9) iselect by one position (negative positions count from the end) and by a list *)
Theorem C13_iselect_cells : forall name i drop a r,
  x_isel1 name (IOne i) drop a = Ok r ->
  exists k p, find_dim name (xdims a) = Some k /\
    norm_pos (size_at k a) i = Some p /\
    xdims r = remove_at k (xdims a) /\
    forall t, xat r t = xat a (insert_at k p t).
Proof. exact iselect_one_spec. Qed.

Theorem C13_iselect_list_cells : forall name is drop a r,
  x_isel1 name (IMany is) drop a = Ok r ->
  exists k ps, find_dim name (xdims a) = Some k /\
    all_some (map (norm_pos (size_at k a)) is) = Some ps /\
    xdims r = replace_at k (let d := nth k (xdims a) dflt_dim in
                            {| dname := dname d;
                               dcoords := if dindexed d then map (fun p => nth p (dcoords d) (CZ 0)) ps
                                          else zrange (List.length ps);
                               dindexed := dindexed d |}) (xdims a) /\
    xscal r = xscal a /\
    forall idx, xat r idx = xat a (replace_at k (nth (nth k idx 0%nat) ps 0%nat) idx).
Proof. exact iselect_many_spec. Qed.

(* (10) stack / concatenate / flatten: on a dimension of size <> 1 they are the reduction with
   backends.stack (kwargs axis first) / backends.concat, so (1), (1'), (2), (2') apply to them *)
Theorem C13_stack_is_reduce : forall d bs keep axis bkw a k,
  find_dim d (xdims a) = Some k -> size_at k a <> 1%nat ->
  a_stack d bs keep axis bkw a = a_reduce f_stack (("axis", CZ axis) :: bkw) d bs keep a.
Proof. exact stack_is_reduce. Qed.

Theorem C13_concatenate_is_reduce : forall d bs keep bkw a k,
  find_dim d (xdims a) = Some k -> size_at k a <> 1%nat ->
  a_concatenate d bs keep bkw a = a_reduce f_concat bkw d bs keep a.
Proof. exact concatenate_is_reduce. Qed.

Theorem C13_stack_cells : forall d axis bkw a r k,
  d <> "" -> find_dim d (xdims a) = Some k -> size_at k a <> 1%nat ->
  a_stack d 0 false axis bkw a = Ok r ->
  xdims r = map reindexed (remove_at k (xdims a)) /\ xscal r = xscal a /\
  forall t, xat r t = App f_stack (map (fun x => xat a (insert_at k x t)) (seq 0 (size_at k a)))
                          [] (("axis", CZ axis) :: bkw).
Proof. exact stack_cells. Qed.

Theorem C13_concatenate_cells : forall d bkw a r k,
  d <> "" -> find_dim d (xdims a) = Some k -> size_at k a <> 1%nat ->
  a_concatenate d 0 false bkw a = Ok r ->
  xdims r = map reindexed (remove_at k (xdims a)) /\ xscal r = xscal a /\
  forall t, xat r t = App f_concat (map (fun x => xat a (insert_at k x t)) (seq 0 (size_at k a))) [] bkw.
Proof. exact concatenate_cells. Qed.

Theorem C13_flatten_cells : forall d axis bkw a r,
  a_flatten d axis bkw a = Ok r ->
  exists d' k, default_dim d a = Ok d' /\ find_dim d' (xdims a) = Some k /\
    xdims r = map reindexed (remove_at k (xdims a)) /\ xscal r = xscal a /\
    forall t, xat r t = App f_stack (map (fun x => xat a (insert_at k x t)) (seq 0 (size_at k a)))
                            [] (("axis", CZ axis) :: bkw).
Proof. exact flatten_cells. Qed.

(* (11) expand, through the real transform loop (body, _add_dimension, join, squeeze): a new
   indexed dimension at the normalised axis; position i holds take(cell, i-th index,
   dim=internal).  One index: no dimension, a scalar coordinate.  ALWAYS succeeds for a fresh
   name, a valid axis and scalar coordinates with distinct names. *)
Theorem C13_expand_cells : forall name vals internal sel axis bkw a k,
  fresh name a -> scal_ok (xscal a) -> norm_axis (List.length (xdims a)) axis = Some k ->
  let idxs := match sel with inl n => zrange n | inr l => l end in
  (2 <= List.length idxs)%nat ->
  match vals with Some v => List.length v = List.length idxs | None => True end ->
  exists r, a_expand name vals internal sel axis bkw a = Ok r /\
    xdims r = insert_at k {| dname := name;
                             dcoords := match vals with Some v => v | None => zrange (List.length idxs) end;
                             dindexed := true |} (xdims a) /\
    xscal r = xscal a /\
    forall idx, List.length idx = S (List.length (xdims a)) -> (nth k idx 0 < List.length idxs)%nat ->
      xat r idx = App f_take [xat a (remove_at k idx)] [nth (nth k idx 0%nat) idxs (CZ 0)]
                      (("dim", internal) :: bkw).
Proof. exact expand_spec_many. Qed.

Theorem C13_expand_single_cells : forall name vals internal sel axis bkw a k i v,
  fresh name a -> scal_ok (xscal a) -> norm_axis (List.length (xdims a)) axis = Some k ->
  match sel with inl n => zrange n | inr l => l end = [i] ->
  match vals with Some w => w | None => zrange 1 end = [v] ->
  exists r, a_expand name vals internal sel axis bkw a = Ok r /\
    xdims r = xdims a /\ xscal r = xscal a ++ [(name, v)] /\
    forall t, List.length t = List.length (xdims a) ->
      xat r t = App f_take [xat a t] [i] (("dim", internal) :: bkw).
Proof. exact expand_spec_single. Qed.

(* (12) transform in general, for a body whose results B j all have dimensions D and scalar
   coordinates Sc: the results are laid out along the new dimension in parameter order *)
Theorem C13_transform_cells : forall (P : Type) (body : P -> res xarr) (B : nat -> xarr) D Sc name vs axis k,
  (forall j, xdims (B j) = D) -> (forall j, xscal (B j) = Sc) ->
  find_dim name D = None -> lookup name Sc = None -> scal_ok Sc ->
  norm_axis (List.length D) axis = Some k ->
  forall params vals,
  (2 <= List.length params)%nat ->
  vs = match vals with Some v => v | None => zrange (List.length params) end ->
  (List.length params <= List.length vs)%nat ->
  (forall j p, nth_error params j = Some p -> body p = Ok (B j)) ->
  exists r, transform body name vals axis params = Ok r /\
    xdims r = insert_at k {| dname := name; dcoords := firstn (List.length params) vs; dindexed := true |} D /\
    xscal r = Sc /\
    forall idx, List.length idx = S (List.length D) -> (nth k idx 0 < List.length params)%nat ->
      xat r idx = xat (B (nth k idx 0%nat)) (remove_at k idx).
Proof. exact transform_many. Qed.

(* (13) the batching round of Action.reduce transcribed statement by statement
   (transform over _batch_transform: select the labels with drop, squeeze a singleton or reduce,
   add the batch dimension, join) IS the closed form `batch_round` that a_reduce iterates and
   (2) reasons about: same dimensions, coordinates, scalar coordinates and cells.  PARTIAL in
   one respect only: it is stated per round, for an array whose dimensions are indexed, whose
   reduced labels are distinct (both checked by a_reduce), whose scalar coordinates have
   distinct names and that does not already use the batch dimension's name. *)
Theorem C13_batch_round_transcription_partial : forall f kw dim bs newname a k,
  find_dim dim (xdims a) = Some k -> default_dim dim a = Ok dim ->
  (forall d, In d (xdims a) -> dindexed d = true) ->
  nodupb (dcoords (nth k (xdims a) dflt_dim)) = true ->
  scal_ok (xscal a) -> fresh newname a ->
  (0 < bs)%nat -> (bs < size_at k a)%nat ->
  exists r, batch_round_t f kw dim bs newname a = Ok r /\
    xdims r = xdims (batch_round f kw k bs newname a) /\
    xscal r = xscal (batch_round f kw k bs newname a) /\
    forall idx, List.length idx = List.length (xdims r) -> (hd 0 idx < nbatches (size_at k a) bs)%nat ->
      xat r idx = xat (batch_round f kw k bs newname a) idx.
Proof. exact batch_round_transcription. Qed.

(* (14) VALUES of the nodes expand builds (tensor semantics of Fluent/ActionSem.v).  take(t, i, dim=d):
   d is a position among the payload's dimensions counted from the front (d >= 0) or from the
   back (d < 0); the node holds the sub-array at position i (same convention) of THAT dimension,
   the other dimensions keep their order.  d and d - rank give the same value; a d outside
   -rank .. rank-1 is an AxisError when the graph runs (expand itself builds the graph). *)
Theorem C13_take_value : forall t i d a k,
  BT.norm_index (List.length (BT.shape t)) d = Some a ->
  BT.norm_index (nth a (BT.shape t) 0%nat) i = Some k ->
  take_val (BT.Ok t) i d =
  BT.Ok (BT.T (BT.remove_nth a (BT.shape t)) (BT.take_int_ax (firstn a (BT.shape t)) k (BT.body t))).
Proof. exact take_val_spec. Qed.

Theorem C13_take_dim_from_back_same_value : forall t i d,
  (0 <= d < Z.of_nat (List.length (BT.shape t)))%Z ->
  take_val (BT.Ok t) i (d - Z.of_nat (List.length (BT.shape t))) = take_val (BT.Ok t) i d.
Proof. exact take_val_from_back. Qed.

Theorem C13_take_dim_out_of_range : forall t i d,
  BT.norm_index (List.length (BT.shape t)) d = None -> take_val (BT.Ok t) i d = BT.Err "AxisError".
Proof. exact take_val_bad_dim. Qed.

Theorem C13_expand_values : forall srcs name d n axis a k r,
  fresh name a -> scal_ok (xscal a) -> norm_axis (List.length (xdims a)) axis = Some k -> (2 <= n)%nat ->
  a_expand name None (CZ d) (inl n) axis [] a = Ok r ->
  forall idx, List.length idx = S (List.length (xdims a)) -> (nth k idx 0 < n)%nat ->
    evT srcs (xat r idx) = take_val (evT srcs (xat a (remove_at k idx))) (Z.of_nat (nth k idx 0%nat)) d.
Proof. exact expand_values. Qed.

(* (15) taking every position of internal dimension d and stacking the pieces at axis d' rebuilds
   the array whenever d and d' name the same position, each from the front or from the back *)
Theorem C13_take_then_stack_is_identity : forall t d d' a,
  BT.valid t ->
  BT.norm_index (List.length (BT.shape t)) d = Some a ->
  BT.norm_index (List.length (BT.shape t)) d' = Some a ->
  (1 <= nth a (BT.shape t) 0)%nat ->
  stack_val (map (fun i => take_val (BT.Ok t) (Z.of_nat i) d) (seq 0 (nth a (BT.shape t) 0%nat))) d' = BT.Ok t.
Proof. exact take_then_stack. Qed.

(* (16) the same through the real operations: a.expand(name, d, n, axis).stack(name, axis=d') has the
   dimensions of a and, at every coordinate, the VALUE of a's node there *)
Theorem C13_expand_then_stack_values : forall srcs name d d' n axis a k r1 r2,
  name <> "" -> fresh name a -> scal_ok (xscal a) ->
  norm_axis (List.length (xdims a)) axis = Some k -> (2 <= n)%nat ->
  a_expand name None (CZ d) (inl n) axis [] a = Ok r1 ->
  a_stack name 0 false d' [] r1 = Ok r2 ->
  xdims r2 = map reindexed (xdims a) /\ xscal r2 = xscal a /\
  forall t tt ka, List.length t = List.length (xdims a) ->
    evT srcs (xat a t) = BT.Ok tt -> BT.valid tt ->
    BT.norm_index (List.length (BT.shape tt)) d = Some ka ->
    BT.norm_index (List.length (BT.shape tt)) d' = Some ka ->
    nth ka (BT.shape tt) 0%nat = n ->
    evT srcs (xat r2 t) = BT.Ok tt.
Proof. exact expand_then_stack_values. Qed.

(* (17) a call is a function of its instruction and of the operands it names: whatever else was
   built before in the same session (other calls of the same method with other arguments, ...)
   does not change its result.  The session stream of the harness holds the implementation to this. *)
Theorem C13_call_ignores_other_results : forall env more ins,
  (forall i, In i (operands ins) -> (i < List.length env)%nat) ->
  step (env ++ more) ins = step env ins.
Proof. exact step_ignores_other_results. Qed.

(* (18) integer / boolean arrays, pointwise (an element of type d or of the accumulator type, lo..hi the
   accumulator's range): sum and prod obey the batch law although the accumulator wraps around ... *)
Theorem C13_integer_sum_prod_obey_batch_law : forall lo hi, (lo <= hi)%Z -> forall kw,
  batch_law iv (gf iv (apI lo hi) f_sum kw) /\
  forall b, batch_law iv (gf iv (apI lo hi) {| fname := "prod"; fbatch := b |} kw).
Proof. intros lo hi H kw. split; [exact (apI_sum_law lo hi kw)|exact (apI_prod_law lo hi H kw)]. Qed.

(* (18') ... so that ANY batch size gives, at every coordinate, the same number of the same element type
   (the `wide` flag of the element) as the unbatched sum: (2) instantiated, no field needed *)
Theorem C13_integer_sum_batching_keeps_value_and_dtype : forall lo hi, (lo <= hi)%Z ->
  forall (src : N -> iv) kw d bs keep a r,
    a_reduce f_sum kw d bs keep a = Ok r ->
    exists r0, a_reduce f_sum kw d 0 keep a = Ok r0 /\
      xdims r = xdims r0 /\ xscal r = xscal r0 /\
      forall t, ev iv src (apI lo hi) (xat r t) = ev iv src (apI lo hi) (xat r0 t).
Proof.
  intros lo hi H src kw.
  exact (C13_batching_never_changes_values iv src (apI lo hi) f_sum kw (apI_sum_law lo hi kw)).
Qed.

(* (19) the arguments of a (batched) sum / prod over arrays of an integer / boolean type d are of type d
   (sources, batches of one passed through) or acc_dtype d (batch results), in any mixture and order:
   NumPy's result type (xp.asarray then xp.sum / xp.prod) is acc_dtype d *)
Theorem C13_accumulating_result_dtype : forall d, is_int d = true -> forall name ts ax ds,
  (name = "sum" \/ name = "prod") -> ds <> [] -> forallb (narrow_or_acc d) ds = true ->
  BD.result_dtype_seq (BO.CReduce name ts ax) ds = Some (BD.acc_dtype d).
Proof. exact accumulating_result_dtype. Qed.

(* (20) a reduction implemented as functools.reduce(xp.add / xp.multiply, inputs) is NOT sum / prod: on two
   arrays of a boolean / narrow integer type it yields the operands' type, the reduction the accumulator
   type -- whatever the values (and the values differ as soon as the sum leaves the narrow range, for
   booleans as soon as two masks overlap: see the example) *)
Theorem C13_pairwise_fold_is_not_the_reduction : forall d name u ta tb rf rr,
  narrow d = true -> (name = "sum" /\ u = "add" \/ name = "prod" /\ u = "multiply") ->
  fold_sem u [BT.Ok (d, ta); BT.Ok (d, tb)] = BT.Ok rf ->
  apTT {| fname := name; fbatch := true |} [BT.Ok (d, ta); BT.Ok (d, tb)] [] [] = BT.Ok rr ->
  fst rf = d /\ fst rr = BD.acc_dtype d /\ rf <> rr.
Proof. exact fold_keeps_dtype_reduction_accumulates. Qed.

(* (21) without overflow the accumulator holds the exact sum *)
Theorem C13_integer_sum_exact_without_overflow : forall lo hi, (lo <= hi)%Z -> forall x y vs,
  existsb iv_err (x :: y :: vs) = false ->
  (lo <= zsum (map iv_val (x :: y :: vs)) <= hi)%Z ->
  apI lo hi f_sum (x :: y :: vs) [] [] = IV true (zsum (map iv_val (x :: y :: vs))).
Proof.
  intros lo hi H x y vs He Hr. change (apI lo hi f_sum (x :: y :: vs) [] []) with (accI lo hi zsum (x :: y :: vs)).
  unfold accI. rewrite He. now rewrite (wrap_id lo hi).
Qed.

(* ------------------------------------------------------------------ non-vacuity *)
Definition exA : xarr :=
  a_source [("x", [CZ 10; CZ 11; CZ 12; CZ 13; CZ 14]); ("y", [CS "a"; CS "b"])] 0.

Definition is_ok {A} (r : res A) : bool := match r with Ok _ => true | Err _ => false end.

(* reduce over x (size 5) of a 5x2 array, unbatched, with and without keep_dim *)
Example C13_reduce_cells_nonvacuous :
  is_ok (a_reduce f_sum [] "x" 0 false exA) = true /\ is_ok (a_reduce f_sum [] "" 0 true exA) = true.
Proof. vm_compute. split; reflexivity. Qed.

(* batch sizes 2 and 3 on size 5 (two rounds resp. one round with a singleton batch), keep_dim *)
Example C13_batching_nonvacuous :
  is_ok (a_reduce f_sum [] "x" 2 true exA) = true /\ is_ok (a_reduce f_sum [] "x" 3 false exA) = true /\
  (* the batched graph really differs: the cell is a sum of sums *)
  match a_reduce f_sum [] "x" 2 false exA with
  | Ok r => match xat r [0] with App _ ins _ _ => List.length ins | Src _ => 0 end
  | Err _ => 0 end = 2.
Proof. vm_compute. repeat split; reflexivity. Qed.

(* the batch law and the field hypotheses are satisfiable: the rationals (Qc, Leibniz equality) *)
Example C13_batch_law_nonvacuous :
  forall ksqrt other kw, batch_law Qc (gf Qc (apK Qc 0%Qc 1%Qc Qcplus Qcmult Qcminus Qcopp Qcdiv ksqrt other) f_sum kw).
Proof. exact (C13_sum_obeys_batch_law Qc 0%Qc 1%Qc Qcplus Qcmult Qcminus Qcopp Qcdiv Qcinv Qcft). Qed.

Example C13_batching_never_fails_nonvacuous :
  fbatch f_sum = true /\ forallb dindexed (xdims exA) = true /\
  nodupb (dcoords (nth 0 (xdims exA) dflt_dim)) = true /\ is_ok (a_reduce f_sum [] "x" 0 false exA) = true.
Proof. vm_compute. repeat split; reflexivity. Qed.

Example C13_mean_std_nonvacuous :
  is_ok (a_mean "x" 2 true [] exA) = true /\ is_ok (a_std "x" 2 true [] exA) = true /\
  of_nat Qc 0%Qc 1%Qc Qcplus (List.length [1%Qc; 1%Qc; 1%Qc]) <> 0%Qc.
Proof. split; [vm_compute; reflexivity|]. split; [vm_compute; reflexivity|]. intros H. vm_compute in H. discriminate H. Qed.

Example C13_structural_nonvacuous :
  is_ok (a_broadcast [] (a_source [("y", [CS "a"; CS "b"])] 100) exA) = true /\
  is_ok (x_sel1 "x" (SOne (CZ 12)) false exA) = true.
Proof. vm_compute. split; reflexivity. Qed.

(* the counts 1, 2, 3, ... are non-zero in Qc, so (4) applies to the rationals *)
Example C13_std_field_nonvacuous : forall n, (0 < n)%nat -> of_nat Qc 0%Qc 1%Qc Qcplus n <> 0%Qc.
Proof.
  assert (H0 : forall n, (0 <= of_nat Qc 0 1 Qcplus n)%Qc).
  { induction n as [|n IH]; [apply Qcle_refl|]. cbn [of_nat].
    replace 0%Qc with (0 + 0)%Qc by ring. apply Qcplus_le_compat; [discriminate|exact IH]. }
  intros [|n] Hn; [inversion Hn|]. cbn [of_nat]. apply not_eq_sym, Qclt_not_eq.
  apply Qclt_le_trans with (y := 1%Qc); [reflexivity|].
  replace 1%Qc with (1 + 0)%Qc at 1 by ring. apply Qcplus_le_compat; [apply Qcle_refl|apply H0].
Qed.

Example C13_std_nonvacuous :
  fresh DT exA /\ is_ok (a_std "x" 2 true [] exA) = true /\ is_ok (a_std "" 3 false [] exA) = true.
Proof. split; [split; reflexivity|]. vm_compute. split; reflexivity. Qed.

Definition exB : xarr :=
  a_source [("x", [CZ 10; CZ 11; CZ 12; CZ 13; CZ 14]); ("y", [CS "a"; CS "b"])] 100.

Example C13_structural2_nonvacuous :
  fresh "j" exA /\ fresh "j" exB /\
  is_ok (x_concat "j" (Some [CS "u"; CS "v"]) exA exB) = true /\
  is_ok (a_join "y" None false exA (a_source [("x", [CZ 10; CZ 11; CZ 12; CZ 13; CZ 14]); ("y", [CS "c"])] 200)) = true /\
  is_ok (a_bin f_sub [] exA exB) = true /\
  is_ok (x_isel1 "x" (IOne (-1)) false exA) = true /\ is_ok (x_isel1 "x" (IMany [4; 0]%Z) true exA) = true /\
  is_ok (a_stack "x" 0 false 1 [] exA) = true /\ is_ok (a_concatenate "x" 2 true [] exA) = true /\
  is_ok (a_flatten "" 0 [] exA) = true /\ size_at 0 exA <> 1%nat.
Proof. repeat split; try reflexivity. vm_compute. discriminate. Qed.

Example C13_expand_nonvacuous :
  fresh "e" exA /\ scal_ok (xscal exA) /\ norm_axis (List.length (xdims exA)) (-1) = Some 2%nat /\
  is_ok (a_expand "e" (Some [CS "p"; CS "q"; CS "r"]) (CZ 1) (inl 3%nat) (-1) [] exA) = true /\
  is_ok (a_expand "e" None (CZ 0) (inr [CZ 2]) 0 [] exA) = true.
Proof. split; [split; reflexivity|]. split; [intros n v []|]. repeat split; reflexivity. Qed.

(* the transcribed round on a size-5 dimension with batch size 2 (three batches, the last a singleton) *)
Example C13_batch_round_transcription_nonvacuous :
  find_dim "x" (xdims exA) = Some 0%nat /\ default_dim "x" exA = Ok "x" /\
  forallb dindexed (xdims exA) = true /\ nodupb (dcoords (nth 0 (xdims exA) dflt_dim)) = true /\
  scal_ok (xscal exA) /\ fresh "batch.0.x" exA /\
  match batch_round_t f_sum [] "x" 2 "batch.0.x" exA with
  | Ok r => List.length (xdims r) = 2%nat /\
            match xat r [0%nat; 1%nat], xat r [2%nat; 1%nat] with
            | App _ ins _ _, Src i => List.length ins = 2%nat /\ i = 9%N
            | _, _ => False end
  | Err _ => False end.
Proof.
  split; [reflexivity|]. split; [reflexivity|]. split; [reflexivity|]. split; [reflexivity|].
  split; [intros n v []|]. split; [split; reflexivity|]. vm_compute. repeat split; reflexivity.
Qed.

(* values: [[1,2,3],[4,5,6]]; position 1 of the LAST dimension (dim=-1 or dim=1) is [2,5], of the first [4,5,6] *)
Definition exT : BT.tensor := ti [2; 3]%nat [1; 2; 3; 4; 5; 6]%Z.
Definition exT2 : BT.tensor := ti [2; 3]%nat [7; 8; 9; 10; 11; 12]%Z.

Example C13_take_value_nonvacuous :
  BT.valid exT /\ BT.norm_index 2 (-1) = Some 1%nat /\ BT.norm_index 2 (1 - 2) = BT.norm_index 2 1 /\
  val_eqb (take_val (BT.Ok exT) 1 (-1)) ([2]%nat, [2; 5]%Z) = true /\
  val_eqb (take_val (BT.Ok exT) 1 1) ([2]%nat, [2; 5]%Z) = true /\
  val_eqb (take_val (BT.Ok exT) 1 0) ([3]%nat, [4; 5; 6]%Z) = true /\
  val_eqb (take_val (BT.Ok exT) (-1) (-2)) ([3]%nat, [4; 5; 6]%Z) = true /\
  BT.norm_index 2 2 = None /\ BT.norm_index 2 (-3) = None.
Proof. vm_compute. repeat split; reflexivity. Qed.

Example C13_take_then_stack_nonvacuous :
  BT.valid exT /\ BT.norm_index (List.length (BT.shape exT)) (-1) = Some 1%nat /\
  BT.norm_index (List.length (BT.shape exT)) 1 = Some 1%nat /\ (1 <= nth 1 (BT.shape exT) 0)%nat.
Proof. vm_compute. repeat split; try reflexivity. repeat constructor. Qed.

(* two source nodes holding 2x3 arrays: expand the last internal dimension (named from the back),
   stack it back (named from the front) *)
Definition exS : xarr := a_source [("x", [CZ 10; CZ 11])] 0.

Example C13_expand_then_stack_nonvacuous :
  "e" <> "" /\ fresh "e" exS /\ scal_ok (xscal exS) /\ norm_axis (List.length (xdims exS)) (-1) = Some 1%nat /\
  match a_expand "e" None (CZ (-1)) (inl 3%nat) (-1) [] exS with
  | Ok r1 =>
      val_eqb (evT [exT; exT2] (xat r1 [1; 2]%nat)) ([2]%nat, [9; 12]%Z) = true /\
      match a_stack "e" 0 false 1 [] r1 with
      | Ok r2 => val_eqb (evT [exT; exT2] (xat r2 [1%nat])) ([2; 3]%nat, [7; 8; 9; 10; 11; 12]%Z) = true
      | Err _ => False end
  | Err _ => False end /\
  evT [exT; exT2] (xat exS [1%nat]) = BT.Ok exT2 /\ BT.valid exT2.
Proof.
  split; [discriminate|]. split; [split; reflexivity|]. split; [intros n v []|].
  split; [reflexivity|]. split; [vm_compute; repeat split; reflexivity|]. split; reflexivity.
Qed.

(* element types.  Three exceedance masks over 3 grid points, summed along the node dimension: NumPy counts
   (int64 [3;1;0], also with batch size 2), the pairwise fold gives the mask of "any" (bool [1;1;0]);
   two int8 arrays [100] and [100]: sum = int64 200, fold = int8 -56 *)
Definition exM : xarr := a_source [("m", [CZ 0; CZ 1; CZ 2])] 0.
Definition masks : list tarr :=
  [tsrc BD.DBool [3]%nat [1; 1; 0]%Z; tsrc BD.DBool [3]%nat [1; 0; 0]%Z; tsrc BD.DBool [3]%nat [1; 0; 0]%Z].
Definition int8s : list tarr := [tsrc BD.DI8 [1]%nat [100]%Z; tsrc BD.DI8 [1]%nat [100]%Z; tsrc BD.DI8 [1]%nat [27]%Z].
Definition evFold (srcs : list tarr) (e : expr) : tval := ev tval (src_ofT srcs) apFold e.
Definition int64_bounds := int_bounds BD.DI64.

Example C13_masks_are_counted_nonvacuous :
  match a_reduce f_sum [] "m" 0 false exM, a_reduce f_sum [] "m" 2 false exM with
  | Ok r0, Ok r2 =>
      val_eqbT true (evTT masks (xat r0 [])) (BD.DI64, [3]%nat, [(3, 1%positive); (1, 1%positive); (0, 1%positive)]%Z) = true /\
      val_eqbT true (evTT masks (xat r2 [])) (BD.DI64, [3]%nat, [(3, 1%positive); (1, 1%positive); (0, 1%positive)]%Z) = true /\
      val_eqbT true (evFold masks (xat r0 [])) (BD.DBool, [3]%nat, [(1, 1%positive); (1, 1%positive); (0, 1%positive)]%Z) = true /\
      val_eqbT true (evTT int8s (xat r0 [])) (BD.DI64, [1]%nat, [(227, 1%positive)]%Z) = true /\
      val_eqbT true (evTT int8s (xat r2 [])) (BD.DI64, [1]%nat, [(227, 1%positive)]%Z) = true /\
      val_eqbT true (evFold int8s (xat r0 [])) (BD.DI8, [1]%nat, [((-29)%Z, 1%positive)]) = true
  | _, _ => False
  end.
Proof. vm_compute. repeat split; reflexivity. Qed.

Example C13_pairwise_fold_nonvacuous :
  narrow BD.DBool = true /\ narrow BD.DI8 = true /\ narrow BD.DU32 = true /\ narrow BD.DI64 = false /\
  is_okbT (fold_sem "add" [BT.Ok (tsrc BD.DI8 [1]%nat [100]%Z); BT.Ok (tsrc BD.DI8 [1]%nat [100]%Z)]) = true /\
  is_okbT (apTT f_sum [BT.Ok (tsrc BD.DI8 [1]%nat [100]%Z); BT.Ok (tsrc BD.DI8 [1]%nat [100]%Z)] [] []) = true.
Proof. vm_compute. repeat split; reflexivity. Qed.

Example C13_integer_batch_law_nonvacuous :
  (fst int64_bounds <= snd int64_bounds)%Z /\ is_int BD.DI8 = true /\
  forallb (narrow_or_acc BD.DI8) [BD.DI64; BD.DI8; BD.DI64] = true /\
  (* 2^63 - 1 + 1 wraps to -2^63, batched or not *)
  apI (fst int64_bounds) (snd int64_bounds) f_sum [IV false 9223372036854775807; IV false 1] [] [] = IV true (-9223372036854775808) /\
  apI (fst int64_bounds) (snd int64_bounds) f_sum [IV false 100; IV false 100] [] [] = IV true 200.
Proof. vm_compute. repeat split; try reflexivity; discriminate. Qed.

(* the squares of the batched std: x ** 2 on an int8 array wraps (100 ** 2 -> 16), x ** 2.0 is computed in
   float64; with the float exponent the variance node of the batched std of [98; 98; 102; 102] is exactly 4 *)
Example C13_std_squares_in_floating_point_nonvacuous :
  val_eqbT true (evTT int8s (App f_pow [Src 0] [CZ 2] [])) (BD.DI8, [1]%nat, [(16, 1%positive)]%Z) = true /\
  val_eqbT true (evTT int8s (App f_pow [Src 0] [CF 2] [])) (BD.DF64, [1]%nat, [(10000, 1%positive)]%Z) = true /\
  match a_std "m" 2 false [] (a_source [("m", [CZ 0; CZ 1; CZ 2; CZ 3])] 0) with
  | Ok r => match xat r [] with
            | App _ [variance] _ _ =>
                val_eqbT true (evTT [tsrc BD.DI8 [1]%nat [98]%Z; tsrc BD.DI8 [1]%nat [98]%Z; tsrc BD.DI8 [1]%nat [102]%Z;
                                     tsrc BD.DI8 [1]%nat [102]%Z] variance) (BD.DF64, [1]%nat, [(4, 1%positive)]%Z) = true
            | _ => False end
  | Err _ => False end.
Proof. vm_compute. repeat split; reflexivity. Qed.

Example C13_call_ignores_other_results_nonvacuous :
  let env := [exA] in let ins := IStack 0 "x" 0 false 1 [] in
  (forall i, In i (operands ins) -> (i < List.length env)%nat) /\ is_ok (step env ins) = true.
Proof. split; [intros i [<-|[]]; cbn; repeat constructor|reflexivity]. Qed.

Print Assumptions C13_reduce_cells.
Print Assumptions C13_reduce_cells_keep_dim.
Print Assumptions C13_batching_never_changes_values.
Print Assumptions C13_batching_never_fails.
Print Assumptions C13_batch_loop_terminates.
Print Assumptions C13_mean_batched_eq.
Print Assumptions C13_variance_identity.
Print Assumptions C13_sum_obeys_batch_law.
Print Assumptions C13_map_cells.
Print Assumptions C13_broadcast_cells.
Print Assumptions C13_select_label_cells.
Print Assumptions C13_batch_law_nonvacuous.
Print Assumptions C13_std_batched_eq.
Print Assumptions C13_join_new_dim_cells.
Print Assumptions C13_join_existing_dim_cells.
Print Assumptions C13_join_is_concat.
Print Assumptions C13_binary_cells.
Print Assumptions C13_iselect_cells.
Print Assumptions C13_iselect_list_cells.
Print Assumptions C13_stack_is_reduce.
Print Assumptions C13_concatenate_is_reduce.
Print Assumptions C13_stack_cells.
Print Assumptions C13_concatenate_cells.
Print Assumptions C13_flatten_cells.
Print Assumptions C13_expand_cells.
Print Assumptions C13_expand_single_cells.
Print Assumptions C13_transform_cells.
Print Assumptions C13_batch_round_transcription_partial.
Print Assumptions C13_std_field_nonvacuous.
Print Assumptions C13_take_value.
Print Assumptions C13_take_dim_from_back_same_value.
Print Assumptions C13_take_dim_out_of_range.
Print Assumptions C13_expand_values.
Print Assumptions C13_take_then_stack_is_identity.
Print Assumptions C13_expand_then_stack_values.
Print Assumptions C13_call_ignores_other_results.
Print Assumptions C13_integer_sum_prod_obey_batch_law.
Print Assumptions C13_integer_sum_batching_keeps_value_and_dtype.
Print Assumptions C13_accumulating_result_dtype.
Print Assumptions C13_pairwise_fold_is_not_the_reduction.
Print Assumptions C13_integer_sum_exact_without_overflow.
